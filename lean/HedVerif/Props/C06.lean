/-
C06 — Event-file rows assemble into exactly the annotation the sidecar prescribes.

The model (`Model/Assemble.lean`) is that of the code with `fixes/C06_*.diff` applied; the behaviour of
the unchanged code is kept in `replaceRefOld`, `replaceRefOldNumeric`, `valueHandlerOld` and shown to
violate the property by the `old_*_counterexample` theorems.
-/
import HedVerif.Model.Assemble

namespace HedVerif.Assemble

/-! ### columns: sorted by name, exactly the file's columns that have a transformer -/

abbrev NameLe (a b : Col) : Prop := a.name ≤ b.name

theorem mem_insertCol (c x : Col) (l : List Col) : x ∈ insertCol c l ↔ x = c ∨ x ∈ l := by
  induction l with
  | nil => simp [insertCol]
  | cons d ds ih =>
    unfold insertCol
    split
    · simp
    · simp only [List.mem_cons, ih]
      constructor
      · rintro (h | h | h) <;> simp [h]
      · rintro (h | h | h) <;> simp [h]

theorem insertCol_sorted (c : Col) (l : List Col) (h : l.Pairwise NameLe) :
    (insertCol c l).Pairwise NameLe := by
  induction l with
  | nil => simp [insertCol]
  | cons d ds ih =>
    have hd := List.pairwise_cons.mp h
    unfold insertCol
    split
    · rename_i hle
      refine List.pairwise_cons.mpr ⟨?_, h⟩
      intro x hx
      rcases List.mem_cons.mp hx with rfl | hx
      · exact hle
      · exact List.le_trans hle (hd.1 x hx)
    · rename_i hle
      refine List.pairwise_cons.mpr ⟨?_, ih hd.2⟩
      intro x hx
      rcases (mem_insertCol c x ds).mp hx with rfl | hx
      · rcases List.le_total x.name d.name with h1 | h1
        · exact absurd h1 hle
        · exact h1
      · exact hd.1 x hx

theorem mem_sortCols (x : Col) (l : List Col) : x ∈ sortCols l ↔ x ∈ l := by
  induction l with
  | nil => simp [sortCols]
  | cons c cs ih => simp [sortCols, mem_insertCol, ih]

theorem sortCols_sorted (l : List Col) : (sortCols l).Pairwise NameLe := by
  induction l with
  | nil => simp [sortCols]
  | cons c cs ih => exact insertCol_sorted c _ ih

theorem length_insertCol (c : Col) (l : List Col) : (insertCol c l).length = l.length + 1 := by
  induction l with
  | nil => simp [insertCol]
  | cons d ds ih => unfold insertCol; split <;> simp [ih]

theorem length_sortCols (l : List Col) : (sortCols l).length = l.length := by
  induction l with
  | nil => simp [sortCols]
  | cons c cs ih => simp [sortCols, length_insertCol, ih]

/-! ### `splitFirst` and the substitution loop -/

theorem splitFirst_eq (ref : Str) : ∀ (t pre post : Str),
    splitFirst ref t = some (pre, post) → t = pre ++ ref ++ post
  | [], _, _, h => by simp [splitFirst] at h
  | c :: cs, pre, post, h => by
    unfold splitFirst at h
    split at h
    · rename_i hp
      simp only [Option.some.injEq, Prod.mk.injEq] at h
      obtain ⟨rfl, rfl⟩ := h
      have := List.prefix_iff_eq_append.mp (List.isPrefixOf_iff_prefix.mp hp)
      simpa using this.symm
    · split at h
      · simp at h
      · rename_i a b hs
        simp only [Option.some.injEq, Prod.mk.injEq] at h
        obtain ⟨rfl, rfl⟩ := h
        have := splitFirst_eq ref cs a b hs
        simp [this]

theorem splitFirst_none_iff (ref : Str) (hne : ref ≠ []) :
    ∀ t : Str, splitFirst ref t = none ↔ ¬ ref <:+: t
  | [] => by simp [splitFirst, hne]
  | c :: cs => by
    have ih := splitFirst_none_iff ref hne cs
    unfold splitFirst
    rw [List.infix_cons_iff]
    split
    · rename_i hp
      simp [List.isPrefixOf_iff_prefix.mp hp]
    · rename_i hp
      have hp' : ¬ ref <+: c :: cs := fun h => hp (List.isPrefixOf_iff_prefix.mpr h)
      split
      · rename_i hs; simp [hp', ih.mp hs]
      · rename_i a b hs
        have : ref <:+: cs := by
          have := splitFirst_eq ref cs a b hs
          exact ⟨a, b, by simp [this]⟩
        simp [this]

theorem splitFirst_tail (ref : Str) (c : Char) (cs : Str) (h : splitFirst ref (c :: cs) = none) :
    splitFirst ref cs = none := by
  unfold splitFirst at h
  split at h
  · simp at h
  · split at h
    · assumption
    · simp at h

theorem splitFirst_dropWhile (ref : Str) (p : Char → Bool) :
    ∀ t : Str, splitFirst ref t = none → splitFirst ref (t.dropWhile p) = none
  | [], h => by simpa using h
  | c :: cs, h => by
    rw [List.dropWhile_cons]
    split
    · exact splitFirst_dropWhile ref p cs (splitFirst_tail ref c cs h)
    · exact h

theorem subF_none (ref : Str) (f : Str → Str → Str × Str) (n : Nat) (t : Str)
    (h : splitFirst ref t = none) : subF ref f n t = t := by
  cases n <;> simp [subF, h]

theorem subF_fuel (ref : Str) (f : Str → Str → Str × Str) (hne : ref ≠ [])
    (hf : ∀ pre post, (f pre post).2.length ≤ post.length) :
    ∀ (n : Nat) (t : Str), t.length ≤ n → subF ref f n t = subF ref f (n + 1) t := by
  intro n
  induction n with
  | zero =>
    intro t ht
    have : t = [] := List.length_eq_zero_iff.mp (Nat.le_zero.mp ht)
    subst this
    simp [subF, splitFirst]
  | succ k ih =>
    intro t ht
    rw [subF, subF]
    cases hs : splitFirst ref t with
    | none => rfl
    | some pp =>
      obtain ⟨pre, post⟩ := pp
      simp only
      have ht' := splitFirst_eq ref t pre post hs
      have hl : post.length < t.length := by
        have : 0 < ref.length := List.length_pos_iff.mpr hne
        rw [ht']; simp; omega
      have := hf pre post
      rw [ih _ (by omega)]

theorem subF_ge (ref : Str) (f : Str → Str → Str × Str) (hne : ref ≠ [])
    (hf : ∀ pre post, (f pre post).2.length ≤ post.length) (t : Str) :
    ∀ k, subF ref f (t.length + k) t = subF ref f t.length t := by
  intro k
  induction k with
  | zero => rfl
  | succ j ih => rw [← ih, ← Nat.add_assoc, ← subF_fuel ref f hne hf _ t (by omega)]

theorem mkRef_ne (name : Str) : mkRef name ≠ [] := by simp [mkRef]

/-- one step of the loop at the first occurrence -/
theorem sub_step (ref : Str) (f : Str → Str → Str × Str) (hne : ref ≠ [])
    (hf : ∀ pre post, (f pre post).2.length ≤ post.length) (t pre post : Str)
    (hs : splitFirst ref t = some (pre, post)) :
    subF ref f t.length t = (f pre post).1 ++ subF ref f (f pre post).2.length (f pre post).2 := by
  have ht := splitFirst_eq ref t pre post hs
  have hpos : 0 < ref.length := List.length_pos_iff.mpr hne
  have hl : post.length < t.length := by rw [ht]; simp; omega
  obtain ⟨n, hn⟩ : ∃ n, t.length = n + 1 := ⟨t.length - 1, by omega⟩
  rw [hn, subF, hs]
  simp only
  have h2 := hf pre post
  have := subF_ge ref f hne hf (f pre post).2 (n - (f pre post).2.length)
  rw [← this]
  congr 2
  omega

/-! ### delimiter well-formedness as a condition on adjacent non-blank characters -/

/-- may class `k` follow when the last non-blank class was `q` (`none` = start of string)? -/
def ok : Option Cls → Cls → Bool
  | _, .ws => true
  | q, .comma => q == some .cls || q == some .other
  | q, .opn => q == none || q == some .comma || q == some .opn
  | q, .cls => q != some .comma
  | q, .other => q != some .cls

/-- scan keeping only the last non-blank class; `none` = some adjacent pair is not allowed -/
def run : Option Cls → Str → Option (Option Cls)
  | q, [] => some q
  | q, c :: cs =>
    if clsOf c = .ws then run q cs
    else if ok q (clsOf c) then run (some (clsOf c)) cs else none

/-- all adjacent pairs allowed and the string does not end in a comma -/
def chain (q : Option Cls) (s : Str) : Bool :=
  match run q s with
  | none => false
  | some q' => q' != some .comma

def teOf (q : Option Cls) : Bool := q == none || q == some .comma || q == some .opn

theorem dstep_eq (q : Option Cls) (hq : q ≠ some .ws) (k : Cls) :
    dstep ⟨teOf q, q⟩ k =
      if k = .ws then some ⟨teOf q, q⟩ else if ok q k then some ⟨teOf (some k), some k⟩ else none := by
  cases k <;> rcases q with _ | (_|_|_|_|_) <;> first | rfl | exact absurd rfl hq

theorem dscan_eq (s : Str) : ∀ (q : Option Cls), q ≠ some .ws →
    dscan ⟨teOf q, q⟩ s = (run q s).map (fun q' => ⟨teOf q', q'⟩) := by
  induction s with
  | nil => intro q _; rfl
  | cons c cs ih =>
    intro q hq
    show (match dstep ⟨teOf q, q⟩ (clsOf c) with
      | none => none
      | some st' => dscan st' cs) = _
    rw [dstep_eq q hq]
    by_cases h : clsOf c = .ws
    · simp only [h, if_true, run]; exact ih q hq
    · by_cases ho : ok q (clsOf c) = true
      · simp only [h, ho, if_true, if_false, run]
        exact ih (some (clsOf c)) (by simpa using h)
      · simp [h, ho, run]

theorem delimOk_eq_chain (s : Str) : delimOk s = chain none s := by
  have h := dscan_eq s none (by simp)
  have e : (⟨teOf none, none⟩ : DSt) = ⟨true, none⟩ := rfl
  rw [e] at h
  unfold delimOk chain
  rw [h]
  cases run none s <;> rfl

theorem run_append : ∀ (xs ys : Str) (q : Option Cls),
    run q (xs ++ ys) = (run q xs).bind (fun q' => run q' ys)
  | [], ys, q => by simp [run]
  | c :: cs, ys, q => by
    simp only [List.cons_append, run]
    split
    · exact run_append cs ys q
    · split
      · exact run_append cs ys _
      · rfl

theorem chain_append_true {xs ys : Str} {q : Option Cls} (h : chain q (xs ++ ys) = true) :
    ∃ q', run q xs = some q' ∧ chain q' ys = true := by
  unfold chain at h
  rw [run_append] at h
  cases h1 : run q xs with
  | none => simp [h1] at h
  | some q' => exact ⟨q', rfl, by simpa [h1, chain] using h⟩

theorem chain_append_intro {xs ys : Str} {q q' : Option Cls} (h1 : run q xs = some q')
    (h2 : chain q' ys = true) : chain q (xs ++ ys) = true := by
  unfold chain
  rw [run_append, h1]
  simpa [chain] using h2

/-! character classes of the pattern's character sets -/

theorem clsOf_ws_iff (c : Char) : clsOf c = .ws ↔ isSpace c = true := by
  by_cases h : isSpace c = true <;> by_cases h1 : (c == ',') = true <;> by_cases h2 : (c == '(') = true <;>
    by_cases h3 : (c == ')') = true <;> simp [clsOf, h, h1, h2, h3]

theorem clsOf_comma : clsOf ',' = .comma := by decide
theorem clsOf_opn : clsOf '(' = .opn := by decide
theorem clsOf_cls : clsOf ')' = .cls := by decide

theorem isC_cls (c : Char) (h : isC c = true) : clsOf c = .ws ∨ c = ',' := by
  by_cases hs : isSpace c = true
  · exact Or.inl ((clsOf_ws_iff c).mpr hs)
  · right; simpa [isC, hs] using h

theorem isP1_cls (c : Char) (h : isP1 c = true) : clsOf c = .ws ∨ c = '(' := by
  by_cases hs : isSpace c = true
  · exact Or.inl ((clsOf_ws_iff c).mpr hs)
  · right; simpa [isP1, hs] using h

theorem isP2_cls (c : Char) (h : isP2 c = true) : clsOf c = .ws ∨ c = ')' := by
  by_cases hs : isSpace c = true
  · exact Or.inl ((clsOf_ws_iff c).mpr hs)
  · right; simpa [isP2, hs] using h

theorem notC_cls (c : Char) (h : isC c = false) : clsOf c ≠ .ws ∧ clsOf c ≠ .comma := by
  simp only [isC, Bool.or_eq_false_iff] at h
  by_cases h2 : (c == '(') = true <;> by_cases h3 : (c == ')') = true <;> simp [clsOf, h.1, h.2, h2, h3]

theorem mem_takeWhile_p (p : Char → Bool) : ∀ (l : Str) (x : Char), x ∈ l.takeWhile p → p x = true
  | [], _, h => by simp at h
  | c :: cs, x, h => by
    rw [List.takeWhile_cons] at h
    split at h
    · rename_i hc
      rcases List.mem_cons.mp h with e | e
      · subst e; exact hc
      · exact mem_takeWhile_p p cs x e
    · simp at h

theorem run_ws : ∀ (xs : Str) (q : Option Cls), (∀ c ∈ xs, clsOf c = .ws) → run q xs = some q
  | [], _, _ => rfl
  | c :: cs, q, h => by
    rw [run, if_pos (h c (by simp))]
    exact run_ws cs q (fun x hx => h x (by simp [hx]))

theorem isC_noComma_ws (xs : Str) (hx : ∀ c ∈ xs, isC c = true) (hn : ',' ∉ xs) :
    ∀ c ∈ xs, clsOf c = .ws := by
  intro c hc
  rcases isC_cls c (hx c hc) with h | h
  · exact h
  · subst h; exact absurd hc hn

theorem run_isC : ∀ (xs : Str), (∀ c ∈ xs, isC c = true) → ∀ q q', run q xs = some q' →
    (q' = q ∧ ',' ∉ xs) ∨ (q' = some .comma ∧ ',' ∈ xs ∧ (q = some .cls ∨ q = some .other))
  | [], _, q, q', h => by simp [run] at h; simp [h]
  | c :: cs, hx, q, q', h => by
    have ih := run_isC cs (fun x hx' => hx x (by simp [hx']))
    rcases isC_cls c (hx c (by simp)) with hc | hc
    · rw [run, if_pos hc] at h
      have hne : c ≠ ',' := by
        intro e; subst e; rw [clsOf_comma] at hc; cases hc
      rcases ih q q' h with ⟨h1, h2⟩ | ⟨h1, h2, h3⟩
      · left; exact ⟨h1, by simp [h2, Ne.symm hne]⟩
      · right; exact ⟨h1, by simp [h2], h3⟩
    · subst hc
      rw [run, clsOf_comma] at h
      simp only [reduceCtorEq, if_false] at h
      by_cases ho : ok q .comma = true
      · rw [if_pos ho] at h
        rcases ih _ q' h with ⟨h1, _⟩ | ⟨_, _, h3⟩
        · right
          refine ⟨h1, by simp, ?_⟩
          rcases q with _ | (_|_|_|_|_) <;> simp_all [ok]
        · simp at h3
      · rw [if_neg ho] at h; cases h

theorem run_isP1 : ∀ (xs : Str), (∀ c ∈ xs, isP1 c = true) → ∀ q q', run q xs = some q' →
    (q' = q ∧ '(' ∉ xs) ∨ (q' = some .opn ∧ '(' ∈ xs ∧ ok q .opn = true)
  | [], _, q, q', h => by simp [run] at h; simp [h]
  | c :: cs, hx, q, q', h => by
    have ih := run_isP1 cs (fun x hx' => hx x (by simp [hx']))
    rcases isP1_cls c (hx c (by simp)) with hc | hc
    · rw [run, if_pos hc] at h
      have hne : c ≠ '(' := by
        intro e; subst e; rw [clsOf_opn] at hc; cases hc
      rcases ih q q' h with ⟨h1, h2⟩ | ⟨h1, h2, h3⟩
      · left; exact ⟨h1, by simp [h2, Ne.symm hne]⟩
      · right; exact ⟨h1, by simp [h2], h3⟩
    · subst hc
      rw [run, clsOf_opn] at h
      simp only [reduceCtorEq, if_false] at h
      by_cases ho : ok q .opn = true
      · rw [if_pos ho] at h
        rcases ih _ q' h with ⟨h1, _⟩ | ⟨h1, _, _⟩
        · right; exact ⟨h1, by simp, ho⟩
        · right; exact ⟨h1, by simp, ho⟩
      · rw [if_neg ho] at h; cases h

theorem run_isP2 : ∀ (xs : Str), (∀ c ∈ xs, isP2 c = true) → ∀ q q', run q xs = some q' →
    (q' = q ∧ ')' ∉ xs) ∨ (q' = some .cls ∧ ')' ∈ xs ∧ q ≠ some .comma)
  | [], _, q, q', h => by simp [run] at h; simp [h]
  | c :: cs, hx, q, q', h => by
    have ih := run_isP2 cs (fun x hx' => hx x (by simp [hx']))
    rcases isP2_cls c (hx c (by simp)) with hc | hc
    · rw [run, if_pos hc] at h
      have hne : c ≠ ')' := by
        intro e; subst e; rw [clsOf_cls] at hc; cases hc
      rcases ih q q' h with ⟨h1, h2⟩ | ⟨h1, h2, h3⟩
      · left; exact ⟨h1, by simp [h2, Ne.symm hne]⟩
      · right; exact ⟨h1, by simp [h2], h3⟩
    · subst hc
      rw [run, clsOf_cls] at h
      simp only [reduceCtorEq, if_false] at h
      by_cases ho : ok q .cls = true
      · rw [if_pos ho] at h
        have hq : q ≠ some .comma := by
          rcases q with _ | (_|_|_|_|_) <;> simp_all [ok]
        rcases ih _ q' h with ⟨h1, _⟩ | ⟨h1, _, _⟩
        · right; exact ⟨h1, by simp, hq⟩
        · right; exact ⟨h1, by simp, hq⟩
      · rw [if_neg ho] at h; cases h

theorem run_other : ∀ (xs : Str), (∀ c ∈ xs, clsOf c = .other) → xs ≠ [] → ∀ q q', run q xs = some q' →
    q' = some .other ∧ q ≠ some .cls
  | [], _, hne, _, _, _ => absurd rfl hne
  | c :: cs, hx, _, q, q', h => by
    have hc := hx c (by simp)
    rw [run, hc] at h
    simp only [reduceCtorEq, if_false] at h
    by_cases ho : ok q .other = true
    · rw [if_pos ho] at h
      have hq : q ≠ some .cls := by
        rcases q with _ | (_|_|_|_|_) <;> simp_all [ok]
      cases cs with
      | nil => simp [run] at h; exact ⟨h.symm, hq⟩
      | cons d ds =>
        exact ⟨(run_other (d :: ds) (fun x hx' => hx x (by simp [hx'])) (by simp) _ q' h).1, hq⟩
    · rw [if_neg ho] at h; cases h

theorem run_replicate_opn : ∀ (n : Nat) (q : Option Cls), 0 < n → ok q .opn = true →
    run q (List.replicate n '(') = some (some .opn)
  | 0, _, h, _ => by omega
  | n + 1, q, _, ho => by
    rw [List.replicate_succ, run, clsOf_opn]
    simp only [reduceCtorEq, if_false, ho, if_true]
    cases n with
    | zero => rfl
    | succ m => exact run_replicate_opn (m + 1) _ (by omega) rfl

theorem run_replicate_cls : ∀ (n : Nat) (q : Option Cls), 0 < n → q ≠ some .comma →
    run q (List.replicate n ')') = some (some .cls)
  | 0, _, h, _ => by omega
  | n + 1, q, _, hq => by
    have ho : ok q .cls = true := by
      rcases q with _ | (_|_|_|_|_) <;> simp_all [ok]
    rw [List.replicate_succ, run, clsOf_cls]
    simp only [reduceCtorEq, if_false, ho, if_true]
    cases n with
    | zero => rfl
    | succ m => exact run_replicate_cls (m + 1) _ (by omega) (by simp)

/-- a `[\s,]*` run that was accepted once is accepted after any closing parenthesis or tag -/
theorem run_isC_transfer : ∀ (xs : Str), (∀ c ∈ xs, isC c = true) → ∀ q q', run q xs = some q' →
    ',' ∈ xs → ∀ r, (r = some .cls ∨ r = some .other) → run r xs = some (some .comma)
  | [], _, _, _, _, hm, _, _ => by simp at hm
  | c :: cs, hx, q, q', h, hm, r, hr => by
    have hx' : ∀ x ∈ cs, isC x = true := fun x hx' => hx x (by simp [hx'])
    rcases isC_cls c (hx c (by simp)) with hc | hc
    · rw [run, if_pos hc] at h
      have hne : c ≠ ',' := by
        intro e; subst e; rw [clsOf_comma] at hc; cases hc
      rw [run, if_pos hc]
      refine run_isC_transfer cs hx' q q' h ?_ r hr
      rcases List.mem_cons.mp hm with e | e
      · exact absurd e.symm hne
      · exact e
    · subst hc
      rw [run, clsOf_comma] at h
      simp only [reduceCtorEq, if_false] at h
      by_cases ho : ok q .comma = true
      · rw [if_pos ho] at h
        have hor : ok r .comma = true := by rcases hr with e | e <;> subst e <;> rfl
        rw [run, clsOf_comma]
        simp only [reduceCtorEq, if_false, hor, if_true]
        rcases run_isC cs hx' _ q' h with ⟨_, h2⟩ | ⟨_, _, h3⟩
        · exact run_ws cs _ (isC_noComma_ws cs hx' h2)
        · simp at h3
      · rw [if_neg ho] at h; cases h

theorem run_snoc_state (us : Str) (c : Char) (q q' : Option Cls) (h : run q (us ++ [c]) = some q')
    (hc : clsOf c ≠ .ws) : q' = some (clsOf c) := by
  rw [run_append] at h
  cases h1 : run q us with
  | none => simp [h1] at h
  | some q1 =>
    simp only [h1, Option.bind_some, run, hc, if_false] at h
    split at h
    · simpa using h.symm
    · cases h

/-! whole-tag references -/

def lastNonWs : Str → Option Char
  | [] => none
  | c :: cs => match lastNonWs cs with
    | some x => some x
    | none => if isSpace c then none else some c

def firstNonWs : Str → Option Char
  | [] => none
  | c :: cs => if isSpace c then firstNonWs cs else some c

/-- the text before the reference ends (blanks aside) at the start, a comma or `(`; the text after it
begins at the end, a comma or `)` — the reference is a whole tag -/
def wholeTag (pre post : Str) : Prop :=
  (lastNonWs pre = none ∨ lastNonWs pre = some ',' ∨ lastNonWs pre = some '(') ∧
  (firstNonWs post = none ∨ firstNonWs post = some ',' ∨ firstNonWs post = some ')')

theorem run_lastNonWs : ∀ (s : Str) (q q' : Option Cls), run q s = some q' →
    q' = match lastNonWs s with | none => q | some c => some (clsOf c)
  | [], q, q', h => by simp [run] at h; simp [lastNonWs, h]
  | c :: cs, q, q', h => by
    rw [run] at h
    by_cases hc : clsOf c = .ws
    · rw [if_pos hc] at h
      have := run_lastNonWs cs q q' h
      rw [lastNonWs]
      cases hl : lastNonWs cs with
      | some x => simpa [hl] using this
      | none => simpa [hl, (clsOf_ws_iff c).mp hc] using this
    · rw [if_neg hc] at h
      split at h
      · have := run_lastNonWs cs _ q' h
        rw [lastNonWs]
        have hs : isSpace c = false := by
          cases hh : isSpace c
          · rfl
          · exact absurd ((clsOf_ws_iff c).mpr hh) hc
        cases hl : lastNonWs cs with
        | some x => simpa [hl] using this
        | none => simpa [hl, hs] using this
      · cases h

theorem firstNonWs_ws_append : ∀ (xs ys : Str), (∀ c ∈ xs, clsOf c = .ws) →
    firstNonWs (xs ++ ys) = firstNonWs ys
  | [], _, _ => rfl
  | c :: cs, ys, h => by
    simp only [List.cons_append, firstNonWs, (clsOf_ws_iff c).mp (h c (by simp)), if_true]
    exact firstNonWs_ws_append cs ys (fun x hx => h x (by simp [hx]))

theorem dropWhile_head (p : Char → Bool) : ∀ l : Str,
    l.dropWhile p = [] ∨ ∃ h t, l.dropWhile p = h :: t ∧ p h = false
  | [] => Or.inl rfl
  | c :: cs => by
    rw [List.dropWhile_cons]
    split
    · exact dropWhile_head p cs
    · rename_i h
      exact Or.inr ⟨c, cs, rfl, by simpa using h⟩

/-- what the match groups are: a decomposition of the text around the reference into maximal runs -/
theorem groups_spec (pre post : Str) :
    pre = (groups pre post).u ++ ((groups pre post).c1 ++ (groups pre post).p1) ∧
    post = (groups pre post).p2 ++ ((groups pre post).c2 ++ (groups pre post).w) ∧
    (∀ c ∈ (groups pre post).c1, isC c = true) ∧ (∀ c ∈ (groups pre post).p1, isP1 c = true) ∧
    (∀ c ∈ (groups pre post).p2, isP2 c = true) ∧ (∀ c ∈ (groups pre post).c2, isC c = true) ∧
    ((groups pre post).u = [] ∨ ∃ us c, (groups pre post).u = us ++ [c] ∧ isC c = false) ∧
    ((groups pre post).w = [] ∨ ∃ c cs, (groups pre post).w = c :: cs ∧ isC c = false) := by
  simp only [groups]
  refine ⟨?_, ?_, ?_, ?_, ?_, ?_, ?_, ?_⟩
  · rw [List.takeWhile_append_dropWhile, ← List.reverse_append, ← List.reverse_append,
      List.append_assoc, List.takeWhile_append_dropWhile, List.takeWhile_append_dropWhile,
      List.reverse_reverse]
  · simp [List.takeWhile_append_dropWhile]
  · intro c hc; exact mem_takeWhile_p _ _ _ hc
  · intro c hc
    rw [List.dropWhile_append_of_pos (by intro a ha; exact mem_takeWhile_p _ _ _ (List.mem_reverse.mp ha))] at hc
    have := (List.dropWhile_sublist _).subset hc
    exact mem_takeWhile_p _ _ _ (List.mem_reverse.mp this)
  · intro c hc; exact mem_takeWhile_p _ _ _ hc
  · intro c hc; exact mem_takeWhile_p _ _ _ hc
  · rcases dropWhile_head isC ((pre.reverse).dropWhile isP1) with h | ⟨h, t, e, hp⟩
    · left; simp [h]
    · right; exact ⟨t.reverse, h, by simp [e], hp⟩
  · exact dropWhile_head isC _

theorem chain_nil (q : Option Cls) : chain q [] = (q != some .comma) := rfl

theorem chain_cons_nonC (q : Option Cls) (c : Char) (cs : Str) (hc : isC c = false) :
    chain q (c :: cs) = (ok q (clsOf c) && chain (some (clsOf c)) cs) := by
  have h := (notC_cls c hc).1
  unfold chain
  rw [run, if_neg h]
  by_cases ho : ok q (clsOf c) = true <;> simp [ho]

theorem chain_swap (q q' : Option Cls) (W : Str)
    (hW : W = [] ∨ ∃ c cs, W = c :: cs ∧ isC c = false)
    (h : chain q W = true) (hq' : q' ≠ some .comma)
    (hok : ∀ c cs, W = c :: cs → isC c = false → ok q (clsOf c) = true → ok q' (clsOf c) = true) :
    chain q' W = true := by
  rcases hW with rfl | ⟨c, cs, rfl, hc⟩
  · simpa [chain_nil] using hq'
  · rw [chain_cons_nonC _ _ _ hc] at h ⊢
    simp only [Bool.and_eq_true] at h ⊢
    exact ⟨hok c cs rfl hc h.1, h.2⟩

theorem isP2_noCls_ws (xs : Str) (hx : ∀ c ∈ xs, isP2 c = true) (hn : ')' ∉ xs) :
    ∀ c ∈ xs, clsOf c = .ws := by
  intro c hc
  rcases isP2_cls c (hx c hc) with h | h
  · exact h
  · subst h; exact absurd hc hn

/-- The heart of `na_wellformed`: with the match groups as the regex finds them, dropping the reference
as `_remover` prescribes keeps every adjacent pair of non-blank characters allowed. -/
theorem remove_core (U c1 p1 ref p2 c2 W : Str)
    (hc1 : ∀ c ∈ c1, isC c = true) (hp1 : ∀ c ∈ p1, isP1 c = true)
    (hp2 : ∀ c ∈ p2, isP2 c = true) (hc2 : ∀ c ∈ c2, isC c = true)
    (href : ∀ c ∈ ref, clsOf c = .other) (hrne : ref ≠ [])
    (hU : U = [] ∨ ∃ us c, U = us ++ [c] ∧ isC c = false)
    (hW : W = [] ∨ ∃ c cs, W = c :: cs ∧ isC c = false)
    (hwl : lastNonWs (U ++ (c1 ++ p1)) = none ∨ lastNonWs (U ++ (c1 ++ p1)) = some ',' ∨
           lastNonWs (U ++ (c1 ++ p1)) = some '(')
    (hwr : firstNonWs (p2 ++ (c2 ++ W)) = none ∨ firstNonWs (p2 ++ (c2 ++ W)) = some ',' ∨
           firstNonWs (p2 ++ (c2 ++ W)) = some ')')
    (hwf : chain none (U ++ (c1 ++ (p1 ++ (ref ++ (p2 ++ (c2 ++ W)))))) = true) :
    chain none (U ++ (removerOut true ⟨U, c1, p1, p2, c2, W⟩ ++ W)) = true := by
  obtain ⟨q0, h0, t0⟩ := chain_append_true hwf
  obtain ⟨q1, h1, t1⟩ := chain_append_true t0
  obtain ⟨q2, h2, t2⟩ := chain_append_true t1
  obtain ⟨q3, h3, t3⟩ := chain_append_true t2
  obtain ⟨q4, h4, t4⟩ := chain_append_true t3
  obtain ⟨q5, h5, h⟩ := chain_append_true t4
  clear t0 t1 t2 t3 t4
  have f1 := run_isC c1 hc1 q0 q1 h1
  have f2 := run_isP1 p1 hp1 q1 q2 h2
  obtain ⟨e3, -⟩ := run_other ref href hrne q2 q3 h3
  subst e3
  have f4 := run_isP2 p2 hp2 _ q4 h4
  have f5 := run_isC c2 hc2 q4 q5 h5
  have fU : q0 = none ∨ ∃ x, q0 = some x ∧ x ≠ .ws ∧ x ≠ .comma := by
    rcases hU with rfl | ⟨us, c, rfl, hc⟩
    · left; simpa [run] using h0.symm
    · right; exact ⟨clsOf c, run_snoc_state us c none q0 h0 (notC_cls c hc).1, notC_cls c hc⟩
  have hq0 : q0 ≠ some .comma := by
    rcases fU with e | ⟨x, e, _, hx⟩
    · simp [e]
    · rw [e]; intro h'; exact hx (Option.some.inj h')
  have fl : q2 = none ∨ q2 = some .comma ∨ q2 = some .opn := by
    have hr : run none (U ++ (c1 ++ p1)) = some q2 := by
      rw [run_append, h0, Option.bind_some, run_append, h1, Option.bind_some, h2]
    have := run_lastNonWs _ _ _ hr
    rcases hwl with e | e | e <;> rw [e] at this <;> simp [this, clsOf_comma, clsOf_opn]
  apply chain_append_intro h0
  simp only [removerOut]
  by_cases hab : p1.count '(' > p2.count ')'
  · -- more opening parentheses: keep c1 and the surplus
    simp only [hab, if_true, List.append_assoc]
    have ha : '(' ∈ p1 := List.count_pos_iff.mp (by omega)
    have ho : ok q1 .opn = true := by
      rcases f2 with ⟨_, hn⟩ | ⟨_, _, ho⟩
      · exact absurd ha hn
      · exact ho
    apply chain_append_intro h1
    apply chain_append_intro (run_replicate_opn _ q1 (by omega) ho)
    refine chain_swap q5 (some .opn) W hW h (by simp) ?_
    intro c cs _ hc _
    have := notC_cls c hc
    generalize clsOf c = x at *
    cases x <;> simp_all [ok]
  · by_cases hba : p2.count ')' > p1.count '('
    · -- more closing parentheses: keep the surplus and c2
      simp only [hab, hba, if_true, if_false, List.append_assoc]
      have hb : ')' ∈ p2 := List.count_pos_iff.mp (by omega)
      have e4 : q4 = some .cls := by
        rcases f4 with ⟨_, hn⟩ | ⟨e, _, _⟩
        · exact absurd hb hn
        · exact e
      subst e4
      apply chain_append_intro (run_replicate_cls _ q0 (by omega) hq0)
      exact chain_append_intro h5 h
    · simp only [hab, hba, if_false, if_true]
      by_cases hcm : ',' ∈ c1
      · -- a comma before the reference: it goes, c2 stays
        simp only [List.contains_iff_mem, hcm, if_true]
        have hq0' : q0 = some .cls ∨ q0 = some .other := by
          rcases f1 with ⟨_, hn⟩ | ⟨_, _, e⟩
          · exact absurd hcm hn
          · exact e
        by_cases hc2m : ',' ∈ c2
        · have e5 : q5 = some .comma := by
            rcases f5 with ⟨_, hn⟩ | ⟨e, _, _⟩
            · exact absurd hc2m hn
            · exact e
          subst e5
          exact chain_append_intro (run_isC_transfer c2 hc2 q4 _ h5 hc2m q0 hq0') h
        · have e5 : q5 = q4 := by
            rcases f5 with ⟨e, _⟩ | ⟨_, hm, _⟩
            · exact e
            · exact absurd hm hc2m
          subst e5
          apply chain_append_intro (run_ws c2 q0 (isC_noComma_ws c2 hc2 hc2m))
          rcases hW with rfl | ⟨c, cs, rfl, hc⟩
          · simpa [chain_nil] using hq0
          · rw [chain_cons_nonC _ _ _ hc] at h ⊢
            simp only [Bool.and_eq_true] at h ⊢
            refine ⟨?_, h.2⟩
            have hcls : clsOf c = .cls := by
              by_cases hb : ')' ∈ p2
              · have e4 : q5 = some .cls := by
                  rcases f4 with ⟨_, hn⟩ | ⟨e, _, _⟩
                  · exact absurd hb hn
                  · exact e
                have h1' := h.1
                rw [e4] at h1'
                have := notC_cls c hc
                generalize clsOf c = x at *
                cases x <;> simp_all [ok]
              · have hs : isSpace c = false := by
                  simp only [isC, Bool.or_eq_false_iff] at hc; exact hc.1
                have hf : firstNonWs (p2 ++ (c2 ++ c :: cs)) = some c := by
                  rw [firstNonWs_ws_append _ _ (isP2_noCls_ws p2 hp2 hb),
                    firstNonWs_ws_append _ _ (isC_noComma_ws c2 hc2 hc2m)]
                  simp [firstNonWs, hs]
                rw [hf] at hwr
                rcases hwr with e | e | e
                · cases e
                · have : c = ',' := Option.some.inj e
                  subst this; simp [isC] at hc
                · have : c = ')' := Option.some.inj e
                  subst this; exact clsOf_cls
            rw [hcls]
            rcases hq0' with e | e <;> subst e <;> rfl
      · -- no comma before the reference (start of the text): blanks and c2 go
        have hcm' : c1.contains ',' = false := by
          simpa [List.contains_iff_mem] using hcm
        simp only [hcm', if_false, Bool.false_eq_true, List.nil_append]
        have e1 : q1 = q0 := by
          rcases f1 with ⟨e, _⟩ | ⟨_, hm, _⟩
          · exact e
          · exact absurd hm hcm
        subst e1
        have hq : q1 = none ∨ q1 = some .opn := by
          have h3' : q1 = none ∨ q1 = some .comma ∨ q1 = some .opn := by
            rcases f2 with ⟨e, _⟩ | ⟨_, _, ho⟩
            · rw [← e]; exact fl
            · rcases q1 with _ | (_|_|_|_|_) <;> simp_all [ok]
          rcases fU with e | ⟨x, e, hx1, hx2⟩
          · exact Or.inl e
          · subst e
            rcases h3' with e | e | e
            · cases e
            · exact absurd (Option.some.inj e) hx2
            · exact Or.inr e
        refine chain_swap q5 q1 W hW h hq0 ?_
        intro c cs _ hc _
        have := notC_cls c hc
        generalize clsOf c = x at *
        rcases hq with e | e <;> subst e <;> cases x <;> simp_all [ok]

/-! ### joining the items of a row -/

/-- an item that can stand between commas: its first non-blank character opens a group or a tag, and
scanned on its own it is accepted and ends in `)` or a tag character -/
def itemOk (x : Str) : Prop :=
  (∃ c, firstNonWs x = some c ∧ (clsOf c = .opn ∨ clsOf c = .other)) ∧
  (run none x = some (some .cls) ∨ run none x = some (some .other))

theorem run_start : ∀ (x : Str) (c : Char), firstNonWs x = some c →
    (clsOf c = .opn ∨ clsOf c = .other) → run (some .comma) x = run none x
  | [], _, h, _ => by simp [firstNonWs] at h
  | d :: ds, c, h, hc => by
    rw [firstNonWs] at h
    by_cases hs : isSpace d = true
    · rw [if_pos hs] at h
      rw [run, run, if_pos ((clsOf_ws_iff d).mpr hs), if_pos ((clsOf_ws_iff d).mpr hs)]
      exact run_start ds c h hc
    · rw [if_neg hs] at h
      have : d = c := Option.some.inj h
      subst this
      have hw : clsOf d ≠ .ws := fun e => hs ((clsOf_ws_iff d).mp e)
      rw [run, run, if_neg hw, if_neg hw]
      rcases hc with e | e <;> rw [e] <;> rfl

theorem run_sep (k : Option Cls) (hk : k = some .cls ∨ k = some .other) :
    run k SEP = some (some .comma) := by
  rcases hk with e | e <;> subst e <;> decide

theorem join_run : ∀ (l : List Str), l ≠ [] → (∀ x ∈ l, itemOk x) → ∀ q, (q = none ∨ q = some .comma) →
    (run q (SEP.intercalate l) = some (some .cls) ∨ run q (SEP.intercalate l) = some (some .other))
  | [], h, _, _, _ => absurd rfl h
  | [x], _, hx, q, hq => by
    obtain ⟨⟨c, hf, hc⟩, hr⟩ := hx x (by simp)
    have e : run q x = run none x := by
      rcases hq with e | e <;> subst e
      · rfl
      · exact run_start x c hf hc
    simpa [List.intercalate, e] using hr
  | x :: y :: ys, _, hx, q, hq => by
    obtain ⟨⟨c, hf, hc⟩, hr⟩ := hx x (by simp)
    have e : run q x = run none x := by
      rcases hq with e | e <;> subst e
      · rfl
      · exact run_start x c hf hc
    have ih := join_run (y :: ys) (by simp) (fun z hz => hx z (by simp [hz])) (some .comma) (Or.inr rfl)
    have hi : SEP.intercalate (x :: y :: ys) = x ++ (SEP ++ SEP.intercalate (y :: ys)) := by
      simp [List.intercalate]
    rw [hi, run_append, e]
    rcases hr with h | h <;> rw [h, Option.bind_some, run_append, run_sep _ (by simp), Option.bind_some] <;>
      exact ih

/-! ### parenthesis balance -/

/-- running depth from `d`; `none` = a `)` with no `(` open -/
def depth : Nat → Str → Option Nat
  | d, [] => some d
  | d, c :: cs =>
    if c = '(' then depth (d + 1) cs
    else if c = ')' then (if d = 0 then none else depth (d - 1) cs)
    else depth d cs

/-- depth never negative and zero at the end (`check_count_tag_group_parentheses` finds nothing) -/
def balanced (s : Str) : Prop := depth 0 s = some 0

instance (s : Str) : Decidable (balanced s) := by unfold balanced; infer_instance

theorem depth_append : ∀ (xs ys : Str) (d : Nat),
    depth d (xs ++ ys) = (depth d xs).bind (fun d' => depth d' ys)
  | [], _, _ => rfl
  | c :: cs, ys, d => by
    simp only [List.cons_append, depth]
    split
    · exact depth_append cs ys _
    · split
      · split
        · rfl
        · exact depth_append cs ys _
      · exact depth_append cs ys _

theorem depth_noparen : ∀ (xs : Str) (d : Nat), (∀ c ∈ xs, c ≠ '(' ∧ c ≠ ')') → depth d xs = some d
  | [], _, _ => rfl
  | c :: cs, d, h => by
    have hc := h c (by simp)
    rw [depth, if_neg hc.1, if_neg hc.2]
    exact depth_noparen cs d (fun x hx => h x (by simp [hx]))

theorem isC_noparen (c : Char) (h : isC c = true) : c ≠ '(' ∧ c ≠ ')' := by
  constructor <;> (intro e; subst e; revert h; decide)

theorem other_noparen (c : Char) (h : clsOf c = .other) : c ≠ '(' ∧ c ≠ ')' := by
  constructor <;> (intro e; subst e; revert h; decide)

theorem depth_isP1 : ∀ (xs : Str) (d : Nat), (∀ c ∈ xs, isP1 c = true) →
    depth d xs = some (d + xs.count '(')
  | [], _, _ => rfl
  | c :: cs, d, h => by
    have ih := fun d' => depth_isP1 cs d' (fun x hx => h x (by simp [hx]))
    have hc := h c (by simp)
    by_cases e : c = '('
    · subst e
      rw [depth, if_pos rfl, ih, List.count_cons_self]
      congr 1; omega
    · have e2 : c ≠ ')' := by intro e2; subst e2; revert hc; decide
      rw [depth, if_neg e, if_neg e2, ih, List.count_cons_of_ne e]

theorem depth_isP2 : ∀ (xs : Str) (d : Nat), (∀ c ∈ xs, isP2 c = true) →
    depth d xs = if xs.count ')' ≤ d then some (d - xs.count ')') else none
  | [], _, _ => by simp [depth]
  | c :: cs, d, h => by
    have ih := fun d' => depth_isP2 cs d' (fun x hx => h x (by simp [hx]))
    have hc := h c (by simp)
    by_cases e : c = ')'
    · subst e
      rw [depth, if_neg (by decide), if_pos rfl, List.count_cons_self]
      by_cases hd : d = 0
      · subst hd; simp
      · rw [if_neg hd, ih]
        by_cases hle : cs.count ')' ≤ d - 1
        · rw [if_pos hle, if_pos (by omega)]; congr 1; omega
        · rw [if_neg hle, if_neg (by omega)]
    · have e2 : c ≠ '(' := by intro e2; subst e2; revert hc; decide
      rw [depth, if_neg e2, if_neg e, ih, List.count_cons_of_ne e]

theorem depth_replicate_opn : ∀ (n d : Nat), depth d (List.replicate n '(') = some (d + n)
  | 0, _ => rfl
  | n + 1, d => by
    rw [List.replicate_succ, depth, if_pos rfl, depth_replicate_opn n (d + 1)]
    congr 1; omega

theorem depth_replicate_cls : ∀ (n d : Nat), n ≤ d → depth d (List.replicate n ')') = some (d - n)
  | 0, _, _ => rfl
  | n + 1, d, h => by
    rw [List.replicate_succ, depth, if_neg (by decide), if_pos rfl, if_neg (by omega),
      depth_replicate_cls n (d - 1) (by omega)]
    congr 1; omega

/-- The remover emits exactly the parenthesis surplus of what the match consumed: scanning the text
with the match replaced by the remover's output reaches the same depth as scanning the original, and
never goes below zero if the original did not (both the fixed and the unchanged `_remover`). -/
theorem remove_depth (fixed : Bool) (U c1 p1 ref p2 c2 W : Str)
    (hc1 : ∀ c ∈ c1, isC c = true) (hp1 : ∀ c ∈ p1, isP1 c = true)
    (hp2 : ∀ c ∈ p2, isP2 c = true) (hc2 : ∀ c ∈ c2, isC c = true)
    (href : ∀ c ∈ ref, clsOf c = .other) (d0 e : Nat)
    (h : depth d0 (U ++ (c1 ++ (p1 ++ (ref ++ (p2 ++ (c2 ++ W)))))) = some e) :
    depth d0 (U ++ (removerOut fixed ⟨U, c1, p1, p2, c2, W⟩ ++ W)) = some e := by
  have n1 := fun d => depth_noparen c1 d (fun c hc => isC_noparen c (hc1 c hc))
  have n2 := fun d => depth_noparen c2 d (fun c hc => isC_noparen c (hc2 c hc))
  have nr := fun d => depth_noparen ref d (fun c hc => other_noparen c (href c hc))
  rw [depth_append] at h ⊢
  cases hU : depth d0 U with
  | none => simp [hU] at h
  | some d =>
    simp only [hU, Option.bind_some] at h ⊢
    rw [depth_append, n1, Option.bind_some, depth_append, depth_isP1 p1 _ hp1, Option.bind_some,
      depth_append, nr, Option.bind_some, depth_append, depth_isP2 p2 _ hp2] at h
    by_cases hle : p2.count ')' ≤ d + p1.count '('
    · rw [if_pos hle, Option.bind_some, depth_append, n2, Option.bind_some] at h
      simp only [removerOut]
      by_cases hab : p1.count '(' > p2.count ')'
      · simp only [hab, if_true, List.append_assoc]
        rw [depth_append, n1, Option.bind_some, depth_append, depth_replicate_opn, Option.bind_some,
          ← h]
        congr 1; omega
      · by_cases hba : p2.count ')' > p1.count '('
        · simp only [hab, hba, if_true, if_false, List.append_assoc]
          rw [depth_append, depth_replicate_cls _ _ (by omega), Option.bind_some, depth_append, n2,
            Option.bind_some, ← h]
          congr 1; omega
        · have hd : d + p1.count '(' - p2.count ')' = d := by omega
          rw [hd] at h
          simp only [hab, hba, if_false]
          cases fixed
          · by_cases hc : c1.isEmpty = true
            · simp [hc, h]
            · simp only [hc, if_false, Bool.false_eq_true]
              rw [depth_append, n2, Option.bind_some, h]
          · by_cases hc : c1.contains ',' = true
            · simp only [hc, if_true]
              rw [depth_append, n2, Option.bind_some, h]
            · have hc' : c1.contains ',' = false := by simpa using hc
              simp only [hc', if_false, Bool.false_eq_true]
              exact h
    · rw [if_neg hle] at h; simp at h

/-! ### file order, reference detection -/

theorem perm_insertCol (c : Col) : ∀ l : List Col, (insertCol c l).Perm (c :: l)
  | [] => by simp [insertCol]
  | d :: ds => by
    unfold insertCol
    split
    · exact List.Perm.refl _
    · exact ((List.perm_cons d).mpr (perm_insertCol c ds)).trans (List.Perm.swap c d ds)

theorem perm_sortCols : ∀ l : List Col, (sortCols l).Perm l
  | [] => by simp [sortCols]
  | c :: cs => (perm_insertCol c _).trans ((List.perm_cons c).mpr (perm_sortCols cs))

theorem mem_fileCols (sc : Sidecar) (header : List Str) (c : Col) :
    c ∈ fileCols sc header ↔ c.name ∈ header ∧ trOf sc c.name = some c.tr := by
  unfold fileCols
  rw [List.mem_filterMap]
  constructor
  · rintro ⟨n, hn, h⟩
    cases ht : trOf sc n with
    | none => simp [ht] at h
    | some t => simp [ht] at h; subst h; exact ⟨hn, ht⟩
  · rintro ⟨hn, ht⟩
    exact ⟨c.name, hn, by simp [ht]⟩

theorem activeCols_perm (sc : Sidecar) (h h' : List Str) (hp : h'.Perm h) :
    activeCols sc h' = activeCols sc h := by
  unfold activeCols
  refine List.Perm.eq_of_pairwise (le := NameLe) ?_ (sortCols_sorted _) (sortCols_sorted _)
    ((perm_sortCols _).trans ((hp.filterMap _).trans (perm_sortCols _).symm))
  intro a b ha hb hab hba
  have hn : a.name = b.name := List.le_antisymm hab hba
  have h1 := ((mem_fileCols sc h' a).mp ((mem_sortCols a _).mp ha)).2
  have h2 := ((mem_fileCols sc h b).mp ((mem_sortCols b _).mp hb)).2
  rw [hn, h2] at h1
  cases a; cases b
  simp only [Col.mk.injEq]
  exact ⟨hn, (Option.some.inj h1).symm⟩

theorem findRefs_mono (c : Char) (cs : Str) : ∀ x ∈ findRefs cs, x ∈ findRefs (c :: cs) := by
  intro x hx
  rw [findRefs]
  split
  · exact List.mem_cons_of_mem _ hx
  · exact hx

theorem isRefChar_close : isRefChar '}' = false := by decide

/-! ### items: accepted, balanced, not blank -/

/-- a text that can be an item of a row: accepted by the delimiter checker, balanced, not blank -/
def GoodItem (s : Str) : Prop := delimOk s = true ∧ balanced s ∧ firstNonWs s ≠ none

instance (s : Str) : Decidable (GoodItem s) := by unfold GoodItem; infer_instance

theorem isSpace_noparen (c : Char) (h : isSpace c = true) : c ≠ '(' ∧ c ≠ ')' := by
  constructor <;> (intro e; subst e; revert h; decide)

theorem lastNonWs_none_ws : ∀ s : Str, lastNonWs s = none → ∀ c ∈ s, clsOf c = .ws
  | [], _ => by simp
  | d :: ds, h => by
    rw [lastNonWs] at h
    cases hl : lastNonWs ds with
    | some x => simp [hl] at h
    | none =>
      simp only [hl] at h
      have hd : isSpace d = true := by
        cases hh : isSpace d
        · simp [hh] at h
        · rfl
      intro c hc
      rcases List.mem_cons.mp hc with e | e
      · subst e; exact (clsOf_ws_iff _).mpr hd
      · exact lastNonWs_none_ws ds hl c e

theorem firstNonWs_none_ws : ∀ s : Str, firstNonWs s = none → ∀ c ∈ s, clsOf c = .ws
  | [], _ => by simp
  | d :: ds, h => by
    rw [firstNonWs] at h
    by_cases hd : isSpace d = true
    · rw [if_pos hd] at h
      intro c hc
      rcases List.mem_cons.mp hc with e | e
      · subst e; exact (clsOf_ws_iff _).mpr hd
      · exact firstNonWs_none_ws ds h c e
    · rw [if_neg hd] at h; cases h

theorem ws_lastNonWs_none : ∀ s : Str, (∀ c ∈ s, clsOf c = .ws) → lastNonWs s = none
  | [], _ => rfl
  | d :: ds, h => by
    rw [lastNonWs, ws_lastNonWs_none ds (fun c hc => h c (by simp [hc]))]
    simp [(clsOf_ws_iff d).mp (h d (by simp))]

theorem ws_firstNonWs_none : ∀ s : Str, (∀ c ∈ s, clsOf c = .ws) → firstNonWs s = none
  | [], _ => rfl
  | d :: ds, h => by
    rw [firstNonWs, if_pos ((clsOf_ws_iff d).mp (h d (by simp)))]
    exact ws_firstNonWs_none ds (fun c hc => h c (by simp [hc]))

theorem lastNonWs_ne_none (s : Str) (h : firstNonWs s ≠ none) : lastNonWs s ≠ none :=
  fun e => h (ws_firstNonWs_none s (lastNonWs_none_ws s e))

theorem depth_ws (s : Str) (d : Nat) (h : ∀ c ∈ s, clsOf c = .ws) : depth d s = some d :=
  depth_noparen s d (fun c hc => isSpace_noparen c ((clsOf_ws_iff c).mp (h c hc)))

/-- the first non-blank character of an accepted, balanced text opens a group or a tag -/
theorem first_class : ∀ (s : Str) (c : Char), firstNonWs s = some c →
    run none s ≠ none → depth 0 s ≠ none → clsOf c = .opn ∨ clsOf c = .other
  | [], _, h, _, _ => by simp [firstNonWs] at h
  | d :: ds, c, h, hr, hd => by
    rw [firstNonWs] at h
    by_cases hs : isSpace d = true
    · rw [if_pos hs] at h
      have hw := (clsOf_ws_iff d).mpr hs
      rw [run, if_pos hw] at hr
      have hp := isSpace_noparen d hs
      rw [depth, if_neg hp.1, if_neg hp.2] at hd
      exact first_class ds c h hr hd
    · rw [if_neg hs] at h
      have : d = c := Option.some.inj h
      subst this
      have hw : clsOf d ≠ .ws := fun e => hs ((clsOf_ws_iff d).mp e)
      rw [run, if_neg hw] at hr
      by_cases ho : ok none (clsOf d) = true
      · have hcl : d ≠ ')' := by
          intro e; subst e
          rw [depth, if_neg (by decide), if_pos rfl, if_pos rfl] at hd
          exact hd rfl
        have hcl' : clsOf d ≠ .cls := by
          intro e
          apply hcl
          revert e hw
          unfold clsOf
          by_cases h1 : isSpace d = true <;> by_cases h2 : (d == ',') = true <;>
            by_cases h3 : (d == '(') = true <;> by_cases h4 : (d == ')') = true <;> simp_all
        generalize clsOf d = x at *
        cases x <;> simp_all [ok]
      · rw [if_neg ho] at hr; exact absurd rfl hr

/-- a balanced text does not end (blanks aside) with an opening parenthesis -/
theorem depth_last_opn : ∀ (s : Str) (d e : Nat), depth d s = some e → lastNonWs s = some '(' → 1 ≤ e
  | [], _, _, _, h => by simp [lastNonWs] at h
  | c :: cs, d, e, hd, hl => by
    rw [lastNonWs] at hl
    cases hc : lastNonWs cs with
    | some x =>
      simp only [hc] at hl
      rw [depth] at hd
      split at hd
      · exact depth_last_opn cs _ e hd (by rw [hc, hl])
      · split at hd
        · split at hd
          · cases hd
          · exact depth_last_opn cs _ e hd (by rw [hc, hl])
        · exact depth_last_opn cs _ e hd (by rw [hc, hl])
    | none =>
      simp only [hc] at hl
      have hcc : c = '(' := by
        by_cases hs : isSpace c = true
        · simp [hs] at hl
        · simpa [hs] using hl
      subst hcc
      rw [depth, if_pos rfl, depth_ws cs _ (lastNonWs_none_ws cs hc)] at hd
      have := Option.some.inj hd
      omega

theorem good_itemOk (s : Str) (h : GoodItem s) : itemOk s := by
  obtain ⟨hd, hb, hn⟩ := h
  rw [delimOk_eq_chain] at hd
  unfold chain at hd
  cases hr : run none s with
  | none => simp [hr] at hd
  | some q =>
    simp only [hr] at hd
    cases hf : firstNonWs s with
    | none => exact absurd hf hn
    | some c =>
      refine ⟨⟨c, hf, first_class s c hf (by simp [hr]) (by unfold balanced at hb; simp [hb])⟩, ?_⟩
      have hq := run_lastNonWs s none q hr
      cases hl : lastNonWs s with
      | none => exact absurd hl (lastNonWs_ne_none s (by simp [hf]))
      | some x =>
        simp only [hl] at hq
        subst hq
        have hx : x ≠ '(' := by
          intro e; subst e
          have := depth_last_opn s 0 0 hb hl
          omega
        have hws : clsOf x ≠ .ws := by
          intro e
          -- the last non-blank character is not blank
          have : ∀ (t : Str) (y : Char), lastNonWs t = some y → isSpace y = false := by
            intro t
            induction t with
            | nil => intro y h; simp [lastNonWs] at h
            | cons a as ih =>
              intro y h
              rw [lastNonWs] at h
              cases ha : lastNonWs as with
              | some z => simp only [ha] at h; exact ih y (by rw [ha, h])
              | none =>
                simp only [ha] at h
                by_cases hs : isSpace a = true
                · simp [hs] at h
                · simp only [hs] at h
                  have : a = y := by simpa using h
                  subst this; simpa using hs
          have h2 := this s x hl
          rw [(clsOf_ws_iff x).mp e] at h2; cases h2
        have hopn : clsOf x ≠ .opn := by
          intro e
          apply hx
          revert e
          unfold clsOf
          by_cases h1 : isSpace x = true <;> by_cases h2 : (x == ',') = true <;>
            by_cases h3 : (x == '(') = true <;> by_cases h4 : (x == ')') = true <;> simp_all
        generalize clsOf x = k at *
        cases k <;> simp_all

/-! ### splicing a value at a whole-tag position -/

theorem run_start' : ∀ (x : Str) (c : Char) (q : Option Cls), firstNonWs x = some c →
    (clsOf c = .opn ∨ clsOf c = .other) → (q = none ∨ q = some .comma ∨ q = some .opn) →
    run q x = run none x
  | [], _, _, h, _, _ => by simp [firstNonWs] at h
  | d :: ds, c, q, h, hc, hq => by
    rw [firstNonWs] at h
    by_cases hs : isSpace d = true
    · rw [if_pos hs] at h
      rw [run, run, if_pos ((clsOf_ws_iff d).mpr hs), if_pos ((clsOf_ws_iff d).mpr hs)]
      exact run_start' ds c q h hc hq
    · rw [if_neg hs] at h
      have : d = c := Option.some.inj h
      subst this
      have hw : clsOf d ≠ .ws := fun e => hs ((clsOf_ws_iff d).mp e)
      rw [run, run, if_neg hw, if_neg hw]
      rcases hc with e | e <;> rw [e] <;> rcases hq with e2 | e2 | e2 <;> subst e2 <;> rfl

theorem chain_first_swap : ∀ (post : Str) (q q' : Option Cls), chain q post = true →
    (firstNonWs post = none → q' ≠ some .comma) →
    (∀ c, firstNonWs post = some c → ok q' (clsOf c) = true) → chain q' post = true
  | [], _, q', _, h1, _ => by simpa [chain_nil] using h1 rfl
  | d :: ds, q, q', h, h1, h2 => by
    by_cases hs : isSpace d = true
    · have hw := (clsOf_ws_iff d).mpr hs
      have e : ∀ r, chain r (d :: ds) = chain r ds := by
        intro r; unfold chain; rw [run, if_pos hw]
      rw [e] at h ⊢
      refine chain_first_swap ds q q' h ?_ ?_
      · intro hn; exact h1 (by rw [firstNonWs, if_pos hs]; exact hn)
      · intro c hc; exact h2 c (by rw [firstNonWs, if_pos hs]; exact hc)
    · have hw : clsOf d ≠ .ws := fun e => hs ((clsOf_ws_iff d).mp e)
      have e : ∀ r, chain r (d :: ds) = (ok r (clsOf d) && chain (some (clsOf d)) ds) := by
        intro r; unfold chain; rw [run, if_neg hw]
        by_cases ho : ok r (clsOf d) = true <;> simp [ho]
      rw [e] at h ⊢
      simp only [Bool.and_eq_true] at h ⊢
      exact ⟨h2 d (by rw [firstNonWs, if_neg hs]), h.2⟩

theorem depth_shift : ∀ (s : Str) (a b k : Nat), depth a s = some b → depth (a + k) s = some (b + k)
  | [], a, b, k, h => by simp [depth] at h ⊢; omega
  | c :: cs, a, b, k, h => by
    rw [depth] at h ⊢
    split
    · rename_i hc
      rw [if_pos hc] at h
      have := depth_shift cs (a + 1) b k h
      rw [show a + k + 1 = a + 1 + k by omega]; exact this
    · rename_i hc
      rw [if_neg hc] at h
      split
      · rename_i hc2
        rw [if_pos hc2] at h
        split at h
        · cases h
        · rename_i ha
          rw [if_neg (by omega)]
          have := depth_shift cs (a - 1) b k h
          rw [show a + k - 1 = a - 1 + k by omega]; exact this
      · rename_i hc2
        rw [if_neg hc2] at h
        exact depth_shift cs a b k h

/-- splicing an item at a whole-tag reference keeps every adjacent pair allowed and the depth profile -/
theorem splice_core (pre ref post v : Str) (href : ∀ c ∈ ref, clsOf c = .other) (hrne : ref ≠ [])
    (hwl : lastNonWs pre = none ∨ lastNonWs pre = some ',' ∨ lastNonWs pre = some '(')
    (hwr : firstNonWs post = none ∨ firstNonWs post = some ',' ∨ firstNonWs post = some ')')
    (hv : itemOk v) (hwf : chain none (pre ++ (ref ++ post)) = true) :
    chain none (pre ++ (v ++ post)) = true := by
  obtain ⟨q, h0, t0⟩ := chain_append_true hwf
  obtain ⟨q3, h3, h⟩ := chain_append_true t0
  obtain ⟨e3, -⟩ := run_other ref href hrne q q3 h3
  subst e3
  have hq : q = none ∨ q = some .comma ∨ q = some .opn := by
    have := run_lastNonWs _ _ _ h0
    rcases hwl with e | e | e <;> rw [e] at this <;> simp [this, clsOf_comma, clsOf_opn]
  obtain ⟨⟨c, hf, hc⟩, hr⟩ := hv
  apply chain_append_intro h0
  have e : run q v = run none v := run_start' v c q hf hc hq
  rcases hr with hk | hk
  all_goals
    apply chain_append_intro (e.trans hk)
    refine chain_first_swap post _ _ h ?_ ?_
    · intro _; simp
    · intro d hd
      rcases hwr with e2 | e2 | e2 <;> rw [hd] at e2
      · cases e2
      · have : d = ',' := Option.some.inj e2
        subst this; rw [clsOf_comma]; rfl
      · have : d = ')' := Option.some.inj e2
        subst this; rw [clsOf_cls]; rfl

theorem splice_depth (pre ref post v : Str) (href : ∀ c ∈ ref, clsOf c = .other)
    (hv : depth 0 v = some 0) (d0 e : Nat) (h : depth d0 (pre ++ (ref ++ post)) = some e) :
    depth d0 (pre ++ (v ++ post)) = some e := by
  rw [depth_append] at h ⊢
  cases hp : depth d0 pre with
  | none => simp [hp] at h
  | some d =>
    simp only [hp, Option.bind_some] at h ⊢
    rw [depth_append, depth_noparen ref d (fun c hc => other_noparen c (href c hc)), Option.bind_some] at h
    have := depth_shift v 0 0 d hv
    simp only [Nat.zero_add] at this
    rw [depth_append, this, Option.bind_some]
    exact h

/-! ### no new occurrence of another reference -/

theorem refChar_facts (c : Char) (h : isRefChar c = true) :
    clsOf c = .other ∧ c ≠ '{' ∧ c ≠ '}' := by
  have hne : ∀ x : Char, isRefChar x = false → c ≠ x := by
    intro x hx e; subst e; rw [h] at hx; cases hx
  have hs : isSpace c = false := by
    cases hh : isSpace c
    · rfl
    · exfalso
      simp only [isSpace, Bool.or_eq_true, beq_iff_eq] at hh
      rcases hh with ((((((((e | e) | e) | e) | e) | e) | e) | e) | e) | e <;>
        exact hne _ (by decide) e
  refine ⟨?_, hne _ (by decide), hne _ (by decide)⟩
  have h1 := hne ',' (by decide)
  have h2 := hne '(' (by decide)
  have h3 := hne ')' (by decide)
  simp [clsOf, hs, h1, h2, h3]

theorem splitFirst_skip (rest : Str) : ∀ (xs Y : Str), '{' ∉ xs →
    splitFirst ('{' :: rest) (xs ++ Y) =
      (splitFirst ('{' :: rest) Y).map (fun p => (xs ++ p.1, p.2))
  | [], Y, _ => by
    simp only [List.nil_append]
    cases splitFirst ('{' :: rest) Y with
    | none => rfl
    | some v => cases v; rfl
  | c :: cs, Y, h => by
    have hc : c ≠ '{' := fun e => h (by simp [e])
    have ih := splitFirst_skip rest cs Y (fun e => h (by simp [e]))
    have hp : List.isPrefixOf ('{' :: rest) (c :: (cs ++ Y)) = false := by
      simp [List.isPrefixOf, Ne.symm hc]
    rw [List.cons_append, splitFirst, hp, ih]
    cases splitFirst ('{' :: rest) Y <;> simp

theorem splitFirst_noBrace (rest : Str) (xs : Str) (h : '{' ∉ xs) :
    splitFirst ('{' :: rest) xs = none := by
  have := splitFirst_skip rest xs [] h
  simpa [splitFirst] using this

/-- an occurrence in `A ++ C` lies in `A`, lies in `C`, or straddles the junction -/
theorem splitFirst_append_none (R A C : Str) (hR : R ≠ [])
    (hA : splitFirst R A = none) (hC : splitFirst R C = none)
    (hb : ∀ a' m, a' ≠ [] → m ≠ [] → R = a' ++ m → a' <:+ A → m <+: C → False) :
    splitFirst R (A ++ C) = none := by
  rw [splitFirst_none_iff R hR] at hA hC ⊢
  rintro ⟨X, Y, e⟩
  rw [List.append_assoc] at e
  rcases List.append_eq_append_iff.mp e with ⟨a', e1, e2⟩ | ⟨c', e1, e2⟩
  · -- A = X ++ a', R ++ Y = a' ++ C
    rcases List.append_eq_append_iff.mp e2 with ⟨m, e3, e4⟩ | ⟨m, e3, e4⟩
    · -- a' = R ++ m
      exact hA ⟨X, m, by rw [e1, e3, List.append_assoc]⟩
    · -- R = a' ++ m, C = m ++ Y
      by_cases ha : a' = []
      · subst ha
        exact hC ⟨[], Y, by simp [e4, e3]⟩
      · by_cases hm : m = []
        · subst hm
          exact hA ⟨X, [], by simp [e1, e3]⟩
        · exact hb a' m ha hm e3 ⟨X, e1.symm⟩ ⟨Y, e4.symm⟩
  · exact hC ⟨c', Y, by rw [e2, List.append_assoc]⟩

theorem splitFirst_none_left (R A C : Str) (hR : R ≠ []) (h : splitFirst R (A ++ C) = none) :
    splitFirst R A = none := by
  rw [splitFirst_none_iff R hR] at h ⊢
  rintro ⟨X, Y, e⟩
  exact h ⟨X, Y ++ C, by rw [← e]; simp⟩

theorem splitFirst_none_right (R A C : Str) (hR : R ≠ []) (h : splitFirst R (A ++ C) = none) :
    splitFirst R C = none := by
  rw [splitFirst_none_iff R hR] at h ⊢
  rintro ⟨X, Y, e⟩
  exact h ⟨A ++ X, Y, by rw [← e]; simp⟩

/-- a proper, non-empty prefix of `{name}` ends in `{` or a name character; the rest begins with a
name character or `}` -/
theorem mkRef_split (name a' m : Str) (ha : a' ≠ []) (hm : m ≠ []) (e : mkRef name = a' ++ m) :
    (∀ x, a'.getLast? = some x → x = '{' ∨ x ∈ name) ∧ (∀ x, m.head? = some x → x ∈ name ∨ x = '}') := by
  unfold mkRef at e
  cases a' with
  | nil => exact absurd rfl ha
  | cons a as =>
    simp only [List.cons_append, List.cons.injEq] at e
    obtain ⟨e0, e1⟩ := e
    -- name ++ ['}'] = as ++ m
    rcases List.append_eq_append_iff.mp e1 with ⟨k, e2, e3⟩ | ⟨k, e2, e3⟩
    · -- as = name ++ k, ['}'] = k ++ m
      have hk : k = [] := by
        cases k with
        | nil => rfl
        | cons y ys =>
          simp only [List.cons_append, List.cons.injEq] at e3
          have := e3.2
          have : m = [] := by
            have h2 := congrArg List.length this
            simp at h2
            exact List.length_eq_zero_iff.mp (by omega)
          exact absurd this hm
      subst hk
      simp only [List.append_nil, List.nil_append] at e2 e3
      subst e3
      rw [← e2]
      constructor
      · intro x hx
        cases as with
        | nil => simp at hx; left; rw [← hx, e0]
        | cons n ns =>
          right
          rw [List.getLast?_cons_cons] at hx
          exact List.mem_of_getLast? hx
      · intro x hx; right; simpa using hx.symm
    · -- name = as ++ k, m = k ++ ['}']
      subst e2 e3
      constructor
      · intro x hx
        cases as with
        | nil => simp at hx; left; rw [← hx, e0]
        | cons n ns =>
          right
          rw [List.getLast?_cons_cons] at hx
          exact List.mem_append_left _ (List.mem_of_getLast? hx)
      · intro x hx
        cases k with
        | nil => right; simpa using hx.symm
        | cons y ys =>
          left
          simp only [List.cons_append, List.head?_cons, Option.some.injEq] at hx
          subst hx; simp

theorem suffix_getLast (a' A : Str) (ha : a' ≠ []) (h : a' <:+ A) : a'.getLast? = A.getLast? := by
  obtain ⟨X, e⟩ := h
  rw [← e, List.getLast?_append]
  cases h : a'.getLast? with
  | none => exact absurd (List.getLast?_eq_none_iff.mp h) ha
  | some x => rfl

theorem prefix_head (m C : Str) (hm : m ≠ []) (h : m <+: C) : m.head? = C.head? := by
  obtain ⟨Y, e⟩ := h
  cases m with
  | nil => exact absurd rfl hm
  | cons x xs => rw [← e]; rfl

theorem clsOf_opn_iff (c : Char) (h : clsOf c = .opn) : c = '(' := by
  revert h; unfold clsOf
  by_cases h1 : isSpace c = true <;> by_cases h2 : (c == ',') = true <;>
    by_cases h3 : (c == '(') = true <;> by_cases h4 : (c == ')') = true <;> simp_all

theorem clsOf_cls_iff (c : Char) (h : clsOf c = .cls) : c = ')' := by
  revert h; unfold clsOf
  by_cases h1 : isSpace c = true <;> by_cases h2 : (c == ',') = true <;>
    by_cases h3 : (c == '(') = true <;> by_cases h4 : (c == ')') = true <;> simp_all

/-- what stands at the junction when the remover emits nothing, and: the result is empty or not blank -/
theorem remove_extra (U c1 p1 ref p2 c2 W : Str)
    (hc1 : ∀ c ∈ c1, isC c = true) (hp1 : ∀ c ∈ p1, isP1 c = true)
    (hp2 : ∀ c ∈ p2, isP2 c = true) (hc2 : ∀ c ∈ c2, isC c = true)
    (href : ∀ c ∈ ref, clsOf c = .other) (hrne : ref ≠ [])
    (hU : U = [] ∨ ∃ us c, U = us ++ [c] ∧ isC c = false)
    (hW : W = [] ∨ ∃ c cs, W = c :: cs ∧ isC c = false)
    (hwl : lastNonWs (U ++ (c1 ++ p1)) = none ∨ lastNonWs (U ++ (c1 ++ p1)) = some ',' ∨
           lastNonWs (U ++ (c1 ++ p1)) = some '(')
    (hwr : firstNonWs (p2 ++ (c2 ++ W)) = none ∨ firstNonWs (p2 ++ (c2 ++ W)) = some ',' ∨
           firstNonWs (p2 ++ (c2 ++ W)) = some ')')
    (hwf : chain none (U ++ (c1 ++ (p1 ++ (ref ++ (p2 ++ (c2 ++ W)))))) = true) :
    ((∃ x ∈ removerOut true ⟨U, c1, p1, p2, c2, W⟩, clsOf x ≠ .ws) ∨ U = [] ∨ (∃ us, U = us ++ ['(']) ∨ W = [] ∨
      (∃ cs, W = ')' :: cs)) ∧
    (U ++ (removerOut true ⟨U, c1, p1, p2, c2, W⟩ ++ W) = [] ∨
      ∃ c ∈ U ++ (removerOut true ⟨U, c1, p1, p2, c2, W⟩ ++ W), clsOf c ≠ .ws) := by
  obtain ⟨q0, h0, t0⟩ := chain_append_true hwf
  obtain ⟨q1, h1, t1⟩ := chain_append_true t0
  obtain ⟨q2, h2, t2⟩ := chain_append_true t1
  obtain ⟨q3, h3, t3⟩ := chain_append_true t2
  obtain ⟨q4, h4, t4⟩ := chain_append_true t3
  obtain ⟨q5, h5, h⟩ := chain_append_true t4
  clear t0 t1 t2 t3 t4
  have f1 := run_isC c1 hc1 q0 q1 h1
  have f2 := run_isP1 p1 hp1 q1 q2 h2
  obtain ⟨e3, -⟩ := run_other ref href hrne q2 q3 h3
  subst e3
  have f4 := run_isP2 p2 hp2 _ q4 h4
  have f5 := run_isC c2 hc2 q4 q5 h5
  have fl : q2 = none ∨ q2 = some .comma ∨ q2 = some .opn := by
    have hr : run none (U ++ (c1 ++ p1)) = some q2 := by
      rw [run_append, h0, Option.bind_some, run_append, h1, Option.bind_some, h2]
    have := run_lastNonWs _ _ _ hr
    rcases hwl with e | e | e <;> rw [e] at this <;> simp [this, clsOf_comma, clsOf_opn]
  simp only [removerOut]
  by_cases hab : p1.count '(' > p2.count ')'
  · simp only [hab, if_true]
    have hne : c1 ++ List.replicate (p1.count '(' - p2.count ')') '(' ≠ [] := by
      intro e
      have := congrArg List.length e
      simp at this; omega
    have hmem : '(' ∈ c1 ++ List.replicate (p1.count '(' - p2.count ')') '(' := by
      simp only [List.mem_append, List.mem_replicate]
      exact Or.inr ⟨by omega, trivial⟩
    exact ⟨Or.inl ⟨'(', hmem, by rw [clsOf_opn]; simp⟩,
      Or.inr ⟨'(', List.mem_append_right _ (List.mem_append_left _ hmem), by rw [clsOf_opn]; simp⟩⟩
  · by_cases hba : p2.count ')' > p1.count '('
    · simp only [hab, hba, if_true, if_false]
      have hne : List.replicate (p2.count ')' - p1.count '(') ')' ++ c2 ≠ [] := by
        intro e
        have := congrArg List.length e
        simp at this; omega
      have hmem : ')' ∈ List.replicate (p2.count ')' - p1.count '(') ')' ++ c2 := by
        simp only [List.mem_append, List.mem_replicate]
        exact Or.inl ⟨by omega, trivial⟩
      exact ⟨Or.inl ⟨')', hmem, by rw [clsOf_cls]; simp⟩,
        Or.inr ⟨')', List.mem_append_right _ (List.mem_append_left _ hmem), by rw [clsOf_cls]; simp⟩⟩
    · simp only [hab, hba, if_false]
      by_cases hcm : ',' ∈ c1
      · simp only [List.contains_iff_mem, hcm, if_true]
        have hq0' : q0 = some .cls ∨ q0 = some .other := by
          rcases f1 with ⟨_, hn⟩ | ⟨_, _, e⟩
          · exact absurd hcm hn
          · exact e
        have hUne : ∃ us c, U = us ++ [c] ∧ isC c = false := by
          rcases hU with e | e
          · subst e
            simp only [run] at h0
            have : q0 = none := (Option.some.inj h0).symm
            rcases hq0' with e2 | e2 <;> rw [this] at e2 <;> cases e2
          · exact e
        obtain ⟨us, cu, eU, hcu⟩ := hUne
        refine ⟨?_, Or.inr ⟨cu, by simp [eU], (notC_cls cu hcu).1⟩⟩
        by_cases hc2in : ',' ∈ c2
        · exact Or.inl ⟨',', hc2in, by rw [clsOf_comma]; simp⟩
        · right; right; right
          have hc2m : ',' ∉ c2 := hc2in
          rcases hW with e | ⟨c, cs, e, hc⟩
          · exact Or.inl e
          · right
            have e5 : q5 = q4 := by
              rcases f5 with ⟨e', _⟩ | ⟨_, hm, _⟩
              · exact e'
              · exact absurd hm hc2m
            subst e5 e
            rw [chain_cons_nonC _ _ _ hc] at h
            simp only [Bool.and_eq_true] at h
            have hcls : clsOf c = .cls := by
              by_cases hb : ')' ∈ p2
              · have e4 : q5 = some .cls := by
                  rcases f4 with ⟨_, hn⟩ | ⟨e', _, _⟩
                  · exact absurd hb hn
                  · exact e'
                have h1' := h.1
                rw [e4] at h1'
                have := notC_cls c hc
                generalize clsOf c = x at *
                cases x <;> simp_all [ok]
              · have hs : isSpace c = false := by
                  simp only [isC, Bool.or_eq_false_iff] at hc; exact hc.1
                have hf : firstNonWs (p2 ++ (c2 ++ c :: cs)) = some c := by
                  rw [firstNonWs_ws_append _ _ (isP2_noCls_ws p2 hp2 hb),
                    firstNonWs_ws_append _ _ (isC_noComma_ws c2 hc2 hc2m)]
                  simp [firstNonWs, hs]
                rw [hf] at hwr
                rcases hwr with e' | e' | e'
                · cases e'
                · have : c = ',' := Option.some.inj e'
                  subst this; simp [isC] at hc
                · have : c = ')' := Option.some.inj e'
                  subst this; exact clsOf_cls
            exact ⟨cs, by rw [clsOf_cls_iff c hcls]⟩
      · have hcm' : c1.contains ',' = false := by
          simpa [List.contains_iff_mem] using hcm
        simp only [hcm', if_false, Bool.false_eq_true]
        have e1 : q1 = q0 := by
          rcases f1 with ⟨e, _⟩ | ⟨_, hm, _⟩
          · exact e
          · exact absurd hm hcm
        subst e1
        have h3' : q1 = none ∨ q1 = some .comma ∨ q1 = some .opn := by
          rcases f2 with ⟨e, _⟩ | ⟨_, _, ho⟩
          · rw [← e]; exact fl
          · rcases q1 with _ | (_|_|_|_|_) <;> simp_all [ok]
        constructor
        · right
          rcases hU with e | ⟨us, c, e, hc⟩
          · exact Or.inl e
          · right; left
            subst e
            have hq := run_snoc_state us c none q1 h0 (notC_cls c hc).1
            have hn := notC_cls c hc
            rcases h3' with e' | e' | e'
            · rw [e'] at hq; cases hq
            · rw [e'] at hq; exact absurd (Option.some.inj hq).symm hn.2
            · rw [e'] at hq
              exact ⟨us, by rw [clsOf_opn_iff c (Option.some.inj hq).symm]⟩
        · rcases hU with e | ⟨us, c, e, hc⟩
          · rcases hW with e' | ⟨c, cs, e', hc⟩
            · left; simp [e, e']
            · right; exact ⟨c, by simp [e'], (notC_cls c hc).1⟩
          · right; exact ⟨c, by simp [e], (notC_cls c hc).1⟩

end HedVerif.Assemble

namespace HedVerif.C06
open HedVerif.Assemble

/-- The transformer columns come in code-point order of their names (`dict(sorted(final_map.items()))`),
whatever the column order of the file. -/
theorem columns_sorted (sc : Sidecar) (header : List Str) :
    (activeCols sc header).Pairwise (fun a b => a.name ≤ b.name) :=
  sortCols_sorted _

/-- …and they are exactly the file's columns for which the sidecar (or the name `HED`) gives a
transformer; none is lost or duplicated by the sort. -/
theorem columns_complete (sc : Sidecar) (header : List Str) :
    (∀ c, c ∈ activeCols sc header ↔ c.name ∈ header ∧ trOf sc c.name = some c.tr) ∧
    (activeCols sc header).length = (header.filter fun n => (trOf sc n).isSome).length := by
  constructor
  · intro c
    unfold activeCols fileCols
    rw [mem_sortCols, List.mem_filterMap]
    constructor
    · rintro ⟨n, hn, h⟩
      cases ht : trOf sc n with
      | none => simp [ht] at h
      | some t => simp [ht] at h; subst h; exact ⟨hn, ht⟩
    · rintro ⟨hn, ht⟩
      exact ⟨c.name, hn, by simp [ht]⟩
  · unfold activeCols fileCols
    rw [length_sortCols]
    induction header with
    | nil => rfl
    | cons n ns ih =>
      cases ht : trOf sc n <;> simp [ht, ih]

/-- What each kind of column contributes (`_detect_column_type`, `get_transformers`, the handlers):
the HED column and untyped entries pass the cell through; a categorical column gives the entry of the
cell, nothing for an unknown key; a value column gives `n/a` for an `n/a` or empty cell and otherwise
the template with every `#` replaced by the cell; ignored entries give no column at all. -/
theorem transform_spec (sc : Sidecar) (e : J) (x : Str) :
    trOf sc HEDNAME = some .ident ∧
    (kind e = .ignore → trOfEntry e = none) ∧
    (kind e = .categorical → trOfEntry e = some (.cat (hedObj e))) ∧
    (kind e = .value → trOfEntry e = some (.value (hedStr e))) ∧
    (kind e = .unknown → trOfEntry e = some .ident) ∧
    applyTr .ident x = x ∧
    (∀ es, applyTr (.cat es) x = match es.lookup x with | some v => v | none => []) ∧
    (∀ t, applyTr (.value t) x = if x = NA ∨ x = [] then NA else t.flatMap fun c => if c == '#' then x else [c]) := by
  refine ⟨by simp [trOf], ?_, ?_, ?_, ?_, rfl, ?_, ?_⟩
  · intro h; simp [trOfEntry, h]
  · intro h; simp [trOfEntry, h]
  · intro h; simp [trOfEntry, h]
  · intro h; simp [trOfEntry, h]
  · intro es; simp only [applyTr, categoryHandler]; cases es.lookup x <;> rfl
  · intro t; simp [applyTr, valueHandler, isMissing, substPound]

/-- Without references the annotation of a row is the `", "`-join, in column-name order, of each
transformer column's contribution, skipping empty and `n/a` ones. -/
theorem row_spec (sc : Sidecar) (header r : List Str) :
    row [] sc header r =
      SEP.intercalate (((activeCols sc header).map fun c => applyTr c.tr (cellOf header r c.name)).filter
        fun e => !e.isEmpty && e != NA) := by
  have hk : keep = fun (e : Str) => !e.isEmpty && e != NA := rfl
  have hf : ∀ (l : List (Str × Str)), l.filter (fun _ => true) = l := fun l =>
    List.filter_eq_self.mpr (by simp)
  simp [row, assembled, liveRefs, transformed, spliceAll, joinRow, Function.comp_def, ← hk, hf]

/-- A referenced column is not listed separately: the assembled row has exactly the transformer columns
that are not (live) references, in the same order, each with every live reference spliced into its text. -/
theorem splice (refs : List Str) (tr : List (Str × Str)) :
    (assembled refs tr).map (·.1) = (tr.map (·.1)).filter (fun n => !(liveRefs refs tr).contains n) ∧
    (∀ r, r ∈ liveRefs refs tr ↔ r ∈ refs ∧ ∃ p ∈ tr, p.1 = r) ∧
    (∀ p ∈ assembled refs tr, p.1 ∉ liveRefs refs tr ∧
        ∃ q ∈ tr, q.1 = p.1 ∧ p.2 = spliceAll (liveRefs refs tr) tr q.2) ∧
    (∀ q ∈ tr, q.1 ∉ liveRefs refs tr → (q.1, spliceAll (liveRefs refs tr) tr q.2) ∈ assembled refs tr) := by
  refine ⟨?_, ?_, ?_, ?_⟩
  · simp [assembled, List.map_map, Function.comp_def, List.filter_map]
  · intro r
    simp [liveRefs, List.mem_filter]
  · intro p hp
    simp only [assembled, List.mem_map, List.mem_filter] at hp
    obtain ⟨q, ⟨hq, hn⟩, rfl⟩ := hp
    refine ⟨by simpa using hn, q, hq, rfl, rfl⟩
  · intro q hq hn
    simp only [assembled, List.mem_map, List.mem_filter]
    exact ⟨q, ⟨hq, by simpa using hn⟩, rfl⟩

/-- …and its text appears exactly at its references: at the first occurrence the value stands in place
of `{name}`, the text before it is untouched and the rest is treated the same way. -/
theorem splice_at (t name v pre post : Str) (hv : v ≠ []) (hna : v ≠ NA)
    (hs : splitFirst (mkRef name) t = some (pre, post)) :
    t = pre ++ mkRef name ++ post ∧ replaceRef t name v = pre ++ v ++ replaceRef post name v := by
  refine ⟨splitFirst_eq _ _ _ _ hs, ?_⟩
  have hf : ∀ a b : Str, (replaceF v a b).2.length ≤ b.length := fun a b => Nat.le_refl _
  simp only [replaceRef, hv, hna, or_self, if_false]
  rw [sub_step _ _ (mkRef_ne name) hf t pre post hs]
  rfl

/-- A text without the reference is left as it is, whatever the value. -/
theorem splice_absent (t name v : Str) (hs : splitFirst (mkRef name) t = none) :
    replaceRef t name v = t := by
  unfold replaceRef
  split <;> exact subF_none _ _ _ _ hs

/-- One output per row, in row order. -/
theorem length_order (sc : Sidecar) (t : Table) :
    (series sc t).length = t.rows.length ∧
    ∀ i : Nat, (series sc t)[i]? = (t.rows[i]?).map (row (refsOf sc) sc t.header) := by
  simp [series, seriesWith]

/-- `series` is a function of (sidecar, table): every call on the same object returns the same list,
and the object (table and sidecar) is returned unchanged. -/
theorem deterministic_pure (x : Input) (n : Nat) :
    (call x).2 = x ∧ (calls n x).2 = x ∧ (calls n x).1.length = n ∧
    ∀ a ∈ (calls n x).1, a = series x.sidecar x.table := by
  refine ⟨rfl, ?_⟩
  induction n with
  | zero => simp [calls]
  | succ k ih =>
    obtain ⟨h1, h2, h3⟩ := ih
    simp only [calls, call] at *
    refine ⟨h1, by simp [h2], ?_⟩
    intro a ha
    rcases List.mem_cons.mp ha with rfl | ha
    · rfl
    · exact h3 a ha


/-- The delimiter checker (its loop with `current_tag` and `last_non_empty_valid_character`) accepts a
string exactly when every non-blank character may follow the previous non-blank one (`ok`: no comma at
the start, after a comma or after `(`; `(` only at the start, after a comma or `(`; no `)` after a comma;
no tag character after `)`) and the string does not end with a comma. -/
theorem delimOk_iff_chain (s : Str) : delimOk s = chain none s := delimOk_eq_chain s

instance (pre post : Str) : Decidable (wholeTag pre post) := by unfold wholeTag; infer_instance

/-- **n/a clean-up keeps the string delimiter-well-formed** (code with `fixes/C06_replace_ref.diff`).
Let `{name}` occur once in `t` (`pre`, `post` = the text before and after it), as a whole tag, and let
`t` pass the delimiter checker.  When the referenced cell is `n/a` *or empty* (a categorical column
with an `n/a`/unknown key gives the empty string), `replace_ref` returns the text before the match,
the remover's output and the text after the match, and that string passes the delimiter checker —
whatever the blanks, commas and parentheses around the reference, and whatever the reference name
(digits-only names included).  `_partial`: a reference occurring twice is not covered, see
`na_wellformed_counterexample`. -/
theorem na_wellformed_partial (t name v pre post : Str)
    (hv : v = [] ∨ v = NA) (hname : ∀ c ∈ name, clsOf c = .other)
    (hs : splitFirst (mkRef name) t = some (pre, post))
    (hone : splitFirst (mkRef name) post = none)
    (hwf : delimOk t = true) (hwhole : wholeTag pre post) :
    replaceRef t name v =
      (groups pre post).u ++ (removerOut true (groups pre post) ++ (groups pre post).w) ∧
    delimOk (replaceRef t name v) = true := by
  have hne := mkRef_ne name
  have hf : ∀ a b : Str, (removeF true a b).2.length ≤ b.length := by
    intro a b
    show ((b.dropWhile isP2).dropWhile isC).length ≤ b.length
    exact Nat.le_trans (List.dropWhile_sublist _).length_le (List.dropWhile_sublist _).length_le
  have hw0 : splitFirst (mkRef name) (groups pre post).w = none :=
    splitFirst_dropWhile _ _ _ (splitFirst_dropWhile _ _ _ hone)
  have hrep : replaceRef t name v =
      (groups pre post).u ++ (removerOut true (groups pre post) ++ (groups pre post).w) := by
    unfold replaceRef
    rw [if_pos hv, sub_step _ _ hne hf t pre post hs]
    show ((groups pre post).u ++ removerOut true (groups pre post)) ++ subF _ _ _ (groups pre post).w = _
    rw [subF_none _ _ _ _ hw0, List.append_assoc]
  refine ⟨hrep, ?_⟩
  rw [hrep, delimOk_eq_chain]
  have ht := splitFirst_eq _ _ _ _ hs
  obtain ⟨e1, e2, hc1, hp1, hp2, hc2, hU, hW⟩ := groups_spec pre post
  generalize groups pre post = g at *
  have href : ∀ c ∈ mkRef name, clsOf c = .other := by
    intro c hc
    simp only [mkRef, List.mem_cons, List.mem_append, List.not_mem_nil, or_false] at hc
    rcases hc with rfl | h | rfl
    · decide
    · exact hname c h
    · decide
  rw [delimOk_eq_chain, ht, e1, e2] at hwf
  simp only [List.append_assoc] at hwf
  have hwl := hwhole.1
  have hwr := hwhole.2
  rw [e1] at hwl
  rw [e2] at hwr
  exact remove_core g.u g.c1 g.p1 (mkRef name) g.p2 g.c2 g.w hc1 hp1 hp2 hc2 href hne hU hW hwl hwr hwf

/-- the hypotheses of `na_wellformed_partial` are satisfiable: `(Red, ({c})), Blue` with `c` absent
becomes `(Red), Blue` -/
example : replaceRef "(Red, ({c})), Blue".toList ['c'] [] = "(Red), Blue".toList := by decide +kernel

example : ∃ pre post, splitFirst (mkRef ['c']) "(Red, ({c})), Blue".toList = some (pre, post) ∧
    splitFirst (mkRef ['c']) post = none ∧ delimOk "(Red, ({c})), Blue".toList = true ∧ wholeTag pre post :=
  ⟨"(Red, (".toList, ")), Blue".toList, by decide +kernel⟩

/-- Not covered by the fix: the **same** reference twice with only delimiters between the two
occurrences.  `re.sub` does not rescan: the first match consumes the comma the second one would have
to drop.  `R,{c},{c}` is well-formed, both references are whole tags, and the result is `R,`. -/
theorem na_wellformed_counterexample :
    delimOk "R,{c},{c}".toList = true ∧ replaceRef "R,{c},{c}".toList ['c'] NA = "R,".toList ∧
    delimOk "R,".toList = false := by decide +kernel

/-- Unchanged code, defect 1 (design probe #4): an empty replacement (categorical cell `n/a` or an
unknown key) is spliced as text, so `{c}, Square` becomes `, Square`, which the delimiter checker
rejects; the fixed code gives `Square`. -/
theorem old_empty_value_counterexample :
    replaceRefOld "{c}, Square".toList ['c'] [] = ", Square".toList ∧
    delimOk ", Square".toList = false ∧
    replaceRef "{c}, Square".toList ['c'] [] = "Square".toList := by decide +kernel

/-- Unchanged code, defect 2: `c1` made of blanks only counts as "a comma before the reference", so a
blank in front of a leading reference makes the remover keep the comma after it. -/
theorem old_leading_blank_counterexample :
    delimOk " {c},R".toList = true ∧ wholeTag [' '] ",R".toList ∧
    replaceRefOld " {c},R".toList ['c'] NA = ",R".toList ∧ delimOk ",R".toList = false ∧
    replaceRef " {c},R".toList ['c'] NA = "R".toList := by decide +kernel

/-- Unchanged code, defect 3 (design probe #19): the reference is spliced into the pattern unescaped,
so `{1}` is a quantifier: the reference is never matched, every separator is, and `{0}` makes the group
`p1` not participate (`AttributeError`).  The fixed code treats the name as text. -/
theorem old_numeric_name_counterexample :
    replaceRefOldNumeric "Red, {1}, Blue".toList 1 = some "Red{1}Blue".toList ∧
    replaceRefOldNumeric "{0}".toList 0 = none ∧
    replaceRef "Red, {1}, Blue".toList ['1'] NA = "Red, Blue".toList := by decide +kernel

/-- Unchanged code, defect 4: a value column's empty cell is not skipped: `Label/#` gives `Label/`,
which is kept in the row; the fixed handler returns `n/a`, which `combine_dataframe` skips. -/
theorem old_value_empty_cell_counterexample :
    valueHandlerOld "Label/#".toList [] = "Label/".toList ∧ keep "Label/".toList = true ∧
    applyTr (.value "Label/#".toList) [] = NA ∧ keep NA = false := by decide +kernel


/-- The `", "`-join of a row is delimiter-well-formed as soon as every kept item (non-empty, not `n/a`)
can stand between commas (`itemOk`: accepted by the checker, begins with `(` or a tag character and ends
with `)` or a tag character).  Together with `na_wellformed_partial` (an item whose reference vanished
is again accepted) this is the row-level reading of "the result is always delimiter-well-formed". -/
theorem join_wellformed (items : List Str) (h : ∀ x ∈ items, keep x = true → itemOk x) :
    delimOk (joinRow items) = true := by
  rw [delimOk_eq_chain]
  unfold joinRow chain
  by_cases hl : items.filter keep = []
  · rw [hl]; rfl
  · have := join_run (items.filter keep) hl
      (fun x hx => h x (List.mem_filter.mp hx).1 (List.mem_filter.mp hx).2) none (Or.inl rfl)
    rcases this with e | e <;> rw [e] <;> rfl

example : itemOk "(Red, Blue)".toList ∧ itemOk "Label/3".toList ∧ ¬ itemOk "(".toList :=
  ⟨⟨⟨'(', by decide +kernel⟩, by decide +kernel⟩, ⟨⟨'L', by decide +kernel⟩, by decide +kernel⟩,
   fun h => by rcases h.2 with e | e <;> revert e <;> decide +kernel⟩


/-- **The n/a clean-up keeps parentheses balanced.**  For a reference occurring once (no hypothesis on
commas or on the reference standing as a whole tag), value `n/a` or empty: if the text has balanced
parentheses (running depth never negative, zero at the end) so has the result — the remover emits
`p1 - p2` openers or `p2 - p1` closers, exactly the surplus of what the match consumed. -/
theorem remover_keeps_balance (t name v pre post : Str)
    (hv : v = [] ∨ v = NA) (hname : ∀ c ∈ name, clsOf c = .other)
    (hs : splitFirst (mkRef name) t = some (pre, post))
    (hone : splitFirst (mkRef name) post = none)
    (hb : balanced t) : balanced (replaceRef t name v) := by
  have hne := mkRef_ne name
  have hf : ∀ a b : Str, (removeF true a b).2.length ≤ b.length := by
    intro a b
    show ((b.dropWhile isP2).dropWhile isC).length ≤ b.length
    exact Nat.le_trans (List.dropWhile_sublist _).length_le (List.dropWhile_sublist _).length_le
  have hw0 : splitFirst (mkRef name) (groups pre post).w = none :=
    splitFirst_dropWhile _ _ _ (splitFirst_dropWhile _ _ _ hone)
  have hrep : replaceRef t name v =
      (groups pre post).u ++ (removerOut true (groups pre post) ++ (groups pre post).w) := by
    unfold replaceRef
    rw [if_pos hv, sub_step _ _ hne hf t pre post hs]
    show ((groups pre post).u ++ removerOut true (groups pre post)) ++ subF _ _ _ (groups pre post).w = _
    rw [subF_none _ _ _ _ hw0, List.append_assoc]
  unfold balanced at hb ⊢
  rw [hrep]
  have ht := splitFirst_eq _ _ _ _ hs
  obtain ⟨e1, e2, hc1, hp1, hp2, hc2, -, -⟩ := groups_spec pre post
  generalize groups pre post = g at *
  have href : ∀ c ∈ mkRef name, clsOf c = .other := by
    intro c hc
    simp only [mkRef, List.mem_cons, List.mem_append, List.not_mem_nil, or_false] at hc
    rcases hc with rfl | h | rfl
    · decide
    · exact hname c h
    · decide
  rw [ht, e1, e2] at hb
  simp only [List.append_assoc] at hb
  exact remove_depth true g.u g.c1 g.p1 (mkRef name) g.p2 g.c2 g.w hc1 hp1 hp2 hc2 href 0 0 hb

/-- the seeded change "emit `p1.strip()` instead of the surplus" is what this excludes:
`(({c}), Red)` with `c` absent is `(Red)`, not `((Red)` -/
example : replaceRef "(({c}), Red)".toList ['c'] NA = "(Red)".toList ∧ balanced "(Red)".toList ∧
    ¬ balanced "((Red)".toList := by decide +kernel


/-- **File-order independence.**  Permuting the columns of the file (header and every row alike, so
that each named cell is the same) changes neither the transformer columns nor any assembled row. -/
theorem file_order_independent (refs : List Str) (sc : Sidecar) (header header' r r' : List Str)
    (hp : header'.Perm header) (hcell : ∀ n, cellOf header' r' n = cellOf header r n) :
    activeCols sc header' = activeCols sc header ∧ row refs sc header' r' = row refs sc header r := by
  have h := activeCols_perm sc header header' hp
  refine ⟨h, ?_⟩
  unfold row transformed
  rw [h]
  simp only [hcell]

/-- …hence the whole series, for tables with the same rows under a column permutation. -/
theorem series_file_order_independent (sc : Sidecar) (t t' : Table)
    (hp : t'.header.Perm t.header) (hlen : t'.rows.length = t.rows.length)
    (hcell : ∀ (i : Nat) (n : Str), cellOf t'.header (t'.rows[i]?.getD []) n = cellOf t.header (t.rows[i]?.getD []) n) :
    series sc t' = series sc t := by
  unfold series seriesWith
  apply List.ext_getElem?
  intro i
  simp only [List.getElem?_map]
  by_cases hi : i < t.rows.length
  · have hi' : i < t'.rows.length := by omega
    have e := (file_order_independent (refsOf sc) sc t.header t'.header (t.rows[i]?.getD [])
      (t'.rows[i]?.getD []) hp (hcell i)).2
    simp only [List.getElem?_eq_getElem hi, List.getElem?_eq_getElem hi', Option.getD_some,
      Option.map_some] at e ⊢
    rw [e]
  · have hi' : ¬ i < t'.rows.length := by omega
    simp [List.getElem?_eq_none (Nat.le_of_not_lt hi), List.getElem?_eq_none (Nat.le_of_not_lt hi')]

example : series [(['c'], .obj [(HEDNAME, .obj [(['k'], .str "Red".toList)])])]
      ⟨[['c'], HEDNAME], [[['k'], "Blue".toList]]⟩ =
    series [(['c'], .obj [(HEDNAME, .obj [(['k'], .str "Red".toList)])])]
      ⟨[HEDNAME, ['c']], [["Blue".toList, ['k']]]⟩ := by decide +kernel

/-- **Reference detection** (`Sidecar.get_column_refs`, regex `\{([a-z_\-0-9]+)\}` with IGNORECASE):
a non-empty name over `[A-Za-z0-9_-]` standing between braces anywhere in a string is found. -/
theorem findRefs_finds (pre name post : Str) (hne : name ≠ []) (hn : ∀ c ∈ name, isRefChar c = true) :
    name ∈ findRefs (pre ++ mkRef name ++ post) := by
  induction pre with
  | nil =>
    have e : mkRef name ++ post = '{' :: (name ++ '}' :: post) := by simp [mkRef]
    rw [List.nil_append, e, findRefs]
    have h1 : (name ++ '}' :: post).takeWhile isRefChar = name := by
      rw [List.takeWhile_append_of_pos hn, List.takeWhile_cons, if_neg (by simp [isRefChar_close])]
      simp
    have h2 : (name ++ '}' :: post).dropWhile isRefChar = '}' :: post := by
      rw [List.dropWhile_append_of_pos hn, List.dropWhile_cons, if_neg (by simp [isRefChar_close])]
    simp only [h1, h2]
    have : name.isEmpty = false := by cases name <;> simp_all
    simp [this]
  | cons c cs ih => exact findRefs_mono c _ name ih

/-- …and so every `{name}` written in a HED string of a typed (categorical or value) sidecar column is
in the model's reference set. -/
theorem refsOf_finds (sc : Sidecar) (col : Str) (e : J) (s pre name post : Str)
    (hcol : (col, e) ∈ sc) (hs : s ∈ hedStrings e) (heq : s = pre ++ mkRef name ++ post)
    (hne : name ≠ []) (hn : ∀ c ∈ name, isRefChar c = true) : name ∈ refsOf sc := by
  unfold refsOf
  rw [List.mem_eraseDups, List.mem_flatMap]
  refine ⟨(col, e), hcol, ?_⟩
  rw [List.mem_flatMap]
  exact ⟨s, hs, heq ▸ findRefs_finds pre name post hne hn⟩

example : (∀ c ∈ "k-1".toList, isRefChar c = true) ∧ (∀ c ∈ "x_Y9".toList, isRefChar c = true) ∧
    findRefs "Red, {k-1}, ({x_Y9}), {no good}, {}".toList = ["k-1".toList, "x_Y9".toList] := by
  decide +kernel


/-- **A well-formed replacement spliced at a whole-tag position keeps the text well-formed.**
`{name}` occurs once in `t` as a whole tag, `t` is accepted by the delimiter checker and balanced, the
replacement `v` (neither empty nor `n/a`) is itself accepted, balanced and not blank: then
`replace_ref` returns `pre ++ v ++ post`, which is accepted and balanced. -/
theorem splice_wellformed (t name v pre post : Str)
    (hv : v ≠ []) (hna : v ≠ NA) (hname : ∀ c ∈ name, clsOf c = .other)
    (hs : splitFirst (mkRef name) t = some (pre, post))
    (hone : splitFirst (mkRef name) post = none)
    (hwf : delimOk t = true) (hb : balanced t) (hwhole : wholeTag pre post) (hgv : GoodItem v) :
    replaceRef t name v = pre ++ (v ++ post) ∧ delimOk (replaceRef t name v) = true ∧
    balanced (replaceRef t name v) := by
  have hrep : replaceRef t name v = pre ++ (v ++ post) := by
    rw [(splice_at t name v pre post hv hna hs).2, splice_absent post name v hone, List.append_assoc]
  have ht := splitFirst_eq _ _ _ _ hs
  have href : ∀ c ∈ mkRef name, clsOf c = .other := by
    intro c hc
    simp only [mkRef, List.mem_cons, List.mem_append, List.not_mem_nil, or_false] at hc
    rcases hc with rfl | h | rfl
    · decide
    · exact hname c h
    · decide
  rw [hrep]
  refine ⟨rfl, ?_, ?_⟩
  · rw [delimOk_eq_chain] at hwf ⊢
    rw [ht, List.append_assoc] at hwf
    exact splice_core pre (mkRef name) post v href (mkRef_ne name) hwhole.1 hwhole.2 (good_itemOk v hgv) hwf
  · unfold balanced at hb ⊢
    rw [ht, List.append_assoc] at hb
    exact splice_depth pre (mkRef name) post v href hgv.2.1 0 0 hb

example : GoodItem "(Red, Blue)".toList ∧ GoodItem "Label/3".toList ∧ ¬ GoodItem " ".toList ∧
    ¬ GoodItem "(Red".toList := by decide +kernel

end HedVerif.C06

namespace HedVerif.Assemble

/-! ### one reference step on a good text -/

theorem mem_nonWs_first (s : Str) (h : ∃ c ∈ s, clsOf c ≠ .ws) : firstNonWs s ≠ none := by
  intro e
  obtain ⟨c, hc, hn⟩ := h
  exact hn (firstNonWs_none_ws s e c hc)

theorem lastNonWs_snoc (as : Str) (x : Char) (hx : isSpace x = false) :
    lastNonWs (as ++ [x]) = some x := by
  induction as with
  | nil => simp [lastNonWs, hx]
  | cons a as ih => rw [List.cons_append, lastNonWs, ih]

theorem out_chars (g : Groups) : ∀ x ∈ removerOut true g, x ∈ g.c1 ∨ x ∈ g.c2 ∨ x = '(' ∨ x = ')' := by
  intro x hx
  simp only [removerOut] at hx
  split at hx
  · rcases List.mem_append.mp hx with h | h
    · exact Or.inl h
    · exact Or.inr (Or.inr (Or.inl (List.mem_replicate.mp h).2))
  · split at hx
    · rcases List.mem_append.mp hx with h | h
      · exact Or.inr (Or.inr (Or.inr (List.mem_replicate.mp h).2))
      · exact Or.inr (Or.inl h)
    · simp only [if_true] at hx
      split at hx
      · exact Or.inr (Or.inl hx)
      · simp at hx

/-- the value of a referenced column: absent, or an item without braces -/
def ValOK (v : Str) : Prop := v = [] ∨ v = NA ∨ (GoodItem v ∧ '{' ∉ v)

theorem mkRef_other (name : Str) (hcls : ∀ c ∈ name, clsOf c = .other) :
    ∀ c ∈ mkRef name, clsOf c = .other := by
  intro c hc
  simp only [mkRef, List.mem_cons, List.mem_append, List.not_mem_nil, or_false] at hc
  rcases hc with rfl | h | rfl
  · decide
  · exact hcls c h
  · decide

/-- a character of a reference is neither a blank nor a delimiter -/
theorem refChars_bad (name' : Str) (hn' : ∀ c ∈ name', isRefChar c = true) (x : Char)
    (hx : x ∈ name' ∨ x = '}' ∨ x = '{') :
    isC x = false ∧ x ≠ '(' ∧ x ≠ ')' ∧ isSpace x = false := by
  rcases hx with h | h | h
  · have := refChar_facts x (hn' x h)
    have hs : isSpace x = false := by
      cases hh : isSpace x
      · rfl
      · rw [(clsOf_ws_iff x).mpr hh] at this; cases this.1
    refine ⟨?_, ?_, ?_, hs⟩
    · cases hh : isC x
      · rfl
      · rcases isC_cls x hh with e' | e'
        · rw [e'] at this; cases this.1
        · subst e'; revert this; decide
    · intro e'; subst e'; revert this; decide
    · intro e'; subst e'; revert this; decide
  · subst h; decide
  · subst h; decide

/-- splice step: no reference that was absent appears -/
theorem splice_no_new (pre post v name name' : Str) (hn' : ∀ c ∈ name', isRefChar c = true)
    (hbr : '{' ∉ v)
    (hwl : lastNonWs pre = none ∨ lastNonWs pre = some ',' ∨ lastNonWs pre = some '(')
    (habs : splitFirst (mkRef name') (pre ++ (mkRef name ++ post)) = none) :
    splitFirst (mkRef name') (pre ++ (v ++ post)) = none := by
  have hR' := mkRef_ne name'
  have hA := splitFirst_none_left (mkRef name') pre _ hR' habs
  have hB := splitFirst_none_right (mkRef name') (mkRef name) post hR'
    (splitFirst_none_right (mkRef name') pre _ hR' habs)
  have hC : splitFirst (mkRef name') (v ++ post) = none := by
    have := splitFirst_skip (name' ++ ['}']) v post hbr
    rw [show mkRef name' = '{' :: (name' ++ ['}']) from rfl, this]
    rw [show mkRef name' = '{' :: (name' ++ ['}']) from rfl] at hB
    rw [hB]; rfl
  apply splitFirst_append_none _ _ _ hR' hA hC
  intro a' m ha hm e hsuf _
  have hl := (mkRef_split name' a' m ha hm e).1
  have hg := suffix_getLast a' pre ha hsuf
  cases hx : a'.getLast? with
  | none => exact ha (List.getLast?_eq_none_iff.mp hx)
  | some x =>
    have hb := refChars_bad name' hn' x (by rcases hl x hx with e' | e'; exact Or.inr (Or.inr e'); exact Or.inl e')
    have hxc : x ≠ ',' := by intro e'; subst e'; simp [isC] at hb
    rw [hx] at hg
    obtain ⟨as, eas⟩ := List.getLast?_eq_some_iff.mp hg.symm
    have hlast := lastNonWs_snoc as x hb.2.2.2
    rw [← eas] at hlast
    rcases hwl with e' | e' | e' <;> rw [hlast] at e'
    · cases e'
    · exact hxc (Option.some.inj e')
    · exact hb.2.1 (Option.some.inj e')

/-- removal step: no reference that was absent appears -/
theorem remove_no_new (g : Groups) (name name' : Str) (hn' : ∀ c ∈ name', isRefChar c = true)
    (hc1 : ∀ c ∈ g.c1, isC c = true) (hc2 : ∀ c ∈ g.c2, isC c = true)
    (hJ : removerOut true g ≠ [] ∨ g.u = [] ∨ (∃ us, g.u = us ++ ['(']) ∨ g.w = [] ∨ (∃ cs, g.w = ')' :: cs))
    (habs : splitFirst (mkRef name')
      (g.u ++ (g.c1 ++ (g.p1 ++ (mkRef name ++ (g.p2 ++ (g.c2 ++ g.w)))))) = none) :
    splitFirst (mkRef name') (g.u ++ (removerOut true g ++ g.w)) = none := by
  have hR' := mkRef_ne name'
  have hA := splitFirst_none_left (mkRef name') g.u _ hR' habs
  have hB : splitFirst (mkRef name') g.w = none :=
    splitFirst_none_right (mkRef name') g.c2 _ hR' (splitFirst_none_right (mkRef name') g.p2 _ hR'
      (splitFirst_none_right (mkRef name') (mkRef name) _ hR' (splitFirst_none_right (mkRef name') g.p1 _ hR'
      (splitFirst_none_right (mkRef name') g.c1 _ hR' (splitFirst_none_right (mkRef name') g.u _ hR' habs)))))
  have hob : '{' ∉ removerOut true g := by
    intro hm
    rcases out_chars g _ hm with h | h | h | h
    · have := hc1 _ h; revert this; decide
    · have := hc2 _ h; revert this; decide
    · cases h
    · cases h
  have hC : splitFirst (mkRef name') (removerOut true g ++ g.w) = none := by
    have := splitFirst_skip (name' ++ ['}']) (removerOut true g) g.w hob
    rw [show mkRef name' = '{' :: (name' ++ ['}']) from rfl, this]
    rw [show mkRef name' = '{' :: (name' ++ ['}']) from rfl] at hB
    rw [hB]; rfl
  apply splitFirst_append_none _ _ _ hR' hA hC
  intro a' m ha hm e hsuf hpre
  obtain ⟨hl, hh⟩ := mkRef_split name' a' m ha hm e
  have hbad := refChars_bad name' hn'
  by_cases hout : removerOut true g = []
  · rw [hout, List.nil_append] at hpre
    rcases hJ with h | h | ⟨us, h⟩ | h | ⟨cs, h⟩
    · exact h hout
    · rw [h] at hsuf
      exact ha (List.suffix_nil.mp hsuf)
    · have hg := suffix_getLast a' _ ha hsuf
      rw [h, List.getLast?_concat] at hg
      rcases hl '(' hg with e' | e'
      · cases e'
      · exact (hbad '(' (Or.inl e')).2.1 rfl
    · rw [h] at hpre
      exact hm (List.prefix_nil.mp hpre)
    · have hg := prefix_head m _ hm hpre
      rw [h, List.head?_cons] at hg
      rcases hh ')' hg with e' | e'
      · exact (hbad ')' (Or.inl e')).2.2.1 rfl
      · cases e'
  · have hg := prefix_head m _ hm hpre
    cases ho : removerOut true g with
    | nil => exact hout ho
    | cons x xs =>
      rw [ho, List.cons_append, List.head?_cons] at hg
      have hx := hh x hg
      have hxm : x ∈ removerOut true g := by rw [ho]; simp
      have hb' := hbad x (by rcases hx with e' | e'; exact Or.inl e'; exact Or.inr (Or.inl e'))
      rcases out_chars g x hxm with h | h | h | h
      · rw [hc1 x h] at hb'; cases hb'.1
      · rw [hc2 x h] at hb'; cases hb'.1
      · exact hb'.2.1 h
      · exact hb'.2.2.1 h

/-- One `replace_ref` step on an accepted, balanced text in which `{name}` occurs once as a whole tag:
the result is accepted, balanced, empty or not blank, and contains no reference that was not there. -/
theorem step_good (t name v pre post : Str) (hname : ∀ c ∈ name, isRefChar c = true)
    (hs : splitFirst (mkRef name) t = some (pre, post))
    (hone : splitFirst (mkRef name) post = none)
    (hwf : delimOk t = true) (hb : balanced t) (hwhole : wholeTag pre post) (hv : ValOK v) :
    delimOk (replaceRef t name v) = true ∧ balanced (replaceRef t name v) ∧
    (replaceRef t name v = [] ∨ firstNonWs (replaceRef t name v) ≠ none) ∧
    ∀ name', (∀ c ∈ name', isRefChar c = true) → splitFirst (mkRef name') t = none →
      splitFirst (mkRef name') (replaceRef t name v) = none := by
  have hcls : ∀ c ∈ name, clsOf c = .other := fun c hc => (refChar_facts c (hname c hc)).1
  have ht := splitFirst_eq _ _ _ _ hs
  have href := mkRef_other name hcls
  by_cases hrem : v = [] ∨ v = NA
  · -- removal (value empty or n/a)
    obtain ⟨hrep, h1⟩ := HedVerif.C06.na_wellformed_partial t name v pre post hrem hcls hs hone hwf hwhole
    have h2 := HedVerif.C06.remover_keeps_balance t name v pre post hrem hcls hs hone hb
    obtain ⟨e1, e2, hc1, hp1, hp2, hc2, hU, hW⟩ := groups_spec pre post
    have hwl := hwhole.1
    have hwr := hwhole.2
    generalize groups pre post = g at *
    have hwf' := hwf
    rw [delimOk_eq_chain, ht, e1, e2] at hwf'
    simp only [List.append_assoc] at hwf'
    rw [e1] at hwl
    rw [e2] at hwr
    obtain ⟨hJ, hN⟩ := remove_extra g.u g.c1 g.p1 (mkRef name) g.p2 g.c2 g.w hc1 hp1 hp2 hc2 href
      (mkRef_ne name) hU hW hwl hwr hwf'
    have hJ : removerOut true g ≠ [] ∨ g.u = [] ∨ (∃ us, g.u = us ++ ['(']) ∨ g.w = [] ∨
        (∃ cs, g.w = ')' :: cs) := by
      rcases hJ with ⟨x, hx, _⟩ | h
      · left; intro e; rw [e] at hx; cases hx
      · exact Or.inr h
    refine ⟨h1, h2, ?_, ?_⟩
    · rw [hrep]
      rcases hN with e | e
      · exact Or.inl e
      · exact Or.inr (mem_nonWs_first _ e)
    · intro name' hn' habs
      rw [hrep]
      rw [ht, e1, e2] at habs
      simp only [List.append_assoc] at habs
      exact remove_no_new g name name' hn' hc1 hc2 hJ habs
  · -- splice
    have hgv : GoodItem v ∧ '{' ∉ v := by
      rcases hv with h | h | h
      · exact absurd (Or.inl h) hrem
      · exact absurd (Or.inr h) hrem
      · exact h
    have hv0 : v ≠ [] := fun e => hrem (Or.inl e)
    have hna : v ≠ NA := fun e => hrem (Or.inr e)
    obtain ⟨hrep, h1, h2⟩ := HedVerif.C06.splice_wellformed t name v pre post hv0 hna hcls hs hone hwf hb
      hwhole hgv.1
    refine ⟨h1, h2, Or.inr ?_, ?_⟩
    · rw [hrep]
      apply mem_nonWs_first
      have hcm : ∃ c ∈ v, clsOf c ≠ .ws := by
        apply Classical.byContradiction
        intro hn
        have : ∀ c ∈ v, clsOf c = .ws := by
          intro c hc
          apply Classical.byContradiction
          intro h'; exact hn ⟨c, hc, h'⟩
        exact hgv.1.2.2 (ws_firstNonWs_none v this)
      obtain ⟨c', hc', hn'⟩ := hcm
      exact ⟨c', by simp [hc'], hn'⟩
    · intro name' hn' habs
      rw [hrep]
      rw [ht, List.append_assoc] at habs
      exact splice_no_new pre post v name name' hn' hgv.2 hwhole.1 habs

/-! ### all references of one text, all items of a row -/

theorem spliceAll_cons (r : Str) (L : List Str) (tr : List (Str × Str)) (T : Str) :
    spliceAll (r :: L) tr T = spliceAll L tr (replaceRef T r ((tr.lookup r).getD [])) := rfl

theorem spliceAll_absent (tr : List (Str × Str)) : ∀ (L : List Str) (T : Str),
    (∀ r ∈ L, splitFirst (mkRef r) T = none) → spliceAll L tr T = T
  | [], _, _ => rfl
  | r :: L, T, h => by
    rw [spliceAll_cons, HedVerif.C06.splice_absent T r _ (h r (by simp))]
    exact spliceAll_absent tr L T (fun r' hr' => h r' (by simp [hr']))

/-- the references of a host text: none of the live references occurs, or exactly one of them does,
once and as a whole tag -/
def OneRef (L : List Str) (T : Str) : Prop :=
  (∀ r ∈ L, splitFirst (mkRef r) T = none) ∨
  ∃ r0 ∈ L, ∃ pre post, splitFirst (mkRef r0) T = some (pre, post) ∧
    splitFirst (mkRef r0) post = none ∧ wholeTag pre post ∧
    ∀ r ∈ L, r ≠ r0 → splitFirst (mkRef r) T = none

theorem spliceAll_good (tr : List (Str × Str)) : ∀ (L : List Str) (T : Str), L.Nodup →
    (∀ r ∈ L, ∀ c ∈ r, isRefChar c = true) → (∀ r ∈ L, ValOK ((tr.lookup r).getD [])) →
    delimOk T = true → balanced T → OneRef L T →
    delimOk (spliceAll L tr T) = true ∧ balanced (spliceAll L tr T) ∧
    (spliceAll L tr T = T ∨ spliceAll L tr T = [] ∨ firstNonWs (spliceAll L tr T) ≠ none)
  | [], T, _, _, _, hd, hb, _ => ⟨hd, hb, Or.inl rfl⟩
  | r :: L, T, hnd, hn, hv, hd, hb, ho => by
    rcases ho with habs | ⟨r0, hr0, pre, post, hs, hone, hwh, hoth⟩
    · rw [spliceAll_absent tr (r :: L) T habs]; exact ⟨hd, hb, Or.inl rfl⟩
    · have hnd' := List.nodup_cons.mp hnd
      by_cases e : r = r0
      · subst e
        obtain ⟨h1, h2, h3, h4⟩ := step_good T r ((tr.lookup r).getD []) pre post (hn r (by simp)) hs hone
          hd hb hwh (hv r (by simp))
        have hrest : ∀ r' ∈ L, splitFirst (mkRef r') (replaceRef T r ((tr.lookup r).getD [])) = none := by
          intro r' hr'
          have hne : r' ≠ r := fun e => hnd'.1 (e ▸ hr')
          exact h4 r' (hn r' (by simp [hr'])) (hoth r' (by simp [hr']) hne)
        rw [spliceAll_cons, spliceAll_absent tr L _ hrest]
        exact ⟨h1, h2, Or.inr h3⟩
      · have hr0' : r0 ∈ L := by
          rcases List.mem_cons.mp hr0 with e' | e'
          · exact absurd e'.symm e
          · exact e'
        rw [spliceAll_cons, HedVerif.C06.splice_absent T r _ (hoth r (by simp) e)]
        exact spliceAll_good tr L T hnd'.2 (fun r' hr' => hn r' (by simp [hr']))
          (fun r' hr' => hv r' (by simp [hr'])) hd hb
          (Or.inr ⟨r0, hr0', pre, post, hs, hone, hwh, fun r' hr' hne => hoth r' (by simp [hr']) hne⟩)

theorem depth_sep (d : Nat) : depth d SEP = some d := by
  apply depth_noparen; decide

theorem join_depth : ∀ (l : List Str), (∀ x ∈ l, depth 0 x = some 0) → ∀ d, depth d (SEP.intercalate l) = some d
  | [], _, d => by simp [List.intercalate, depth]
  | [x], hx, d => by
    have := depth_shift x 0 0 d (hx x (by simp))
    simpa [List.intercalate] using this
  | x :: y :: ys, hx, d => by
    have hi : SEP.intercalate (x :: y :: ys) = x ++ (SEP ++ SEP.intercalate (y :: ys)) := by
      simp [List.intercalate]
    have h1 := depth_shift x 0 0 d (hx x (by simp))
    simp only [Nat.zero_add] at h1
    rw [hi, depth_append, h1, Option.bind_some, depth_append, depth_sep, Option.bind_some]
    exact join_depth (y :: ys) (fun z hz => hx z (by simp [hz])) d

/-- a host text: empty, `n/a`, or an item whose live references are as in `OneRef` -/
def HostOK (L : List Str) (T : Str) : Prop := T = [] ∨ T = NA ∨ (GoodItem T ∧ OneRef L T)

theorem host_item (tr : List (Str × Str)) (L : List Str) (T : Str) (hnd : L.Nodup)
    (hn : ∀ r ∈ L, ∀ c ∈ r, isRefChar c = true) (hv : ∀ r ∈ L, ValOK ((tr.lookup r).getD []))
    (hT : HostOK L T) : keep (spliceAll L tr T) = true → GoodItem (spliceAll L tr T) := by
  intro hk
  rcases hT with e | e | ⟨hg, ho⟩
  · subst e
    rw [spliceAll_absent tr L [] (fun r _ => rfl)] at hk
    exact absurd hk (by decide)
  · subst e
    have : ∀ r ∈ L, splitFirst (mkRef r) NA = none := by
      intro r _
      exact splitFirst_noBrace (r ++ ['}']) NA (by decide)
    rw [spliceAll_absent tr L NA this] at hk
    exact absurd hk (by decide)
  · obtain ⟨h1, h2, h3⟩ := spliceAll_good tr L T hnd hn hv hg.1 hg.2.1 ho
    rcases h3 with e | e | e
    · rw [e]; exact hg
    · rw [e] at hk; exact absurd hk (by decide)
    · exact ⟨h1, h2, e⟩

end HedVerif.Assemble

namespace HedVerif.C06
open HedVerif.Assemble

/-- **The assembled row is delimiter-well-formed and balanced** (`_partial`: at most one live reference
per host text).  `tr` is the transformed row (`assemble(skip_curly_braces=True)`).  If
* the reference names are over `[A-Za-z0-9_-]` and listed once,
* every referenced column's text is empty, `n/a` (cell n/a, empty, unknown key) or an accepted, balanced,
  non-blank text without braces,
* every other column's text is empty, `n/a`, or an accepted, balanced, non-blank text in which at most
  one live reference occurs, once and as a whole tag,

then `combine_dataframe`'s `", "`-join of the spliced texts passes the delimiter checker and has
balanced parentheses — whatever subset of the referenced texts is absent. -/
theorem assembled_wellformed_partial (refs : List Str) (tr : List (Str × Str))
    (hnd : (liveRefs refs tr).Nodup)
    (hn : ∀ r ∈ liveRefs refs tr, ∀ c ∈ r, isRefChar c = true)
    (hv : ∀ r ∈ liveRefs refs tr, ValOK ((tr.lookup r).getD []))
    (hh : ∀ p ∈ tr, p.1 ∉ liveRefs refs tr → HostOK (liveRefs refs tr) p.2) :
    delimOk (joinRow ((assembled refs tr).map (·.2))) = true ∧
    balanced (joinRow ((assembled refs tr).map (·.2))) := by
  have hitems : ∀ x ∈ (assembled refs tr).map (·.2), keep x = true → GoodItem x := by
    intro x hx
    simp only [assembled, List.map_map, List.mem_map, List.mem_filter, Function.comp_def] at hx
    obtain ⟨p, ⟨hp, hnp⟩, rfl⟩ := hx
    exact host_item tr _ p.2 hnd hn hv (hh p hp (by simpa using hnp))
  constructor
  · exact join_wellformed _ (fun x hx hk => good_itemOk x (hitems x hx hk))
  · unfold joinRow balanced
    apply join_depth
    intro x hx
    have := List.mem_filter.mp hx
    exact (hitems x this.1 this.2).2.1

/-- the same for `Assemble.row` (one entry of `series_a`) -/
theorem row_wellformed_partial (refs : List Str) (sc : Sidecar) (header r : List Str)
    (hnd : (liveRefs refs (transformed (activeCols sc header) header r)).Nodup)
    (hn : ∀ x ∈ liveRefs refs (transformed (activeCols sc header) header r), ∀ c ∈ x, isRefChar c = true)
    (hv : ∀ x ∈ liveRefs refs (transformed (activeCols sc header) header r),
      ValOK (((transformed (activeCols sc header) header r).lookup x).getD []))
    (hh : ∀ p ∈ transformed (activeCols sc header) header r,
      p.1 ∉ liveRefs refs (transformed (activeCols sc header) header r) →
      HostOK (liveRefs refs (transformed (activeCols sc header) header r)) p.2) :
    delimOk (row refs sc header r) = true ∧ balanced (row refs sc header r) :=
  assembled_wellformed_partial refs _ hnd hn hv hh

/-- non-vacuity: `{col}, Square, Label/#` with `col` absent, next to a HED cell -/
example :
    let tr : List (Str × Str) := [("HED".toList, "(Pink, Dot)".toList), ("col".toList, []),
      ("v".toList, "{col}, Square, Label/3".toList)]
    (liveRefs ["col".toList] tr).Nodup ∧ ValOK [] ∧
    joinRow ((assembled ["col".toList] tr).map (·.2)) = "(Pink, Dot), Square, Label/3".toList := by
  refine ⟨by decide +kernel, Or.inl rfl, by decide +kernel⟩

end HedVerif.C06

/-! ### two different references in one text: bounded, kernel-checked -/

namespace HedVerif.Assemble

def toks2 : List Str := [['R'], [' '], [','], ['('], [')'], ['{', 'a', '}'], ['{', 'b', '}']]

/-- all concatenations of exactly `n` tokens of `toks2` -/
def tokStrings : Nat → List Str
  | 0 => [[]]
  | n + 1 => (tokStrings n).flatMap fun s => toks2.map fun t => t ++ s

def onceWhole (name s : Str) : Bool :=
  match splitFirst (mkRef name) s with
  | none => false
  | some (pre, post) => (splitFirst (mkRef name) post).isNone && decide (wholeTag pre post)

/-- the accepted, balanced `n`-token texts in which `{a}` and `{b}` each occur once as a whole tag -/
def family (n : Nat) : List Str :=
  (tokStrings n).filter fun s => onceWhole ['a'] s && onceWhole ['b'] s && delimOk s && decide (balanced s)

def vals2 : List Str := [[], NA, ['X'], "(X, Y)".toList]

def twoOK (s va vb : Str) : Bool :=
  let r1 := replaceRef (replaceRef s ['a'] va) ['b'] vb
  let r2 := replaceRef (replaceRef s ['b'] vb) ['a'] va
  r1 == r2 && delimOk r1 && decide (balanced r1)

end HedVerif.Assemble

namespace HedVerif.C06
open HedVerif.Assemble

/-- **Two different references in one text** (bounded): for every accepted, balanced text of at most 5
tokens over {R, blank, `,`, `(`, `)`, `{a}`, `{b}`} in which both references occur once as whole tags,
and all 16 combinations of values in {empty, `n/a`, `X`, `(X, Y)`}: processing `{a}` then `{b}` gives
*the same string* as `{b}` then `{a}`, and it is accepted and balanced.  (Checked by kernel evaluation;
the harness checks the same on the implementation for 6 and 7 tokens.) -/
theorem two_refs_bounded : ∀ n ∈ [2, 3, 4, 5], ∀ s ∈ family n, ∀ va ∈ vals2, ∀ vb ∈ vals2,
    twoOK s va vb = true := by
  decide +kernel

example : "({b},{a})".toList ∈ family 5 ∧ "{a},{b},R".toList ∈ family 5 ∧ (family 5).length = 32 := by
  decide +kernel

/-- Exact order-independence fails when a spliced value carries blanks at its ends: the removal of the
neighbouring reference absorbs them or not.  The results differ in blanks only (`" X "` / `"X "`). -/
theorem ref_order_blank_counterexample :
    replaceRef (replaceRef "{a},{b}".toList ['a'] NA) ['b'] " X ".toList = " X ".toList ∧
    replaceRef (replaceRef "{a},{b}".toList ['b'] " X ".toList) ['a'] NA = "X ".toList := by
  decide +kernel

end HedVerif.C06

/-! ### which cells are missing -/

namespace HedVerif.C06
open HedVerif.Assemble

/-- **A cell is missing exactly when it is `n/a` or empty** — the whole cell, compared by equality. -/
theorem isMissing_iff (c : Str) : isMissing c = true ↔ c = NA ∨ c = [] := by
  simp [isMissing]

/-- …so no proper substring of `n/a`, no other spelling and no padded `n/a` is missing. -/
theorem isMissing_near_misses :
    ∀ c ∈ ["n", "a", "/", "n/", "/a", "N/A", "n/a ", " n/a", "na", "nan", "NaN", "None", "NA", "null",
           "0", "-", " ", "#"].map String.toList, isMissing c = false := by
  decide +kernel

/-- The value handler drops the template exactly for missing cells; every other cell — including the
near-misses above — is substituted for `#`. -/
theorem valueHandler_spec (t x : Str) :
    valueHandler t x = (if x = NA ∨ x = [] then NA else substPound x t) ∧
    (isMissing x = false → valueHandler t x = substPound x t) ∧
    (isMissing x = true → keep (valueHandler t x) = false) := by
  refine ⟨by simp [valueHandler, isMissing], ?_, ?_⟩
  · intro h; simp [valueHandler, h]
  · intro h; simp [valueHandler, h]; decide

/-- `combine_dataframe` keeps an item exactly when it is not missing (same notion of missing). -/
theorem keep_iff_not_missing (e : Str) : keep e = !isMissing e := by
  cases e with
  | nil => rfl
  | cons c cs => simp [keep, isMissing, bne]

/-- The category handler has no notion of a missing cell: the cell is looked up as it is, so an entry
keyed `n/a` (or the empty string) in the sidecar is selected by an `n/a` (empty) cell. -/
theorem categoryHandler_spec (es : List (Str × Str)) (x : Str) :
    categoryHandler es x = (match es.lookup x with | some v => v | none => []) ∧
    categoryHandler [(NA, "Red".toList)] NA = "Red".toList := by
  constructor
  · simp only [categoryHandler]; cases es.lookup x <;> rfl
  · decide +kernel

end HedVerif.C06

/-! ### removal as deletion in the tag tree: bounded, kernel-checked -/

namespace HedVerif.Assemble

/-- a rendered forest with one kind of reference leaf: the text, the text of the same forest with the
reference leaves deleted and the groups left empty dropped (`none` = nothing is left), number of references -/
structure PR where
  text : Str
  pruned : Option Str
  refs : Nat
deriving DecidableEq

def PR.leafTag : PR := ⟨['R'], some ['R'], 0⟩
def PR.leafRef : PR := ⟨['{', 'c', '}'], none, 1⟩

/-- `a, b` -/
def PR.seq (a b : PR) : PR :=
  ⟨a.text ++ SEP ++ b.text,
   match a.pruned, b.pruned with
   | some x, some y => some (x ++ SEP ++ y)
   | some x, none => some x
   | none, y => y,
   a.refs + b.refs⟩

/-- `(a)` -/
def PR.paren (a : PR) : PR :=
  ⟨'(' :: a.text ++ [')'], a.pruned.map fun x => '(' :: x ++ [')'], a.refs⟩

structure Level where
  i1 : List PR
  i2 : List PR
  i3 : List PR
  f1 : List PR
  f2 : List PR
  f3 : List PR

def pairs (as bs : List PR) : List PR := as.flatMap fun a => bs.map fun b => a.seq b

/-- items (one top-level tag or group) and forests with exactly 1, 2, 3 leaves, groups nested ≤ `d` deep -/
def level : Nat → Level
  | 0 =>
    let i1 := [PR.leafTag, PR.leafRef]
    let f2 := pairs i1 i1
    ⟨i1, [], [], i1, f2, pairs i1 f2⟩
  | d + 1 =>
    let p := level d
    let i1 := [PR.leafTag, PR.leafRef] ++ p.f1.map PR.paren
    let i2 := p.f2.map PR.paren
    let i3 := p.f3.map PR.paren
    let f2 := i2 ++ pairs i1 i1
    ⟨i1, i2, i3, i1, f2, i3 ++ pairs i1 f2 ++ pairs i2 i1⟩

def oneRef (d : Nat) : List PR :=
  ((level d).f1 ++ (level d).f2 ++ (level d).f3).filter fun p => p.refs == 1

def pruneOK (p : PR) : Bool := replaceRef p.text ['c'] NA == p.pruned.getD []

end HedVerif.Assemble

namespace HedVerif.C06
open HedVerif.Assemble

/-- **Removal is deletion in the tag tree** (bounded, kernel-checked).  For every forest of at most 3
leaves (tags `R` or the reference `{c}`), groups nested up to 3 deep, written canonically with `", "`
and containing the reference exactly once (802 texts — alone, first/middle/last, in a group, sole member of
a group, nested): with the referenced cell `n/a` or empty, `replace_ref` returns *exactly* the canonical
text of the forest with the reference leaf deleted and every group left empty dropped ("disappears
together with the comma or parentheses that only surrounded it"). -/
theorem removal_is_tree_pruning_bounded : ∀ p ∈ oneRef 3,
    replaceRef p.text ['c'] NA = p.pruned.getD [] ∧ replaceRef p.text ['c'] [] = p.pruned.getD [] := by
  have h : ∀ p ∈ oneRef 3, (pruneOK p && (replaceRef p.text ['c'] [] == p.pruned.getD [])) = true := by
    decide +kernel
  intro p hp
  have := h p hp
  simp only [pruneOK, Bool.and_eq_true, beq_iff_eq] at this
  exact this

example : (oneRef 3).length = 802 ∧
    (⟨"(R), ((({c})), (R))".toList, some "(R), ((R))".toList, 1⟩ : PR) ∈ oneRef 3 ∧
    (⟨"(({c}))".toList, none, 1⟩ : PR) ∈ oneRef 3 := by decide +kernel

end HedVerif.C06

/-! ## several references per host text; the regex's behaviour position by position -/

namespace HedVerif.Assemble

/-! ### several references in one text: where the other reference is, and that it stays whole -/

theorem takeWhile_stop (p : Char → Bool) (z : Char) (hz : p z = false) : ∀ (l r : Str),
    (l ++ z :: r).takeWhile p = l.takeWhile p ∧ (l ++ z :: r).dropWhile p = l.dropWhile p ++ z :: r
  | [], r => by constructor <;> simp [hz]
  | c :: cs, r => by
    have ih := takeWhile_stop p z hz cs r
    by_cases hc : p c = true
    · constructor <;> simp [hc, ih.1, ih.2]
    · constructor <;> simp [hc]

/-- the match never reaches back over a character that is in neither class: the text before it is kept -/
theorem groups_prefix (X Y post : Str) (z : Char) (h1 : isP1 z = false) (h2 : isC z = false) :
    groups (X ++ z :: Y) post = { groups Y post with u := X ++ z :: (groups Y post).u } := by
  have e : (X ++ z :: Y).reverse = Y.reverse ++ z :: X.reverse := by simp
  simp only [groups, e, (takeWhile_stop isP1 z h1 _ _).1, (takeWhile_stop isP1 z h1 _ _).2,
    (takeWhile_stop isC z h2 _ _).1, (takeWhile_stop isC z h2 _ _).2]
  simp

theorem groups_suffix (pre Y X : Str) (z : Char) (h1 : isP2 z = false) (h2 : isC z = false) :
    groups pre (Y ++ z :: X) = { groups pre Y with w := (groups pre Y).w ++ z :: X } := by
  simp only [groups, (takeWhile_stop isP2 z h1 _ _).1, (takeWhile_stop isP2 z h1 _ _).2,
    (takeWhile_stop isC z h2 _ _).1, (takeWhile_stop isC z h2 _ _).2]

theorem name_close_inj : ∀ (n n' A B : Str), '}' ∉ n → '}' ∉ n' → n ++ '}' :: A = n' ++ '}' :: B → n = n'
  | [], [], _, _, _, _, _ => rfl
  | [], c :: cs, _, _, _, h, e => by
    simp only [List.nil_append, List.cons_append, List.cons.injEq] at e
    exact absurd (List.mem_cons.mpr (Or.inl e.1)) h
  | c :: cs, [], _, _, h, _, e => by
    simp only [List.nil_append, List.cons_append, List.cons.injEq] at e
    exact absurd (List.mem_cons.mpr (Or.inl e.1.symm)) h
  | c :: cs, d :: ds, A, B, h, h', e => by
    simp only [List.cons_append, List.cons.injEq] at e
    rw [e.1, name_close_inj cs ds A B (fun m => h (by simp [m])) (fun m => h' (by simp [m])) e.2]

theorem mkRef_inj_of_prefix (n n' A B : Str) (hn : ∀ c ∈ n, isRefChar c = true)
    (hn' : ∀ c ∈ n', isRefChar c = true) (e : mkRef n ++ A = mkRef n' ++ B) : n = n' := by
  simp only [mkRef, List.cons_append, List.cons.injEq, true_and, List.append_assoc] at e
  exact name_close_inj n n' A B (fun m => (refChar_facts _ (hn _ m)).2.2 rfl)
    (fun m => (refChar_facts _ (hn' _ m)).2.2 rfl) e

/-- two occurrences of different references do not overlap: one lies wholly before the other -/
theorem locate (n n' pre post pre' post' : Str) (hn : ∀ c ∈ n, isRefChar c = true)
    (hn' : ∀ c ∈ n', isRefChar c = true) (hne : n ≠ n')
    (e : pre ++ (mkRef n ++ post) = pre' ++ (mkRef n' ++ post')) :
    (∃ y, pre = pre' ++ (mkRef n' ++ y) ∧ post' = y ++ (mkRef n ++ post)) ∨
    (∃ y, pre' = pre ++ (mkRef n ++ y) ∧ post = y ++ (mkRef n' ++ post')) := by
  have key : ∀ (m m' a b a' b' : Str), (∀ c ∈ m, isRefChar c = true) → (∀ c ∈ m', isRefChar c = true) →
      m ≠ m' → a ++ (mkRef m ++ b) = a' ++ (mkRef m' ++ b') → (∃ x, a' = a ++ x ∧ mkRef m ++ b = x ++ (mkRef m' ++ b')) →
      ∃ y, a' = a ++ (mkRef m ++ y) ∧ b = y ++ (mkRef m' ++ b') := by
    intro m m' a b a' b' hm hm' hmm _ ⟨x, e1, e2⟩
    rcases List.append_eq_append_iff.mp e2 with ⟨as, e3, e4⟩ | ⟨bs, e3, e4⟩
    · exact ⟨as, by rw [e1, e3], e4⟩
    · -- mkRef m = x ++ bs, mkRef m' ++ b' = bs ++ b
      by_cases hb : bs = []
      · subst hb
        simp only [List.append_nil, List.nil_append] at e3 e4
        exact ⟨[], by rw [e1, ← e3]; simp, by simpa using e4.symm⟩
      · exfalso
        by_cases hx : x = []
        · subst hx
          simp only [List.nil_append] at e3
          rw [← e3] at e4
          exact hmm (mkRef_inj_of_prefix m m' b b' hm hm' e4.symm)
        · have hh := (mkRef_split m x bs hx hb e3).2
          have hd : bs.head? = some '{' := by
            cases bs with
            | nil => exact absurd rfl hb
            | cons y ys =>
              have e5 : mkRef m' ++ b' = y :: (ys ++ b) := e4
              simp only [mkRef, List.cons_append, List.cons.injEq] at e5
              rw [← e5.1]; rfl
          rcases hh '{' hd with h | h
          · exact (refChar_facts _ (hm _ h)).2.1 rfl
          · cases h
  rcases List.append_eq_append_iff.mp e with ⟨x, e1, e2⟩ | ⟨x, e1, e2⟩
  · exact Or.inr (key n n' pre post pre' post' hn hn' hne e ⟨x, e1, e2⟩)
  · exact Or.inl (key n' n pre' post' pre post hn' hn (Ne.symm hne) e.symm ⟨x, e1, e2⟩)

/-! `splitFirst` on modified texts -/

theorem isPrefixOf_append_irrel : ∀ (R X Y Y' : Str), R.length ≤ X.length →
    R.isPrefixOf (X ++ Y) = R.isPrefixOf (X ++ Y')
  | [], _, _, _, _ => by simp [List.isPrefixOf]
  | r :: rs, [], _, _, h => by simp at h
  | r :: rs, x :: xs, Y, Y', h => by
    simp only [List.cons_append, List.isPrefixOf]
    rw [isPrefixOf_append_irrel rs xs Y Y' (by simpa using h)]

theorem splitFirst_self (R Q : Str) (hR : R ≠ []) : splitFirst R (R ++ Q) = some ([], Q) := by
  cases R with
  | nil => exact absurd rfl hR
  | cons r rs =>
    have hp : List.isPrefixOf (r :: rs) (r :: (rs ++ Q)) = true :=
      List.isPrefixOf_iff_prefix.mpr ⟨Q, rfl⟩
    rw [List.cons_append, splitFirst, if_pos hp]
    simp

/-- the first occurrence is decided by the text up to its end -/
theorem splitFirst_same_prefix (R : Str) (hR : R ≠ []) : ∀ (P Q Q' : Str),
    splitFirst R (P ++ (R ++ Q)) = some (P, Q) → splitFirst R (P ++ (R ++ Q')) = some (P, Q')
  | [], _, Q', _ => splitFirst_self R Q' hR
  | c :: P, Q, Q', h => by
    rw [List.cons_append, splitFirst] at h ⊢
    have hl : R.length ≤ (c :: (P ++ R)).length := by simp; omega
    have hirr := isPrefixOf_append_irrel R (c :: (P ++ R)) Q Q' hl
    simp only [List.cons_append, List.append_assoc] at hirr
    split at h
    · simp at h
    · rename_i hp
      rw [if_neg (by rw [← hirr]; exact hp)]
      cases hs : splitFirst R (P ++ (R ++ Q)) with
      | none => simp [hs] at h
      | some ab =>
        obtain ⟨a, b⟩ := ab
        simp only [hs, Option.some.injEq, Prod.mk.injEq, List.cons.injEq, true_and] at h
        obtain ⟨rfl, rfl⟩ := h
        rw [splitFirst_same_prefix R hR a b Q' hs]

theorem splitFirst_pre_none (R : Str) : ∀ (t a b : Str), splitFirst R t = some (a, b) → splitFirst R a = none
  | [], _, _, h => by simp [splitFirst] at h
  | c :: cs, a, b, h => by
    rw [splitFirst] at h
    split at h
    · simp only [Option.some.injEq, Prod.mk.injEq] at h
      rw [← h.1]; rfl
    · rename_i hp
      cases hs : splitFirst R cs with
      | none => simp [hs] at h
      | some ab =>
        obtain ⟨a', b'⟩ := ab
        simp only [hs, Option.some.injEq, Prod.mk.injEq] at h
        obtain ⟨rfl, rfl⟩ := h
        have ih := splitFirst_pre_none R cs a' b' hs
        have hcs := splitFirst_eq R cs a' b' hs
        rw [splitFirst, ih]
        have : ¬ R.isPrefixOf (c :: a') = true := by
          intro hq
          apply hp
          have h1 := List.isPrefixOf_iff_prefix.mp hq
          apply List.isPrefixOf_iff_prefix.mpr
          rw [hcs]
          exact h1.trans ⟨R ++ b', by simp⟩
        simp [this]

/-- no occurrence in `A`, none across the junction: the first occurrence in `A ++ C` is that of `C` -/
theorem splitFirst_append_shift (R : Str) (C : Str) : ∀ (A : Str), splitFirst R A = none →
    (∀ a' m, a' ≠ [] → m ≠ [] → R = a' ++ m → a' <:+ A → m <+: C → False) →
    splitFirst R (A ++ C) = (splitFirst R C).map (fun p => (A ++ p.1, p.2))
  | [], _, _ => by
    simp only [List.nil_append]
    cases splitFirst R C with
    | none => rfl
    | some v => cases v; rfl
  | c :: A, h, hb => by
    have hA := splitFirst_tail R c A h
    have hnp : ¬ R.isPrefixOf (c :: A) = true := by
      intro hq; rw [splitFirst, if_pos hq] at h; cases h
    have ih := splitFirst_append_shift R C A hA
      (fun a' m ha hm e hs hp => hb a' m ha hm e (hs.trans ⟨[c], rfl⟩) hp)
    have hnp' : ¬ R.isPrefixOf (c :: (A ++ C)) = true := by
      intro hq
      have h1 : R <+: (c :: A) ++ C := List.isPrefixOf_iff_prefix.mp hq
      rcases List.prefix_or_prefix_of_prefix h1 (List.prefix_append (c :: A) C) with h2 | h2
      · exact hnp (List.isPrefixOf_iff_prefix.mpr h2)
      · obtain ⟨m, em⟩ := h2
        by_cases hm : m = []
        · subst hm
          apply hnp
          rw [← em]; simp
        · have hmC : m <+: C := by
            rw [← em] at h1
            exact (List.prefix_append_right_inj (c :: A)).mp h1
          exact hb (c :: A) m (by simp) hm em.symm (List.suffix_refl _) hmC
    rw [List.cons_append, splitFirst, if_neg hnp', ih]
    cases splitFirst R C with
    | none => rfl
    | some v => cases v; rfl

end HedVerif.Assemble

namespace HedVerif.Assemble

theorem ws_or_nonWs (s : Str) : (∀ c ∈ s, clsOf c = .ws) ∨ (∃ c ∈ s, clsOf c ≠ .ws) := by
  by_cases h : ∃ c ∈ s, clsOf c ≠ .ws
  · exact Or.inr h
  · left
    intro c hc
    apply Classical.byContradiction
    intro h'; exact h ⟨c, hc, h'⟩

theorem firstNonWs_append_nonWs : ∀ (A B : Str), (∃ c ∈ A, clsOf c ≠ .ws) →
    firstNonWs (A ++ B) = firstNonWs A
  | [], _, h => by obtain ⟨c, hc, _⟩ := h; cases hc
  | a :: A, B, h => by
    rw [List.cons_append, firstNonWs, firstNonWs]
    by_cases hs : isSpace a = true
    · rw [if_pos hs, if_pos hs]
      apply firstNonWs_append_nonWs A B
      obtain ⟨c, hc, hn⟩ := h
      rcases List.mem_cons.mp hc with e | e
      · subst e; exact absurd ((clsOf_ws_iff _).mpr hs) hn
      · exact ⟨c, e, hn⟩
    · rw [if_neg hs, if_neg hs]

theorem lastNonWs_append_nonWs : ∀ (A B : Str), (∃ c ∈ B, clsOf c ≠ .ws) →
    lastNonWs (A ++ B) = lastNonWs B
  | [], _, _ => rfl
  | a :: A, B, h => by
    have ih := lastNonWs_append_nonWs A B h
    have hb : lastNonWs B ≠ none := lastNonWs_ne_none B (mem_nonWs_first B h)
    rw [List.cons_append, lastNonWs, ih]
    cases hl : lastNonWs B with
    | none => exact absurd hl hb
    | some x => rfl

theorem lastNonWs_append_ws : ∀ (A B : Str), (∀ c ∈ B, clsOf c = .ws) →
    lastNonWs (A ++ B) = lastNonWs A
  | [], B, h => by simpa [lastNonWs] using ws_lastNonWs_none B h
  | a :: A, B, h => by
    rw [List.cons_append, lastNonWs, lastNonWs, lastNonWs_append_ws A B h]

theorem lastNonWs_mem : ∀ (s : Str) (c : Char), lastNonWs s = some c → c ∈ s ∧ isSpace c = false
  | [], _, h => by simp [lastNonWs] at h
  | a :: as, c, h => by
    rw [lastNonWs] at h
    cases ha : lastNonWs as with
    | some z =>
      simp only [ha] at h
      have := lastNonWs_mem as c (by rw [ha, h])
      exact ⟨List.mem_cons_of_mem _ this.1, this.2⟩
    | none =>
      simp only [ha] at h
      by_cases hs : isSpace a = true
      · simp [hs] at h
      · simp only [hs] at h
        have : a = c := by simpa using h
        subst this
        exact ⟨by simp, by simpa using hs⟩

theorem firstNonWs_mem : ∀ (s : Str) (c : Char), firstNonWs s = some c → c ∈ s ∧ isSpace c = false
  | [], _, h => by simp [firstNonWs] at h
  | a :: as, c, h => by
    rw [firstNonWs] at h
    by_cases hs : isSpace a = true
    · rw [if_pos hs] at h
      have := firstNonWs_mem as c h
      exact ⟨List.mem_cons_of_mem _ this.1, this.2⟩
    · rw [if_neg hs] at h
      have : a = c := Option.some.inj h
      subst this
      exact ⟨by simp, by simpa using hs⟩

theorem chain_first : ∀ (S : Str) (q : Option Cls) (c : Char), chain q S = true →
    firstNonWs S = some c → ok q (clsOf c) = true
  | [], _, _, _, h => by simp [firstNonWs] at h
  | d :: ds, q, c, h, hf => by
    rw [firstNonWs] at hf
    by_cases hs : isSpace d = true
    · rw [if_pos hs] at hf
      have hw := (clsOf_ws_iff d).mpr hs
      have e : chain q (d :: ds) = chain q ds := by unfold chain; rw [run, if_pos hw]
      rw [e] at h
      exact chain_first ds q c h hf
    · rw [if_neg hs] at hf
      have : d = c := Option.some.inj hf
      subst this
      have hw : clsOf d ≠ .ws := fun e => hs ((clsOf_ws_iff d).mp e)
      unfold chain at h
      rw [run, if_neg hw] at h
      by_cases ho : ok q (clsOf d) = true
      · exact ho
      · rw [if_neg ho] at h; cases h

/-- a character of the remover's output is a blank, a comma or a parenthesis -/
theorem out_class (g : Groups) (hc1 : ∀ c ∈ g.c1, isC c = true) (hc2 : ∀ c ∈ g.c2, isC c = true) :
    ∀ x ∈ removerOut true g, isC x = true ∨ x = '(' ∨ x = ')' := by
  intro x hx
  rcases out_chars g x hx with h | h | h | h
  · exact Or.inl (hc1 x h)
  · exact Or.inl (hc2 x h)
  · exact Or.inr (Or.inl h)
  · exact Or.inr (Or.inr h)

theorem remove_no_new_gen (name' : Str) (hn' : ∀ c ∈ name', isRefChar c = true) (U0 out W0 : Str)
    (hout : ∀ x ∈ out, isC x = true ∨ x = '(' ∨ x = ')')
    (hA : splitFirst (mkRef name') U0 = none) (hB : splitFirst (mkRef name') W0 = none)
    (hJ : (∃ x ∈ out, clsOf x ≠ .ws) ∨ U0 = [] ∨ (∃ us, U0 = us ++ ['(']) ∨ W0 = [] ∨ (∃ cs, W0 = ')' :: cs)) :
    splitFirst (mkRef name') (U0 ++ (out ++ W0)) = none := by
  have hR' := mkRef_ne name'
  have hbad := refChars_bad name' hn'
  have hob : '{' ∉ out := by
    intro hm
    rcases hout _ hm with h | h | h
    · revert h; decide
    · cases h
    · cases h
  have hC : splitFirst (mkRef name') (out ++ W0) = none := by
    have := splitFirst_skip (name' ++ ['}']) out W0 hob
    rw [show mkRef name' = '{' :: (name' ++ ['}']) from rfl, this]
    rw [show mkRef name' = '{' :: (name' ++ ['}']) from rfl] at hB
    rw [hB]; rfl
  apply splitFirst_append_none _ _ _ hR' hA hC
  intro a' m ha hm e hsuf hpre
  obtain ⟨hl, hh⟩ := mkRef_split name' a' m ha hm e
  cases ho : out with
  | cons x xs =>
    have hg := prefix_head m _ hm hpre
    rw [ho, List.cons_append, List.head?_cons] at hg
    have hb' := hbad x (by rcases hh x hg with e' | e'; exact Or.inl e'; exact Or.inr (Or.inl e'))
    rcases hout x (by rw [ho]; simp) with h | h | h
    · rw [h] at hb'; cases hb'.1
    · exact hb'.2.1 h
    · exact hb'.2.2.1 h
  | nil =>
    rw [ho, List.nil_append] at hpre
    rcases hJ with ⟨x, hx, _⟩ | h | ⟨us, h⟩ | h | ⟨cs, h⟩
    · rw [ho] at hx; cases hx
    · rw [h] at hsuf
      exact ha (List.suffix_nil.mp hsuf)
    · have hg := suffix_getLast a' _ ha hsuf
      rw [h, List.getLast?_concat] at hg
      rcases hl '(' hg with e' | e'
      · cases e'
      · exact (hbad '(' (Or.inl e')).2.1 rfl
    · rw [h] at hpre
      exact hm (List.prefix_nil.mp hpre)
    · have hg := prefix_head m _ hm hpre
      rw [h, List.head?_cons] at hg
      rcases hh ')' hg with e' | e'
      · exact (hbad ')' (Or.inl e')).2.2.1 rfl
      · cases e'

theorem splice_no_new_gen (A B v name' : Str) (hbr : '{' ∉ v)
    (hlast : ∀ as x, A = as ++ [x] → (x = '{' ∨ x ∈ name') → False)
    (hA : splitFirst (mkRef name') A = none) (hB : splitFirst (mkRef name') B = none) :
    splitFirst (mkRef name') (A ++ (v ++ B)) = none := by
  have hR' := mkRef_ne name'
  have hC : splitFirst (mkRef name') (v ++ B) = none := by
    have := splitFirst_skip (name' ++ ['}']) v B hbr
    rw [show mkRef name' = '{' :: (name' ++ ['}']) from rfl, this]
    rw [show mkRef name' = '{' :: (name' ++ ['}']) from rfl] at hB
    rw [hB]; rfl
  apply splitFirst_append_none _ _ _ hR' hA hC
  intro a' m ha hm e hsuf _
  have hl := (mkRef_split name' a' m ha hm e).1
  have hg := suffix_getLast a' A ha hsuf
  cases hx : a'.getLast? with
  | none => exact ha (List.getLast?_eq_none_iff.mp hx)
  | some x =>
    rw [hx] at hg
    obtain ⟨as, eas⟩ := List.getLast?_eq_some_iff.mp hg.symm
    exact hlast as x eas (hl x hx)

/-- `{name}` occurs exactly once in `t`, as a whole tag -/
def Once (R t : Str) : Prop :=
  ∃ pre post, splitFirst R t = some (pre, post) ∧ splitFirst R post = none ∧ wholeTag pre post

end HedVerif.Assemble

namespace HedVerif.Assemble

theorem lastNonWs_mkRef (P n : Str) : lastNonWs (P ++ mkRef n) = some '}' := by
  have : P ++ mkRef n = (P ++ '{' :: n) ++ ['}'] := by simp [mkRef]
  rw [this]; exact lastNonWs_snoc _ '}' (by decide)

theorem firstNonWs_mkRef (n Q : Str) : firstNonWs (mkRef n ++ Q) = some '{' := by
  simp [mkRef, firstNonWs, show isSpace '{' = false by decide]

/-- a suffix that would start a straddling occurrence cannot begin with `{` -/
theorem no_straddle_before_ref (n' Q A : Str) (hn' : ∀ c ∈ n', isRefChar c = true) :
    ∀ a' m, a' ≠ [] → m ≠ [] → mkRef n' = a' ++ m → a' <:+ A → m <+: mkRef n' ++ Q → False := by
  intro a' m ha hm e _ hp
  have hh := (mkRef_split n' a' m ha hm e).2
  have hd := prefix_head m _ hm hp
  rw [show mkRef n' ++ Q = '{' :: (n' ++ ['}'] ++ Q) by simp [mkRef], List.head?_cons] at hd
  rcases hh '{' hd with h | h
  · exact (refChar_facts _ (hn' _ h)).2.1 rfl
  · cases h

theorem splice_keeps_once (t n v pre post : Str) (hn : ∀ c ∈ n, isRefChar c = true) (hbr : '{' ∉ v)
    (hs : splitFirst (mkRef n) t = some (pre, post)) (hwhole : wholeTag pre post)
    (n' : Str) (hn' : ∀ c ∈ n', isRefChar c = true) (hne : n' ≠ n) (ho : Once (mkRef n') t) :
    Once (mkRef n') (pre ++ (v ++ post)) := by
  obtain ⟨P, Q, hsP, hQ, hwP⟩ := ho
  have ht := splitFirst_eq _ t pre post hs
  have htP := splitFirst_eq _ t P Q hsP
  have hR' := mkRef_ne n'
  have e : pre ++ (mkRef n ++ post) = P ++ (mkRef n' ++ Q) := by
    rw [← List.append_assoc, ← ht, htP, List.append_assoc]
  have hsP' : splitFirst (mkRef n') (P ++ (mkRef n' ++ Q)) = some (P, Q) := by
    rw [← List.append_assoc, ← htP]; exact hsP
  have hbadc := refChars_bad n' hn'
  rcases locate n n' pre post P Q hn hn' (Ne.symm hne) e with ⟨y, e1, e2⟩ | ⟨y, e1, e2⟩
  · -- the other reference comes first
    refine ⟨P, y ++ (v ++ post), ?_, ?_, hwP.1, ?_⟩
    · rw [e1]
      simp only [List.append_assoc]
      exact splitFirst_same_prefix _ hR' P Q _ hsP'
    · rw [e2] at hQ
      refine splice_no_new_gen y post v n' hbr ?_ (splitFirst_none_left _ y _ hR' hQ)
        (splitFirst_none_right _ (mkRef n) _ hR' (splitFirst_none_right _ y _ hR' hQ))
      intro as x eas hx
      have hb := hbadc x (by rcases hx with h | h; exact Or.inr (Or.inr h); exact Or.inl h)
      have hl : lastNonWs pre = some x := by
        rw [e1, eas, ← List.append_assoc, ← List.append_assoc]
        exact lastNonWs_snoc _ x hb.2.2.2
      rcases hwhole.1 with h | h | h <;> rw [hl] at h
      · cases h
      · have : x = ',' := Option.some.inj h
        subst this; simp [isC] at hb
      · exact hb.2.1 (Option.some.inj h)
    · rcases ws_or_nonWs y with hy | hy
      · exfalso
        have hl : lastNonWs pre = some '}' := by
          rw [e1, ← List.append_assoc, lastNonWs_append_ws _ y hy]
          exact lastNonWs_mkRef P n'
        rcases hwhole.1 with h | h | h <;> rw [hl] at h <;> cases h
      · rw [firstNonWs_append_nonWs y _ hy]
        have := hwP.2
        rw [e2, firstNonWs_append_nonWs y _ hy] at this
        exact this
  · -- the other reference comes after
    have hPabs : splitFirst (mkRef n') (pre ++ (mkRef n ++ y)) = none := by
      rw [← e1]; exact splitFirst_pre_none _ t P Q hsP
    refine ⟨pre ++ (v ++ y), Q, ?_, hQ, ?_, hwP.2⟩
    · rw [e2]
      have habs : splitFirst (mkRef n') (pre ++ (v ++ y)) = none :=
        splice_no_new pre y v n n' hn' hbr hwhole.1 hPabs
      have := splitFirst_append_shift (mkRef n') (mkRef n' ++ Q) (pre ++ (v ++ y)) habs
        (no_straddle_before_ref n' Q _ hn')
      rw [splitFirst_self _ _ hR'] at this
      simpa [List.append_assoc] using this
    · rcases ws_or_nonWs y with hy | hy
      · exfalso
        have hf : firstNonWs post = some '{' := by
          rw [e2, firstNonWs_ws_append y _ hy]; exact firstNonWs_mkRef n' Q
        rcases hwhole.2 with h | h | h <;> rw [hf] at h <;> cases h
      · have e3 : pre ++ (v ++ y) = (pre ++ v) ++ y := by simp
        rw [e3, lastNonWs_append_nonWs _ y hy]
        have := hwP.1
        rw [e1, ← List.append_assoc, lastNonWs_append_nonWs _ y hy] at this
        exact this

end HedVerif.Assemble

namespace HedVerif.Assemble

theorem comma_of_isC_nonWs (c : Char) (h : isC c = true) (hs : isSpace c = false) : c = ',' := by
  simpa [isC, hs] using h

set_option maxHeartbeats 1000000 in
theorem remove_keeps_once (t n v pre post : Str) (hn : ∀ c ∈ n, isRefChar c = true)
    (hv : v = [] ∨ v = NA) (hs : splitFirst (mkRef n) t = some (pre, post))
    (hone : splitFirst (mkRef n) post = none) (hwf : delimOk t = true) (hwhole : wholeTag pre post)
    (n' : Str) (hn' : ∀ c ∈ n', isRefChar c = true) (hne : n' ≠ n) (ho : Once (mkRef n') t) :
    Once (mkRef n') (replaceRef t n v) := by
  have hcls : ∀ c ∈ n, clsOf c = .other := fun c hc => (refChar_facts c (hn c hc)).1
  have hcls' : ∀ c ∈ n', clsOf c = .other := fun c hc => (refChar_facts c (hn' c hc)).1
  have href := mkRef_other n hcls
  have href' := mkRef_other n' hcls'
  obtain ⟨hrep, hd'⟩ := HedVerif.C06.na_wellformed_partial t n v pre post hv hcls hs hone hwf hwhole
  obtain ⟨P, Q, hsP, hQ, hwP⟩ := ho
  have ht := splitFirst_eq _ t pre post hs
  have htP := splitFirst_eq _ t P Q hsP
  have hR' := mkRef_ne n'
  have e : pre ++ (mkRef n ++ post) = P ++ (mkRef n' ++ Q) := by
    rw [← List.append_assoc, ← ht, htP, List.append_assoc]
  have hsP' : splitFirst (mkRef n') (P ++ (mkRef n' ++ Q)) = some (P, Q) := by
    rw [← List.append_assoc, ← htP]; exact hsP
  -- the match groups of the whole text and what stands at the junction
  obtain ⟨f1, f2, hc1, hp1, hp2, hc2, hU, hW⟩ := groups_spec pre post
  have hwl := hwhole.1
  have hwr := hwhole.2
  obtain ⟨g, hgdef⟩ : ∃ g, g = groups pre post := ⟨_, rfl⟩
  rw [← hgdef] at f1 f2 hc1 hp1 hp2 hc2 hU hW hrep
  have hwf' := hwf
  rw [delimOk_eq_chain, ht, f1, f2] at hwf'
  simp only [List.append_assoc] at hwf'
  rw [f1] at hwl
  rw [f2] at hwr
  obtain ⟨hJ, -⟩ := remove_extra g.u g.c1 g.p1 (mkRef n) g.p2 g.c2 g.w hc1 hp1 hp2 hc2 href
    (mkRef_ne n) hU hW hwl hwr hwf'
  have houtc := out_class g hc1 hc2
  rw [hrep]
  rw [hrep, delimOk_eq_chain] at hd'
  rcases locate n n' pre post P Q hn hn' (Ne.symm hne) e with ⟨y, e1, e2⟩ | ⟨y, e1, e2⟩
  · -- the other reference comes first: pre = P ++ (R' ++ y)
    obtain ⟨s1, -, -, -, -, -, sU, -⟩ := groups_spec y post
    have epre : pre = (P ++ '{' :: n') ++ '}' :: y := by rw [e1]; simp [mkRef]
    have hg : groups pre post =
        { groups y post with u := (P ++ '{' :: n') ++ '}' :: (groups y post).u } := by
      rw [epre]; exact groups_prefix _ _ _ '}' (by decide) (by decide)
    generalize groups y post = gy at hg s1 sU
    have hg' := hgdef.trans hg
    subst hg'
    dsimp only at f1 f2 hc1 hp1 hp2 hc2 hU hW hJ houtc hd' ⊢
    have eout : removerOut true { gy with u := (P ++ '{' :: n') ++ '}' :: gy.u } = removerOut true gy := rfl
    rw [eout] at hJ houtc hd' ⊢
    have eT : (P ++ '{' :: n') ++ '}' :: gy.u ++ (removerOut true gy ++ gy.w) =
        P ++ (mkRef n' ++ (gy.u ++ (removerOut true gy ++ gy.w))) := by simp [mkRef]
    rw [eT] at hd' ⊢
    -- Q in terms of the groups
    have eQ : Q = gy.u ++ (gy.c1 ++ (gy.p1 ++ (mkRef n ++ (gy.p2 ++ (gy.c2 ++ gy.w))))) := by
      rw [e2, f2]; conv => lhs; rw [s1]
      simp only [List.append_assoc]
    rw [eQ] at hQ
    have hAu := splitFirst_none_left _ gy.u _ hR' hQ
    have hBw := splitFirst_none_right _ gy.c2 _ hR' (splitFirst_none_right _ gy.p2 _ hR'
      (splitFirst_none_right _ (mkRef n) _ hR' (splitFirst_none_right _ gy.p1 _ hR'
      (splitFirst_none_right _ gy.c1 _ hR' (splitFirst_none_right _ gy.u _ hR' hQ)))))
    have hJgen : (∃ x ∈ removerOut true gy, clsOf x ≠ .ws) ∨ gy.u = [] ∨ (∃ us, gy.u = us ++ ['(']) ∨
        gy.w = [] ∨ (∃ cs, gy.w = ')' :: cs) := by
      rcases hJ with h | h | ⟨us, h⟩ | h | h
      · exact Or.inl h
      · simp at h
      · right
        rcases List.eq_nil_or_concat gy.u with hu | ⟨ys, l, hu⟩
        · exact Or.inl hu
        · right; left
          rw [hu] at h
          have h2 : ((P ++ '{' :: n') ++ '}' :: ys) ++ [l] = us ++ ['('] := by
            rw [← h]; simp
          have h3 := List.append_inj_right' h2 rfl
          have hl : l = '(' := by simpa using h3
          subst hl
          exact ⟨ys, by rw [hu, List.concat_eq_append]⟩
      · exact Or.inr (Or.inr (Or.inr (Or.inl h)))
      · exact Or.inr (Or.inr (Or.inr (Or.inr h)))
    refine ⟨P, gy.u ++ (removerOut true gy ++ gy.w), ?_, ?_, hwP.1, ?_⟩
    · exact splitFirst_same_prefix _ hR' P Q _ hsP'
    · exact remove_no_new_gen n' hn' gy.u _ gy.w houtc hAu hBw hJgen
    · rcases ws_or_nonWs gy.u with hy | hy
      · have hu0 : gy.u = [] := by
          rcases sU with h | ⟨us, c, h, hc⟩
          · exact h
          · exfalso
            have := hy c (by rw [h]; simp)
            rw [isC, (clsOf_ws_iff c).mp this] at hc; simp at hc
        rw [hu0] at hd' hJ ⊢
        simp only [List.nil_append] at hd' ⊢
        obtain ⟨q, hq, t1⟩ := chain_append_true hd'
        obtain ⟨q3, hq3, t2⟩ := chain_append_true t1
        obtain ⟨e3, -⟩ := run_other (mkRef n') href' hR' q q3 hq3
        subst e3
        cases hf : firstNonWs (removerOut true gy ++ gy.w) with
        | none => exact Or.inl rfl
        | some c =>
          right
          have hok := chain_first _ _ c t2 hf
          obtain ⟨hcm, hcs⟩ := firstNonWs_mem _ c hf
          rcases ws_or_nonWs (removerOut true gy) with ho | ho
          · rcases hJ with ⟨x, hx, hxn⟩ | h | ⟨us, h⟩ | h | ⟨cs, h⟩
            · exact absurd (ho x hx) hxn
            · simp at h
            · exfalso
              have h2 : (P ++ '{' :: n') ++ ['}'] = us ++ ['('] := by rw [← h]
              have := List.append_inj_right' h2 rfl
              simp at this
            · exfalso
              rw [h, List.append_nil, ws_firstNonWs_none _ ho] at hf; cases hf
            · rw [h, firstNonWs_ws_append _ _ ho] at hf
              simp only [firstNonWs, show isSpace ')' = false by decide] at hf
              right; rw [← hf]; rfl
          · rw [firstNonWs_append_nonWs _ _ ho] at hf
            obtain ⟨hcm2, _⟩ := firstNonWs_mem _ c hf
            rcases houtc c hcm2 with h | h | h
            · left; rw [comma_of_isC_nonWs c h hcs]
            · subst h; rw [clsOf_opn] at hok; cases hok
            · right; rw [h]
      · rw [firstNonWs_append_nonWs _ _ hy]
        have := hwP.2
        rw [eQ, firstNonWs_append_nonWs _ _ hy] at this
        exact this
  · -- the other reference comes after: post = y ++ (R' ++ Q)
    obtain ⟨s1, s2, -, -, -, -, -, sW⟩ := groups_spec pre y
    have epost : post = y ++ '{' :: (n' ++ '}' :: Q) := by rw [e2]; simp [mkRef]
    have hg : groups pre post =
        { groups pre y with w := (groups pre y).w ++ '{' :: (n' ++ '}' :: Q) } := by
      rw [epost]; exact groups_suffix _ _ _ '{' (by decide) (by decide)
    generalize groups pre y = gy at hg s1 s2 sW
    have hg' := hgdef.trans hg
    subst hg'
    dsimp only at f1 f2 hc1 hp1 hp2 hc2 hU hW hJ houtc hd' ⊢
    have eout : removerOut true { gy with w := gy.w ++ '{' :: (n' ++ '}' :: Q) } = removerOut true gy := rfl
    rw [eout] at hJ houtc hd' ⊢
    have eT : gy.u ++ (removerOut true gy ++ (gy.w ++ '{' :: (n' ++ '}' :: Q))) =
        (gy.u ++ (removerOut true gy ++ gy.w)) ++ (mkRef n' ++ Q) := by simp [mkRef]
    rw [eT] at hd' ⊢
    have hPabs : splitFirst (mkRef n') P = none := splitFirst_pre_none _ t P Q hsP
    have eP : P = gy.u ++ (gy.c1 ++ (gy.p1 ++ (mkRef n ++ (gy.p2 ++ (gy.c2 ++ gy.w))))) := by
      rw [e1]; conv => lhs; rw [s1, s2]
      simp only [List.append_assoc]
    rw [eP] at hPabs
    have hAu := splitFirst_none_left _ gy.u _ hR' hPabs
    have hBw := splitFirst_none_right _ gy.c2 _ hR' (splitFirst_none_right _ gy.p2 _ hR'
      (splitFirst_none_right _ (mkRef n) _ hR' (splitFirst_none_right _ gy.p1 _ hR'
      (splitFirst_none_right _ gy.c1 _ hR' (splitFirst_none_right _ gy.u _ hR' hPabs)))))
    have hJgen : (∃ x ∈ removerOut true gy, clsOf x ≠ .ws) ∨ gy.u = [] ∨ (∃ us, gy.u = us ++ ['(']) ∨
        gy.w = [] ∨ (∃ cs, gy.w = ')' :: cs) := by
      rcases hJ with h | h | h | h | ⟨cs, h⟩
      · exact Or.inl h
      · exact Or.inr (Or.inl h)
      · exact Or.inr (Or.inr (Or.inl h))
      · simp at h
      · right; right; right
        cases hw : gy.w with
        | nil => exact Or.inl rfl
        | cons d ds =>
          right
          rw [hw] at h
          simp only [List.cons_append, List.cons.injEq] at h
          exact ⟨ds, by rw [h.1]⟩
    have habs : splitFirst (mkRef n') (gy.u ++ (removerOut true gy ++ gy.w)) = none :=
      remove_no_new_gen n' hn' gy.u _ gy.w houtc hAu hBw hJgen
    refine ⟨gy.u ++ (removerOut true gy ++ gy.w), Q, ?_, hQ, ?_, hwP.2⟩
    · have := splitFirst_append_shift (mkRef n') (mkRef n' ++ Q) _ habs (no_straddle_before_ref n' Q _ hn')
      rw [splitFirst_self _ _ hR'] at this
      simpa using this
    · rcases ws_or_nonWs gy.w with hy | hy
      · have hw0 : gy.w = [] := by
          rcases sW with h | ⟨c, cs, h, hc⟩
          · exact h
          · exfalso
            have := hy c (by rw [h]; simp)
            rw [isC, (clsOf_ws_iff c).mp this] at hc; simp at hc
        rw [hw0] at hd' hJ ⊢
        simp only [List.append_nil, List.nil_append] at hd' hJ ⊢
        obtain ⟨q, hq, t1⟩ := chain_append_true hd'
        obtain ⟨q3, hq3, -⟩ := chain_append_true t1
        obtain ⟨-, hqc⟩ := run_other (mkRef n') href' hR' q q3 hq3
        have hql := run_lastNonWs _ _ _ hq
        cases hl : lastNonWs (gy.u ++ removerOut true gy) with
        | none => exact Or.inl rfl
        | some c =>
          right
          rw [hl] at hql
          have hql' : q = some (clsOf c) := hql
          have hcc : clsOf c ≠ .cls := by
            intro h; apply hqc; rw [hql', h]
          obtain ⟨_, hcs⟩ := lastNonWs_mem _ c hl
          rcases ws_or_nonWs (removerOut true gy) with ho | ho
          · rw [lastNonWs_append_ws _ _ ho] at hl
            rcases hJ with ⟨x, hx, hxn⟩ | h | ⟨us, h⟩ | h | ⟨cs, h⟩
            · exact absurd (ho x hx) hxn
            · rw [h] at hl; cases hl
            · rw [h, lastNonWs_snoc us '(' (by decide)] at hl
              right; rw [← Option.some.inj hl]
            · cases h
            · cases h
          · rw [lastNonWs_append_nonWs _ _ ho] at hl
            obtain ⟨hcm2, _⟩ := lastNonWs_mem _ c hl
            rcases houtc c hcm2 with h | h | h
            · left; rw [comma_of_isC_nonWs c h hcs]
            · right; rw [h]
            · subst h; exact absurd clsOf_cls hcc
      · have e3 : gy.u ++ (removerOut true gy ++ gy.w) = (gy.u ++ removerOut true gy) ++ gy.w := by simp
        rw [e3, lastNonWs_append_nonWs _ _ hy]
        have := hwP.1
        have e4 : gy.u ++ (gy.c1 ++ (gy.p1 ++ (mkRef n ++ (gy.p2 ++ (gy.c2 ++ gy.w))))) =
            (gy.u ++ (gy.c1 ++ (gy.p1 ++ (mkRef n ++ (gy.p2 ++ gy.c2))))) ++ gy.w := by simp
        rw [eP, e4, lastNonWs_append_nonWs _ _ hy] at this
        exact this

end HedVerif.Assemble

namespace HedVerif.Assemble

/-- one `replace_ref` step keeps every *other* reference that occurred once as a whole tag so -/
theorem step_keeps_once (t n v pre post : Str) (hn : ∀ c ∈ n, isRefChar c = true)
    (hs : splitFirst (mkRef n) t = some (pre, post)) (hone : splitFirst (mkRef n) post = none)
    (hwf : delimOk t = true) (hwhole : wholeTag pre post) (hv : ValOK v)
    (n' : Str) (hn' : ∀ c ∈ n', isRefChar c = true) (hne : n' ≠ n) (ho : Once (mkRef n') t) :
    Once (mkRef n') (replaceRef t n v) := by
  by_cases hrem : v = [] ∨ v = NA
  · exact remove_keeps_once t n v pre post hn hrem hs hone hwf hwhole n' hn' hne ho
  · have hgv : GoodItem v ∧ '{' ∉ v := by
      rcases hv with h | h | h
      · exact absurd (Or.inl h) hrem
      · exact absurd (Or.inr h) hrem
      · exact h
    have hrep : replaceRef t n v = pre ++ (v ++ post) := by
      rw [(HedVerif.C06.splice_at t n v pre post (fun e => hrem (Or.inl e)) (fun e => hrem (Or.inr e)) hs).2,
        HedVerif.C06.splice_absent post n v hone, List.append_assoc]
    rw [hrep]
    exact splice_keeps_once t n v pre post hn hgv.2 hs hwhole n' hn' hne ho

/-- every live reference is absent from the text or occurs in it exactly once, as a whole tag -/
def RefsOK (L : List Str) (T : Str) : Prop :=
  ∀ r ∈ L, splitFirst (mkRef r) T = none ∨ Once (mkRef r) T

/-- **All references of one host text**, any number of them, in the order of the list: the result is
accepted, balanced, and empty or not blank. -/
theorem spliceAll_wellformed (tr : List (Str × Str)) : ∀ (L : List Str) (T : Str), L.Nodup →
    (∀ r ∈ L, ∀ c ∈ r, isRefChar c = true) → (∀ r ∈ L, ValOK ((tr.lookup r).getD [])) →
    delimOk T = true → balanced T → (T = [] ∨ firstNonWs T ≠ none) → RefsOK L T →
    delimOk (spliceAll L tr T) = true ∧ balanced (spliceAll L tr T) ∧
    (spliceAll L tr T = [] ∨ firstNonWs (spliceAll L tr T) ≠ none)
  | [], T, _, _, _, hd, hb, hnb, _ => ⟨hd, hb, hnb⟩
  | r :: L, T, hnd, hn, hv, hd, hb, hnb, hR => by
    have hnd' := List.nodup_cons.mp hnd
    have hnL : ∀ r' ∈ L, ∀ c ∈ r', isRefChar c = true := fun r' hr' => hn r' (by simp [hr'])
    have hvL : ∀ r' ∈ L, ValOK ((tr.lookup r').getD []) := fun r' hr' => hv r' (by simp [hr'])
    rw [spliceAll_cons]
    rcases hR r (by simp) with habs | ⟨pre, post, hs, hone, hwh⟩
    · rw [HedVerif.C06.splice_absent T r _ habs]
      exact spliceAll_wellformed tr L T hnd'.2 hnL hvL hd hb hnb (fun r' hr' => hR r' (by simp [hr']))
    · obtain ⟨h1, h2, h3, h4⟩ := step_good T r ((tr.lookup r).getD []) pre post (hn r (by simp)) hs hone
        hd hb hwh (hv r (by simp))
      refine spliceAll_wellformed tr L _ hnd'.2 hnL hvL h1 h2 h3 ?_
      intro r' hr'
      have hne : r' ≠ r := fun e => hnd'.1 (e ▸ hr')
      rcases hR r' (by simp [hr']) with ha | ho
      · exact Or.inl (h4 r' (hnL r' hr') ha)
      · exact Or.inr (step_keeps_once T r _ pre post (hn r (by simp)) hs hone hd hwh (hv r (by simp))
          r' (hnL r' hr') hne ho)

/-- a host text: empty, `n/a`, or an item in which every live reference is absent or occurs once as a
whole tag (any number of different references) -/
def HostRefsOK (L : List Str) (T : Str) : Prop := T = [] ∨ T = NA ∨ (GoodItem T ∧ RefsOK L T)

theorem host_item_multi (tr : List (Str × Str)) (L : List Str) (T : Str) (hnd : L.Nodup)
    (hn : ∀ r ∈ L, ∀ c ∈ r, isRefChar c = true) (hv : ∀ r ∈ L, ValOK ((tr.lookup r).getD []))
    (hT : HostRefsOK L T) : keep (spliceAll L tr T) = true → GoodItem (spliceAll L tr T) := by
  intro hk
  rcases hT with e | e | ⟨hg, ho⟩
  · subst e
    rw [spliceAll_absent tr L [] (fun r _ => rfl)] at hk
    exact absurd hk (by decide)
  · subst e
    have : ∀ r ∈ L, splitFirst (mkRef r) NA = none := by
      intro r _
      exact splitFirst_noBrace (r ++ ['}']) NA (by decide)
    rw [spliceAll_absent tr L NA this] at hk
    exact absurd hk (by decide)
  · obtain ⟨h1, h2, h3⟩ := spliceAll_wellformed tr L T hnd hn hv hg.1 hg.2.1 (Or.inr hg.2.2) ho
    rcases h3 with e | e
    · rw [e] at hk; exact absurd hk (by decide)
    · exact ⟨h1, h2, e⟩

theorem once_iff (R t : Str) : Once R t ↔
    ∃ pre post, splitFirst R t = some (pre, post) ∧ splitFirst R post = none ∧ wholeTag pre post := Iff.rfl

end HedVerif.Assemble

namespace HedVerif.C06
open HedVerif.Assemble

/-- **The assembled row is delimiter-well-formed and balanced** — any number of references per host
text.  `tr` is the transformed row.  If
* the live reference names are over `[A-Za-z0-9_-]` and listed once,
* every referenced column's text is empty, `n/a` (cell n/a, empty, unknown key) or an accepted, balanced,
  non-blank text without braces,
* every other column's text is empty, `n/a`, or an accepted, balanced, non-blank text in which each live
  reference is absent or occurs **once**, as a whole tag (the hypothesis that excludes exactly the
  registered finding `C06-same-reference-adjacent-twice`, see `once_excludes_the_finding`),

then the `", "`-join of the spliced texts passes the delimiter checker and is balanced, whatever subset
of the referenced texts is absent and in whatever order the references are processed. -/
theorem assembled_wellformed (refs : List Str) (tr : List (Str × Str))
    (hnd : (liveRefs refs tr).Nodup)
    (hn : ∀ r ∈ liveRefs refs tr, ∀ c ∈ r, isRefChar c = true)
    (hv : ∀ r ∈ liveRefs refs tr, ValOK ((tr.lookup r).getD []))
    (hh : ∀ p ∈ tr, p.1 ∉ liveRefs refs tr → HostRefsOK (liveRefs refs tr) p.2) :
    delimOk (joinRow ((assembled refs tr).map (·.2))) = true ∧
    balanced (joinRow ((assembled refs tr).map (·.2))) := by
  have hitems : ∀ x ∈ (assembled refs tr).map (·.2), keep x = true → GoodItem x := by
    intro x hx
    simp only [assembled, List.map_map, List.mem_map, List.mem_filter, Function.comp_def] at hx
    obtain ⟨p, ⟨hp, hnp⟩, rfl⟩ := hx
    exact host_item_multi tr _ p.2 hnd hn hv (hh p hp (by simpa using hnp))
  constructor
  · exact join_wellformed _ (fun x hx hk => good_itemOk x (hitems x hx hk))
  · unfold joinRow balanced
    apply join_depth
    intro x hx
    have := List.mem_filter.mp hx
    exact (hitems x this.1 this.2).2.1

/-- the same for `Assemble.row` (one entry of `series_a`), for every sidecar and table of the model -/
theorem row_wellformed (refs : List Str) (sc : Sidecar) (header r : List Str)
    (hnd : (liveRefs refs (transformed (activeCols sc header) header r)).Nodup)
    (hn : ∀ x ∈ liveRefs refs (transformed (activeCols sc header) header r), ∀ c ∈ x, isRefChar c = true)
    (hv : ∀ x ∈ liveRefs refs (transformed (activeCols sc header) header r),
      ValOK (((transformed (activeCols sc header) header r).lookup x).getD []))
    (hh : ∀ p ∈ transformed (activeCols sc header) header r,
      p.1 ∉ liveRefs refs (transformed (activeCols sc header) header r) →
      HostRefsOK (liveRefs refs (transformed (activeCols sc header) header r)) p.2) :
    delimOk (row refs sc header r) = true ∧ balanced (row refs sc header r) :=
  assembled_wellformed refs _ hnd hn hv hh

/-- one text with several references: each step keeps it accepted, balanced and the remaining references
whole; nothing is assumed about the order -/
theorem several_references_wellformed (tr : List (Str × Str)) (L : List Str) (T : Str) (hnd : L.Nodup)
    (hn : ∀ r ∈ L, ∀ c ∈ r, isRefChar c = true) (hv : ∀ r ∈ L, ValOK ((tr.lookup r).getD []))
    (hg : GoodItem T) (hR : RefsOK L T) :
    delimOk (spliceAll L tr T) = true ∧ balanced (spliceAll L tr T) ∧
    (spliceAll L tr T = [] ∨ firstNonWs (spliceAll L tr T) ≠ none) :=
  spliceAll_wellformed tr L T hnd hn hv hg.1 hg.2.1 (Or.inr hg.2.2) hR

/-- The "once" hypothesis is exactly what the registered finding violates: in `R,{c},{c}` the reference
occurs twice (and the clean-up leaves `R,`, `na_wellformed_counterexample`). -/
theorem once_excludes_the_finding : ¬ Once (mkRef ['c']) "R,{c},{c}".toList := by
  rintro ⟨pre, post, h1, h2, -⟩
  have e : splitFirst (mkRef ['c']) "R,{c},{c}".toList = some ("R,".toList, ",{c}".toList) := by
    decide +kernel
  rw [e] at h1
  simp only [Option.some.injEq, Prod.mk.injEq] at h1
  rw [← h1.2] at h2
  revert h2
  decide +kernel

/-- non-vacuity: `{a}, ({b}), {HED}` with `b` absent -/
example :
    Once (mkRef ['a']) "{a}, ({b}), {HED}".toList ∧ Once (mkRef ['b']) "{a}, ({b}), {HED}".toList ∧
    GoodItem "{a}, ({b}), {HED}".toList ∧
    replaceRef (replaceRef (replaceRef "{a}, ({b}), {HED}".toList ['a'] "Red".toList) ['b'] NA)
      "HED".toList "(Pink, Dot)".toList = "Red, (Pink, Dot)".toList := by
  refine ⟨⟨[], ", ({b}), {HED}".toList, by decide +kernel, by decide +kernel, by decide +kernel⟩,
    ⟨"{a}, (".toList, "), {HED}".toList, by decide +kernel, by decide +kernel, by decide +kernel⟩,
    by decide +kernel, by decide +kernel⟩

end HedVerif.C06
namespace HedVerif.Assemble

/-! ### the match groups of a text written without stray blanks, and what the remover does there -/

/-- ends with a character the match cannot reach over (a tag character, `)`, `}`), or is empty -/
def HardEnd (A : Str) : Prop := A = [] ∨ ∃ as a, A = as ++ [a] ∧ isC a = false ∧ isP1 a = false
/-- begins with a character the match cannot reach over (a tag character, `(`, `{`), or is empty -/
def HardStart (B : Str) : Prop := B = [] ∨ ∃ b bs, B = b :: bs ∧ isC b = false ∧ isP2 b = false
/-- a separator: nothing, or a comma followed by blanks -/
def IsSep (s : Str) : Prop := s = [] ∨ ∃ bl, s = ',' :: bl ∧ ∀ c ∈ bl, isSpace c = true

theorem sep_isC (s : Str) (h : IsSep s) : ∀ c ∈ s, isC c = true := by
  rcases h with rfl | ⟨bl, rfl, hb⟩
  · simp
  · intro c hc
    rcases List.mem_cons.mp hc with e | e
    · subst e; decide
    · simp [isC, hb c e]

theorem dropWhile_isP1_tail : ∀ (l U : Str), (∀ c ∈ l, isC c = true) →
    (U = [] ∨ ∃ a us, U = a :: us ∧ isC a = false ∧ isP1 a = false) →
    ∃ E, (∀ c ∈ E, isC c = true) ∧ (l ++ U).dropWhile isP1 = E ++ U
  | [], U, _, hU => by
    refine ⟨[], by simp, ?_⟩
    rcases hU with rfl | ⟨a, us, rfl, _, h2⟩
    · rfl
    · simp [List.dropWhile_cons, h2]
  | c :: l, U, hl, hU => by
    by_cases hc : isP1 c = true
    · obtain ⟨E, hE, e⟩ := dropWhile_isP1_tail l U (fun x hx => hl x (by simp [hx])) hU
      exact ⟨E, hE, by simp [List.dropWhile_cons, hc, e]⟩
    · exact ⟨c :: l, hl, by simp [List.dropWhile_cons, hc]⟩

theorem groups_unique_pre (U C1 P1 post : Str) (hU : HardEnd U) (hC : ∀ c ∈ C1, isC c = true)
    (hP : ∀ c ∈ P1, isP1 c = true) (hP0 : P1 = [] ∨ ∃ ps, P1 = '(' :: ps) :
    (groups (U ++ (C1 ++ P1)) post).u = U ∧ (groups (U ++ (C1 ++ P1)) post).c1 = C1 ∧
    (groups (U ++ (C1 ++ P1)) post).p1 = P1 := by
  have hu : (groups (U ++ (C1 ++ P1)) post).u = U := by
    simp only [groups]
    have e : (U ++ (C1 ++ P1)).reverse = P1.reverse ++ (C1.reverse ++ U.reverse) := by simp
    rw [e, List.dropWhile_append_of_pos (fun a ha => hP a (List.mem_reverse.mp ha))]
    have hU' : U.reverse = [] ∨ ∃ a us, U.reverse = a :: us ∧ isC a = false ∧ isP1 a = false := by
      rcases hU with rfl | ⟨as, a, rfl, h1, h2⟩
      · exact Or.inl rfl
      · exact Or.inr ⟨a, as.reverse, by simp, h1, h2⟩
    obtain ⟨E, hE, eD⟩ := dropWhile_isP1_tail C1.reverse U.reverse
      (fun c hc => hC c (List.mem_reverse.mp hc)) hU'
    rw [eD, List.dropWhile_append_of_pos hE]
    rcases hU' with h | ⟨a, us, h, h1, _⟩
    · rw [h]; simp [List.reverse_eq_nil_iff.mp h]
    · rw [h, List.dropWhile_cons, if_neg (by simp [h1]), ← h, List.reverse_reverse]
  obtain ⟨f1, -, -, -, -, -, -, -⟩ := groups_spec (U ++ (C1 ++ P1)) post
  rw [hu] at f1
  have hreg := List.append_cancel_left f1
  have hc1 : (groups (U ++ (C1 ++ P1)) post).c1 = C1 := by
    have : (groups (U ++ (C1 ++ P1)) post).c1 =
        ((groups (U ++ (C1 ++ P1)) post).c1 ++ (groups (U ++ (C1 ++ P1)) post).p1).takeWhile isC := by
      simp only [groups, List.takeWhile_append_dropWhile]
    rw [this, ← hreg, List.takeWhile_append_of_pos hC]
    rcases hP0 with rfl | ⟨ps, rfl⟩
    · simp
    · simp [List.takeWhile_cons, show isC '(' = false by decide]
  refine ⟨hu, hc1, ?_⟩
  rw [hc1] at hreg
  exact (List.append_cancel_left hreg).symm

theorem groups_unique_post (pre P2 C2 W : Str) (hP : ∀ c ∈ P2, isP2 c = true) (hC : IsSep C2)
    (hW : HardStart W) :
    (groups pre (P2 ++ (C2 ++ W))).p2 = P2 ∧ (groups pre (P2 ++ (C2 ++ W))).c2 = C2 ∧
    (groups pre (P2 ++ (C2 ++ W))).w = W := by
  have hCc := sep_isC C2 hC
  have hstop : (C2 ++ W).takeWhile isP2 = [] ∧ (C2 ++ W).dropWhile isP2 = C2 ++ W := by
    rcases hC with rfl | ⟨bl, rfl, _⟩
    · rcases hW with rfl | ⟨b, bs, rfl, _, h2⟩
      · simp
      · simp [List.takeWhile_cons, List.dropWhile_cons, h2]
    · simp [List.takeWhile_cons, List.dropWhile_cons, show isP2 ',' = false by decide]
  have hstopW : W.takeWhile isC = [] ∧ W.dropWhile isC = W := by
    rcases hW with rfl | ⟨b, bs, rfl, h1, _⟩
    · simp
    · simp [List.takeWhile_cons, List.dropWhile_cons, h1]
  simp only [groups]
  rw [List.takeWhile_append_of_pos hP, List.dropWhile_append_of_pos hP, hstop.1, hstop.2,
    List.takeWhile_append_of_pos hCc, List.dropWhile_append_of_pos hCc, hstopW.1, hstopW.2]
  simp

theorem splitFirst_at (R A0 rest : Str) (hR : R ≠ []) (hA : splitFirst R A0 = none)
    (hb : ∀ a' m, a' ≠ [] → m ≠ [] → R = a' ++ m → a' <:+ A0 → m <+: R ++ rest → False) :
    splitFirst R (A0 ++ (R ++ rest)) = some (A0, rest) := by
  have := splitFirst_append_shift R (R ++ rest) A0 hA hb
  rw [splitFirst_self _ _ hR] at this
  simpa using this

end HedVerif.Assemble

namespace HedVerif.Assemble

theorem noBrace_of_classes (s : Str) (h : ∀ c ∈ s, isC c = true ∨ c = '(' ∨ c = ')') : '{' ∉ s := by
  intro hm
  rcases h _ hm with h | h | h
  · revert h; decide
  · cases h
  · cases h

/-- **What the regex match is and what is put back**, for a reference written with `a` opening
parentheses directly before it and `b` closing ones directly after, an optional separator (comma and
blanks) on either side, between texts the match cannot reach into. -/
theorem replaceRef_shape (n v A c1s c2s B : Str) (a b : Nat) (hn : ∀ c ∈ n, isRefChar c = true)
    (hv : v = [] ∨ v = NA) (hA : HardEnd A) (hB : HardStart B) (h1 : IsSep c1s) (h2 : IsSep c2s)
    (habsA : splitFirst (mkRef n) A = none) (habsB : splitFirst (mkRef n) B = none) :
    replaceRef (A ++ (c1s ++ (List.replicate a '(' ++ (mkRef n ++ (List.replicate b ')' ++ (c2s ++ B)))))) n v =
      A ++ (removerOut true ⟨A, c1s, List.replicate a '(', List.replicate b ')', c2s, B⟩ ++ B) := by
  have hR := mkRef_ne n
  have hbad := refChars_bad n hn
  have hc1 := sep_isC c1s h1
  have hc2 := sep_isC c2s h2
  -- the occurrence
  have hmid : '{' ∉ c1s ++ List.replicate a '(' := by
    apply noBrace_of_classes
    intro c hc
    rcases List.mem_append.mp hc with h | h
    · exact Or.inl (hc1 c h)
    · exact Or.inr (Or.inl (List.mem_replicate.mp h).2)
  have hpre : splitFirst (mkRef n) (A ++ (c1s ++ List.replicate a '(')) = none := by
    apply splitFirst_append_none _ _ _ hR habsA (splitFirst_noBrace (n ++ ['}']) _ hmid)
    intro a' m ha hm e _ hp
    have hh := (mkRef_split n a' m ha hm e).2
    have hd := prefix_head m _ hm hp
    cases hx : m.head? with
    | none => cases m with
      | nil => exact hm rfl
      | cons _ _ => simp at hx
    | some x =>
      have hxb := hbad x (by rcases hh x hx with h | h; exact Or.inl h; exact Or.inr (Or.inl h))
      rw [hx] at hd
      have hxm : x ∈ c1s ++ List.replicate a '(' := List.mem_of_mem_head? hd.symm
      rcases List.mem_append.mp hxm with h | h
      · rw [hc1 x h] at hxb; cases hxb.1
      · exact hxb.2.1 (List.mem_replicate.mp h).2
  have hs : splitFirst (mkRef n) (A ++ (c1s ++ (List.replicate a '(' ++ (mkRef n ++
      (List.replicate b ')' ++ (c2s ++ B)))))) =
      some (A ++ (c1s ++ List.replicate a '('), List.replicate b ')' ++ (c2s ++ B)) := by
    have := splitFirst_at (mkRef n) (A ++ (c1s ++ List.replicate a '('))
      (List.replicate b ')' ++ (c2s ++ B)) hR hpre (no_straddle_before_ref n _ _ hn)
    simpa [List.append_assoc] using this
  have hone : splitFirst (mkRef n) (List.replicate b ')' ++ (c2s ++ B)) = none := by
    have hnb : '{' ∉ List.replicate b ')' ++ c2s := by
      apply noBrace_of_classes
      intro c hc
      rcases List.mem_append.mp hc with h | h
      · exact Or.inr (Or.inr (List.mem_replicate.mp h).2)
      · exact Or.inl (hc2 c h)
    have := splitFirst_skip (n ++ ['}']) (List.replicate b ')' ++ c2s) B hnb
    rw [show mkRef n = '{' :: (n ++ ['}']) from rfl, ← List.append_assoc, this]
    rw [show mkRef n = '{' :: (n ++ ['}']) from rfl] at habsB
    rw [habsB]; rfl
  -- one step of the substitution loop
  have hf : ∀ x y : Str, (removeF true x y).2.length ≤ y.length := by
    intro x y
    show ((y.dropWhile isP2).dropWhile isC).length ≤ y.length
    exact Nat.le_trans (List.dropWhile_sublist _).length_le (List.dropWhile_sublist _).length_le
  obtain ⟨gu, gc1, gp1⟩ := groups_unique_pre A c1s (List.replicate a '(')
    (List.replicate b ')' ++ (c2s ++ B)) hA hc1
    (fun c hc => by rw [(List.mem_replicate.mp hc).2]; decide)
    (by cases a with
      | zero => exact Or.inl rfl
      | succ k => exact Or.inr ⟨List.replicate k '(', by simp [List.replicate_succ]⟩)
  obtain ⟨gp2, gc2, gw⟩ := groups_unique_post (A ++ (c1s ++ List.replicate a '(')) (List.replicate b ')') c2s B
    (fun c hc => by rw [(List.mem_replicate.mp hc).2]; decide) h2 hB
  have hw0 : splitFirst (mkRef n) B = none := habsB
  unfold replaceRef
  have eo : removerOut true (groups (A ++ (c1s ++ List.replicate a '(')) (List.replicate b ')' ++ (c2s ++ B))) =
      removerOut true ⟨A, c1s, List.replicate a '(', List.replicate b ')', c2s, B⟩ := by
    simp only [removerOut, gc1, gp1, gp2, gc2]
  rw [if_pos hv, sub_step _ _ hR hf _ _ _ hs]
  simp only [removeF]
  rw [gw, subF_none _ _ _ _ hw0, gu, eo, List.append_assoc]

end HedVerif.Assemble

namespace HedVerif.C06
open HedVerif.Assemble

/-- **Removal, position by position** (unbounded: any surrounding texts, any depth `m` of groups of which
the reference is the sole member, any blanks after the commas).  With the cell `n/a` or empty:
* *middle or last member with a comma before it*: `A, ((R))␣, B` ↦ `A, B` — the reference, its own
  parentheses and the comma before it go, what follows stays;
* *last member of a group*: `A, ((R))))…` with `j` more closing parentheses ↦ `A))…` — the comma before goes,
  the `j` parentheses of the enclosing groups stay;
* *first member of a group*: `…((((R)), B` with `j` more opening parentheses ↦ `…((B` — the comma after
  goes, the `j` parentheses of the enclosing groups (and whatever comma stood before them) stay;
* *sole content* (`((R))` at the start, nothing or a comma after): everything goes. -/
theorem removal_positions (n v A B bl c1s c2s : Str) (m j : Nat) (hn : ∀ c ∈ n, isRefChar c = true)
    (hv : v = [] ∨ v = NA) (hA : HardEnd A) (hB : HardStart B) (hbl : ∀ c ∈ bl, isSpace c = true)
    (h1 : IsSep c1s) (h2 : IsSep c2s)
    (habsA : splitFirst (mkRef n) A = none) (habsB : splitFirst (mkRef n) B = none) :
    -- middle / last with equal parentheses
    replaceRef (A ++ ((',' :: bl) ++ (List.replicate m '(' ++ (mkRef n ++ (List.replicate m ')' ++ (c2s ++ B)))))) n v
      = A ++ (c2s ++ B) ∧
    -- last member of `j` enclosing groups
    (0 < j → replaceRef (A ++ (c1s ++ (List.replicate m '(' ++ (mkRef n ++
        (List.replicate (m + j) ')' ++ (c2s ++ B)))))) n v = A ++ (List.replicate j ')' ++ (c2s ++ B))) ∧
    -- first member of `j` enclosing groups
    (0 < j → replaceRef (A ++ (c1s ++ (List.replicate (m + j) '(' ++ (mkRef n ++
        (List.replicate m ')' ++ (c2s ++ B)))))) n v = A ++ (c1s ++ (List.replicate j '(' ++ B))) ∧
    -- nothing before it
    replaceRef (A ++ (List.replicate m '(' ++ (mkRef n ++ (List.replicate m ')' ++ (c2s ++ B))))) n v = A ++ B := by
  have hsep : IsSep (',' :: bl) := Or.inr ⟨bl, rfl, hbl⟩
  refine ⟨?_, ?_, ?_, ?_⟩
  · rw [replaceRef_shape n v A (',' :: bl) c2s B m m hn hv hA hB hsep h2 habsA habsB]
    simp [removerOut, List.count_replicate]
  · intro hj
    rw [replaceRef_shape n v A c1s c2s B m (m + j) hn hv hA hB h1 h2 habsA habsB]
    have h1' : ¬ (m > m + j) := by omega
    have h2' : m + j > m := by omega
    simp [removerOut, List.count_replicate, h1', h2']
  · intro hj
    rw [replaceRef_shape n v A c1s c2s B (m + j) m hn hv hA hB h1 h2 habsA habsB]
    have h2' : m + j > m := by omega
    simp [removerOut, List.count_replicate, h2']
  · have := replaceRef_shape n v A [] c2s B m m hn hv hA hB (Or.inl rfl) h2 habsA habsB
    simp only [List.nil_append] at this
    rw [this]
    simp [removerOut, List.count_replicate]

example : replaceRef "(Red, (({c})), Blue)".toList ['c'] NA = "(Red, Blue)".toList ∧
    replaceRef "(Red, (({c})))".toList ['c'] NA = "(Red)".toList ∧
    replaceRef "A, ((({c})), Blue)".toList ['c'] NA = "A, (Blue)".toList ∧
    replaceRef "(({c})), Blue".toList ['c'] NA = "Blue".toList := by decide +kernel

end HedVerif.C06

/-! ### histories on one object -/

namespace HedVerif.Assemble

/-- what can be done to one `TabularInput`: ask for the rows, or install another sidecar
(`reset_column_mapper`) -/
inductive Op where
  | assemble
  | reset (sc : Sidecar)

/-- the answers given along a history, and the object afterwards -/
def runOps : Input → List Op → List (List Str) × Input
  | x, [] => ([], x)
  | x, .assemble :: ops => let (a, x') := call x; let (as, x'') := runOps x' ops; (a :: as, x'')
  | x, .reset sc :: ops => runOps ⟨sc, x.table⟩ ops

/-- the sidecar in force after a history -/
def lastSidecar : Sidecar → List Op → Sidecar
  | sc, [] => sc
  | sc, .assemble :: ops => lastSidecar sc ops
  | _, .reset sc' :: ops => lastSidecar sc' ops

end HedVerif.Assemble

namespace HedVerif.C06
open HedVerif.Assemble

/-- **After any history the rows are those of the last installed sidecar**: whatever was assembled or
installed before, the table is the one the object was opened with, the sidecar is the last one installed,
and the next answer is `series` of exactly these two — nothing computed for an earlier sidecar (such as
its reference list) survives. -/
theorem history_last_sidecar (x : Input) (ops : List Op) :
    (runOps x ops).2 = ⟨lastSidecar x.sidecar ops, x.table⟩ ∧
    (runOps x (ops ++ [.assemble])).1.getLast? = some (series (lastSidecar x.sidecar ops) x.table) := by
  induction ops generalizing x with
  | nil => exact ⟨rfl, rfl⟩
  | cons op ops ih =>
    cases op with
    | assemble =>
      obtain ⟨h1, h2⟩ := ih x
      refine ⟨by simpa [runOps, call, lastSidecar] using h1, ?_⟩
      simp only [List.cons_append, runOps, call, lastSidecar]
      have hne : (runOps x (ops ++ [Op.assemble])).1 ≠ [] := by
        intro e; rw [e] at h2; cases h2
      rw [List.getLast?_cons_of_ne_nil hne]
      exact h2
    | reset sc =>
      obtain ⟨h1, h2⟩ := ih ⟨sc, x.table⟩
      exact ⟨by simpa [runOps, lastSidecar] using h1, by simpa [runOps, lastSidecar] using h2⟩

end HedVerif.C06
