/-
C06 — Event-file rows assemble into exactly the annotation the sidecar prescribes.

The model (`Model/Assemble.lean`) is that of the code with `fixes/C06_*.diff` applied; the behaviour of
the unchanged code is kept in `replaceRefOld`, `replaceRefOldNumeric`, `valueHandlerOld` and shown to
violate the property by the `old_*_counterexample` theorems.
-/
import HedVerif.Model.Assemble

namespace HedVerif.Assemble

/-! ### columns: sorted by name, exactly the file's columns that have a transformer -/

abbrev NameLe (a b : Col) : Prop := a.name ≤ b.name

theorem mem_insertCol (c x : Col) (l : List Col) : x ∈ insertCol c l ↔ x = c ∨ x ∈ l := by
  induction l with
  | nil => simp [insertCol]
  | cons d ds ih =>
    unfold insertCol
    split
    · simp
    · simp only [List.mem_cons, ih]
      constructor
      · rintro (h | h | h) <;> simp [h]
      · rintro (h | h | h) <;> simp [h]

theorem insertCol_sorted (c : Col) (l : List Col) (h : l.Pairwise NameLe) :
    (insertCol c l).Pairwise NameLe := by
  induction l with
  | nil => simp [insertCol]
  | cons d ds ih =>
    have hd := List.pairwise_cons.mp h
    unfold insertCol
    split
    · rename_i hle
      refine List.pairwise_cons.mpr ⟨?_, h⟩
      intro x hx
      rcases List.mem_cons.mp hx with rfl | hx
      · exact hle
      · exact List.le_trans hle (hd.1 x hx)
    · rename_i hle
      refine List.pairwise_cons.mpr ⟨?_, ih hd.2⟩
      intro x hx
      rcases (mem_insertCol c x ds).mp hx with rfl | hx
      · rcases List.le_total x.name d.name with h1 | h1
        · exact absurd h1 hle
        · exact h1
      · exact hd.1 x hx

theorem mem_sortCols (x : Col) (l : List Col) : x ∈ sortCols l ↔ x ∈ l := by
  induction l with
  | nil => simp [sortCols]
  | cons c cs ih => simp [sortCols, mem_insertCol, ih]

theorem sortCols_sorted (l : List Col) : (sortCols l).Pairwise NameLe := by
  induction l with
  | nil => simp [sortCols]
  | cons c cs ih => exact insertCol_sorted c _ ih

theorem length_insertCol (c : Col) (l : List Col) : (insertCol c l).length = l.length + 1 := by
  induction l with
  | nil => simp [insertCol]
  | cons d ds ih => unfold insertCol; split <;> simp [ih]

theorem length_sortCols (l : List Col) : (sortCols l).length = l.length := by
  induction l with
  | nil => simp [sortCols]
  | cons c cs ih => simp [sortCols, length_insertCol, ih]

/-! ### `splitFirst` and the substitution loop -/

theorem splitFirst_eq (ref : Str) : ∀ (t pre post : Str),
    splitFirst ref t = some (pre, post) → t = pre ++ ref ++ post
  | [], _, _, h => by simp [splitFirst] at h
  | c :: cs, pre, post, h => by
    unfold splitFirst at h
    split at h
    · rename_i hp
      simp only [Option.some.injEq, Prod.mk.injEq] at h
      obtain ⟨rfl, rfl⟩ := h
      have := List.prefix_iff_eq_append.mp (List.isPrefixOf_iff_prefix.mp hp)
      simpa using this.symm
    · split at h
      · simp at h
      · rename_i a b hs
        simp only [Option.some.injEq, Prod.mk.injEq] at h
        obtain ⟨rfl, rfl⟩ := h
        have := splitFirst_eq ref cs a b hs
        simp [this]

theorem splitFirst_none_iff (ref : Str) (hne : ref ≠ []) :
    ∀ t : Str, splitFirst ref t = none ↔ ¬ ref <:+: t
  | [] => by simp [splitFirst, hne]
  | c :: cs => by
    have ih := splitFirst_none_iff ref hne cs
    unfold splitFirst
    rw [List.infix_cons_iff]
    split
    · rename_i hp
      simp [List.isPrefixOf_iff_prefix.mp hp]
    · rename_i hp
      have hp' : ¬ ref <+: c :: cs := fun h => hp (List.isPrefixOf_iff_prefix.mpr h)
      split
      · rename_i hs; simp [hp', ih.mp hs]
      · rename_i a b hs
        have : ref <:+: cs := by
          have := splitFirst_eq ref cs a b hs
          exact ⟨a, b, by simp [this]⟩
        simp [this]

theorem splitFirst_tail (ref : Str) (c : Char) (cs : Str) (h : splitFirst ref (c :: cs) = none) :
    splitFirst ref cs = none := by
  unfold splitFirst at h
  split at h
  · simp at h
  · split at h
    · assumption
    · simp at h

theorem splitFirst_dropWhile (ref : Str) (p : Char → Bool) :
    ∀ t : Str, splitFirst ref t = none → splitFirst ref (t.dropWhile p) = none
  | [], h => by simpa using h
  | c :: cs, h => by
    rw [List.dropWhile_cons]
    split
    · exact splitFirst_dropWhile ref p cs (splitFirst_tail ref c cs h)
    · exact h

theorem subF_none (ref : Str) (f : Str → Str → Str × Str) (n : Nat) (t : Str)
    (h : splitFirst ref t = none) : subF ref f n t = t := by
  cases n <;> simp [subF, h]

theorem subF_fuel (ref : Str) (f : Str → Str → Str × Str) (hne : ref ≠ [])
    (hf : ∀ pre post, (f pre post).2.length ≤ post.length) :
    ∀ (n : Nat) (t : Str), t.length ≤ n → subF ref f n t = subF ref f (n + 1) t := by
  intro n
  induction n with
  | zero =>
    intro t ht
    have : t = [] := List.length_eq_zero_iff.mp (Nat.le_zero.mp ht)
    subst this
    simp [subF, splitFirst]
  | succ k ih =>
    intro t ht
    rw [subF, subF]
    cases hs : splitFirst ref t with
    | none => rfl
    | some pp =>
      obtain ⟨pre, post⟩ := pp
      simp only
      have ht' := splitFirst_eq ref t pre post hs
      have hl : post.length < t.length := by
        have : 0 < ref.length := List.length_pos_iff.mpr hne
        rw [ht']; simp; omega
      have := hf pre post
      rw [ih _ (by omega)]

theorem subF_ge (ref : Str) (f : Str → Str → Str × Str) (hne : ref ≠ [])
    (hf : ∀ pre post, (f pre post).2.length ≤ post.length) (t : Str) :
    ∀ k, subF ref f (t.length + k) t = subF ref f t.length t := by
  intro k
  induction k with
  | zero => rfl
  | succ j ih => rw [← ih, ← Nat.add_assoc, ← subF_fuel ref f hne hf _ t (by omega)]

theorem mkRef_ne (name : Str) : mkRef name ≠ [] := by simp [mkRef]

/-- one step of the loop at the first occurrence -/
theorem sub_step (ref : Str) (f : Str → Str → Str × Str) (hne : ref ≠ [])
    (hf : ∀ pre post, (f pre post).2.length ≤ post.length) (t pre post : Str)
    (hs : splitFirst ref t = some (pre, post)) :
    subF ref f t.length t = (f pre post).1 ++ subF ref f (f pre post).2.length (f pre post).2 := by
  have ht := splitFirst_eq ref t pre post hs
  have hpos : 0 < ref.length := List.length_pos_iff.mpr hne
  have hl : post.length < t.length := by rw [ht]; simp; omega
  obtain ⟨n, hn⟩ : ∃ n, t.length = n + 1 := ⟨t.length - 1, by omega⟩
  rw [hn, subF, hs]
  simp only
  have h2 := hf pre post
  have := subF_ge ref f hne hf (f pre post).2 (n - (f pre post).2.length)
  rw [← this]
  congr 2
  omega

/-! ### delimiter well-formedness as a condition on adjacent non-blank characters -/

/-- may class `k` follow when the last non-blank class was `q` (`none` = start of string)? -/
def ok : Option Cls → Cls → Bool
  | _, .ws => true
  | q, .comma => q == some .cls || q == some .other
  | q, .opn => q == none || q == some .comma || q == some .opn
  | q, .cls => q != some .comma
  | q, .other => q != some .cls

/-- scan keeping only the last non-blank class; `none` = some adjacent pair is not allowed -/
def run : Option Cls → Str → Option (Option Cls)
  | q, [] => some q
  | q, c :: cs =>
    if clsOf c = .ws then run q cs
    else if ok q (clsOf c) then run (some (clsOf c)) cs else none

/-- all adjacent pairs allowed and the string does not end in a comma -/
def chain (q : Option Cls) (s : Str) : Bool :=
  match run q s with
  | none => false
  | some q' => q' != some .comma

def teOf (q : Option Cls) : Bool := q == none || q == some .comma || q == some .opn

theorem dstep_eq (q : Option Cls) (hq : q ≠ some .ws) (k : Cls) :
    dstep ⟨teOf q, q⟩ k =
      if k = .ws then some ⟨teOf q, q⟩ else if ok q k then some ⟨teOf (some k), some k⟩ else none := by
  cases k <;> rcases q with _ | (_|_|_|_|_) <;> first | rfl | exact absurd rfl hq

theorem dscan_eq (s : Str) : ∀ (q : Option Cls), q ≠ some .ws →
    dscan ⟨teOf q, q⟩ s = (run q s).map (fun q' => ⟨teOf q', q'⟩) := by
  induction s with
  | nil => intro q _; rfl
  | cons c cs ih =>
    intro q hq
    show (match dstep ⟨teOf q, q⟩ (clsOf c) with
      | none => none
      | some st' => dscan st' cs) = _
    rw [dstep_eq q hq]
    by_cases h : clsOf c = .ws
    · simp only [h, if_true, run]; exact ih q hq
    · by_cases ho : ok q (clsOf c) = true
      · simp only [h, ho, if_true, if_false, run]
        exact ih (some (clsOf c)) (by simpa using h)
      · simp [h, ho, run]

theorem delimOk_eq_chain (s : Str) : delimOk s = chain none s := by
  have h := dscan_eq s none (by simp)
  have e : (⟨teOf none, none⟩ : DSt) = ⟨true, none⟩ := rfl
  rw [e] at h
  unfold delimOk chain
  rw [h]
  cases run none s <;> rfl

theorem run_append : ∀ (xs ys : Str) (q : Option Cls),
    run q (xs ++ ys) = (run q xs).bind (fun q' => run q' ys)
  | [], ys, q => by simp [run]
  | c :: cs, ys, q => by
    simp only [List.cons_append, run]
    split
    · exact run_append cs ys q
    · split
      · exact run_append cs ys _
      · rfl

theorem chain_append_true {xs ys : Str} {q : Option Cls} (h : chain q (xs ++ ys) = true) :
    ∃ q', run q xs = some q' ∧ chain q' ys = true := by
  unfold chain at h
  rw [run_append] at h
  cases h1 : run q xs with
  | none => simp [h1] at h
  | some q' => exact ⟨q', rfl, by simpa [h1, chain] using h⟩

theorem chain_append_intro {xs ys : Str} {q q' : Option Cls} (h1 : run q xs = some q')
    (h2 : chain q' ys = true) : chain q (xs ++ ys) = true := by
  unfold chain
  rw [run_append, h1]
  simpa [chain] using h2

/-! character classes of the pattern's character sets -/

theorem clsOf_ws_iff (c : Char) : clsOf c = .ws ↔ isSpace c = true := by
  by_cases h : isSpace c = true <;> by_cases h1 : (c == ',') = true <;> by_cases h2 : (c == '(') = true <;>
    by_cases h3 : (c == ')') = true <;> simp [clsOf, h, h1, h2, h3]

theorem clsOf_comma : clsOf ',' = .comma := by decide
theorem clsOf_opn : clsOf '(' = .opn := by decide
theorem clsOf_cls : clsOf ')' = .cls := by decide

theorem isC_cls (c : Char) (h : isC c = true) : clsOf c = .ws ∨ c = ',' := by
  by_cases hs : isSpace c = true
  · exact Or.inl ((clsOf_ws_iff c).mpr hs)
  · right; simpa [isC, hs] using h

theorem isP1_cls (c : Char) (h : isP1 c = true) : clsOf c = .ws ∨ c = '(' := by
  by_cases hs : isSpace c = true
  · exact Or.inl ((clsOf_ws_iff c).mpr hs)
  · right; simpa [isP1, hs] using h

theorem isP2_cls (c : Char) (h : isP2 c = true) : clsOf c = .ws ∨ c = ')' := by
  by_cases hs : isSpace c = true
  · exact Or.inl ((clsOf_ws_iff c).mpr hs)
  · right; simpa [isP2, hs] using h

theorem notC_cls (c : Char) (h : isC c = false) : clsOf c ≠ .ws ∧ clsOf c ≠ .comma := by
  simp only [isC, Bool.or_eq_false_iff] at h
  by_cases h2 : (c == '(') = true <;> by_cases h3 : (c == ')') = true <;> simp [clsOf, h.1, h.2, h2, h3]

theorem mem_takeWhile_p (p : Char → Bool) : ∀ (l : Str) (x : Char), x ∈ l.takeWhile p → p x = true
  | [], _, h => by simp at h
  | c :: cs, x, h => by
    rw [List.takeWhile_cons] at h
    split at h
    · rename_i hc
      rcases List.mem_cons.mp h with e | e
      · subst e; exact hc
      · exact mem_takeWhile_p p cs x e
    · simp at h

theorem run_ws : ∀ (xs : Str) (q : Option Cls), (∀ c ∈ xs, clsOf c = .ws) → run q xs = some q
  | [], _, _ => rfl
  | c :: cs, q, h => by
    rw [run, if_pos (h c (by simp))]
    exact run_ws cs q (fun x hx => h x (by simp [hx]))

theorem isC_noComma_ws (xs : Str) (hx : ∀ c ∈ xs, isC c = true) (hn : ',' ∉ xs) :
    ∀ c ∈ xs, clsOf c = .ws := by
  intro c hc
  rcases isC_cls c (hx c hc) with h | h
  · exact h
  · subst h; exact absurd hc hn

theorem run_isC : ∀ (xs : Str), (∀ c ∈ xs, isC c = true) → ∀ q q', run q xs = some q' →
    (q' = q ∧ ',' ∉ xs) ∨ (q' = some .comma ∧ ',' ∈ xs ∧ (q = some .cls ∨ q = some .other))
  | [], _, q, q', h => by simp [run] at h; simp [h]
  | c :: cs, hx, q, q', h => by
    have ih := run_isC cs (fun x hx' => hx x (by simp [hx']))
    rcases isC_cls c (hx c (by simp)) with hc | hc
    · rw [run, if_pos hc] at h
      have hne : c ≠ ',' := by
        intro e; subst e; rw [clsOf_comma] at hc; cases hc
      rcases ih q q' h with ⟨h1, h2⟩ | ⟨h1, h2, h3⟩
      · left; exact ⟨h1, by simp [h2, Ne.symm hne]⟩
      · right; exact ⟨h1, by simp [h2], h3⟩
    · subst hc
      rw [run, clsOf_comma] at h
      simp only [reduceCtorEq, if_false] at h
      by_cases ho : ok q .comma = true
      · rw [if_pos ho] at h
        rcases ih _ q' h with ⟨h1, _⟩ | ⟨_, _, h3⟩
        · right
          refine ⟨h1, by simp, ?_⟩
          rcases q with _ | (_|_|_|_|_) <;> simp_all [ok]
        · simp at h3
      · rw [if_neg ho] at h; cases h

theorem run_isP1 : ∀ (xs : Str), (∀ c ∈ xs, isP1 c = true) → ∀ q q', run q xs = some q' →
    (q' = q ∧ '(' ∉ xs) ∨ (q' = some .opn ∧ '(' ∈ xs ∧ ok q .opn = true)
  | [], _, q, q', h => by simp [run] at h; simp [h]
  | c :: cs, hx, q, q', h => by
    have ih := run_isP1 cs (fun x hx' => hx x (by simp [hx']))
    rcases isP1_cls c (hx c (by simp)) with hc | hc
    · rw [run, if_pos hc] at h
      have hne : c ≠ '(' := by
        intro e; subst e; rw [clsOf_opn] at hc; cases hc
      rcases ih q q' h with ⟨h1, h2⟩ | ⟨h1, h2, h3⟩
      · left; exact ⟨h1, by simp [h2, Ne.symm hne]⟩
      · right; exact ⟨h1, by simp [h2], h3⟩
    · subst hc
      rw [run, clsOf_opn] at h
      simp only [reduceCtorEq, if_false] at h
      by_cases ho : ok q .opn = true
      · rw [if_pos ho] at h
        rcases ih _ q' h with ⟨h1, _⟩ | ⟨h1, _, _⟩
        · right; exact ⟨h1, by simp, ho⟩
        · right; exact ⟨h1, by simp, ho⟩
      · rw [if_neg ho] at h; cases h

theorem run_isP2 : ∀ (xs : Str), (∀ c ∈ xs, isP2 c = true) → ∀ q q', run q xs = some q' →
    (q' = q ∧ ')' ∉ xs) ∨ (q' = some .cls ∧ ')' ∈ xs ∧ q ≠ some .comma)
  | [], _, q, q', h => by simp [run] at h; simp [h]
  | c :: cs, hx, q, q', h => by
    have ih := run_isP2 cs (fun x hx' => hx x (by simp [hx']))
    rcases isP2_cls c (hx c (by simp)) with hc | hc
    · rw [run, if_pos hc] at h
      have hne : c ≠ ')' := by
        intro e; subst e; rw [clsOf_cls] at hc; cases hc
      rcases ih q q' h with ⟨h1, h2⟩ | ⟨h1, h2, h3⟩
      · left; exact ⟨h1, by simp [h2, Ne.symm hne]⟩
      · right; exact ⟨h1, by simp [h2], h3⟩
    · subst hc
      rw [run, clsOf_cls] at h
      simp only [reduceCtorEq, if_false] at h
      by_cases ho : ok q .cls = true
      · rw [if_pos ho] at h
        have hq : q ≠ some .comma := by
          rcases q with _ | (_|_|_|_|_) <;> simp_all [ok]
        rcases ih _ q' h with ⟨h1, _⟩ | ⟨h1, _, _⟩
        · right; exact ⟨h1, by simp, hq⟩
        · right; exact ⟨h1, by simp, hq⟩
      · rw [if_neg ho] at h; cases h

theorem run_other : ∀ (xs : Str), (∀ c ∈ xs, clsOf c = .other) → xs ≠ [] → ∀ q q', run q xs = some q' →
    q' = some .other ∧ q ≠ some .cls
  | [], _, hne, _, _, _ => absurd rfl hne
  | c :: cs, hx, _, q, q', h => by
    have hc := hx c (by simp)
    rw [run, hc] at h
    simp only [reduceCtorEq, if_false] at h
    by_cases ho : ok q .other = true
    · rw [if_pos ho] at h
      have hq : q ≠ some .cls := by
        rcases q with _ | (_|_|_|_|_) <;> simp_all [ok]
      cases cs with
      | nil => simp [run] at h; exact ⟨h.symm, hq⟩
      | cons d ds =>
        exact ⟨(run_other (d :: ds) (fun x hx' => hx x (by simp [hx'])) (by simp) _ q' h).1, hq⟩
    · rw [if_neg ho] at h; cases h

theorem run_replicate_opn : ∀ (n : Nat) (q : Option Cls), 0 < n → ok q .opn = true →
    run q (List.replicate n '(') = some (some .opn)
  | 0, _, h, _ => by omega
  | n + 1, q, _, ho => by
    rw [List.replicate_succ, run, clsOf_opn]
    simp only [reduceCtorEq, if_false, ho, if_true]
    cases n with
    | zero => rfl
    | succ m => exact run_replicate_opn (m + 1) _ (by omega) rfl

theorem run_replicate_cls : ∀ (n : Nat) (q : Option Cls), 0 < n → q ≠ some .comma →
    run q (List.replicate n ')') = some (some .cls)
  | 0, _, h, _ => by omega
  | n + 1, q, _, hq => by
    have ho : ok q .cls = true := by
      rcases q with _ | (_|_|_|_|_) <;> simp_all [ok]
    rw [List.replicate_succ, run, clsOf_cls]
    simp only [reduceCtorEq, if_false, ho, if_true]
    cases n with
    | zero => rfl
    | succ m => exact run_replicate_cls (m + 1) _ (by omega) (by simp)

/-- a `[\s,]*` run that was accepted once is accepted after any closing parenthesis or tag -/
theorem run_isC_transfer : ∀ (xs : Str), (∀ c ∈ xs, isC c = true) → ∀ q q', run q xs = some q' →
    ',' ∈ xs → ∀ r, (r = some .cls ∨ r = some .other) → run r xs = some (some .comma)
  | [], _, _, _, _, hm, _, _ => by simp at hm
  | c :: cs, hx, q, q', h, hm, r, hr => by
    have hx' : ∀ x ∈ cs, isC x = true := fun x hx' => hx x (by simp [hx'])
    rcases isC_cls c (hx c (by simp)) with hc | hc
    · rw [run, if_pos hc] at h
      have hne : c ≠ ',' := by
        intro e; subst e; rw [clsOf_comma] at hc; cases hc
      rw [run, if_pos hc]
      refine run_isC_transfer cs hx' q q' h ?_ r hr
      rcases List.mem_cons.mp hm with e | e
      · exact absurd e.symm hne
      · exact e
    · subst hc
      rw [run, clsOf_comma] at h
      simp only [reduceCtorEq, if_false] at h
      by_cases ho : ok q .comma = true
      · rw [if_pos ho] at h
        have hor : ok r .comma = true := by rcases hr with e | e <;> subst e <;> rfl
        rw [run, clsOf_comma]
        simp only [reduceCtorEq, if_false, hor, if_true]
        rcases run_isC cs hx' _ q' h with ⟨_, h2⟩ | ⟨_, _, h3⟩
        · exact run_ws cs _ (isC_noComma_ws cs hx' h2)
        · simp at h3
      · rw [if_neg ho] at h; cases h

theorem run_snoc_state (us : Str) (c : Char) (q q' : Option Cls) (h : run q (us ++ [c]) = some q')
    (hc : clsOf c ≠ .ws) : q' = some (clsOf c) := by
  rw [run_append] at h
  cases h1 : run q us with
  | none => simp [h1] at h
  | some q1 =>
    simp only [h1, Option.bind_some, run, hc, if_false] at h
    split at h
    · simpa using h.symm
    · cases h

/-! whole-tag references -/

def lastNonWs : Str → Option Char
  | [] => none
  | c :: cs => match lastNonWs cs with
    | some x => some x
    | none => if isSpace c then none else some c

def firstNonWs : Str → Option Char
  | [] => none
  | c :: cs => if isSpace c then firstNonWs cs else some c

/-- the text before the reference ends (blanks aside) at the start, a comma or `(`; the text after it
begins at the end, a comma or `)` — the reference is a whole tag -/
def wholeTag (pre post : Str) : Prop :=
  (lastNonWs pre = none ∨ lastNonWs pre = some ',' ∨ lastNonWs pre = some '(') ∧
  (firstNonWs post = none ∨ firstNonWs post = some ',' ∨ firstNonWs post = some ')')

theorem run_lastNonWs : ∀ (s : Str) (q q' : Option Cls), run q s = some q' →
    q' = match lastNonWs s with | none => q | some c => some (clsOf c)
  | [], q, q', h => by simp [run] at h; simp [lastNonWs, h]
  | c :: cs, q, q', h => by
    rw [run] at h
    by_cases hc : clsOf c = .ws
    · rw [if_pos hc] at h
      have := run_lastNonWs cs q q' h
      rw [lastNonWs]
      cases hl : lastNonWs cs with
      | some x => simpa [hl] using this
      | none => simpa [hl, (clsOf_ws_iff c).mp hc] using this
    · rw [if_neg hc] at h
      split at h
      · have := run_lastNonWs cs _ q' h
        rw [lastNonWs]
        have hs : isSpace c = false := by
          cases hh : isSpace c
          · rfl
          · exact absurd ((clsOf_ws_iff c).mpr hh) hc
        cases hl : lastNonWs cs with
        | some x => simpa [hl] using this
        | none => simpa [hl, hs] using this
      · cases h

theorem firstNonWs_ws_append : ∀ (xs ys : Str), (∀ c ∈ xs, clsOf c = .ws) →
    firstNonWs (xs ++ ys) = firstNonWs ys
  | [], _, _ => rfl
  | c :: cs, ys, h => by
    simp only [List.cons_append, firstNonWs, (clsOf_ws_iff c).mp (h c (by simp)), if_true]
    exact firstNonWs_ws_append cs ys (fun x hx => h x (by simp [hx]))

theorem dropWhile_head (p : Char → Bool) : ∀ l : Str,
    l.dropWhile p = [] ∨ ∃ h t, l.dropWhile p = h :: t ∧ p h = false
  | [] => Or.inl rfl
  | c :: cs => by
    rw [List.dropWhile_cons]
    split
    · exact dropWhile_head p cs
    · rename_i h
      exact Or.inr ⟨c, cs, rfl, by simpa using h⟩

/-- what the match groups are: a decomposition of the text around the reference into maximal runs -/
theorem groups_spec (pre post : Str) :
    pre = (groups pre post).u ++ ((groups pre post).c1 ++ (groups pre post).p1) ∧
    post = (groups pre post).p2 ++ ((groups pre post).c2 ++ (groups pre post).w) ∧
    (∀ c ∈ (groups pre post).c1, isC c = true) ∧ (∀ c ∈ (groups pre post).p1, isP1 c = true) ∧
    (∀ c ∈ (groups pre post).p2, isP2 c = true) ∧ (∀ c ∈ (groups pre post).c2, isC c = true) ∧
    ((groups pre post).u = [] ∨ ∃ us c, (groups pre post).u = us ++ [c] ∧ isC c = false) ∧
    ((groups pre post).w = [] ∨ ∃ c cs, (groups pre post).w = c :: cs ∧ isC c = false) := by
  simp only [groups]
  refine ⟨?_, ?_, ?_, ?_, ?_, ?_, ?_, ?_⟩
  · rw [List.takeWhile_append_dropWhile, ← List.reverse_append, ← List.reverse_append,
      List.append_assoc, List.takeWhile_append_dropWhile, List.takeWhile_append_dropWhile,
      List.reverse_reverse]
  · simp [List.takeWhile_append_dropWhile]
  · intro c hc; exact mem_takeWhile_p _ _ _ hc
  · intro c hc
    rw [List.dropWhile_append_of_pos (by intro a ha; exact mem_takeWhile_p _ _ _ (List.mem_reverse.mp ha))] at hc
    have := (List.dropWhile_sublist _).subset hc
    exact mem_takeWhile_p _ _ _ (List.mem_reverse.mp this)
  · intro c hc; exact mem_takeWhile_p _ _ _ hc
  · intro c hc; exact mem_takeWhile_p _ _ _ hc
  · rcases dropWhile_head isC ((pre.reverse).dropWhile isP1) with h | ⟨h, t, e, hp⟩
    · left; simp [h]
    · right; exact ⟨t.reverse, h, by simp [e], hp⟩
  · exact dropWhile_head isC _

theorem chain_nil (q : Option Cls) : chain q [] = (q != some .comma) := rfl

theorem chain_cons_nonC (q : Option Cls) (c : Char) (cs : Str) (hc : isC c = false) :
    chain q (c :: cs) = (ok q (clsOf c) && chain (some (clsOf c)) cs) := by
  have h := (notC_cls c hc).1
  unfold chain
  rw [run, if_neg h]
  by_cases ho : ok q (clsOf c) = true <;> simp [ho]

theorem chain_swap (q q' : Option Cls) (W : Str)
    (hW : W = [] ∨ ∃ c cs, W = c :: cs ∧ isC c = false)
    (h : chain q W = true) (hq' : q' ≠ some .comma)
    (hok : ∀ c cs, W = c :: cs → isC c = false → ok q (clsOf c) = true → ok q' (clsOf c) = true) :
    chain q' W = true := by
  rcases hW with rfl | ⟨c, cs, rfl, hc⟩
  · simpa [chain_nil] using hq'
  · rw [chain_cons_nonC _ _ _ hc] at h ⊢
    simp only [Bool.and_eq_true] at h ⊢
    exact ⟨hok c cs rfl hc h.1, h.2⟩

theorem isP2_noCls_ws (xs : Str) (hx : ∀ c ∈ xs, isP2 c = true) (hn : ')' ∉ xs) :
    ∀ c ∈ xs, clsOf c = .ws := by
  intro c hc
  rcases isP2_cls c (hx c hc) with h | h
  · exact h
  · subst h; exact absurd hc hn

/-- The heart of `na_wellformed`: with the match groups as the regex finds them, dropping the reference
as `_remover` prescribes keeps every adjacent pair of non-blank characters allowed. -/
theorem remove_core (U c1 p1 ref p2 c2 W : Str)
    (hc1 : ∀ c ∈ c1, isC c = true) (hp1 : ∀ c ∈ p1, isP1 c = true)
    (hp2 : ∀ c ∈ p2, isP2 c = true) (hc2 : ∀ c ∈ c2, isC c = true)
    (href : ∀ c ∈ ref, clsOf c = .other) (hrne : ref ≠ [])
    (hU : U = [] ∨ ∃ us c, U = us ++ [c] ∧ isC c = false)
    (hW : W = [] ∨ ∃ c cs, W = c :: cs ∧ isC c = false)
    (hwl : lastNonWs (U ++ (c1 ++ p1)) = none ∨ lastNonWs (U ++ (c1 ++ p1)) = some ',' ∨
           lastNonWs (U ++ (c1 ++ p1)) = some '(')
    (hwr : firstNonWs (p2 ++ (c2 ++ W)) = none ∨ firstNonWs (p2 ++ (c2 ++ W)) = some ',' ∨
           firstNonWs (p2 ++ (c2 ++ W)) = some ')')
    (hwf : chain none (U ++ (c1 ++ (p1 ++ (ref ++ (p2 ++ (c2 ++ W)))))) = true) :
    chain none (U ++ (removerOut true ⟨U, c1, p1, p2, c2, W⟩ ++ W)) = true := by
  obtain ⟨q0, h0, t0⟩ := chain_append_true hwf
  obtain ⟨q1, h1, t1⟩ := chain_append_true t0
  obtain ⟨q2, h2, t2⟩ := chain_append_true t1
  obtain ⟨q3, h3, t3⟩ := chain_append_true t2
  obtain ⟨q4, h4, t4⟩ := chain_append_true t3
  obtain ⟨q5, h5, h⟩ := chain_append_true t4
  clear t0 t1 t2 t3 t4
  have f1 := run_isC c1 hc1 q0 q1 h1
  have f2 := run_isP1 p1 hp1 q1 q2 h2
  obtain ⟨e3, -⟩ := run_other ref href hrne q2 q3 h3
  subst e3
  have f4 := run_isP2 p2 hp2 _ q4 h4
  have f5 := run_isC c2 hc2 q4 q5 h5
  have fU : q0 = none ∨ ∃ x, q0 = some x ∧ x ≠ .ws ∧ x ≠ .comma := by
    rcases hU with rfl | ⟨us, c, rfl, hc⟩
    · left; simpa [run] using h0.symm
    · right; exact ⟨clsOf c, run_snoc_state us c none q0 h0 (notC_cls c hc).1, notC_cls c hc⟩
  have hq0 : q0 ≠ some .comma := by
    rcases fU with e | ⟨x, e, _, hx⟩
    · simp [e]
    · rw [e]; intro h'; exact hx (Option.some.inj h')
  have fl : q2 = none ∨ q2 = some .comma ∨ q2 = some .opn := by
    have hr : run none (U ++ (c1 ++ p1)) = some q2 := by
      rw [run_append, h0, Option.bind_some, run_append, h1, Option.bind_some, h2]
    have := run_lastNonWs _ _ _ hr
    rcases hwl with e | e | e <;> rw [e] at this <;> simp [this, clsOf_comma, clsOf_opn]
  apply chain_append_intro h0
  simp only [removerOut]
  by_cases hab : p1.count '(' > p2.count ')'
  · -- more opening parentheses: keep c1 and the surplus
    simp only [hab, if_true, List.append_assoc]
    have ha : '(' ∈ p1 := List.count_pos_iff.mp (by omega)
    have ho : ok q1 .opn = true := by
      rcases f2 with ⟨_, hn⟩ | ⟨_, _, ho⟩
      · exact absurd ha hn
      · exact ho
    apply chain_append_intro h1
    apply chain_append_intro (run_replicate_opn _ q1 (by omega) ho)
    refine chain_swap q5 (some .opn) W hW h (by simp) ?_
    intro c cs _ hc _
    have := notC_cls c hc
    generalize clsOf c = x at *
    cases x <;> simp_all [ok]
  · by_cases hba : p2.count ')' > p1.count '('
    · -- more closing parentheses: keep the surplus and c2
      simp only [hab, hba, if_true, if_false, List.append_assoc]
      have hb : ')' ∈ p2 := List.count_pos_iff.mp (by omega)
      have e4 : q4 = some .cls := by
        rcases f4 with ⟨_, hn⟩ | ⟨e, _, _⟩
        · exact absurd hb hn
        · exact e
      subst e4
      apply chain_append_intro (run_replicate_cls _ q0 (by omega) hq0)
      exact chain_append_intro h5 h
    · simp only [hab, hba, if_false, if_true]
      by_cases hcm : ',' ∈ c1
      · -- a comma before the reference: it goes, c2 stays
        simp only [List.contains_iff_mem, hcm, if_true]
        have hq0' : q0 = some .cls ∨ q0 = some .other := by
          rcases f1 with ⟨_, hn⟩ | ⟨_, _, e⟩
          · exact absurd hcm hn
          · exact e
        by_cases hc2m : ',' ∈ c2
        · have e5 : q5 = some .comma := by
            rcases f5 with ⟨_, hn⟩ | ⟨e, _, _⟩
            · exact absurd hc2m hn
            · exact e
          subst e5
          exact chain_append_intro (run_isC_transfer c2 hc2 q4 _ h5 hc2m q0 hq0') h
        · have e5 : q5 = q4 := by
            rcases f5 with ⟨e, _⟩ | ⟨_, hm, _⟩
            · exact e
            · exact absurd hm hc2m
          subst e5
          apply chain_append_intro (run_ws c2 q0 (isC_noComma_ws c2 hc2 hc2m))
          rcases hW with rfl | ⟨c, cs, rfl, hc⟩
          · simpa [chain_nil] using hq0
          · rw [chain_cons_nonC _ _ _ hc] at h ⊢
            simp only [Bool.and_eq_true] at h ⊢
            refine ⟨?_, h.2⟩
            have hcls : clsOf c = .cls := by
              by_cases hb : ')' ∈ p2
              · have e4 : q5 = some .cls := by
                  rcases f4 with ⟨_, hn⟩ | ⟨e, _, _⟩
                  · exact absurd hb hn
                  · exact e
                have h1' := h.1
                rw [e4] at h1'
                have := notC_cls c hc
                generalize clsOf c = x at *
                cases x <;> simp_all [ok]
              · have hs : isSpace c = false := by
                  simp only [isC, Bool.or_eq_false_iff] at hc; exact hc.1
                have hf : firstNonWs (p2 ++ (c2 ++ c :: cs)) = some c := by
                  rw [firstNonWs_ws_append _ _ (isP2_noCls_ws p2 hp2 hb),
                    firstNonWs_ws_append _ _ (isC_noComma_ws c2 hc2 hc2m)]
                  simp [firstNonWs, hs]
                rw [hf] at hwr
                rcases hwr with e | e | e
                · cases e
                · have : c = ',' := Option.some.inj e
                  subst this; simp [isC] at hc
                · have : c = ')' := Option.some.inj e
                  subst this; exact clsOf_cls
            rw [hcls]
            rcases hq0' with e | e <;> subst e <;> rfl
      · -- no comma before the reference (start of the text): blanks and c2 go
        have hcm' : c1.contains ',' = false := by
          simpa [List.contains_iff_mem] using hcm
        simp only [hcm', if_false, Bool.false_eq_true, List.nil_append]
        have e1 : q1 = q0 := by
          rcases f1 with ⟨e, _⟩ | ⟨_, hm, _⟩
          · exact e
          · exact absurd hm hcm
        subst e1
        have hq : q1 = none ∨ q1 = some .opn := by
          have h3' : q1 = none ∨ q1 = some .comma ∨ q1 = some .opn := by
            rcases f2 with ⟨e, _⟩ | ⟨_, _, ho⟩
            · rw [← e]; exact fl
            · rcases q1 with _ | (_|_|_|_|_) <;> simp_all [ok]
          rcases fU with e | ⟨x, e, hx1, hx2⟩
          · exact Or.inl e
          · subst e
            rcases h3' with e | e | e
            · cases e
            · exact absurd (Option.some.inj e) hx2
            · exact Or.inr e
        refine chain_swap q5 q1 W hW h hq0 ?_
        intro c cs _ hc _
        have := notC_cls c hc
        generalize clsOf c = x at *
        rcases hq with e | e <;> subst e <;> cases x <;> simp_all [ok]

/-! ### joining the items of a row -/

/-- an item that can stand between commas: its first non-blank character opens a group or a tag, and
scanned on its own it is accepted and ends in `)` or a tag character -/
def itemOk (x : Str) : Prop :=
  (∃ c, firstNonWs x = some c ∧ (clsOf c = .opn ∨ clsOf c = .other)) ∧
  (run none x = some (some .cls) ∨ run none x = some (some .other))

theorem run_start : ∀ (x : Str) (c : Char), firstNonWs x = some c →
    (clsOf c = .opn ∨ clsOf c = .other) → run (some .comma) x = run none x
  | [], _, h, _ => by simp [firstNonWs] at h
  | d :: ds, c, h, hc => by
    rw [firstNonWs] at h
    by_cases hs : isSpace d = true
    · rw [if_pos hs] at h
      rw [run, run, if_pos ((clsOf_ws_iff d).mpr hs), if_pos ((clsOf_ws_iff d).mpr hs)]
      exact run_start ds c h hc
    · rw [if_neg hs] at h
      have : d = c := Option.some.inj h
      subst this
      have hw : clsOf d ≠ .ws := fun e => hs ((clsOf_ws_iff d).mp e)
      rw [run, run, if_neg hw, if_neg hw]
      rcases hc with e | e <;> rw [e] <;> rfl

theorem run_sep (k : Option Cls) (hk : k = some .cls ∨ k = some .other) :
    run k SEP = some (some .comma) := by
  rcases hk with e | e <;> subst e <;> decide

theorem join_run : ∀ (l : List Str), l ≠ [] → (∀ x ∈ l, itemOk x) → ∀ q, (q = none ∨ q = some .comma) →
    (run q (SEP.intercalate l) = some (some .cls) ∨ run q (SEP.intercalate l) = some (some .other))
  | [], h, _, _, _ => absurd rfl h
  | [x], _, hx, q, hq => by
    obtain ⟨⟨c, hf, hc⟩, hr⟩ := hx x (by simp)
    have e : run q x = run none x := by
      rcases hq with e | e <;> subst e
      · rfl
      · exact run_start x c hf hc
    simpa [List.intercalate, e] using hr
  | x :: y :: ys, _, hx, q, hq => by
    obtain ⟨⟨c, hf, hc⟩, hr⟩ := hx x (by simp)
    have e : run q x = run none x := by
      rcases hq with e | e <;> subst e
      · rfl
      · exact run_start x c hf hc
    have ih := join_run (y :: ys) (by simp) (fun z hz => hx z (by simp [hz])) (some .comma) (Or.inr rfl)
    have hi : SEP.intercalate (x :: y :: ys) = x ++ (SEP ++ SEP.intercalate (y :: ys)) := by
      simp [List.intercalate]
    rw [hi, run_append, e]
    rcases hr with h | h <;> rw [h, Option.bind_some, run_append, run_sep _ (by simp), Option.bind_some] <;>
      exact ih

/-! ### parenthesis balance -/

/-- running depth from `d`; `none` = a `)` with no `(` open -/
def depth : Nat → Str → Option Nat
  | d, [] => some d
  | d, c :: cs =>
    if c = '(' then depth (d + 1) cs
    else if c = ')' then (if d = 0 then none else depth (d - 1) cs)
    else depth d cs

/-- depth never negative and zero at the end (`check_count_tag_group_parentheses` finds nothing) -/
def balanced (s : Str) : Prop := depth 0 s = some 0

instance (s : Str) : Decidable (balanced s) := by unfold balanced; infer_instance

theorem depth_append : ∀ (xs ys : Str) (d : Nat),
    depth d (xs ++ ys) = (depth d xs).bind (fun d' => depth d' ys)
  | [], _, _ => rfl
  | c :: cs, ys, d => by
    simp only [List.cons_append, depth]
    split
    · exact depth_append cs ys _
    · split
      · split
        · rfl
        · exact depth_append cs ys _
      · exact depth_append cs ys _

theorem depth_noparen : ∀ (xs : Str) (d : Nat), (∀ c ∈ xs, c ≠ '(' ∧ c ≠ ')') → depth d xs = some d
  | [], _, _ => rfl
  | c :: cs, d, h => by
    have hc := h c (by simp)
    rw [depth, if_neg hc.1, if_neg hc.2]
    exact depth_noparen cs d (fun x hx => h x (by simp [hx]))

theorem isC_noparen (c : Char) (h : isC c = true) : c ≠ '(' ∧ c ≠ ')' := by
  constructor <;> (intro e; subst e; revert h; decide)

theorem other_noparen (c : Char) (h : clsOf c = .other) : c ≠ '(' ∧ c ≠ ')' := by
  constructor <;> (intro e; subst e; revert h; decide)

theorem depth_isP1 : ∀ (xs : Str) (d : Nat), (∀ c ∈ xs, isP1 c = true) →
    depth d xs = some (d + xs.count '(')
  | [], _, _ => rfl
  | c :: cs, d, h => by
    have ih := fun d' => depth_isP1 cs d' (fun x hx => h x (by simp [hx]))
    have hc := h c (by simp)
    by_cases e : c = '('
    · subst e
      rw [depth, if_pos rfl, ih, List.count_cons_self]
      congr 1; omega
    · have e2 : c ≠ ')' := by intro e2; subst e2; revert hc; decide
      rw [depth, if_neg e, if_neg e2, ih, List.count_cons_of_ne e]

theorem depth_isP2 : ∀ (xs : Str) (d : Nat), (∀ c ∈ xs, isP2 c = true) →
    depth d xs = if xs.count ')' ≤ d then some (d - xs.count ')') else none
  | [], _, _ => by simp [depth]
  | c :: cs, d, h => by
    have ih := fun d' => depth_isP2 cs d' (fun x hx => h x (by simp [hx]))
    have hc := h c (by simp)
    by_cases e : c = ')'
    · subst e
      rw [depth, if_neg (by decide), if_pos rfl, List.count_cons_self]
      by_cases hd : d = 0
      · subst hd; simp
      · rw [if_neg hd, ih]
        by_cases hle : cs.count ')' ≤ d - 1
        · rw [if_pos hle, if_pos (by omega)]; congr 1; omega
        · rw [if_neg hle, if_neg (by omega)]
    · have e2 : c ≠ '(' := by intro e2; subst e2; revert hc; decide
      rw [depth, if_neg e2, if_neg e, ih, List.count_cons_of_ne e]

theorem depth_replicate_opn : ∀ (n d : Nat), depth d (List.replicate n '(') = some (d + n)
  | 0, _ => rfl
  | n + 1, d => by
    rw [List.replicate_succ, depth, if_pos rfl, depth_replicate_opn n (d + 1)]
    congr 1; omega

theorem depth_replicate_cls : ∀ (n d : Nat), n ≤ d → depth d (List.replicate n ')') = some (d - n)
  | 0, _, _ => rfl
  | n + 1, d, h => by
    rw [List.replicate_succ, depth, if_neg (by decide), if_pos rfl, if_neg (by omega),
      depth_replicate_cls n (d - 1) (by omega)]
    congr 1; omega

/-- The remover emits exactly the parenthesis surplus of what the match consumed: scanning the text
with the match replaced by the remover's output reaches the same depth as scanning the original, and
never goes below zero if the original did not (both the fixed and the unchanged `_remover`). -/
theorem remove_depth (fixed : Bool) (U c1 p1 ref p2 c2 W : Str)
    (hc1 : ∀ c ∈ c1, isC c = true) (hp1 : ∀ c ∈ p1, isP1 c = true)
    (hp2 : ∀ c ∈ p2, isP2 c = true) (hc2 : ∀ c ∈ c2, isC c = true)
    (href : ∀ c ∈ ref, clsOf c = .other) (d0 e : Nat)
    (h : depth d0 (U ++ (c1 ++ (p1 ++ (ref ++ (p2 ++ (c2 ++ W)))))) = some e) :
    depth d0 (U ++ (removerOut fixed ⟨U, c1, p1, p2, c2, W⟩ ++ W)) = some e := by
  have n1 := fun d => depth_noparen c1 d (fun c hc => isC_noparen c (hc1 c hc))
  have n2 := fun d => depth_noparen c2 d (fun c hc => isC_noparen c (hc2 c hc))
  have nr := fun d => depth_noparen ref d (fun c hc => other_noparen c (href c hc))
  rw [depth_append] at h ⊢
  cases hU : depth d0 U with
  | none => simp [hU] at h
  | some d =>
    simp only [hU, Option.bind_some] at h ⊢
    rw [depth_append, n1, Option.bind_some, depth_append, depth_isP1 p1 _ hp1, Option.bind_some,
      depth_append, nr, Option.bind_some, depth_append, depth_isP2 p2 _ hp2] at h
    by_cases hle : p2.count ')' ≤ d + p1.count '('
    · rw [if_pos hle, Option.bind_some, depth_append, n2, Option.bind_some] at h
      simp only [removerOut]
      by_cases hab : p1.count '(' > p2.count ')'
      · simp only [hab, if_true, List.append_assoc]
        rw [depth_append, n1, Option.bind_some, depth_append, depth_replicate_opn, Option.bind_some,
          ← h]
        congr 1; omega
      · by_cases hba : p2.count ')' > p1.count '('
        · simp only [hab, hba, if_true, if_false, List.append_assoc]
          rw [depth_append, depth_replicate_cls _ _ (by omega), Option.bind_some, depth_append, n2,
            Option.bind_some, ← h]
          congr 1; omega
        · have hd : d + p1.count '(' - p2.count ')' = d := by omega
          rw [hd] at h
          simp only [hab, hba, if_false]
          cases fixed
          · by_cases hc : c1.isEmpty = true
            · simp [hc, h]
            · simp only [hc, if_false, Bool.false_eq_true]
              rw [depth_append, n2, Option.bind_some, h]
          · by_cases hc : c1.contains ',' = true
            · simp only [hc, if_true]
              rw [depth_append, n2, Option.bind_some, h]
            · have hc' : c1.contains ',' = false := by simpa using hc
              simp only [hc', if_false, Bool.false_eq_true]
              exact h
    · rw [if_neg hle] at h; simp at h

end HedVerif.Assemble

namespace HedVerif.C06
open HedVerif.Assemble

/-- The transformer columns come in code-point order of their names (`dict(sorted(final_map.items()))`),
whatever the column order of the file. -/
theorem columns_sorted (sc : Sidecar) (header : List Str) :
    (activeCols sc header).Pairwise (fun a b => a.name ≤ b.name) :=
  sortCols_sorted _

/-- …and they are exactly the file's columns for which the sidecar (or the name `HED`) gives a
transformer; none is lost or duplicated by the sort. -/
theorem columns_complete (sc : Sidecar) (header : List Str) :
    (∀ c, c ∈ activeCols sc header ↔ c.name ∈ header ∧ trOf sc c.name = some c.tr) ∧
    (activeCols sc header).length = (header.filter fun n => (trOf sc n).isSome).length := by
  constructor
  · intro c
    unfold activeCols fileCols
    rw [mem_sortCols, List.mem_filterMap]
    constructor
    · rintro ⟨n, hn, h⟩
      cases ht : trOf sc n with
      | none => simp [ht] at h
      | some t => simp [ht] at h; subst h; exact ⟨hn, ht⟩
    · rintro ⟨hn, ht⟩
      exact ⟨c.name, hn, by simp [ht]⟩
  · unfold activeCols fileCols
    rw [length_sortCols]
    induction header with
    | nil => rfl
    | cons n ns ih =>
      cases ht : trOf sc n <;> simp [ht, ih]

/-- What each kind of column contributes (`_detect_column_type`, `get_transformers`, the handlers):
the HED column and untyped entries pass the cell through; a categorical column gives the entry of the
cell, nothing for an unknown key; a value column gives `n/a` for an `n/a` or empty cell and otherwise
the template with every `#` replaced by the cell; ignored entries give no column at all. -/
theorem transform_spec (sc : Sidecar) (e : J) (x : Str) :
    trOf sc HEDNAME = some .ident ∧
    (kind e = .ignore → trOfEntry e = none) ∧
    (kind e = .categorical → trOfEntry e = some (.cat (hedObj e))) ∧
    (kind e = .value → trOfEntry e = some (.value (hedStr e))) ∧
    (kind e = .unknown → trOfEntry e = some .ident) ∧
    applyTr .ident x = x ∧
    (∀ es, applyTr (.cat es) x = match es.lookup x with | some v => v | none => []) ∧
    (∀ t, applyTr (.value t) x = if x = NA ∨ x = [] then NA else t.flatMap fun c => if c == '#' then x else [c]) := by
  refine ⟨by simp [trOf], ?_, ?_, ?_, ?_, rfl, ?_, ?_⟩
  · intro h; simp [trOfEntry, h]
  · intro h; simp [trOfEntry, h]
  · intro h; simp [trOfEntry, h]
  · intro h; simp [trOfEntry, h]
  · intro es; simp only [applyTr]; cases es.lookup x <;> rfl
  · intro t; rfl

/-- Without references the annotation of a row is the `", "`-join, in column-name order, of each
transformer column's contribution, skipping empty and `n/a` ones. -/
theorem row_spec (sc : Sidecar) (header r : List Str) :
    row [] sc header r =
      SEP.intercalate (((activeCols sc header).map fun c => applyTr c.tr (cellOf header r c.name)).filter
        fun e => !e.isEmpty && e != NA) := by
  have hk : keep = fun (e : Str) => !e.isEmpty && e != NA := rfl
  have hf : ∀ (l : List (Str × Str)), l.filter (fun _ => true) = l := fun l =>
    List.filter_eq_self.mpr (by simp)
  simp [row, assembled, liveRefs, transformed, spliceAll, joinRow, Function.comp_def, ← hk, hf]

/-- A referenced column is not listed separately: the assembled row has exactly the transformer columns
that are not (live) references, in the same order, each with every live reference spliced into its text. -/
theorem splice (refs : List Str) (tr : List (Str × Str)) :
    (assembled refs tr).map (·.1) = (tr.map (·.1)).filter (fun n => !(liveRefs refs tr).contains n) ∧
    (∀ r, r ∈ liveRefs refs tr ↔ r ∈ refs ∧ ∃ p ∈ tr, p.1 = r) ∧
    (∀ p ∈ assembled refs tr, p.1 ∉ liveRefs refs tr ∧
        ∃ q ∈ tr, q.1 = p.1 ∧ p.2 = spliceAll (liveRefs refs tr) tr q.2) ∧
    (∀ q ∈ tr, q.1 ∉ liveRefs refs tr → (q.1, spliceAll (liveRefs refs tr) tr q.2) ∈ assembled refs tr) := by
  refine ⟨?_, ?_, ?_, ?_⟩
  · simp [assembled, List.map_map, Function.comp_def, List.filter_map]
  · intro r
    simp [liveRefs, List.mem_filter]
  · intro p hp
    simp only [assembled, List.mem_map, List.mem_filter] at hp
    obtain ⟨q, ⟨hq, hn⟩, rfl⟩ := hp
    refine ⟨by simpa using hn, q, hq, rfl, rfl⟩
  · intro q hq hn
    simp only [assembled, List.mem_map, List.mem_filter]
    exact ⟨q, ⟨hq, by simpa using hn⟩, rfl⟩

/-- …and its text appears exactly at its references: at the first occurrence the value stands in place
of `{name}`, the text before it is untouched and the rest is treated the same way. -/
theorem splice_at (t name v pre post : Str) (hv : v ≠ []) (hna : v ≠ NA)
    (hs : splitFirst (mkRef name) t = some (pre, post)) :
    t = pre ++ mkRef name ++ post ∧ replaceRef t name v = pre ++ v ++ replaceRef post name v := by
  refine ⟨splitFirst_eq _ _ _ _ hs, ?_⟩
  have hf : ∀ a b : Str, (replaceF v a b).2.length ≤ b.length := fun a b => Nat.le_refl _
  simp only [replaceRef, hv, hna, or_self, if_false]
  rw [sub_step _ _ (mkRef_ne name) hf t pre post hs]
  rfl

/-- A text without the reference is left as it is, whatever the value. -/
theorem splice_absent (t name v : Str) (hs : splitFirst (mkRef name) t = none) :
    replaceRef t name v = t := by
  unfold replaceRef
  split <;> exact subF_none _ _ _ _ hs

/-- One output per row, in row order. -/
theorem length_order (sc : Sidecar) (t : Table) :
    (series sc t).length = t.rows.length ∧
    ∀ i : Nat, (series sc t)[i]? = (t.rows[i]?).map (row (refsOf sc) sc t.header) := by
  simp [series, seriesWith]

/-- `series` is a function of (sidecar, table): every call on the same object returns the same list,
and the object (table and sidecar) is returned unchanged. -/
theorem deterministic_pure (x : Input) (n : Nat) :
    (call x).2 = x ∧ (calls n x).2 = x ∧ (calls n x).1.length = n ∧
    ∀ a ∈ (calls n x).1, a = series x.sidecar x.table := by
  refine ⟨rfl, ?_⟩
  induction n with
  | zero => simp [calls]
  | succ k ih =>
    obtain ⟨h1, h2, h3⟩ := ih
    simp only [calls, call] at *
    refine ⟨h1, by simp [h2], ?_⟩
    intro a ha
    rcases List.mem_cons.mp ha with rfl | ha
    · rfl
    · exact h3 a ha


/-- The delimiter checker (its loop with `current_tag` and `last_non_empty_valid_character`) accepts a
string exactly when every non-blank character may follow the previous non-blank one (`ok`: no comma at
the start, after a comma or after `(`; `(` only at the start, after a comma or `(`; no `)` after a comma;
no tag character after `)`) and the string does not end with a comma. -/
theorem delimOk_iff_chain (s : Str) : delimOk s = chain none s := delimOk_eq_chain s

instance (pre post : Str) : Decidable (wholeTag pre post) := by unfold wholeTag; infer_instance

/-- **n/a clean-up keeps the string delimiter-well-formed** (code with `fixes/C06_replace_ref.diff`).
Let `{name}` occur once in `t` (`pre`, `post` = the text before and after it), as a whole tag, and let
`t` pass the delimiter checker.  When the referenced cell is `n/a` *or empty* (a categorical column
with an `n/a`/unknown key gives the empty string), `replace_ref` returns the text before the match,
the remover's output and the text after the match, and that string passes the delimiter checker —
whatever the blanks, commas and parentheses around the reference, and whatever the reference name
(digits-only names included).  `_partial`: a reference occurring twice is not covered, see
`na_wellformed_counterexample`. -/
theorem na_wellformed_partial (t name v pre post : Str)
    (hv : v = [] ∨ v = NA) (hname : ∀ c ∈ name, clsOf c = .other)
    (hs : splitFirst (mkRef name) t = some (pre, post))
    (hone : splitFirst (mkRef name) post = none)
    (hwf : delimOk t = true) (hwhole : wholeTag pre post) :
    replaceRef t name v =
      (groups pre post).u ++ (removerOut true (groups pre post) ++ (groups pre post).w) ∧
    delimOk (replaceRef t name v) = true := by
  have hne := mkRef_ne name
  have hf : ∀ a b : Str, (removeF true a b).2.length ≤ b.length := by
    intro a b
    show ((b.dropWhile isP2).dropWhile isC).length ≤ b.length
    exact Nat.le_trans (List.dropWhile_sublist _).length_le (List.dropWhile_sublist _).length_le
  have hw0 : splitFirst (mkRef name) (groups pre post).w = none :=
    splitFirst_dropWhile _ _ _ (splitFirst_dropWhile _ _ _ hone)
  have hrep : replaceRef t name v =
      (groups pre post).u ++ (removerOut true (groups pre post) ++ (groups pre post).w) := by
    unfold replaceRef
    rw [if_pos hv, sub_step _ _ hne hf t pre post hs]
    show ((groups pre post).u ++ removerOut true (groups pre post)) ++ subF _ _ _ (groups pre post).w = _
    rw [subF_none _ _ _ _ hw0, List.append_assoc]
  refine ⟨hrep, ?_⟩
  rw [hrep, delimOk_eq_chain]
  have ht := splitFirst_eq _ _ _ _ hs
  obtain ⟨e1, e2, hc1, hp1, hp2, hc2, hU, hW⟩ := groups_spec pre post
  generalize groups pre post = g at *
  have href : ∀ c ∈ mkRef name, clsOf c = .other := by
    intro c hc
    simp only [mkRef, List.mem_cons, List.mem_append, List.not_mem_nil, or_false] at hc
    rcases hc with rfl | h | rfl
    · decide
    · exact hname c h
    · decide
  rw [delimOk_eq_chain, ht, e1, e2] at hwf
  simp only [List.append_assoc] at hwf
  have hwl := hwhole.1
  have hwr := hwhole.2
  rw [e1] at hwl
  rw [e2] at hwr
  exact remove_core g.u g.c1 g.p1 (mkRef name) g.p2 g.c2 g.w hc1 hp1 hp2 hc2 href hne hU hW hwl hwr hwf

/-- the hypotheses of `na_wellformed_partial` are satisfiable: `(Red, ({c})), Blue` with `c` absent
becomes `(Red), Blue` -/
example : replaceRef "(Red, ({c})), Blue".toList ['c'] [] = "(Red), Blue".toList := by decide +kernel

example : ∃ pre post, splitFirst (mkRef ['c']) "(Red, ({c})), Blue".toList = some (pre, post) ∧
    splitFirst (mkRef ['c']) post = none ∧ delimOk "(Red, ({c})), Blue".toList = true ∧ wholeTag pre post :=
  ⟨"(Red, (".toList, ")), Blue".toList, by decide +kernel⟩

/-- Not covered by the fix: the **same** reference twice with only delimiters between the two
occurrences.  `re.sub` does not rescan: the first match consumes the comma the second one would have
to drop.  `R,{c},{c}` is well-formed, both references are whole tags, and the result is `R,`. -/
theorem na_wellformed_counterexample :
    delimOk "R,{c},{c}".toList = true ∧ replaceRef "R,{c},{c}".toList ['c'] NA = "R,".toList ∧
    delimOk "R,".toList = false := by decide +kernel

/-- Unchanged code, defect 1 (design probe #4): an empty replacement (categorical cell `n/a` or an
unknown key) is spliced as text, so `{c}, Square` becomes `, Square`, which the delimiter checker
rejects; the fixed code gives `Square`. -/
theorem old_empty_value_counterexample :
    replaceRefOld "{c}, Square".toList ['c'] [] = ", Square".toList ∧
    delimOk ", Square".toList = false ∧
    replaceRef "{c}, Square".toList ['c'] [] = "Square".toList := by decide +kernel

/-- Unchanged code, defect 2: `c1` made of blanks only counts as "a comma before the reference", so a
blank in front of a leading reference makes the remover keep the comma after it. -/
theorem old_leading_blank_counterexample :
    delimOk " {c},R".toList = true ∧ wholeTag [' '] ",R".toList ∧
    replaceRefOld " {c},R".toList ['c'] NA = ",R".toList ∧ delimOk ",R".toList = false ∧
    replaceRef " {c},R".toList ['c'] NA = "R".toList := by decide +kernel

/-- Unchanged code, defect 3 (design probe #19): the reference is spliced into the pattern unescaped,
so `{1}` is a quantifier: the reference is never matched, every separator is, and `{0}` makes the group
`p1` not participate (`AttributeError`).  The fixed code treats the name as text. -/
theorem old_numeric_name_counterexample :
    replaceRefOldNumeric "Red, {1}, Blue".toList 1 = some "Red{1}Blue".toList ∧
    replaceRefOldNumeric "{0}".toList 0 = none ∧
    replaceRef "Red, {1}, Blue".toList ['1'] NA = "Red, Blue".toList := by decide +kernel

/-- Unchanged code, defect 4: a value column's empty cell is not skipped: `Label/#` gives `Label/`,
which is kept in the row; the fixed handler returns `n/a`, which `combine_dataframe` skips. -/
theorem old_value_empty_cell_counterexample :
    valueHandlerOld "Label/#".toList [] = "Label/".toList ∧ keep "Label/".toList = true ∧
    applyTr (.value "Label/#".toList) [] = NA ∧ keep NA = false := by decide +kernel


/-- The `", "`-join of a row is delimiter-well-formed as soon as every kept item (non-empty, not `n/a`)
can stand between commas (`itemOk`: accepted by the checker, begins with `(` or a tag character and ends
with `)` or a tag character).  Together with `na_wellformed_partial` (an item whose reference vanished
is again accepted) this is the row-level reading of "the result is always delimiter-well-formed". -/
theorem join_wellformed (items : List Str) (h : ∀ x ∈ items, keep x = true → itemOk x) :
    delimOk (joinRow items) = true := by
  rw [delimOk_eq_chain]
  unfold joinRow chain
  by_cases hl : items.filter keep = []
  · rw [hl]; rfl
  · have := join_run (items.filter keep) hl
      (fun x hx => h x (List.mem_filter.mp hx).1 (List.mem_filter.mp hx).2) none (Or.inl rfl)
    rcases this with e | e <;> rw [e] <;> rfl

example : itemOk "(Red, Blue)".toList ∧ itemOk "Label/3".toList ∧ ¬ itemOk "(".toList :=
  ⟨⟨⟨'(', by decide +kernel⟩, by decide +kernel⟩, ⟨⟨'L', by decide +kernel⟩, by decide +kernel⟩,
   fun h => by rcases h.2 with e | e <;> revert e <;> decide +kernel⟩


/-- **The n/a clean-up keeps parentheses balanced.**  For a reference occurring once (no hypothesis on
commas or on the reference standing as a whole tag), value `n/a` or empty: if the text has balanced
parentheses (running depth never negative, zero at the end) so has the result — the remover emits
`p1 - p2` openers or `p2 - p1` closers, exactly the surplus of what the match consumed. -/
theorem remover_keeps_balance (t name v pre post : Str)
    (hv : v = [] ∨ v = NA) (hname : ∀ c ∈ name, clsOf c = .other)
    (hs : splitFirst (mkRef name) t = some (pre, post))
    (hone : splitFirst (mkRef name) post = none)
    (hb : balanced t) : balanced (replaceRef t name v) := by
  have hne := mkRef_ne name
  have hf : ∀ a b : Str, (removeF true a b).2.length ≤ b.length := by
    intro a b
    show ((b.dropWhile isP2).dropWhile isC).length ≤ b.length
    exact Nat.le_trans (List.dropWhile_sublist _).length_le (List.dropWhile_sublist _).length_le
  have hw0 : splitFirst (mkRef name) (groups pre post).w = none :=
    splitFirst_dropWhile _ _ _ (splitFirst_dropWhile _ _ _ hone)
  have hrep : replaceRef t name v =
      (groups pre post).u ++ (removerOut true (groups pre post) ++ (groups pre post).w) := by
    unfold replaceRef
    rw [if_pos hv, sub_step _ _ hne hf t pre post hs]
    show ((groups pre post).u ++ removerOut true (groups pre post)) ++ subF _ _ _ (groups pre post).w = _
    rw [subF_none _ _ _ _ hw0, List.append_assoc]
  unfold balanced at hb ⊢
  rw [hrep]
  have ht := splitFirst_eq _ _ _ _ hs
  obtain ⟨e1, e2, hc1, hp1, hp2, hc2, -, -⟩ := groups_spec pre post
  generalize groups pre post = g at *
  have href : ∀ c ∈ mkRef name, clsOf c = .other := by
    intro c hc
    simp only [mkRef, List.mem_cons, List.mem_append, List.not_mem_nil, or_false] at hc
    rcases hc with rfl | h | rfl
    · decide
    · exact hname c h
    · decide
  rw [ht, e1, e2] at hb
  simp only [List.append_assoc] at hb
  exact remove_depth true g.u g.c1 g.p1 (mkRef name) g.p2 g.c2 g.w hc1 hp1 hp2 hc2 href 0 0 hb

/-- the seeded change "emit `p1.strip()` instead of the surplus" is what this excludes:
`(({c}), Red)` with `c` absent is `(Red)`, not `((Red)` -/
example : replaceRef "(({c}), Red)".toList ['c'] NA = "(Red)".toList ∧ balanced "(Red)".toList ∧
    ¬ balanced "((Red)".toList := by decide +kernel

end HedVerif.C06
