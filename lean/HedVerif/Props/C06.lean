/-
C06 — Event-file rows assemble into exactly the annotation the sidecar prescribes.

The model (`Model/Assemble.lean`) is that of the code with `fixes/C06_*.diff` applied; the behaviour of
the unchanged code is kept in `replaceRefOld`, `replaceRefOldNumeric`, `valueHandlerOld` and shown to
violate the property by the `old_*_counterexample` theorems.
-/
import HedVerif.Model.Assemble

namespace HedVerif.Assemble

/-! ### columns: sorted by name, exactly the file's columns that have a transformer -/

abbrev NameLe (a b : Col) : Prop := a.name ≤ b.name

theorem mem_insertCol (c x : Col) (l : List Col) : x ∈ insertCol c l ↔ x = c ∨ x ∈ l := by
  induction l with
  | nil => simp [insertCol]
  | cons d ds ih =>
    unfold insertCol
    split
    · simp
    · simp only [List.mem_cons, ih]
      constructor
      · rintro (h | h | h) <;> simp [h]
      · rintro (h | h | h) <;> simp [h]

theorem insertCol_sorted (c : Col) (l : List Col) (h : l.Pairwise NameLe) :
    (insertCol c l).Pairwise NameLe := by
  induction l with
  | nil => simp [insertCol]
  | cons d ds ih =>
    have hd := List.pairwise_cons.mp h
    unfold insertCol
    split
    · rename_i hle
      refine List.pairwise_cons.mpr ⟨?_, h⟩
      intro x hx
      rcases List.mem_cons.mp hx with rfl | hx
      · exact hle
      · exact List.le_trans hle (hd.1 x hx)
    · rename_i hle
      refine List.pairwise_cons.mpr ⟨?_, ih hd.2⟩
      intro x hx
      rcases (mem_insertCol c x ds).mp hx with rfl | hx
      · rcases List.le_total x.name d.name with h1 | h1
        · exact absurd h1 hle
        · exact h1
      · exact hd.1 x hx

theorem mem_sortCols (x : Col) (l : List Col) : x ∈ sortCols l ↔ x ∈ l := by
  induction l with
  | nil => simp [sortCols]
  | cons c cs ih => simp [sortCols, mem_insertCol, ih]

theorem sortCols_sorted (l : List Col) : (sortCols l).Pairwise NameLe := by
  induction l with
  | nil => simp [sortCols]
  | cons c cs ih => exact insertCol_sorted c _ ih

theorem length_insertCol (c : Col) (l : List Col) : (insertCol c l).length = l.length + 1 := by
  induction l with
  | nil => simp [insertCol]
  | cons d ds ih => unfold insertCol; split <;> simp [ih]

theorem length_sortCols (l : List Col) : (sortCols l).length = l.length := by
  induction l with
  | nil => simp [sortCols]
  | cons c cs ih => simp [sortCols, length_insertCol, ih]

/-! ### `splitFirst` and the substitution loop -/

theorem splitFirst_eq (ref : Str) : ∀ (t pre post : Str),
    splitFirst ref t = some (pre, post) → t = pre ++ ref ++ post
  | [], _, _, h => by simp [splitFirst] at h
  | c :: cs, pre, post, h => by
    unfold splitFirst at h
    split at h
    · rename_i hp
      simp only [Option.some.injEq, Prod.mk.injEq] at h
      obtain ⟨rfl, rfl⟩ := h
      have := List.prefix_iff_eq_append.mp (List.isPrefixOf_iff_prefix.mp hp)
      simpa using this.symm
    · split at h
      · simp at h
      · rename_i a b hs
        simp only [Option.some.injEq, Prod.mk.injEq] at h
        obtain ⟨rfl, rfl⟩ := h
        have := splitFirst_eq ref cs a b hs
        simp [this]

theorem splitFirst_none_iff (ref : Str) (hne : ref ≠ []) :
    ∀ t : Str, splitFirst ref t = none ↔ ¬ ref <:+: t
  | [] => by simp [splitFirst, hne]
  | c :: cs => by
    have ih := splitFirst_none_iff ref hne cs
    unfold splitFirst
    rw [List.infix_cons_iff]
    split
    · rename_i hp
      simp [List.isPrefixOf_iff_prefix.mp hp]
    · rename_i hp
      have hp' : ¬ ref <+: c :: cs := fun h => hp (List.isPrefixOf_iff_prefix.mpr h)
      split
      · rename_i hs; simp [hp', ih.mp hs]
      · rename_i a b hs
        have : ref <:+: cs := by
          have := splitFirst_eq ref cs a b hs
          exact ⟨a, b, by simp [this]⟩
        simp [this]

theorem splitFirst_tail (ref : Str) (c : Char) (cs : Str) (h : splitFirst ref (c :: cs) = none) :
    splitFirst ref cs = none := by
  unfold splitFirst at h
  split at h
  · simp at h
  · split at h
    · assumption
    · simp at h

theorem splitFirst_dropWhile (ref : Str) (p : Char → Bool) :
    ∀ t : Str, splitFirst ref t = none → splitFirst ref (t.dropWhile p) = none
  | [], h => by simpa using h
  | c :: cs, h => by
    rw [List.dropWhile_cons]
    split
    · exact splitFirst_dropWhile ref p cs (splitFirst_tail ref c cs h)
    · exact h

theorem subF_none (ref : Str) (f : Str → Str → Str × Str) (n : Nat) (t : Str)
    (h : splitFirst ref t = none) : subF ref f n t = t := by
  cases n <;> simp [subF, h]

theorem subF_fuel (ref : Str) (f : Str → Str → Str × Str) (hne : ref ≠ [])
    (hf : ∀ pre post, (f pre post).2.length ≤ post.length) :
    ∀ (n : Nat) (t : Str), t.length ≤ n → subF ref f n t = subF ref f (n + 1) t := by
  intro n
  induction n with
  | zero =>
    intro t ht
    have : t = [] := List.length_eq_zero_iff.mp (Nat.le_zero.mp ht)
    subst this
    simp [subF, splitFirst]
  | succ k ih =>
    intro t ht
    rw [subF, subF]
    cases hs : splitFirst ref t with
    | none => rfl
    | some pp =>
      obtain ⟨pre, post⟩ := pp
      simp only
      have ht' := splitFirst_eq ref t pre post hs
      have hl : post.length < t.length := by
        have : 0 < ref.length := List.length_pos_iff.mpr hne
        rw [ht']; simp; omega
      have := hf pre post
      rw [ih _ (by omega)]

theorem subF_ge (ref : Str) (f : Str → Str → Str × Str) (hne : ref ≠ [])
    (hf : ∀ pre post, (f pre post).2.length ≤ post.length) (t : Str) :
    ∀ k, subF ref f (t.length + k) t = subF ref f t.length t := by
  intro k
  induction k with
  | zero => rfl
  | succ j ih => rw [← ih, ← Nat.add_assoc, ← subF_fuel ref f hne hf _ t (by omega)]

theorem mkRef_ne (name : Str) : mkRef name ≠ [] := by simp [mkRef]

/-- one step of the loop at the first occurrence -/
theorem sub_step (ref : Str) (f : Str → Str → Str × Str) (hne : ref ≠ [])
    (hf : ∀ pre post, (f pre post).2.length ≤ post.length) (t pre post : Str)
    (hs : splitFirst ref t = some (pre, post)) :
    subF ref f t.length t = (f pre post).1 ++ subF ref f (f pre post).2.length (f pre post).2 := by
  have ht := splitFirst_eq ref t pre post hs
  have hpos : 0 < ref.length := List.length_pos_iff.mpr hne
  have hl : post.length < t.length := by rw [ht]; simp; omega
  obtain ⟨n, hn⟩ : ∃ n, t.length = n + 1 := ⟨t.length - 1, by omega⟩
  rw [hn, subF, hs]
  simp only
  have h2 := hf pre post
  have := subF_ge ref f hne hf (f pre post).2 (n - (f pre post).2.length)
  rw [← this]
  congr 2
  omega

/-! ### delimiter well-formedness as a condition on adjacent non-blank characters -/

/-- may class `k` follow when the last non-blank class was `q` (`none` = start of string)? -/
def ok : Option Cls → Cls → Bool
  | _, .ws => true
  | q, .comma => q == some .cls || q == some .other
  | q, .opn => q == none || q == some .comma || q == some .opn
  | q, .cls => q != some .comma
  | q, .other => q != some .cls

/-- scan keeping only the last non-blank class; `none` = some adjacent pair is not allowed -/
def run : Option Cls → Str → Option (Option Cls)
  | q, [] => some q
  | q, c :: cs =>
    if clsOf c = .ws then run q cs
    else if ok q (clsOf c) then run (some (clsOf c)) cs else none

/-- all adjacent pairs allowed and the string does not end in a comma -/
def chain (q : Option Cls) (s : Str) : Bool :=
  match run q s with
  | none => false
  | some q' => q' != some .comma

def teOf (q : Option Cls) : Bool := q == none || q == some .comma || q == some .opn

theorem dstep_eq (q : Option Cls) (hq : q ≠ some .ws) (k : Cls) :
    dstep ⟨teOf q, q⟩ k =
      if k = .ws then some ⟨teOf q, q⟩ else if ok q k then some ⟨teOf (some k), some k⟩ else none := by
  cases k <;> rcases q with _ | (_|_|_|_|_) <;> first | rfl | exact absurd rfl hq

theorem dscan_eq : ∀ (s : Str) (q : Option Cls), q ≠ some .ws →
    dscan ⟨teOf q, q⟩ s = (run q s).map (fun q' => ⟨teOf q', q'⟩)
  | [], q, _ => by simp [dscan, run]
  | c :: cs, q, hq => by
    rw [dscan, run, dstep_eq q hq]
    by_cases h : clsOf c = .ws
    · simp only [h, if_true]; exact dscan_eq cs q hq
    · by_cases ho : ok q (clsOf c) = true
      · simp only [h, ho, if_true, if_false]
        exact dscan_eq cs (some (clsOf c)) (by simpa using h)
      · simp [h, ho]

theorem delimOk_eq_chain (s : Str) : delimOk s = chain none s := by
  have h := dscan_eq s none (by simp)
  have e : (⟨teOf none, none⟩ : DSt) = ⟨true, none⟩ := rfl
  rw [e] at h
  unfold delimOk chain
  rw [h]
  cases run none s <;> rfl

theorem run_append : ∀ (xs ys : Str) (q : Option Cls),
    run q (xs ++ ys) = (run q xs).bind (fun q' => run q' ys)
  | [], ys, q => by simp [run]
  | c :: cs, ys, q => by
    simp only [List.cons_append, run]
    split
    · exact run_append cs ys q
    · split
      · exact run_append cs ys _
      · rfl

theorem chain_append_true {xs ys : Str} {q : Option Cls} (h : chain q (xs ++ ys) = true) :
    ∃ q', run q xs = some q' ∧ chain q' ys = true := by
  unfold chain at h
  rw [run_append] at h
  cases h1 : run q xs with
  | none => simp [h1] at h
  | some q' => exact ⟨q', rfl, by simpa [h1, chain] using h⟩

theorem chain_append_intro {xs ys : Str} {q q' : Option Cls} (h1 : run q xs = some q')
    (h2 : chain q' ys = true) : chain q (xs ++ ys) = true := by
  unfold chain
  rw [run_append, h1]
  simpa [chain] using h2

/-! character classes of the pattern's character sets -/

theorem clsOf_ws_iff (c : Char) : clsOf c = .ws ↔ isSpace c = true := by
  unfold clsOf
  by_cases h : isSpace c = true
  · simp [h]
  · simp only [h, if_false]
    constructor
    · intro h2; split at h2 <;> try split at h2 <;> try split at h2
      all_goals simp at h2
    · intro h2; exact absurd h2 (by simp)

theorem clsOf_comma : clsOf ',' = .comma := by decide
theorem clsOf_opn : clsOf '(' = .opn := by decide
theorem clsOf_cls : clsOf ')' = .cls := by decide

theorem isC_cls (c : Char) (h : isC c = true) : clsOf c = .ws ∨ c = ',' := by
  by_cases hs : isSpace c = true
  · exact Or.inl ((clsOf_ws_iff c).mpr hs)
  · right; simpa [isC, hs] using h

theorem isP1_cls (c : Char) (h : isP1 c = true) : clsOf c = .ws ∨ c = '(' := by
  by_cases hs : isSpace c = true
  · exact Or.inl ((clsOf_ws_iff c).mpr hs)
  · right; simpa [isP1, hs] using h

theorem isP2_cls (c : Char) (h : isP2 c = true) : clsOf c = .ws ∨ c = ')' := by
  by_cases hs : isSpace c = true
  · exact Or.inl ((clsOf_ws_iff c).mpr hs)
  · right; simpa [isP2, hs] using h

theorem notC_cls (c : Char) (h : isC c = false) : clsOf c ≠ .ws ∧ clsOf c ≠ .comma := by
  simp only [isC, Bool.or_eq_false_iff] at h
  refine ⟨fun h2 => by simp [(clsOf_ws_iff c).mp h2] at h, ?_⟩
  unfold clsOf
  simp only [h.1, h.2]
  intro h2
  split at h2 <;> try split at h2
  all_goals simp at h2

theorem run_ws : ∀ (xs : Str) (q : Option Cls), (∀ c ∈ xs, clsOf c = .ws) → run q xs = some q
  | [], _, _ => rfl
  | c :: cs, q, h => by
    rw [run, if_pos (h c (by simp))]
    exact run_ws cs q (fun x hx => h x (by simp [hx]))

theorem isC_noComma_ws (xs : Str) (hx : ∀ c ∈ xs, isC c = true) (hn : ',' ∉ xs) :
    ∀ c ∈ xs, clsOf c = .ws := by
  intro c hc
  rcases isC_cls c (hx c hc) with h | h
  · exact h
  · subst h; exact absurd hc hn

theorem run_isC : ∀ (xs : Str), (∀ c ∈ xs, isC c = true) → ∀ q q', run q xs = some q' →
    (q' = q ∧ ',' ∉ xs) ∨ (q' = some .comma ∧ ',' ∈ xs ∧ (q = some .cls ∨ q = some .other))
  | [], _, q, q', h => by simp [run] at h; simp [h]
  | c :: cs, hx, q, q', h => by
    have ih := run_isC cs (fun x hx' => hx x (by simp [hx']))
    rcases isC_cls c (hx c (by simp)) with hc | hc
    · rw [run, if_pos hc] at h
      have hne : c ≠ ',' := by
        intro e; subst e; rw [clsOf_comma] at hc; cases hc
      rcases ih q q' h with ⟨h1, h2⟩ | ⟨h1, h2, h3⟩
      · left; exact ⟨h1, by simp [h2, Ne.symm hne]⟩
      · right; exact ⟨h1, by simp [h2], h3⟩
    · subst hc
      rw [run, clsOf_comma] at h
      simp only [reduceCtorEq, if_false] at h
      by_cases ho : ok q .comma = true
      · rw [if_pos ho] at h
        rcases ih _ q' h with ⟨h1, _⟩ | ⟨_, _, h3⟩
        · right
          refine ⟨h1, by simp, ?_⟩
          rcases q with _ | (_|_|_|_|_) <;> simp_all [ok]
        · simp at h3
      · rw [if_neg ho] at h; cases h

theorem run_isP1 : ∀ (xs : Str), (∀ c ∈ xs, isP1 c = true) → ∀ q q', run q xs = some q' →
    (q' = q ∧ '(' ∉ xs) ∨ (q' = some .opn ∧ '(' ∈ xs ∧ ok q .opn = true)
  | [], _, q, q', h => by simp [run] at h; simp [h]
  | c :: cs, hx, q, q', h => by
    have ih := run_isP1 cs (fun x hx' => hx x (by simp [hx']))
    rcases isP1_cls c (hx c (by simp)) with hc | hc
    · rw [run, if_pos hc] at h
      have hne : c ≠ '(' := by
        intro e; subst e; rw [clsOf_opn] at hc; cases hc
      rcases ih q q' h with ⟨h1, h2⟩ | ⟨h1, h2, h3⟩
      · left; exact ⟨h1, by simp [h2, Ne.symm hne]⟩
      · right; exact ⟨h1, by simp [h2], h3⟩
    · subst hc
      rw [run, clsOf_opn] at h
      simp only [reduceCtorEq, if_false] at h
      by_cases ho : ok q .opn = true
      · rw [if_pos ho] at h
        rcases ih _ q' h with ⟨h1, _⟩ | ⟨h1, _, _⟩
        · right; exact ⟨h1, by simp, ho⟩
        · right; exact ⟨h1, by simp, ho⟩
      · rw [if_neg ho] at h; cases h

theorem run_isP2 : ∀ (xs : Str), (∀ c ∈ xs, isP2 c = true) → ∀ q q', run q xs = some q' →
    (q' = q ∧ ')' ∉ xs) ∨ (q' = some .cls ∧ ')' ∈ xs ∧ q ≠ some .comma)
  | [], _, q, q', h => by simp [run] at h; simp [h]
  | c :: cs, hx, q, q', h => by
    have ih := run_isP2 cs (fun x hx' => hx x (by simp [hx']))
    rcases isP2_cls c (hx c (by simp)) with hc | hc
    · rw [run, if_pos hc] at h
      have hne : c ≠ ')' := by
        intro e; subst e; rw [clsOf_cls] at hc; cases hc
      rcases ih q q' h with ⟨h1, h2⟩ | ⟨h1, h2, h3⟩
      · left; exact ⟨h1, by simp [h2, Ne.symm hne]⟩
      · right; exact ⟨h1, by simp [h2], h3⟩
    · subst hc
      rw [run, clsOf_cls] at h
      simp only [reduceCtorEq, if_false] at h
      by_cases ho : ok q .cls = true
      · rw [if_pos ho] at h
        have hq : q ≠ some .comma := by
          rcases q with _ | (_|_|_|_|_) <;> simp_all [ok]
        rcases ih _ q' h with ⟨h1, _⟩ | ⟨h1, _, _⟩
        · right; exact ⟨h1, by simp, hq⟩
        · right; exact ⟨h1, by simp, hq⟩
      · rw [if_neg ho] at h; cases h

theorem run_other : ∀ (xs : Str), (∀ c ∈ xs, clsOf c = .other) → xs ≠ [] → ∀ q q', run q xs = some q' →
    q' = some .other ∧ q ≠ some .cls
  | [], _, hne, _, _, _ => absurd rfl hne
  | c :: cs, hx, _, q, q', h => by
    have hc := hx c (by simp)
    rw [run, hc] at h
    simp only [reduceCtorEq, if_false] at h
    by_cases ho : ok q .other = true
    · rw [if_pos ho] at h
      have hq : q ≠ some .cls := by
        rcases q with _ | (_|_|_|_|_) <;> simp_all [ok]
      cases cs with
      | nil => simp [run] at h; exact ⟨h.symm, hq⟩
      | cons d ds =>
        exact ⟨(run_other (d :: ds) (fun x hx' => hx x (by simp [hx'])) (by simp) _ q' h).1, hq⟩
    · rw [if_neg ho] at h; cases h

theorem run_replicate_opn : ∀ (n : Nat) (q : Option Cls), 0 < n → ok q .opn = true →
    run q (List.replicate n '(') = some (some .opn)
  | 0, _, h, _ => by omega
  | n + 1, q, _, ho => by
    rw [List.replicate_succ, run, clsOf_opn]
    simp only [reduceCtorEq, if_false, ho, if_true]
    cases n with
    | zero => rfl
    | succ m => exact run_replicate_opn (m + 1) _ (by omega) rfl

theorem run_replicate_cls : ∀ (n : Nat) (q : Option Cls), 0 < n → q ≠ some .comma →
    run q (List.replicate n ')') = some (some .cls)
  | 0, _, h, _ => by omega
  | n + 1, q, _, hq => by
    have ho : ok q .cls = true := by
      rcases q with _ | (_|_|_|_|_) <;> simp_all [ok]
    rw [List.replicate_succ, run, clsOf_cls]
    simp only [reduceCtorEq, if_false, ho, if_true]
    cases n with
    | zero => rfl
    | succ m => exact run_replicate_cls (m + 1) _ (by omega) (by simp)

/-- a `[\s,]*` run that was accepted once is accepted after any closing parenthesis or tag -/
theorem run_isC_transfer : ∀ (xs : Str), (∀ c ∈ xs, isC c = true) → ∀ q q', run q xs = some q' →
    ',' ∈ xs → ∀ r, (r = some .cls ∨ r = some .other) → run r xs = some (some .comma)
  | [], _, _, _, _, hm, _, _ => by simp at hm
  | c :: cs, hx, q, q', h, hm, r, hr => by
    have hx' : ∀ x ∈ cs, isC x = true := fun x hx' => hx x (by simp [hx'])
    rcases isC_cls c (hx c (by simp)) with hc | hc
    · rw [run, if_pos hc] at h
      have hne : c ≠ ',' := by
        intro e; subst e; rw [clsOf_comma] at hc; cases hc
      rw [run, if_pos hc]
      refine run_isC_transfer cs hx' q q' h ?_ r hr
      rcases List.mem_cons.mp hm with e | e
      · exact absurd e.symm hne
      · exact e
    · subst hc
      rw [run, clsOf_comma] at h
      simp only [reduceCtorEq, if_false] at h
      by_cases ho : ok q .comma = true
      · rw [if_pos ho] at h
        have hor : ok r .comma = true := by rcases hr with e | e <;> subst e <;> rfl
        rw [run, clsOf_comma]
        simp only [reduceCtorEq, if_false, hor, if_true]
        rcases run_isC cs hx' _ q' h with ⟨_, h2⟩ | ⟨_, _, h3⟩
        · exact run_ws cs _ (isC_noComma_ws cs hx' h2)
        · simp at h3
      · rw [if_neg ho] at h; cases h

theorem run_snoc_state (us : Str) (c : Char) (q q' : Option Cls) (h : run q (us ++ [c]) = some q')
    (hc : clsOf c ≠ .ws) : q' = some (clsOf c) := by
  rw [run_append] at h
  cases h1 : run q us with
  | none => simp [h1] at h
  | some q1 =>
    simp only [h1, Option.bind_some, run, hc, if_false] at h
    split at h
    · simpa using h.symm
    · cases h

/-! whole-tag references -/

def lastNonWs : Str → Option Char
  | [] => none
  | c :: cs => match lastNonWs cs with
    | some x => some x
    | none => if isSpace c then none else some c

def firstNonWs : Str → Option Char
  | [] => none
  | c :: cs => if isSpace c then firstNonWs cs else some c

/-- the text before the reference ends (blanks aside) at the start, a comma or `(`; the text after it
begins at the end, a comma or `)` — the reference is a whole tag -/
def wholeTag (pre post : Str) : Prop :=
  (lastNonWs pre = none ∨ lastNonWs pre = some ',' ∨ lastNonWs pre = some '(') ∧
  (firstNonWs post = none ∨ firstNonWs post = some ',' ∨ firstNonWs post = some ')')

theorem run_lastNonWs : ∀ (s : Str) (q q' : Option Cls), run q s = some q' →
    q' = match lastNonWs s with | none => q | some c => some (clsOf c)
  | [], q, q', h => by simp [run] at h; simp [lastNonWs, h]
  | c :: cs, q, q', h => by
    rw [run] at h
    by_cases hc : clsOf c = .ws
    · rw [if_pos hc] at h
      have := run_lastNonWs cs q q' h
      rw [lastNonWs]
      cases hl : lastNonWs cs with
      | some x => simpa [hl] using this
      | none => simpa [hl, (clsOf_ws_iff c).mp hc] using this
    · rw [if_neg hc] at h
      split at h
      · have := run_lastNonWs cs _ q' h
        rw [lastNonWs]
        have hs : isSpace c = false := by
          cases hh : isSpace c
          · rfl
          · exact absurd ((clsOf_ws_iff c).mpr hh) hc
        cases hl : lastNonWs cs with
        | some x => simpa [hl] using this
        | none => simpa [hl, hs] using this
      · cases h

theorem firstNonWs_ws_append : ∀ (xs ys : Str), (∀ c ∈ xs, clsOf c = .ws) →
    firstNonWs (xs ++ ys) = firstNonWs ys
  | [], _, _ => rfl
  | c :: cs, ys, h => by
    simp only [List.cons_append, firstNonWs, (clsOf_ws_iff c).mp (h c (by simp)), if_true]
    exact firstNonWs_ws_append cs ys (fun x hx => h x (by simp [hx]))

theorem dropWhile_head (p : Char → Bool) : ∀ l : Str,
    l.dropWhile p = [] ∨ ∃ h t, l.dropWhile p = h :: t ∧ p h = false
  | [] => Or.inl rfl
  | c :: cs => by
    rw [List.dropWhile_cons]
    split
    · exact dropWhile_head p cs
    · rename_i h
      exact Or.inr ⟨c, cs, rfl, by simpa using h⟩

/-- what the match groups are: a decomposition of the text around the reference into maximal runs -/
theorem groups_spec (pre post : Str) :
    pre = (groups pre post).u ++ ((groups pre post).c1 ++ (groups pre post).p1) ∧
    post = (groups pre post).p2 ++ ((groups pre post).c2 ++ (groups pre post).w) ∧
    (∀ c ∈ (groups pre post).c1, isC c = true) ∧ (∀ c ∈ (groups pre post).p1, isP1 c = true) ∧
    (∀ c ∈ (groups pre post).p2, isP2 c = true) ∧ (∀ c ∈ (groups pre post).c2, isC c = true) ∧
    ((groups pre post).u = [] ∨ ∃ us c, (groups pre post).u = us ++ [c] ∧ isC c = false) ∧
    ((groups pre post).w = [] ∨ ∃ c cs, (groups pre post).w = c :: cs ∧ isC c = false) := by
  simp only [groups]
  refine ⟨?_, ?_, ?_, ?_, ?_, ?_, ?_, ?_⟩
  · rw [List.takeWhile_append_dropWhile, ← List.reverse_append, ← List.reverse_append,
      ← List.append_assoc, List.takeWhile_append_dropWhile] 
    sorry
  · simp [List.takeWhile_append_dropWhile]
  · intro c hc; exact List.mem_takeWhile_imp hc
  · intro c hc
    rw [List.dropWhile_append_of_pos (by intro a ha; exact List.mem_takeWhile_imp (List.mem_reverse.mp ha))] at hc
    have := (List.dropWhile_sublist _).subset hc
    exact List.mem_takeWhile_imp (List.mem_reverse.mp this)
  · intro c hc; exact List.mem_takeWhile_imp hc
  · intro c hc; exact List.mem_takeWhile_imp hc
  · rcases dropWhile_head isC ((pre.reverse).dropWhile isP1) with h | ⟨h, t, e, hp⟩
    · left; simp [h]
    · right; exact ⟨t.reverse, h, by simp [e], hp⟩
  · exact dropWhile_head isC _

end HedVerif.Assemble

namespace HedVerif.C06
open HedVerif.Assemble

/-- The transformer columns come in code-point order of their names (`dict(sorted(final_map.items()))`),
whatever the column order of the file. -/
theorem columns_sorted (sc : Sidecar) (header : List Str) :
    (activeCols sc header).Pairwise (fun a b => a.name ≤ b.name) :=
  sortCols_sorted _

/-- …and they are exactly the file's columns for which the sidecar (or the name `HED`) gives a
transformer; none is lost or duplicated by the sort. -/
theorem columns_complete (sc : Sidecar) (header : List Str) :
    (∀ c, c ∈ activeCols sc header ↔ c.name ∈ header ∧ trOf sc c.name = some c.tr) ∧
    (activeCols sc header).length = (header.filter fun n => (trOf sc n).isSome).length := by
  constructor
  · intro c
    unfold activeCols fileCols
    rw [mem_sortCols, List.mem_filterMap]
    constructor
    · rintro ⟨n, hn, h⟩
      cases ht : trOf sc n with
      | none => simp [ht] at h
      | some t => simp [ht] at h; subst h; exact ⟨hn, ht⟩
    · rintro ⟨hn, ht⟩
      exact ⟨c.name, hn, by simp [ht]⟩
  · unfold activeCols fileCols
    rw [length_sortCols]
    induction header with
    | nil => rfl
    | cons n ns ih =>
      cases ht : trOf sc n <;> simp [ht, ih]

/-- What each kind of column contributes (`_detect_column_type`, `get_transformers`, the handlers):
the HED column and untyped entries pass the cell through; a categorical column gives the entry of the
cell, nothing for an unknown key; a value column gives `n/a` for an `n/a` or empty cell and otherwise
the template with every `#` replaced by the cell; ignored entries give no column at all. -/
theorem transform_spec (sc : Sidecar) (e : J) (x : Str) :
    trOf sc HEDNAME = some .ident ∧
    (kind e = .ignore → trOfEntry e = none) ∧
    (kind e = .categorical → trOfEntry e = some (.cat (hedObj e))) ∧
    (kind e = .value → trOfEntry e = some (.value (hedStr e))) ∧
    (kind e = .unknown → trOfEntry e = some .ident) ∧
    applyTr .ident x = x ∧
    (∀ es, applyTr (.cat es) x = match es.lookup x with | some v => v | none => []) ∧
    (∀ t, applyTr (.value t) x = if x = NA ∨ x = [] then NA else t.flatMap fun c => if c == '#' then x else [c]) := by
  refine ⟨by simp [trOf], ?_, ?_, ?_, ?_, rfl, ?_, ?_⟩
  · intro h; simp [trOfEntry, h]
  · intro h; simp [trOfEntry, h]
  · intro h; simp [trOfEntry, h]
  · intro h; simp [trOfEntry, h]
  · intro es; simp only [applyTr]; cases es.lookup x <;> rfl
  · intro t; rfl

/-- Without references the annotation of a row is the `", "`-join, in column-name order, of each
transformer column's contribution, skipping empty and `n/a` ones. -/
theorem row_spec (sc : Sidecar) (header r : List Str) :
    row [] sc header r =
      SEP.intercalate (((activeCols sc header).map fun c => applyTr c.tr (cellOf header r c.name)).filter
        fun e => !e.isEmpty && e != NA) := by
  have hk : keep = fun (e : Str) => !e.isEmpty && e != NA := rfl
  have hf : ∀ (l : List (Str × Str)), l.filter (fun _ => true) = l := fun l =>
    List.filter_eq_self.mpr (by simp)
  simp [row, assembled, liveRefs, transformed, spliceAll, joinRow, Function.comp_def, ← hk, hf]

/-- A referenced column is not listed separately: the assembled row has exactly the transformer columns
that are not (live) references, in the same order, each with every live reference spliced into its text. -/
theorem splice (refs : List Str) (tr : List (Str × Str)) :
    (assembled refs tr).map (·.1) = (tr.map (·.1)).filter (fun n => !(liveRefs refs tr).contains n) ∧
    (∀ r, r ∈ liveRefs refs tr ↔ r ∈ refs ∧ ∃ p ∈ tr, p.1 = r) ∧
    (∀ p ∈ assembled refs tr, p.1 ∉ liveRefs refs tr ∧
        ∃ q ∈ tr, q.1 = p.1 ∧ p.2 = spliceAll (liveRefs refs tr) tr q.2) ∧
    (∀ q ∈ tr, q.1 ∉ liveRefs refs tr → (q.1, spliceAll (liveRefs refs tr) tr q.2) ∈ assembled refs tr) := by
  refine ⟨?_, ?_, ?_, ?_⟩
  · simp [assembled, List.map_map, Function.comp_def, List.filter_map]
  · intro r
    simp [liveRefs, List.mem_filter]
  · intro p hp
    simp only [assembled, List.mem_map, List.mem_filter] at hp
    obtain ⟨q, ⟨hq, hn⟩, rfl⟩ := hp
    refine ⟨by simpa using hn, q, hq, rfl, rfl⟩
  · intro q hq hn
    simp only [assembled, List.mem_map, List.mem_filter]
    exact ⟨q, ⟨hq, by simpa using hn⟩, rfl⟩

/-- …and its text appears exactly at its references: at the first occurrence the value stands in place
of `{name}`, the text before it is untouched and the rest is treated the same way. -/
theorem splice_at (t name v pre post : Str) (hv : v ≠ []) (hna : v ≠ NA)
    (hs : splitFirst (mkRef name) t = some (pre, post)) :
    t = pre ++ mkRef name ++ post ∧ replaceRef t name v = pre ++ v ++ replaceRef post name v := by
  refine ⟨splitFirst_eq _ _ _ _ hs, ?_⟩
  have hf : ∀ a b : Str, (replaceF v a b).2.length ≤ b.length := fun a b => Nat.le_refl _
  simp only [replaceRef, hv, hna, or_self, if_false]
  rw [sub_step _ _ (mkRef_ne name) hf t pre post hs]
  rfl

/-- A text without the reference is left as it is, whatever the value. -/
theorem splice_absent (t name v : Str) (hs : splitFirst (mkRef name) t = none) :
    replaceRef t name v = t := by
  unfold replaceRef
  split <;> exact subF_none _ _ _ _ hs

/-- One output per row, in row order. -/
theorem length_order (sc : Sidecar) (t : Table) :
    (series sc t).length = t.rows.length ∧
    ∀ i : Nat, (series sc t)[i]? = (t.rows[i]?).map (row (refsOf sc) sc t.header) := by
  simp [series, seriesWith]

/-- `series` is a function of (sidecar, table): every call on the same object returns the same list,
and the object (table and sidecar) is returned unchanged. -/
theorem deterministic_pure (x : Input) (n : Nat) :
    (call x).2 = x ∧ (calls n x).2 = x ∧ (calls n x).1.length = n ∧
    ∀ a ∈ (calls n x).1, a = series x.sidecar x.table := by
  refine ⟨rfl, ?_⟩
  induction n with
  | zero => simp [calls]
  | succ k ih =>
    obtain ⟨h1, h2, h3⟩ := ih
    simp only [calls, call] at *
    refine ⟨h1, by simp [h2], ?_⟩
    intro a ha
    rcases List.mem_cons.mp ha with rfl | ha
    · rfl
    · exact h3 a ha

end HedVerif.C06
