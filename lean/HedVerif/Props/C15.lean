/-
C15 — Search queries obey their documented logic on every annotation.

Theorems about `Query.parse` / `Query.eval` / `Query.isMatch` (lean/HedVerif/Model/Query.lean: the model of
`QueryHandler`, `Expression*.handle_expr`, `SearchResult`).  Helper lemmas first, the property theorems in
`namespace HedVerif.C15` at the end.  All statements quantify over every expression and every annotation
tree (no well-formedness assumption on the ids unless stated).
-/
import HedVerif.Model.Query

namespace HedVerif.Query

/-! ### trees: tags know a non-empty parent; result groups are groups of the tree -/

mutual
theorem tagsIn_parent (p : Node) (anc : List Node) (n : Node) (h : TagHit) :
    h ∈ tagsIn p anc n → h.parent = p ∨ h.parent.truthy = true := by
  cases n with
  | tag i => intro hm; simp [tagsIn] at hm; left; rw [hm]
  | group id g ks =>
    intro hm
    rw [tagsIn] at hm
    rcases tagsInL_parent (.group id g ks) (p :: anc) ks h hm with h1 | h1
    · right
      rw [h1]
      cases ks with
      | nil => simp [tagsInL] at hm
      | cons k ks' => simp [Node.truthy]
    · right; exact h1
theorem tagsInL_parent (p : Node) (anc : List Node) (ks : List Node) (h : TagHit) :
    h ∈ tagsInL p anc ks → h.parent = p ∨ h.parent.truthy = true := by
  cases ks with
  | nil => intro hm; simp [tagsInL] at hm
  | cons k ks' =>
    intro hm
    rw [tagsInL, List.mem_append] at hm
    rcases hm with hm | hm
    · exact tagsIn_parent p anc k h hm
    · exact tagsInL_parent p anc ks' h hm
end

theorem allTags_parent_truthy (t : Tree) (h : TagHit) (hm : h ∈ allTags t) : h.parent.truthy = true := by
  unfold allTags at hm
  rcases tagsInL_parent _ _ _ _ hm with h1 | h1
  · rw [h1]
    cases hk : t.kids with
    | nil => rw [hk] at hm; simp [tagsInL] at hm
    | cons k ks => simp [Tree.root, Node.truthy, hk]
  · exact h1

/-! ### `||` -/

theorem mergeOr_isEmpty (g1 g2 : List Result) :
    (mergeOr g1 g2).isEmpty = (g1.isEmpty && g2.isEmpty) := by
  unfold mergeOr
  cases g2 with
  | nil =>
    have : List.filter (fun _ : Result => true) g1 = g1 := List.filter_eq_self.2 (by simp)
    simp [this]
  | cons b bs => simp

/-! ### `&&`: the double loop of `merge_and_groups` -/

/-- the two results may be merged: same group (identity), no shared child (identity) -/
def compat (a b : Result) : Bool :=
  a.group.id == b.group.id && !(a.tags.any (fun t => hasId b.tags t.id))

theorem hasId_iff (l : List Node) (i : Nat) : hasId l i = true ↔ ∃ n ∈ l, n.id = i := by
  simp [hasId]

theorem compat_iff (a b : Result) :
    compat a b = true ↔ a.group.id = b.group.id ∧ ∀ x ∈ a.tags, ∀ y ∈ b.tags, x.id ≠ y.id := by
  simp only [compat, Bool.and_eq_true, beq_iff_eq, Bool.not_eq_true', List.any_eq_false, hasId_iff]
  constructor
  · rintro ⟨h1, h2⟩
    refine ⟨h1, fun x hx y hy hxy => h2 x hx ⟨y, hy, hxy.symm⟩⟩
  · rintro ⟨h1, h2⟩
    refine ⟨h1, fun x hx => ?_⟩
    rintro ⟨y, hy, hxy⟩
    exact h2 x hx y hy hxy.symm

theorem compat_symm (a b : Result) : compat a b = compat b a := by
  rw [Bool.eq_iff_iff, compat_iff, compat_iff]
  constructor
  · rintro ⟨h1, h2⟩; exact ⟨h1.symm, fun x hx y hy h => h2 y hy x hx h.symm⟩
  · rintro ⟨h1, h2⟩; exact ⟨h1.symm, fun x hx y hy h => h2 y hy x hx h.symm⟩

theorem mergeStep_eq (a : Result) (acc : List Result) (b : Result) :
    mergeStep a acc b =
      if compat a b then
        (if acc.any (fun f => sameTags (mergeRes a b) f) then acc else acc ++ [mergeRes a b])
      else acc := by
  unfold mergeStep compat
  by_cases h1 : (a.group.id == b.group.id) = true
  · by_cases h2 : (a.tags.any fun t => hasId b.tags t.id) = true
    · simp [h1, h2]
    · simp [h1, h2]
  · simp [h1]

/-- the inner loop only appends -/
theorem inner_mono (a : Result) (g2 acc : List Result) (r : Result) (h : r ∈ acc) :
    r ∈ g2.foldl (mergeStep a) acc := by
  induction g2 generalizing acc with
  | nil => simpa using h
  | cons b bs ih =>
    rw [List.foldl_cons]
    apply ih
    rw [mergeStep_eq]
    split
    · split
      · exact h
      · exact List.mem_append_left _ h
    · exact h

theorem inner_mem (a : Result) (g2 acc : List Result) (r : Result)
    (h : r ∈ g2.foldl (mergeStep a) acc) :
    r ∈ acc ∨ ∃ b ∈ g2, compat a b = true ∧ r = mergeRes a b := by
  induction g2 generalizing acc with
  | nil => left; simpa using h
  | cons b bs ih =>
    rw [List.foldl_cons] at h
    rcases ih _ h with h1 | ⟨b', hb', hc, hr⟩
    · rw [mergeStep_eq] at h1
      split at h1
      · rename_i hc
        split at h1
        · left; exact h1
        · rcases List.mem_append.1 h1 with h2 | h2
          · left; exact h2
          · right; exact ⟨b, List.mem_cons_self, hc, by simpa using h2⟩
      · left; exact h1
    · right; exact ⟨b', List.mem_cons_of_mem _ hb', hc, hr⟩

/-- a mergeable pair leaves its merge, or an earlier result with the same tags, in the list -/
theorem inner_complete (a : Result) (g2 acc : List Result) (b : Result) (hb : b ∈ g2)
    (hc : compat a b = true) :
    ∃ r ∈ g2.foldl (mergeStep a) acc, r = mergeRes a b ∨ sameTags (mergeRes a b) r = true := by
  induction g2 generalizing acc with
  | nil => cases hb
  | cons b0 bs ih =>
    rw [List.foldl_cons]
    rcases List.mem_cons.1 hb with rfl | hb'
    · -- the step for b itself
      have key : ∃ r ∈ mergeStep a acc b, r = mergeRes a b ∨ sameTags (mergeRes a b) r = true := by
        rw [mergeStep_eq, if_pos hc]
        split
        · rename_i hany
          rcases List.any_eq_true.1 hany with ⟨f, hf, hs⟩
          exact ⟨f, hf, Or.inr hs⟩
        · exact ⟨mergeRes a b, by simp, Or.inl rfl⟩
      rcases key with ⟨r, hr, hrr⟩
      exact ⟨r, inner_mono a bs _ r hr, hrr⟩
    · exact ih _ hb'

theorem mergeAnd_mono_aux (g1 g2 acc : List Result) (r : Result) (h : r ∈ acc) :
    r ∈ g1.foldl (fun acc a => g2.foldl (mergeStep a) acc) acc := by
  induction g1 generalizing acc with
  | nil => simpa using h
  | cons a as ih => rw [List.foldl_cons]; exact ih _ (inner_mono a g2 acc r h)

theorem mergeAnd_mem_aux (g1 g2 acc : List Result) (r : Result)
    (h : r ∈ g1.foldl (fun acc a => g2.foldl (mergeStep a) acc) acc) :
    r ∈ acc ∨ ∃ a ∈ g1, ∃ b ∈ g2, compat a b = true ∧ r = mergeRes a b := by
  induction g1 generalizing acc with
  | nil => left; simpa using h
  | cons a as ih =>
    rw [List.foldl_cons] at h
    rcases ih _ h with h1 | ⟨a', ha', b, hb, hc, hr⟩
    · rcases inner_mem a g2 acc r h1 with h2 | ⟨b, hb, hc, hr⟩
      · left; exact h2
      · right; exact ⟨a, List.mem_cons_self, b, hb, hc, hr⟩
    · right; exact ⟨a', List.mem_cons_of_mem _ ha', b, hb, hc, hr⟩

/-- every result of `merge_and_groups` is the merge of a mergeable pair -/
theorem mem_mergeAnd (g1 g2 : List Result) (r : Result) (h : r ∈ mergeAnd g1 g2) :
    ∃ a ∈ g1, ∃ b ∈ g2, compat a b = true ∧ r = mergeRes a b := by
  rcases mergeAnd_mem_aux g1 g2 [] r h with h1 | h1
  · cases h1
  · exact h1

theorem mergeAnd_complete_aux (g1 g2 acc : List Result) (a b : Result) (ha : a ∈ g1) (hb : b ∈ g2)
    (hc : compat a b = true) :
    ∃ r ∈ g1.foldl (fun acc a => g2.foldl (mergeStep a) acc) acc,
      r = mergeRes a b ∨ sameTags (mergeRes a b) r = true := by
  induction g1 generalizing acc with
  | nil => cases ha
  | cons a0 as ih =>
    rw [List.foldl_cons]
    rcases List.mem_cons.1 ha with rfl | ha'
    · rcases inner_complete a g2 acc b hb hc with ⟨r, hr, hrr⟩
      exact ⟨r, mergeAnd_mono_aux as g2 _ r hr, hrr⟩
    · exact ih _ ha'

/-- every mergeable pair is represented in the result of `merge_and_groups` -/
theorem mergeAnd_complete (g1 g2 : List Result) (a b : Result) (ha : a ∈ g1) (hb : b ∈ g2)
    (hc : compat a b = true) :
    ∃ r ∈ mergeAnd g1 g2, r = mergeRes a b ∨ sameTags (mergeRes a b) r = true :=
  mergeAnd_complete_aux g1 g2 [] a b ha hb hc

theorem mergeAnd_ne_nil_iff (g1 g2 : List Result) :
    mergeAnd g1 g2 ≠ [] ↔ ∃ a ∈ g1, ∃ b ∈ g2, compat a b = true := by
  constructor
  · intro h
    rcases List.exists_mem_of_ne_nil _ h with ⟨r, hr⟩
    rcases mem_mergeAnd g1 g2 r hr with ⟨a, ha, b, hb, hc, _⟩
    exact ⟨a, ha, b, hb, hc⟩
  · rintro ⟨a, ha, b, hb, hc⟩
    rcases mergeAnd_complete g1 g2 a b ha hb hc with ⟨r, hr, _⟩
    exact List.ne_nil_of_mem hr

/-- results of `A && B` in terms of the results of `A` and of `B` (the early exit changes nothing) -/
theorem evalE_and (t : Tree) (l r : Expr) (ex : Bool) :
    evalE t (.and l r) ex = mergeAnd (evalE t l ex) (evalE t r ex) := by
  rw [evalE]
  by_cases h : (evalE t l ex).isEmpty = true
  · simp only [h, if_true]
    rw [List.isEmpty_iff] at h
    rw [h]; simp [mergeAnd]
  · simp only [h]; rfl

/-! ### sorting keeps the members -/

theorem mem_insertByStr (x n : Node) (l : List Node) : n ∈ insertByStr x l ↔ n = x ∨ n ∈ l := by
  induction l with
  | nil => simp [insertByStr]
  | cons y ys ih =>
    rw [insertByStr]
    split
    · simp [ih]; grind
    · simp

theorem mem_sortByStr (n : Node) (l : List Node) : n ∈ sortByStr l ↔ n ∈ l := by
  induction l with
  | nil => simp [sortByStr]
  | cons x xs ih => rw [sortByStr, mem_insertByStr, ih]; simp

theorem mem_mergeRes_tags (a b : Result) (n : Node) :
    n ∈ (mergeRes a b).tags ↔ n ∈ a.tags ∨ (n ∈ b.tags ∧ hasId a.tags n.id = false) := by
  simp [mergeRes, mem_sortByStr]

/-- a term (not `@`) matches iff some tag of the annotation satisfies the mode's predicate -/
theorem term_match (w : Str) (m : Mode) (t : Tree) :
    isMatch (.term w m false) t = true ↔ ∃ h ∈ allTags t, tagMatches w m h.info = true := by
  have hchain : ∀ h ∈ allTags t, chain (.tag h.info) (h.parent :: h.anc) ≠ [] := by
    intro h hh
    simp [chain, allTags_parent_truthy t h hh]
  unfold isMatch eval
  rw [evalE]
  unfold termResults
  simp only [Bool.false_eq_true, ↓reduceIte]
  simp [List.flatMap_eq_nil_iff]
  constructor
  · rintro ⟨x, h1, h2, _⟩; exact ⟨x, h1, h2⟩
  · rintro ⟨x, h1, h2⟩; exact ⟨x, h1, h2, hchain x h1⟩

theorem isMatch_iff (q : Expr) (t : Tree) : isMatch q t = true ↔ evalE t q false ≠ [] := by
  simp [isMatch, eval]

/-! ### results point into the annotation -/

mutual
theorem groupsIn_closed (anc : List Node) (n : Node) (gh : GroupHit) :
    gh ∈ groupsIn anc n →
      gh.anc = anc ∨ ∃ p rest, gh.anc = p :: rest ∧ (⟨p, rest⟩ : GroupHit) ∈ groupsIn anc n := by
  cases n with
  | tag i => intro hm; simp [groupsIn] at hm
  | group id g ks =>
    intro hm
    rw [groupsIn, List.mem_cons] at hm
    rcases hm with rfl | hm
    · left; rfl
    · right
      rcases groupsInL_closed (.group id g ks :: anc) ks gh hm with h1 | ⟨p, rest, h1, h2⟩
      · exact ⟨.group id g ks, anc, h1, by rw [groupsIn]; exact List.mem_cons_self⟩
      · exact ⟨p, rest, h1, by rw [groupsIn]; exact List.mem_cons_of_mem _ h2⟩
theorem groupsInL_closed (anc : List Node) (ks : List Node) (gh : GroupHit) :
    gh ∈ groupsInL anc ks →
      gh.anc = anc ∨ ∃ p rest, gh.anc = p :: rest ∧ (⟨p, rest⟩ : GroupHit) ∈ groupsInL anc ks := by
  cases ks with
  | nil => intro hm; simp [groupsInL] at hm
  | cons k ks' =>
    intro hm
    rw [groupsInL, List.mem_append] at hm
    rcases hm with hm | hm
    · rcases groupsIn_closed anc k gh hm with h1 | ⟨p, rest, h1, h2⟩
      · left; exact h1
      · right; exact ⟨p, rest, h1, by rw [groupsInL]; exact List.mem_append_left _ h2⟩
    · rcases groupsInL_closed anc ks' gh hm with h1 | ⟨p, rest, h1, h2⟩
      · left; exact h1
      · right; exact ⟨p, rest, h1, by rw [groupsInL]; exact List.mem_append_right _ h2⟩
end

/-- the parent of a group of the annotation is a group of the annotation (with its own ancestors) -/
theorem allGroups_closed (t : Tree) (g p : Node) (rest : List Node)
    (h : (⟨g, p :: rest⟩ : GroupHit) ∈ allGroups t) : (⟨p, rest⟩ : GroupHit) ∈ allGroups t := by
  unfold allGroups at h ⊢
  rcases List.mem_cons.1 h with h1 | h1
  · cases h1
  · rcases groupsInL_closed _ _ _ h1 with h2 | ⟨p', rest', h2, h3⟩
    · simp only [List.cons.injEq] at h2
      rw [h2.1, h2.2]; exact List.mem_cons_self
    · simp only [List.cons.injEq] at h2
      rw [h2.1, h2.2]; exact List.mem_cons_of_mem _ h3

mutual
theorem tagsIn_group (p : Node) (anc : List Node) (n : Node) (h : TagHit) :
    h ∈ tagsIn p anc n →
      (h.parent = p ∧ h.anc = anc) ∨ (⟨h.parent, h.anc⟩ : GroupHit) ∈ groupsIn (p :: anc) n := by
  cases n with
  | tag i => intro hm; simp [tagsIn] at hm; left; rw [hm]; exact ⟨rfl, rfl⟩
  | group id g ks =>
    intro hm
    rw [tagsIn] at hm
    right
    rw [groupsIn]
    rcases tagsInL_group (.group id g ks) (p :: anc) ks h hm with ⟨h1, h2⟩ | h1
    · rw [h1, h2]; exact List.mem_cons_self
    · exact List.mem_cons_of_mem _ h1
theorem tagsInL_group (p : Node) (anc : List Node) (ks : List Node) (h : TagHit) :
    h ∈ tagsInL p anc ks →
      (h.parent = p ∧ h.anc = anc) ∨ (⟨h.parent, h.anc⟩ : GroupHit) ∈ groupsInL (p :: anc) ks := by
  cases ks with
  | nil => intro hm; simp [tagsInL] at hm
  | cons k ks' =>
    intro hm
    rw [tagsInL, List.mem_append] at hm
    rw [groupsInL]
    rcases hm with hm | hm
    · rcases tagsIn_group p anc k h hm with h1 | h1
      · left; exact h1
      · right; exact List.mem_append_left _ h1
    · rcases tagsInL_group p anc ks' h hm with h1 | h1
      · left; exact h1
      · right; exact List.mem_append_right _ h1
end

/-- the result's group is a group of the annotation and `anc` are that group's real ancestors -/
def Good (t : Tree) (r : Result) : Prop := (⟨r.group, r.anc⟩ : GroupHit) ∈ allGroups t

theorem allTags_good (t : Tree) (h : TagHit) (hm : h ∈ allTags t) :
    (⟨h.parent, h.anc⟩ : GroupHit) ∈ allGroups t := by
  unfold allTags at hm
  unfold allGroups
  rcases tagsInL_group _ _ _ _ hm with ⟨h1, h2⟩ | h1
  · rw [h1, h2]; exact List.mem_cons_self
  · exact List.mem_cons_of_mem _ h1

theorem chain_good (t : Tree) (anc : List Node) (child g : Node)
    (hg : (⟨g, anc⟩ : GroupHit) ∈ allGroups t) : ∀ r ∈ chain child (g :: anc), Good t r := by
  induction anc generalizing child g with
  | nil =>
    intro r hr
    rw [chain] at hr
    split at hr
    · simp [chain] at hr; rw [hr]; exact hg
    · cases hr
  | cons p rest ih =>
    intro r hr
    rw [chain] at hr
    split at hr
    · rcases List.mem_cons.1 hr with rfl | hr'
      · exact hg
      · exact ih g p (allGroups_closed t g p rest hg) r hr'
    · cases hr

theorem chain0_good (t : Tree) (gh : GroupHit) (hg : gh ∈ allGroups t) :
    ∀ r ∈ chain0 gh.group gh.anc, Good t r := by
  intro r hr
  unfold chain0 at hr
  split at hr
  · rcases List.mem_cons.1 hr with rfl | hr'
    · exact hg
    · cases hanc : gh.anc with
      | nil => rw [hanc] at hr'; simp [chain] at hr'
      | cons p rest =>
        rw [hanc] at hr'
        have : (⟨gh.group, p :: rest⟩ : GroupHit) ∈ allGroups t := by rw [← hanc]; exact hg
        exact chain_good t rest gh.group p (allGroups_closed t _ p rest this) r hr'
  · cases hr

theorem parents_good (t : Tree) (rs : List Result) (h : ∀ r ∈ rs, Good t r) :
    ∀ r ∈ parents rs, Good t r := by
  intro r hr
  unfold parents at hr
  rcases List.mem_filterMap.1 hr with ⟨r0, hr0, hf⟩
  split at hf
  · cases hf
  · split at hf
    · cases hf
    · rename_i p rest hanc
      split at hf
      · simp only [Option.some.injEq] at hf
        rw [← hf]
        have h0 := h r0 hr0
        unfold Good at h0 ⊢
        rw [hanc] at h0
        exact allGroups_closed t _ p rest h0
      · cases hf

theorem mergeAnd_good (t : Tree) (g1 g2 : List Result) (h : ∀ r ∈ g1, Good t r) :
    ∀ r ∈ mergeAnd g1 g2, Good t r := by
  intro r hr
  rcases mem_mergeAnd g1 g2 r hr with ⟨a, ha, b, _, _, rfl⟩
  exact h a ha

theorem filterExact_good (t : Tree) (rs : List Result) (h : ∀ r ∈ rs, Good t r) :
    ∀ r ∈ filterExact rs, Good t r := by
  intro r hr
  exact h r (List.mem_filter.1 hr).1

/-- **every result of every expression refers to a group of the (unchanged) annotation** -/
theorem evalE_good (t : Tree) (q : Expr) : ∀ ex, ∀ r ∈ evalE t q ex, Good t r := by
  induction q with
  | term text mode nil =>
    intro ex r hr
    rw [evalE] at hr
    unfold termResults at hr
    simp only at hr
    split at hr
    · split at hr
      · cases hr
      · split at hr
        · rcases List.mem_map.1 hr with ⟨g, hg, rfl⟩; exact hg
        · rcases List.mem_flatMap.1 hr with ⟨g, hg, hr'⟩; exact chain0_good t g hg r hr'
    · split at hr
      · rcases List.mem_map.1 hr with ⟨h, hh, rfl⟩
        exact allTags_good t h (List.mem_filter.1 hh).1
      · rcases List.mem_flatMap.1 hr with ⟨h, hh, hr'⟩
        exact chain_good t h.anc _ h.parent (allTags_good t h (List.mem_filter.1 hh).1) r hr'
  | wild w =>
    intro ex r hr
    rw [evalE] at hr
    unfold wildResults at hr
    rcases List.mem_flatMap.1 hr with ⟨g, hg, hr'⟩
    rcases List.mem_map.1 hr' with ⟨k, _, rfl⟩
    exact hg
  | and l r ihl ihr =>
    intro ex x hx
    rw [evalE_and] at hx
    exact mergeAnd_good t _ _ (ihl ex) x hx
  | or l r ihl ihr =>
    intro ex x hx
    rw [evalE] at hx
    unfold mergeOr at hx
    rcases List.mem_append.1 hx with h1 | h1
    · exact ihl ex x (List.mem_filter.1 h1).1
    · exact ihr ex x h1
  | neg r ih =>
    intro ex x hx
    rw [evalE] at hx
    unfold negResults at hx
    rcases List.mem_map.1 hx with ⟨g, hg, rfl⟩
    exact (List.mem_filter.1 hg).1
  | desc r ih =>
    intro ex x hx
    rw [evalE] at hx
    exact parents_good t _ (ih false) x hx
  | exactAny r ih =>
    intro ex x hx
    rw [evalE] at hx
    exact parents_good t _ (ih true) x hx
  | exactNone r ih =>
    intro ex x hx
    rw [evalE] at hx
    split at hx
    · exact parents_good t _ (filterExact_good t _ (ih true)) x hx
    · cases hx
  | exactOpt r l ihr ihl =>
    intro ex x hx
    rw [evalE] at hx
    split at hx
    · exact parents_good t _ (filterExact_good t _ (ihr true)) x hx
    · simp only at hx
      split at hx
      · exact parents_good t _ (filterExact_good t _ (mergeAnd_good t _ _ (ihr true))) x hx
      · cases hx

/-! ### associativity of `&&` at the level of "matches" -/

/-- No two *distinct* groups of the annotation are equal in the sense of `HedGroup.__eq__`.
(`has_same_tags` compares the groups with `!=`, i.e. by equality, so two results with no children on two
equal groups, e.g. the `~a` results on `(Red),(Red)`, count as duplicates of each other.) -/
def NoEqualGroups (t : Tree) : Prop :=
  ∀ g ∈ allGroups t, ∀ h ∈ allGroups t, Node.eqv g.group h.group = true → g.group.id = h.group.id

theorem compat_congr (m r c : Result) (hg : m.group.id = r.group.id)
    (ht : m.tags.map Node.id = r.tags.map Node.id) : compat m c = compat r c := by
  have key : ∀ l : List Node, l.any (fun t => hasId c.tags t.id) = (l.map Node.id).any (hasId c.tags) := by
    intro l; simp [List.any_map, Function.comp_def]
  unfold compat
  rw [hg, key, key, ht]

theorem sameTags_ids (m r : Result) (h : sameTags m r = true) :
    Node.eqv m.group r.group = true ∧ m.tags.map Node.id = r.tags.map Node.id := by
  simp only [sameTags, Bool.and_eq_true, beq_iff_eq] at h
  exact ⟨h.1.1, h.2⟩

theorem exists_compat_mergeAnd (t : Tree) (hne : NoEqualGroups t) (g1 g2 g3 : List Result)
    (h1 : ∀ r ∈ g1, Good t r) :
    (∃ r ∈ mergeAnd g1 g2, ∃ c ∈ g3, compat r c = true) ↔
      ∃ a ∈ g1, ∃ b ∈ g2, ∃ c ∈ g3, compat a b = true ∧ compat (mergeRes a b) c = true := by
  constructor
  · rintro ⟨r, hr, c, hc, hrc⟩
    rcases mem_mergeAnd g1 g2 r hr with ⟨a, ha, b, hb, hab, rfl⟩
    exact ⟨a, ha, b, hb, c, hc, hab, hrc⟩
  · rintro ⟨a, ha, b, hb, c, hc, hab, hmc⟩
    rcases mergeAnd_complete g1 g2 a b ha hb hab with ⟨r, hr, rfl | hs⟩
    · exact ⟨_, hr, c, hc, hmc⟩
    · refine ⟨r, hr, c, hc, ?_⟩
      rcases sameTags_ids _ _ hs with ⟨he, hi⟩
      have hgm : Good t (mergeRes a b) := h1 a ha
      have hgr : Good t r := mergeAnd_good t g1 g2 h1 r hr
      have hid := hne _ hgm _ hgr he
      rw [← compat_congr (mergeRes a b) r c hid hi]; exact hmc

def disj (a b : Result) : Prop := ∀ x ∈ a.tags, ∀ y ∈ b.tags, x.id ≠ y.id

theorem disj_symm (a b : Result) : disj a b ↔ disj b a :=
  ⟨fun h x hx y hy e => h y hy x hx e.symm, fun h x hx y hy e => h y hy x hx e.symm⟩

theorem tri_left (a b c : Result) :
    (compat a b = true ∧ compat (mergeRes a b) c = true) ↔
      (a.group.id = b.group.id ∧ a.group.id = c.group.id ∧ disj a b ∧ disj a c ∧ disj b c) := by
  rw [compat_iff, compat_iff]
  have hgrp : (mergeRes a b).group = a.group := rfl
  rw [hgrp]
  constructor
  · rintro ⟨⟨h1, dab⟩, h2, dm⟩
    refine ⟨h1, h2, dab, fun x hx y hy => dm x ((mem_mergeRes_tags a b x).2 (Or.inl hx)) y hy,
      fun x hx y hy => dm x ((mem_mergeRes_tags a b x).2 (Or.inr ⟨hx, ?_⟩)) y hy⟩
    cases hh : hasId a.tags x.id with
    | false => rfl
    | true =>
      rcases (hasId_iff _ _).1 hh with ⟨n, hn, hnx⟩
      exact absurd hnx (dab n hn x hx)
  · rintro ⟨h1, h2, dab, dac, dbc⟩
    refine ⟨⟨h1, dab⟩, h2, fun x hx y hy => ?_⟩
    rcases (mem_mergeRes_tags a b x).1 hx with h | ⟨h, _⟩
    · exact dac x h y hy
    · exact dbc x h y hy

/-! ### grouping symbols: balance, and the segments the recursive descent consumes -/

/-- the three kinds of grouping symbols -/
inductive BK where
  | paren | sq | curly
deriving DecidableEq, Repr

/-- an opening or a closing grouping symbol -/
inductive Br where
  | op (k : BK)
  | cl (k : BK)
deriving DecidableEq, Repr

/-- read grouping symbols with a stack of the open ones; `none` = a closing symbol without its partner -/
def scan : List BK → List Br → Option (List BK)
  | st, [] => some st
  | st, .op k :: r => scan (k :: st) r
  | [], .cl _ :: _ => none
  | k' :: st, .cl k :: r => if k = k' then scan st r else none

/-- properly nested -/
def Balanced (bs : List Br) : Prop := scan [] bs = some []

def brOfChar (c : Char) : Option Br :=
  if c = '(' then some (.op .paren) else if c = ')' then some (.cl .paren)
  else if c = '[' then some (.op .sq) else if c = ']' then some (.cl .sq)
  else if c = '{' then some (.op .curly) else if c = '}' then some (.cl .curly)
  else none

/-- the grouping symbols `( ) [ ] { }` of a query text, in order -/
def textBrs (s : Str) : List Br := s.filterMap brOfChar

def brOfKind : Kind → Option Br
  | .parenOpen => some (.op .paren) | .parenClose => some (.cl .paren)
  | .descOpen => some (.op .sq) | .descClose => some (.cl .sq)
  | .exactOpen => some (.op .curly) | .exactClose => some (.cl .curly)
  | _ => none

def brOf (t : Token) : Option Br := brOfKind t.kind
def brs (ts : List Token) : List Br := ts.filterMap brOf

/-- a stretch of grouping symbols that leaves every stack as it found it -/
def Neutral (bs : List Br) : Prop := ∀ st rest, scan st (bs ++ rest) = scan st rest

theorem neutral_nil : Neutral [] := fun _ _ => rfl

theorem neutral_append {a b : List Br} (ha : Neutral a) (hb : Neutral b) : Neutral (a ++ b) := by
  intro st rest; rw [List.append_assoc, ha, hb]

theorem neutral_wrap {bs : List Br} (k : BK) (h : Neutral bs) : Neutral (.op k :: (bs ++ [.cl k])) := by
  intro st rest
  rw [List.cons_append, List.append_assoc]
  simp only [scan]
  rw [h]
  simp [scan]

theorem brs_append (a b : List Token) : brs (a ++ b) = brs a ++ brs b := by
  simp [brs, List.filterMap_append]

/-- `ts = c ++ r` where the consumed stretch `c` is neutral (claimed for the repaired parser only) -/
def SegL (lg : Bool) (ts r : List Token) : Prop :=
  ∃ c, ts = c ++ r ∧ (lg = false → Neutral (brs c))

/-- the same with at least one token consumed -/
def Seg (lg : Bool) (ts r : List Token) : Prop := SegL lg ts r ∧ r.length < ts.length

theorem SegL.refl (lg : Bool) (ts : List Token) : SegL lg ts ts := ⟨[], rfl, fun _ => neutral_nil⟩

theorem SegL.len {lg : Bool} {ts r : List Token} (h : SegL lg ts r) : r.length ≤ ts.length := by
  rcases h with ⟨c, rfl, _⟩; simp

theorem SegL.trans {lg : Bool} {a b c : List Token} (h1 : SegL lg a b) (h2 : SegL lg b c) : SegL lg a c := by
  rcases h1 with ⟨c1, rfl, n1⟩
  rcases h2 with ⟨c2, rfl, n2⟩
  exact ⟨c1 ++ c2, by simp, fun h => by rw [brs_append]; exact neutral_append (n1 h) (n2 h)⟩

theorem Seg.transL {lg : Bool} {a b c : List Token} (h1 : Seg lg a b) (h2 : SegL lg b c) : Seg lg a c :=
  ⟨h1.1.trans h2, Nat.lt_of_le_of_lt h2.len h1.2⟩

theorem Seg.plain {lg : Bool} {r r' : List Token} (t : Token) (ht : lg = false → brOf t = none)
    (h : SegL lg r r') : Seg lg (t :: r) r' := by
  rcases h with ⟨c, rfl, n⟩
  refine ⟨⟨t :: c, rfl, fun hl => ?_⟩, by simp; omega⟩
  have : brs (t :: c) = brs c := by simp [brs, ht hl]
  rw [this]; exact n hl

theorem Seg.wrap {lg : Bool} {r r2 : List Token} (t c : Token) (k : BK) (ht : brOf t = some (.op k))
    (hc : brOf c = some (.cl k)) (h : SegL lg r (c :: r2)) : Seg lg (t :: r) r2 := by
  rcases h with ⟨c1, rfl, n⟩
  refine ⟨⟨t :: (c1 ++ [c]), by simp, fun hl => ?_⟩, by simp; omega⟩
  have : brs (t :: (c1 ++ [c])) = .op k :: (brs c1 ++ [.cl k]) := by
    simp [brs, List.filterMap_append, ht, hc]
  rw [this]; exact neutral_wrap k (n hl)

theorem takeClose_some {ts r : List Token} (h : takeClose ts = some r) :
    ∃ d, ts = d :: r ∧ d.kind = .exactClose := by
  unfold takeClose at h
  split at h
  · cases h
  · rename_i d r0
    split at h
    · simp only [Option.some.injEq] at h; subst h; exact ⟨d, rfl, ‹_›⟩
    · cases h

theorem closeOf_ok {ex e : Expr} {o : Option (List Token)} {r : List Token}
    (h : closeOf ex o = .ok (e, r)) : o = some r := by
  unfold closeOf at h
  split at h
  · cases h
  · split at h
    · cases h
    · simp only [Except.ok.injEq, Prod.mk.injEq] at h; rw [h.2]

theorem closeOf_not_fuel (ex : Expr) (o : Option (List Token)) : closeOf ex o ≠ .error .fuel := by
  unfold closeOf
  split
  · simp
  · split <;> simp

theorem afterColon_seg {lg : Bool} (sub : List Token → PRes)
    (hsub : ∀ ts e r, sub ts = .ok (e, r) → SegL lg ts r) (e0 : Expr) (rest : List Token) (e : Expr)
    (r : List Token) (h : afterColon sub e0 rest = .ok (e, r)) :
    ∃ d, d.kind = .exactClose ∧ SegL lg rest (d :: r) := by
  unfold afterColon at h
  split at h
  · rename_i r3 htc
    have := closeOf_ok h
    simp only [Option.some.injEq] at this
    subst this
    rcases takeClose_some htc with ⟨d, rfl, hd⟩
    exact ⟨d, hd, SegL.refl _ _⟩
  · split at h
    · cases h
    · rename_i l r3 hs
      have hc := closeOf_ok h
      rcases takeClose_some hc with ⟨d, rfl, hd⟩
      exact ⟨d, hd, hsub _ _ _ hs⟩

theorem afterColon_fuel (sub : List Token → PRes) (e0 : Expr) (rest : List Token)
    (h : afterColon sub e0 rest = .error .fuel) : sub rest = .error .fuel := by
  unfold afterColon at h
  split at h
  · exact absurd h (closeOf_not_fuel _ _)
  · split at h
    · rename_i x hx; simp only [Except.error.injEq] at h; rw [hx, h]
    · exact absurd h (closeOf_not_fuel _ _)

theorem termOf_plain {t : Token} {e : Expr} (h : termOf false t = .ok e) : brOf t = none := by
  unfold termOf at h
  split at h
  · rename_i hk; simp [brOf, hk, brOfKind]
  · split at h
    · rename_i hk
      simp only [Bool.or_false, decide_eq_true_eq] at hk
      simp [brOf, hk, brOfKind]
    · cases h

/-- what each parsing function consumes -/
def SegAll (lg : Bool) (f : Nat) : Prop :=
  (∀ ts e r, pOr lg f ts = .ok (e, r) → Seg lg ts r) ∧
  (∀ e0 ts e r, pOrLoop lg f e0 ts = .ok (e, r) → SegL lg ts r) ∧
  (∀ ts e r, pAnd lg f ts = .ok (e, r) → Seg lg ts r) ∧
  (∀ e0 ts e r, pAndLoop lg f e0 ts = .ok (e, r) → SegL lg ts r) ∧
  (∀ ts e r, pNeg lg f ts = .ok (e, r) → Seg lg ts r) ∧
  (∀ ts e r, pGroup lg f ts = .ok (e, r) → Seg lg ts r)

theorem segAll (lg : Bool) : ∀ f, SegAll lg f := by
  intro f
  induction f with
  | zero =>
    refine ⟨?_, ?_, ?_, ?_, ?_, ?_⟩
    · intro ts e r h; rw [pOr.eq_def] at h; cases h
    · intro e0 ts e r h; rw [pOrLoop.eq_def] at h; cases h
    · intro ts e r h; rw [pAnd.eq_def] at h; cases h
    · intro e0 ts e r h; rw [pAndLoop.eq_def] at h; cases h
    · intro ts e r h; rw [pNeg.eq_def] at h; cases h
    · intro ts e r h; rw [pGroup.eq_def] at h; cases h
  | succ f ih =>
    rcases ih with ⟨iOr, iOrL, iAnd, iAndL, iNeg, iGrp⟩
    refine ⟨?_, ?_, ?_, ?_, ?_, ?_⟩
    · -- pOr
      intro ts e r h
      rw [pOr.eq_def] at h; simp only at h
      split at h
      · cases h
      · rename_i e1 r1 h1
        exact (iAnd _ _ _ h1).transL (iOrL _ _ _ _ h)
    · -- pOrLoop
      intro e0 ts e r h
      rw [pOrLoop.eq_def] at h; simp only at h
      split at h
      · simp only [Except.ok.injEq, Prod.mk.injEq] at h; rw [← h.2]; exact SegL.refl _ _
      · rename_i t r0
        split at h
        · rename_i hk
          split at h
          · cases h
          · rename_i e2 r2 h2
            exact (Seg.plain t (fun _ => by simp [brOf, hk, brOfKind])
              ((iAnd _ _ _ h2).1.trans (iOrL _ _ _ _ h))).1
        · simp only [Except.ok.injEq, Prod.mk.injEq] at h; rw [← h.2]; exact SegL.refl _ _
    · -- pAnd
      intro ts e r h
      rw [pAnd.eq_def] at h; simp only at h
      split at h
      · cases h
      · rename_i e1 r1 h1
        exact (iNeg _ _ _ h1).transL (iAndL _ _ _ _ h)
    · -- pAndLoop
      intro e0 ts e r h
      rw [pAndLoop.eq_def] at h; simp only at h
      split at h
      · simp only [Except.ok.injEq, Prod.mk.injEq] at h; rw [← h.2]; exact SegL.refl _ _
      · rename_i t r0
        split at h
        · rename_i hk
          split at h
          · cases h
          · rename_i e2 r2 h2
            exact (Seg.plain t (fun _ => by simp [brOf, hk, brOfKind])
              ((iNeg _ _ _ h2).1.trans (iAndL _ _ _ _ h))).1
        · simp only [Except.ok.injEq, Prod.mk.injEq] at h; rw [← h.2]; exact SegL.refl _ _
    · -- pNeg
      intro ts e r h
      rw [pNeg.eq_def] at h; simp only at h
      split at h
      · exact iGrp _ _ _ h
      · rename_i t r0
        split at h
        · rename_i hk
          split at h
          · cases h
          · rename_i e2 r2 h2
            split at h
            · cases h
            · simp only [Except.ok.injEq, Prod.mk.injEq] at h; rw [← h.2]
              exact Seg.plain t (fun _ => by simp [brOf, hk, brOfKind]) (iGrp _ _ _ h2).1
        · exact iGrp _ _ _ h
    · -- pGroup
      intro ts e r h
      rw [pGroup.eq_def] at h; simp only at h
      split at h
      · cases h
      · rename_i t r0
        split at h
        · -- ( ... )
          rename_i hk
          split at h
          · cases h
          · rename_i e1 r1 h1
            split at h
            · cases h
            · rename_i c r2
              split at h
              · rename_i hc
                simp only [Except.ok.injEq, Prod.mk.injEq] at h; rw [← h.2]
                exact Seg.wrap t c .paren (by simp [brOf, hk, brOfKind]) (by simp [brOf, hc, brOfKind])
                  (iOr _ _ _ h1).1
              · cases h
        · split at h
          · -- [ ... ]
            rename_i hk
            split at h
            · cases h
            · rename_i e1 r1 h1
              split at h
              · cases h
              · rename_i c r2
                split at h
                · rename_i hc
                  simp only [Except.ok.injEq, Prod.mk.injEq] at h; rw [← h.2]
                  exact Seg.wrap t c .sq (by simp [brOf, hk, brOfKind]) (by simp [brOf, hc, brOfKind])
                    (iOr _ _ _ h1).1
                · cases h
          · split at h
            · -- { ... }
              rename_i hk
              split at h
              · cases h
              · rename_i e1 r1 h1
                split at h
                · cases h
                · rename_i c r2
                  split at h
                  · rename_i hc
                    simp only [Except.ok.injEq, Prod.mk.injEq] at h; rw [← h.2]
                    exact Seg.wrap t c .curly (by simp [brOf, hk, brOfKind]) (by simp [brOf, hc, brOfKind])
                      (iOr _ _ _ h1).1
                  · split at h
                    · rename_i hc
                      rcases afterColon_seg (pOr lg f) (fun ts e r hh => (iOr ts e r hh).1) _ _ _ _ h with
                        ⟨d, hd, hseg⟩
                      exact Seg.wrap t d .curly (by simp [brOf, hk, brOfKind]) (by simp [brOf, hd, brOfKind])
                        ((iOr _ _ _ h1).1.trans (Seg.plain c (fun _ => by simp [brOf, hc, brOfKind]) hseg).1)
                    · cases h
            · -- a term
              split at h
              · cases h
              · rename_i e1 h1
                simp only [Except.ok.injEq, Prod.mk.injEq] at h; rw [← h.2]
                refine Seg.plain t (fun hl => ?_) (SegL.refl _ _)
                subst hl
                exact termOf_plain h1

/-- the fuel given by `parseToks` is never used up -/
def FuelAll (lg : Bool) (f : Nat) : Prop :=
  (∀ ts, 6 * ts.length + 4 ≤ f → pOr lg f ts ≠ .error .fuel) ∧
  (∀ e0 ts, 6 * ts.length + 1 ≤ f → pOrLoop lg f e0 ts ≠ .error .fuel) ∧
  (∀ ts, 6 * ts.length + 3 ≤ f → pAnd lg f ts ≠ .error .fuel) ∧
  (∀ e0 ts, 6 * ts.length + 1 ≤ f → pAndLoop lg f e0 ts ≠ .error .fuel) ∧
  (∀ ts, 6 * ts.length + 2 ≤ f → pNeg lg f ts ≠ .error .fuel) ∧
  (∀ ts, 6 * ts.length + 1 ≤ f → pGroup lg f ts ≠ .error .fuel)

theorem fuelAll (lg : Bool) : ∀ f, FuelAll lg f := by
  intro f
  induction f with
  | zero =>
    refine ⟨?_, ?_, ?_, ?_, ?_, ?_⟩ <;> intros <;> omega
  | succ f ih =>
    rcases ih with ⟨iOr, iOrL, iAnd, iAndL, iNeg, iGrp⟩
    rcases segAll lg f with ⟨sOr, sOrL, sAnd, sAndL, sNeg, sGrp⟩
    refine ⟨?_, ?_, ?_, ?_, ?_, ?_⟩
    · intro ts hb h
      rw [pOr.eq_def] at h; simp only at h
      split at h
      · rename_i x hx
        simp only [Except.error.injEq] at h; subst h
        exact iAnd ts (by omega) hx
      · rename_i e1 r1 h1
        have := (sAnd _ _ _ h1).2
        exact iOrL e1 r1 (by omega) h
    · intro e0 ts hb h
      rw [pOrLoop.eq_def] at h; simp only at h
      split at h
      · cases h
      · rename_i t r0
        split at h
        · split at h
          · rename_i x hx
            simp only [Except.error.injEq] at h; subst h
            simp only [List.length_cons] at hb
            exact iAnd r0 (by omega) hx
          · rename_i e2 r2 h2
            have := (sAnd _ _ _ h2).2
            simp only [List.length_cons] at hb
            exact iOrL _ r2 (by omega) h
        · cases h
    · intro ts hb h
      rw [pAnd.eq_def] at h; simp only at h
      split at h
      · rename_i x hx
        simp only [Except.error.injEq] at h; subst h
        exact iNeg ts (by omega) hx
      · rename_i e1 r1 h1
        have := (sNeg _ _ _ h1).2
        exact iAndL e1 r1 (by omega) h
    · intro e0 ts hb h
      rw [pAndLoop.eq_def] at h; simp only at h
      split at h
      · cases h
      · rename_i t r0
        split at h
        · split at h
          · rename_i x hx
            simp only [Except.error.injEq] at h; subst h
            simp only [List.length_cons] at hb
            exact iNeg r0 (by omega) hx
          · rename_i e2 r2 h2
            have := (sNeg _ _ _ h2).2
            simp only [List.length_cons] at hb
            exact iAndL _ r2 (by omega) h
        · cases h
    · intro ts hb h
      rw [pNeg.eq_def] at h; simp only at h
      split at h
      · exact iGrp _ (by omega) h
      · rename_i t r0
        simp only [List.length_cons] at hb
        split at h
        · split at h
          · rename_i x hx
            simp only [Except.error.injEq] at h; subst h
            exact iGrp r0 (by omega) hx
          · split at h <;> cases h
        · exact iGrp (t :: r0) (by simp only [List.length_cons]; omega) h
    · intro ts hb h
      rw [pGroup.eq_def] at h; simp only at h
      split at h
      · cases h
      · rename_i t r0
        simp only [List.length_cons] at hb
        split at h
        · split at h
          · rename_i x hx
            simp only [Except.error.injEq] at h; subst h
            exact iOr r0 (by omega) hx
          · split at h
            · cases h
            · split at h <;> cases h
        · split at h
          · split at h
            · rename_i x hx
              simp only [Except.error.injEq] at h; subst h
              exact iOr r0 (by omega) hx
            · split at h
              · cases h
              · split at h <;> cases h
          · split at h
            · split at h
              · rename_i x hx
                simp only [Except.error.injEq] at h; subst h
                exact iOr r0 (by omega) hx
              · rename_i e1 r1 h1
                have hl := (sOr _ _ _ h1).2
                split at h
                · cases h
                · rename_i c r2
                  simp only [List.length_cons] at hl
                  split at h
                  · cases h
                  · split at h
                    · exact iOr r2 (by omega) (afterColon_fuel _ _ _ h)
                    · cases h
            · split at h
              · rename_i x hx
                simp only [Except.error.injEq] at h; subst h
                unfold termOf at hx
                split at hx
                · cases hx
                · split at hx <;> cases hx
              · cases h

theorem parseToks_not_fuel (lg : Bool) (ts : List Token) : parseToks lg ts ≠ .error .fuel := by
  unfold parseToks
  split
  · rename_i x hx
    intro h
    simp only [Except.error.injEq] at h; subst h
    exact (fuelAll lg (fuelFor ts)).1 ts (by unfold fuelFor; omega) hx
  · split <;> simp

/-- a compiled token list has properly nested grouping symbols (repaired parser) -/
theorem parseToks_balanced (ts : List Token) (e : Expr) (h : parseToks false ts = .ok e) :
    Balanced (brs ts) := by
  unfold parseToks at h
  split at h
  · cases h
  · rename_i e1 r1 h1
    split at h
    · rename_i hr
      rw [List.isEmpty_iff] at hr; subst hr
      rcases ((segAll false _).1 _ _ _ h1).1 with ⟨c, hc, hn⟩
      rw [hc, List.append_nil]
      have := hn rfl [] []
      simpa [Balanced, scan] using this
    · cases h

/-! ### the tokenizer maps each grouping symbol of the text to one grouping token -/

theorem kindOf_br {text : Str} {b : Br} (h : brOfKind (kindOf text) = some b) :
    ∃ c, text = [c] ∧ brOfChar c = some b := by
  match text, h with
  | [], h => simp [kindOf, brOfKind] at h
  | [c], h =>
    refine ⟨c, rfl, ?_⟩
    simp only [kindOf, List.cons.injEq, and_true, and_false, if_false, List.ne_cons_self, reduceCtorEq] at h
    unfold brOfChar
    by_cases h1 : c = '(' ; · subst h1; simpa [brOfKind] using h
    by_cases h2 : c = ')' ; · subst h2; simpa [brOfKind] using h
    by_cases h3 : c = '[' ; · subst h3; simpa [brOfKind] using h
    by_cases h4 : c = ']' ; · subst h4; simpa [brOfKind] using h
    by_cases h5 : c = '{' ; · subst h5; simpa [brOfKind] using h
    by_cases h6 : c = '}' ; · subst h6; simpa [brOfKind] using h
    exfalso
    simp only [h1, h2, h3, h4, h5, h6, if_false] at h
    repeat' split at h
    all_goals simp [brOfKind] at h
  | c1 :: c2 :: rest, h =>
    exfalso
    simp [kindOf] at h
    repeat' split at h
    all_goals simp [brOfKind] at h

theorem wordChar_no_br {c : Char} (h : isWordChar c = true) : brOfChar c = none := by
  unfold brOfChar
  repeat' split
  all_goals first
    | rfl
    | (rename_i hc; subst hc; simp [isWordChar] at h)

/-- the pending run holds word characters or `?` only -/
def BufOK (buf : Str) : Prop := ∀ c ∈ buf, isWordChar c = true ∨ c = '?'

theorem bufOK_no_br {buf : Str} (h : BufOK buf) {x : Char} (hx : x ∈ buf) : brOfChar x = none := by
  rcases h x hx with h1 | h1
  · exact wordChar_no_br h1
  · subst h1; simp [brOfChar]

theorem flush_brs {buf : Str} (h : BufOK buf) : brs (flush buf) = [] := by
  unfold flush
  split
  · rfl
  · rename_i c cs
    cases hb : brOf (mkTok (c :: cs).reverse) with
    | none => simp only [brs, List.filterMap_cons, hb, List.filterMap_nil]
    | some b =>
      exfalso
      rcases kindOf_br (text := (c :: cs).reverse) (b := b) (by simpa [brOf, mkTok] using hb) with ⟨x, hx, hxb⟩
      have hmem : x ∈ (c :: cs) := by
        rw [← List.mem_reverse, hx]; simp
      rw [bufOK_no_br h hmem] at hxb
      cases hxb

theorem textBrs_cons (c : Char) (s : Str) :
    textBrs (c :: s) = (match brOfChar c with | some b => [b] | none => []) ++ textBrs s := by
  unfold textBrs
  rw [List.filterMap_cons]
  split <;> simp_all


theorem textBrs_plain {c : Char} (s : Str) (h : brOfChar c = none) : textBrs (c :: s) = textBrs s := by
  rw [textBrs_cons, h]; rfl

theorem bufOK_nil : BufOK [] := by intro c hc; cases hc

theorem tokGo_brs (cs : Str) : ∀ (skip : Bool) (buf : Str), BufOK buf →
    brs (tokGo false skip cs buf) = textBrs (if skip then cs.drop 1 else cs) := by
  induction cs with
  | nil =>
    intro skip buf hb
    have : tokGo false skip [] buf = flush buf := by rw [tokGo.eq_def]
    rw [this, flush_brs hb]; cases skip <;> rfl
  | cons c rest ih =>
    intro skip buf hb
    cases skip with
    | true =>
      have : tokGo false true (c :: rest) buf = tokGo false false rest buf := by rw [tokGo.eq_def]
      rw [this, ih false buf hb]; rfl
    | false =>
      simp only [Bool.false_eq_true, if_false]
      rw [tokGo.eq_def]; simp only
      by_cases hw : isWordChar c = true
      · simp only [hw, if_true]
        rw [textBrs_plain rest (wordChar_no_br hw)]
        split
        · rw [brs_append, flush_brs hb, ih false [c] (by intro x hx; simp at hx; subst hx; exact Or.inl hw)]
          rfl
        · rw [ih false (c :: buf) (by
            intro x hx
            rcases List.mem_cons.1 hx with rfl | hx
            · exact Or.inl hw
            · exact hb x hx)]
          rfl
      · simp only [hw, Bool.false_eq_true, if_false]
        by_cases hq : (c == '?') = true
        · have hc : c = '?' := by simpa using hq
          subst hc
          simp only [beq_self_eq_true, if_true]
          rw [textBrs_plain rest (by simp [brOfChar])]
          have hq1 : BufOK ['?'] := by intro x hx; simp at hx; exact Or.inr hx
          split
          · rw [ih false _ hq1]; rfl
          · rw [ih false _ (by
              intro x hx
              rcases List.mem_cons.1 hx with rfl | hx
              · exact Or.inr rfl
              · exact hb x hx)]
            rfl
          · rw [brs_append, flush_brs hb, ih false _ hq1]; rfl
        · simp only [hq, Bool.false_eq_true, if_false]
          rw [brs_append, flush_brs hb, List.nil_append]
          by_cases h1 : (c == '&' || c == '|') = true
          · simp only [h1, if_true]
            have hcn : brOfChar c = none := by
              simp only [Bool.or_eq_true, beq_iff_eq] at h1
              rcases h1 with rfl | rfl <;> simp [brOfChar]
            have hk : brOf (mkTok [c, c]) = none := by
              simp only [Bool.or_eq_true, beq_iff_eq] at h1
              rcases h1 with rfl | rfl <;> simp [brOf, mkTok, kindOf, brOfKind]
            rw [textBrs_plain rest hcn]
            split
            · rename_i hh
              have : brs (mkTok [c, c] :: tokGo false true rest []) = brs (tokGo false true rest []) := by
                simp [brs, hk]
              rw [this, ih true [] bufOK_nil]
              simp only [if_true]
              cases rest with
              | nil => simp at hh
              | cons d rest' =>
                have hh' : d = c := by simpa using hh
                subst hh'
                simp only [List.drop_succ_cons, List.drop_zero]
                rw [textBrs_plain rest' hcn]
            · rw [ih false [] bufOK_nil]; rfl
          · simp only [h1, Bool.false_eq_true, if_false]
            by_cases h2 : (c == '[' || c == ']') = true
            · simp only [h2, if_true, Bool.false_and, Bool.false_eq_true, if_false]
              have : brs (mkTok [c] :: tokGo false false rest []) = brs [mkTok [c]] ++ brs (tokGo false false rest []) := by
                rw [← brs_append]; rfl
              rw [this, ih false [] bufOK_nil, textBrs_cons]
              simp only [Bool.or_eq_true, beq_iff_eq] at h2
              rcases h2 with rfl | rfl <;> simp [brs, brOf, mkTok, kindOf, brOfKind, brOfChar]
            · simp only [h2, Bool.false_eq_true, if_false]
              by_cases h3 : (c == '{' || c == '}' || c == ':' || c == '(' || c == ')' || c == '~' || c == ',') = true
              · simp only [h3, if_true]
                have : brs (mkTok [c] :: tokGo false false rest []) = brs [mkTok [c]] ++ brs (tokGo false false rest []) := by
                  rw [← brs_append]; rfl
                rw [this, ih false [] bufOK_nil, textBrs_cons]
                simp only [Bool.or_eq_true, beq_iff_eq] at h3
                rcases h3 with (((((rfl | rfl) | rfl) | rfl) | rfl) | rfl) | rfl <;>
                  simp [brs, brOf, mkTok, kindOf, brOfKind, brOfChar]
              · simp only [h3, Bool.false_eq_true, if_false]
                rw [ih false [] bufOK_nil]
                simp only [Bool.false_eq_true, if_false]
                rw [textBrs_plain]
                simp only [Bool.or_eq_true, beq_iff_eq, not_or] at h2 h3
                simp [brOfChar, h2.1, h2.2, h3.1.1.1.2, h3.1.1.2, h3.1.1.1.1.1.1, h3.1.1.1.1.1.2]

theorem tokenize_brs (s : Str) : brs (tokenize s) = textBrs s := by
  unfold tokenize tokenizeWith
  rw [tokGo_brs s false [] bufOK_nil]; rfl


theorem fold_upper : ∀ n, n < 91 → 65 ≤ n → brOfChar (Char.ofNat (n + 32)) = none := by decide

theorem asciiFold_brs (s : Str) : textBrs (asciiFold s) = textBrs s := by
  unfold textBrs asciiFold
  rw [List.filterMap_map]
  congr 1
  funext c
  simp only [Function.comp]
  split
  · rename_i h
    simp only [Bool.and_eq_true, decide_eq_true_eq] at h
    rw [fold_upper c.toNat (by omega) h.1]
    unfold brOfChar
    repeat' split
    all_goals first
      | rfl
      | (rename_i hc; subst hc; exact absurd h (by decide))
  · rfl

instance (bs : List Br) : Decidable (Balanced bs) := by unfold Balanced; infer_instance

instance : DecidableEq (Except ParseErr Expr)
  | .ok a, .ok b => if h : a = b then isTrue (by rw [h]) else isFalse (by intro h'; cases h'; exact h rfl)
  | .error a, .error b => if h : a = b then isTrue (by rw [h]) else isFalse (by intro h'; cases h'; exact h rfl)
  | .ok _, .error _ => isFalse (by intro h; cases h)
  | .error _, .ok _ => isFalse (by intro h; cases h)

end HedVerif.Query

namespace HedVerif.C15
open HedVerif.Query

/-- **Bare term.** A bare term matches exactly when some tag has the word among its schema-path terms
(`tag.tag_terms`). -/
theorem term (w : Str) (t : Tree) :
    isMatch (.term w .terms false) t = true ↔ ∃ h ∈ allTags t, w ∈ h.info.terms := by
  rw [term_match]; simp [tagMatches]

/-- **Quoted term** (and a term with `/`): only the exact tag, compared casefolded. -/
theorem term_quoted (w : Str) (t : Tree) :
    isMatch (.term w .exact false) t = true ↔ ∃ h ∈ allTags t, h.info.fold = w := by
  rw [term_match]; simp [tagMatches]

/-- **Trailing star**: prefix of the casefolded short form. -/
theorem term_prefix (w : Str) (t : Tree) :
    isMatch (.term w .pref false) t = true ↔ ∃ h ∈ allTags t, w <+: h.info.fold := by
  rw [term_match]; simp [tagMatches]

/-- **`A || B` matches iff `A` matches or `B` matches** (the duplicate filter never empties the result). -/
theorem or_iff (A B : Expr) (t : Tree) :
    isMatch (.or A B) t = true ↔ isMatch A t = true ∨ isMatch B t = true := by
  simp only [isMatch, eval]
  rw [evalE, mergeOr_isEmpty]
  simp

/-- **`A && B` matches only if both do.** -/
theorem and_imp (A B : Expr) (t : Tree) (h : isMatch (.and A B) t = true) :
    isMatch A t = true ∧ isMatch B t = true := by
  rw [isMatch_iff, evalE_and, mergeAnd_ne_nil_iff] at h
  rcases h with ⟨a, ha, b, hb, _⟩
  exact ⟨(isMatch_iff _ _).2 (List.ne_nil_of_mem ha), (isMatch_iff _ _).2 (List.ne_nil_of_mem hb)⟩

/-- `A && B` matches iff some result of `A` and some result of `B` sit on the same group and share no
child (identity). -/
theorem and_iff (A B : Expr) (t : Tree) :
    isMatch (.and A B) t = true ↔
      ∃ a ∈ eval A t, ∃ b ∈ eval B t, a.group.id = b.group.id ∧ ∀ x ∈ a.tags, ∀ y ∈ b.tags, x.id ≠ y.id := by
  rw [isMatch_iff, evalE_and, mergeAnd_ne_nil_iff]
  simp only [compat_iff, eval]

/-- **`&&` is symmetric.** -/
theorem and_comm (A B : Expr) (t : Tree) :
    isMatch (.and A B) t = isMatch (.and B A) t := by
  rw [Bool.eq_iff_iff, isMatch_iff, isMatch_iff, evalE_and, evalE_and, mergeAnd_ne_nil_iff,
    mergeAnd_ne_nil_iff]
  constructor
  · rintro ⟨a, ha, b, hb, hc⟩; exact ⟨b, hb, a, ha, by rw [compat_symm]; exact hc⟩
  · rintro ⟨a, ha, b, hb, hc⟩; exact ⟨b, hb, a, ha, by rw [compat_symm]; exact hc⟩

/-- **Via distinct tags.** Every result of `A && B` is one result of `A` joined with one result of `B` on
the same group, the two sharing no child; its children are exactly the children of the two. -/
theorem and_distinct (A B : Expr) (t : Tree) (r : Result) (h : r ∈ eval (.and A B) t) :
    ∃ a ∈ eval A t, ∃ b ∈ eval B t,
      a.group.id = b.group.id ∧ (∀ x ∈ a.tags, ∀ y ∈ b.tags, x.id ≠ y.id) ∧
      r.group = a.group ∧ ∀ n, n ∈ r.tags ↔ (n ∈ a.tags ∨ n ∈ b.tags) := by
  unfold eval at h
  rw [evalE_and] at h
  rcases mem_mergeAnd _ _ r h with ⟨a, ha, b, hb, hc, rfl⟩
  rw [compat_iff] at hc
  refine ⟨a, ha, b, hb, hc.1, hc.2, rfl, fun n => ?_⟩
  rw [mem_mergeRes_tags]
  constructor
  · rintro (h1 | ⟨h1, _⟩)
    · exact Or.inl h1
    · exact Or.inr h1
  · rintro (h1 | h1)
    · exact Or.inl h1
    · refine Or.inr ⟨h1, ?_⟩
      cases hh : hasId a.tags n.id with
      | false => rfl
      | true =>
        rcases (hasId_iff _ _).1 hh with ⟨x, hx, hxn⟩
        exact absurd hxn (hc.2 x hx n h1)

/-- **`&&` is associative (at the level of "matches")** on annotations in which no two distinct groups are
equal.  (Without the hypothesis the duplicate filter of `merge_and_groups` may drop the only result that
sits on the second of two equal groups; the law itself is checked on the implementation for arbitrary
annotations by the oracle of `harness/props/c15.py`.) -/
theorem and_assoc_partial (A B C : Expr) (t : Tree) (hne : NoEqualGroups t) :
    isMatch (.and (.and A B) C) t = isMatch (.and A (.and B C)) t := by
  rw [Bool.eq_iff_iff, isMatch_iff, isMatch_iff]
  simp only [evalE_and]
  rw [mergeAnd_ne_nil_iff, mergeAnd_ne_nil_iff]
  have hA := evalE_good t A false
  have hB := evalE_good t B false
  rw [exists_compat_mergeAnd t hne _ _ _ hA]
  have hswap : (∃ a ∈ evalE t A false, ∃ s ∈ mergeAnd (evalE t B false) (evalE t C false), compat a s = true) ↔
      (∃ s ∈ mergeAnd (evalE t B false) (evalE t C false), ∃ a ∈ evalE t A false, compat s a = true) := by
    constructor
    · rintro ⟨a, ha, s, hs, h⟩; exact ⟨s, hs, a, ha, by rw [compat_symm]; exact h⟩
    · rintro ⟨s, hs, a, ha, h⟩; exact ⟨a, ha, s, hs, by rw [compat_symm]; exact h⟩
  rw [hswap, exists_compat_mergeAnd t hne _ _ _ hB]
  constructor
  · rintro ⟨a, ha, b, hb, c, hc, h⟩
    rcases (tri_left a b c).1 h with ⟨h1, h2, dab, dac, dbc⟩
    refine ⟨b, hb, c, hc, a, ha, (tri_left b c a).2 ⟨by omega, by omega, dbc, (disj_symm _ _).1 dab, (disj_symm _ _).1 dac⟩⟩
  · rintro ⟨b, hb, c, hc, a, ha, h⟩
    rcases (tri_left b c a).1 h with ⟨h1, h2, dbc, dba, dca⟩
    refine ⟨a, ha, b, hb, c, hc, (tri_left a b c).2 ⟨by omega, by omega, (disj_symm _ _).1 dba, (disj_symm _ _).1 dca, dbc⟩⟩

/-- **Searching never alters the annotation**: `eval` is a function of the query and the annotation (so
repeated searches agree) and every result only *refers* to a group of that same annotation, with that
group's real ancestors - nothing is rebuilt or modified. -/
theorem pure (q : Expr) (t : Tree) :
    ∀ r ∈ eval q t, (⟨r.group, r.anc⟩ : GroupHit) ∈ allGroups t :=
  evalE_good t q false

/-- **Every query text either compiles or is rejected with a parse error**: the parser has no other way
to fail (every partial step of the Python code - the token index, the look-ahead - is an explicit check in
the model; the model's own recursion bound is never reached).  Holds for the code before the repair too. -/
theorem parse_total (s : Str) (lg : Bool) :
    (∃ e, parseWith lg s = .ok e) ∨ (∃ err, parseWith lg s = .error err ∧ err ≠ .fuel) := by
  cases h : parseWith lg s with
  | ok e => exact Or.inl ⟨e, rfl⟩
  | error err =>
    refine Or.inr ⟨err, rfl, ?_⟩
    rintro rfl
    exact parseToks_not_fuel lg _ h

/-- **Unbalanced grouping symbols are always rejected** (repaired code): if the symbols `( ) [ ] { }` of
the text are not properly nested, the query does not compile. -/
theorem unbalanced_rejected (s : Str) (h : ¬ Balanced (textBrs s)) :
    ∃ err, parse s = .error err ∧ err ≠ .fuel := by
  cases hp : parse s with
  | error err =>
    refine ⟨err, rfl, ?_⟩
    rintro rfl
    exact parseToks_not_fuel false _ hp
  | ok e =>
    exfalso
    apply h
    have := parseToks_balanced _ e hp
    unfold tokenizeWith at this
    have h2 := tokGo_brs (asciiFold s) false [] bufOK_nil
    simp only [Bool.false_eq_true, if_false] at h2
    rw [h2, asciiFold_brs] at this
    exact this

/-- conversely every compiled query has properly nested grouping symbols -/
theorem compiled_balanced (s : Str) (e : Expr) (h : parse s = .ok e) : Balanced (textBrs s) := by
  apply Decidable.byContradiction
  intro hb
  rcases unbalanced_rejected s hb with ⟨err, he, _⟩
  rw [h] at he; cases he

/-- **The code before the repair violates the clause**: a lone `)`, `]` or `}` compiled (the term branch of
`_handle_grouping_op` wrapped any token into a search term), and so did the legacy token `]]`. -/
theorem legacy_unbalanced_counterexample :
    (parseWith true [')'] = .ok (.term [')'] .terms false) ∧ ¬ Balanced (textBrs [')'])) ∧
    (parseWith true [']'] = .ok (.term [']'] .terms false) ∧ ¬ Balanced (textBrs [']'])) ∧
    (parseWith true ['}'] = .ok (.term ['}'] .terms false) ∧ ¬ Balanced (textBrs ['}'])) ∧
    (parseWith true [']', ']'] = .ok (.term [']', ']'] .terms false) ∧ ¬ Balanced (textBrs [']', ']'])) := by
  decide

/-! regression: the old witnesses are rejected by the repaired parser; well-formed queries still compile -/
example : parse [')'] = .error .unexpected := by decide
example : parse [']'] = .error .unexpected := by decide
example : parse ['}'] = .error .unexpected := by decide
example : parse ['&', '&'] = .error .unexpected := by decide
example : parse [':'] = .error .unexpected := by decide
example : parse ['~', '~'] = .error .unexpected := by decide
example : parse ['[', '['] = .error .nextToken := by decide
example : parse [']', ']'] = .error .unexpected := by decide
example : parse ['a', ' ', ')'] = .error .trailing := by decide
example : parse ['(', 'a'] = .error .missingParen := by decide
example : parse [] = .error .nextToken := by decide
example : parse ['[', '[', 'a', ']', ']'] = .ok (.desc (.desc (.term ['a'] .terms false))) := by decide
example : parse ['R', 'e', 'd'] = .ok (.term ['r', 'e', 'd'] .terms false) := by decide
example : parse ['"', 'R', 'e', 'd', '"'] = .ok (.term ['r', 'e', 'd'] .exact false) := by decide
example : parse ['r', 'e', '*'] = .ok (.term ['r', 'e'] .pref false) := by decide
example : parse ['{', 'a', ':', '~', 'b', '}'] = .error .negInExact := by decide
example : parse ['~', '?'] = .error .negWildcard := by decide
example : parse ['{', 'a', ',', 'b', ':', '}'] =
    .ok (.exactNone (.and (.term ['a'] .terms false) (.term ['b'] .terms false))) := by decide
example : parse ['a', '|', '|', 'b', '&', '&', '~', 'c'] =
    .ok (.or (.term ['a'] .terms false) (.and (.term ['b'] .terms false) (.neg (.term ['c'] .terms false)))) := by
  decide

/-- `(A, B), C, D` with unique ids -/
def demoTree : Tree :=
  ⟨0, [.group 1 true [.tag ⟨2, ['A'], ['a'], ['a'], [['a']]⟩, .tag ⟨3, ['B'], ['b'], ['b'], [['b']]⟩],
       .tag ⟨4, ['C'], ['c'], ['c'], [['c']]⟩, .tag ⟨5, ['D'], ['d'], ['d'], [['d']]⟩]⟩

/-! non-vacuity: the hypothesis of `and_assoc_partial` holds on `demoTree`, and `(a && c) && ??` matches it
    (the three results sit on the top level: the group holding `A`, the tag `C`, the tag `D`);
    `(Red),(Red)` is an annotation on which it does not hold -/
example : NoEqualGroups demoTree := by unfold NoEqualGroups; decide
example : isMatch (.and (.and (.term ['a'] .terms false) (.term ['c'] .terms false)) (.wild .tags)) demoTree = true := by
  decide
example : isMatch (.and (.term ['a'] .terms false) (.term ['a'] .terms false)) demoTree = false := by decide
example : ¬ NoEqualGroups ⟨0, [.group 1 true [.tag ⟨2, ['R'], ['r'], ['r'], []⟩],
                               .group 3 true [.tag ⟨4, ['R'], ['r'], ['r'], []⟩]]⟩ := by
  unfold NoEqualGroups; decide

end HedVerif.C15
