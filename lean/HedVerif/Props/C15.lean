/-
C15 — Search queries obey their documented logic on every annotation.

Theorems about `Query.parse` / `Query.eval` / `Query.isMatch` (lean/HedVerif/Model/Query.lean: the model of
`QueryHandler`, `Expression*.handle_expr`, `SearchResult`).  Helper lemmas first, the property theorems in
`namespace HedVerif.C15` at the end.  All statements quantify over every expression and every annotation
tree (no well-formedness assumption on the ids unless stated).  The implicit flag `se` selects the code
before the repair `fixes/C15_same_tags_group_identity.diff` (`has_same_tags` compared the result groups by
equality): theorems stated with `isMatchWith se` hold for both versions, `isMatch = isMatchWith false` is
the repaired code; `legacy_*_counterexample` are the `decide`d failures of the old versions.
-/
import HedVerif.Model.Query

namespace HedVerif.Query

variable {se : Bool}

/-! ### trees: tags know a non-empty parent; result groups are groups of the tree -/

mutual
theorem tagsIn_parent (p : Node) (anc : List Node) (n : Node) (h : TagHit) :
    h ∈ tagsIn p anc n → h.parent = p ∨ h.parent.truthy = true := by
  cases n with
  | tag i => intro hm; simp [tagsIn] at hm; left; rw [hm]
  | group id g ks =>
    intro hm
    rw [tagsIn] at hm
    rcases tagsInL_parent (.group id g ks) (p :: anc) ks h hm with h1 | h1
    · right
      rw [h1]
      cases ks with
      | nil => simp [tagsInL] at hm
      | cons k ks' => simp [Node.truthy]
    · right; exact h1
theorem tagsInL_parent (p : Node) (anc : List Node) (ks : List Node) (h : TagHit) :
    h ∈ tagsInL p anc ks → h.parent = p ∨ h.parent.truthy = true := by
  cases ks with
  | nil => intro hm; simp [tagsInL] at hm
  | cons k ks' =>
    intro hm
    rw [tagsInL, List.mem_append] at hm
    rcases hm with hm | hm
    · exact tagsIn_parent p anc k h hm
    · exact tagsInL_parent p anc ks' h hm
end

theorem allTags_parent_truthy (t : Tree) (h : TagHit) (hm : h ∈ allTags t) : h.parent.truthy = true := by
  unfold allTags at hm
  rcases tagsInL_parent _ _ _ _ hm with h1 | h1
  · rw [h1]
    cases hk : t.kids with
    | nil => rw [hk] at hm; simp [tagsInL] at hm
    | cons k ks => simp [Tree.root, Node.truthy, hk]
  · exact h1

/-! ### `||` -/

theorem mergeOr_isEmpty (g1 g2 : List Result) :
    (mergeOr se g1 g2).isEmpty = (g1.isEmpty && g2.isEmpty) := by
  unfold mergeOr
  cases g2 with
  | nil =>
    have : List.filter (fun _ : Result => true) g1 = g1 := List.filter_eq_self.2 (by simp)
    simp [this]
  | cons b bs => simp

/-! ### `&&`: the double loop of `merge_and_groups` -/

/-- the two results may be merged: same group (identity), no shared child (identity) -/
def compat (a b : Result) : Bool :=
  a.group.id == b.group.id && !(a.tags.any (fun t => hasId b.tags t.id))

theorem hasId_iff (l : List Node) (i : Nat) : hasId l i = true ↔ ∃ n ∈ l, n.id = i := by
  simp [hasId]

theorem compat_iff (a b : Result) :
    compat a b = true ↔ a.group.id = b.group.id ∧ ∀ x ∈ a.tags, ∀ y ∈ b.tags, x.id ≠ y.id := by
  simp only [compat, Bool.and_eq_true, beq_iff_eq, Bool.not_eq_true', List.any_eq_false, hasId_iff]
  constructor
  · rintro ⟨h1, h2⟩
    refine ⟨h1, fun x hx y hy hxy => h2 x hx ⟨y, hy, hxy.symm⟩⟩
  · rintro ⟨h1, h2⟩
    refine ⟨h1, fun x hx => ?_⟩
    rintro ⟨y, hy, hxy⟩
    exact h2 x hx y hy hxy.symm

theorem compat_symm (a b : Result) : compat a b = compat b a := by
  rw [Bool.eq_iff_iff, compat_iff, compat_iff]
  constructor
  · rintro ⟨h1, h2⟩; exact ⟨h1.symm, fun x hx y hy h => h2 y hy x hx h.symm⟩
  · rintro ⟨h1, h2⟩; exact ⟨h1.symm, fun x hx y hy h => h2 y hy x hx h.symm⟩

theorem mergeStep_eq (a : Result) (acc : List Result) (b : Result) :
    mergeStep se a acc b =
      if compat a b then
        (if acc.any (fun f => sameTags se (mergeRes a b) f) then acc else acc ++ [mergeRes a b])
      else acc := by
  unfold mergeStep compat
  by_cases h1 : (a.group.id == b.group.id) = true
  · by_cases h2 : (a.tags.any fun t => hasId b.tags t.id) = true
    · simp [h1, h2]
    · simp [h1, h2]
  · simp [h1]

/-- the inner loop only appends -/
theorem inner_mono (a : Result) (g2 acc : List Result) (r : Result) (h : r ∈ acc) :
    r ∈ g2.foldl (mergeStep se a) acc := by
  induction g2 generalizing acc with
  | nil => simpa using h
  | cons b bs ih =>
    rw [List.foldl_cons]
    apply ih
    rw [mergeStep_eq]
    split
    · split
      · exact h
      · exact List.mem_append_left _ h
    · exact h

theorem inner_mem (a : Result) (g2 acc : List Result) (r : Result)
    (h : r ∈ g2.foldl (mergeStep se a) acc) :
    r ∈ acc ∨ ∃ b ∈ g2, compat a b = true ∧ r = mergeRes a b := by
  induction g2 generalizing acc with
  | nil => left; simpa using h
  | cons b bs ih =>
    rw [List.foldl_cons] at h
    rcases ih _ h with h1 | ⟨b', hb', hc, hr⟩
    · rw [mergeStep_eq] at h1
      split at h1
      · rename_i hc
        split at h1
        · left; exact h1
        · rcases List.mem_append.1 h1 with h2 | h2
          · left; exact h2
          · right; exact ⟨b, List.mem_cons_self, hc, by simpa using h2⟩
      · left; exact h1
    · right; exact ⟨b', List.mem_cons_of_mem _ hb', hc, hr⟩

/-- a mergeable pair leaves its merge, or an earlier result with the same tags, in the list -/
theorem inner_complete (a : Result) (g2 acc : List Result) (b : Result) (hb : b ∈ g2)
    (hc : compat a b = true) :
    ∃ r ∈ g2.foldl (mergeStep se a) acc, r = mergeRes a b ∨ sameTags se (mergeRes a b) r = true := by
  induction g2 generalizing acc with
  | nil => cases hb
  | cons b0 bs ih =>
    rw [List.foldl_cons]
    rcases List.mem_cons.1 hb with rfl | hb'
    · -- the step for b itself
      have key : ∃ r ∈ mergeStep se a acc b, r = mergeRes a b ∨ sameTags se (mergeRes a b) r = true := by
        rw [mergeStep_eq, if_pos hc]
        split
        · rename_i hany
          rcases List.any_eq_true.1 hany with ⟨f, hf, hs⟩
          exact ⟨f, hf, Or.inr hs⟩
        · exact ⟨mergeRes a b, by simp, Or.inl rfl⟩
      rcases key with ⟨r, hr, hrr⟩
      exact ⟨r, inner_mono a bs _ r hr, hrr⟩
    · exact ih _ hb'

theorem mergeAnd_mono_aux (g1 g2 acc : List Result) (r : Result) (h : r ∈ acc) :
    r ∈ g1.foldl (fun acc a => g2.foldl (mergeStep se a) acc) acc := by
  induction g1 generalizing acc with
  | nil => simpa using h
  | cons a as ih => rw [List.foldl_cons]; exact ih _ (inner_mono a g2 acc r h)

theorem mergeAnd_mem_aux (g1 g2 acc : List Result) (r : Result)
    (h : r ∈ g1.foldl (fun acc a => g2.foldl (mergeStep se a) acc) acc) :
    r ∈ acc ∨ ∃ a ∈ g1, ∃ b ∈ g2, compat a b = true ∧ r = mergeRes a b := by
  induction g1 generalizing acc with
  | nil => left; simpa using h
  | cons a as ih =>
    rw [List.foldl_cons] at h
    rcases ih _ h with h1 | ⟨a', ha', b, hb, hc, hr⟩
    · rcases inner_mem a g2 acc r h1 with h2 | ⟨b, hb, hc, hr⟩
      · left; exact h2
      · right; exact ⟨a, List.mem_cons_self, b, hb, hc, hr⟩
    · right; exact ⟨a', List.mem_cons_of_mem _ ha', b, hb, hc, hr⟩

/-- every result of `merge_and_groups` is the merge of a mergeable pair -/
theorem mem_mergeAnd (g1 g2 : List Result) (r : Result) (h : r ∈ mergeAnd se g1 g2) :
    ∃ a ∈ g1, ∃ b ∈ g2, compat a b = true ∧ r = mergeRes a b := by
  rcases mergeAnd_mem_aux g1 g2 [] r h with h1 | h1
  · cases h1
  · exact h1

theorem mergeAnd_complete_aux (g1 g2 acc : List Result) (a b : Result) (ha : a ∈ g1) (hb : b ∈ g2)
    (hc : compat a b = true) :
    ∃ r ∈ g1.foldl (fun acc a => g2.foldl (mergeStep se a) acc) acc,
      r = mergeRes a b ∨ sameTags se (mergeRes a b) r = true := by
  induction g1 generalizing acc with
  | nil => cases ha
  | cons a0 as ih =>
    rw [List.foldl_cons]
    rcases List.mem_cons.1 ha with rfl | ha'
    · rcases inner_complete a g2 acc b hb hc with ⟨r, hr, hrr⟩
      exact ⟨r, mergeAnd_mono_aux as g2 _ r hr, hrr⟩
    · exact ih _ ha'

/-- every mergeable pair is represented in the result of `merge_and_groups` -/
theorem mergeAnd_complete (g1 g2 : List Result) (a b : Result) (ha : a ∈ g1) (hb : b ∈ g2)
    (hc : compat a b = true) :
    ∃ r ∈ mergeAnd se g1 g2, r = mergeRes a b ∨ sameTags se (mergeRes a b) r = true :=
  mergeAnd_complete_aux g1 g2 [] a b ha hb hc

theorem mergeAnd_ne_nil_iff (g1 g2 : List Result) :
    mergeAnd se g1 g2 ≠ [] ↔ ∃ a ∈ g1, ∃ b ∈ g2, compat a b = true := by
  constructor
  · intro h
    rcases List.exists_mem_of_ne_nil _ h with ⟨r, hr⟩
    rcases mem_mergeAnd g1 g2 r hr with ⟨a, ha, b, hb, hc, _⟩
    exact ⟨a, ha, b, hb, hc⟩
  · rintro ⟨a, ha, b, hb, hc⟩
    rcases mergeAnd_complete g1 g2 a b ha hb hc with ⟨r, hr, _⟩
    exact List.ne_nil_of_mem hr

/-- results of `A && B` in terms of the results of `A` and of `B` (the early exit changes nothing) -/
theorem evalE_and (t : Tree) (l r : Expr) (ex : Bool) :
    evalE se t (.and l r) ex = mergeAnd se (evalE se t l ex) (evalE se t r ex) := by
  rw [evalE]
  by_cases h : (evalE se t l ex).isEmpty = true
  · simp only [h, if_true]
    rw [List.isEmpty_iff] at h
    rw [h]; simp [mergeAnd]
  · simp only [h]; rfl

/-! ### sorting keeps the members -/

theorem mem_insertByStr (x n : Node) (l : List Node) : n ∈ insertByStr x l ↔ n = x ∨ n ∈ l := by
  induction l with
  | nil => simp [insertByStr]
  | cons y ys ih =>
    rw [insertByStr]
    split
    · simp [ih]; grind
    · simp

theorem mem_sortByStr (n : Node) (l : List Node) : n ∈ sortByStr l ↔ n ∈ l := by
  induction l with
  | nil => simp [sortByStr]
  | cons x xs ih => rw [sortByStr, mem_insertByStr, ih]; simp

theorem mem_mergeRes_tags (a b : Result) (n : Node) :
    n ∈ (mergeRes a b).tags ↔ n ∈ a.tags ∨ (n ∈ b.tags ∧ hasId a.tags n.id = false) := by
  simp [mergeRes, mem_sortByStr]

/-- a term (not `@`) matches iff some tag of the annotation satisfies the mode's predicate -/
theorem term_match (w : Str) (m : Mode) (t : Tree) :
    isMatchWith se (.term w m false) t = true ↔ ∃ h ∈ allTags t, tagMatches w m h.info = true := by
  have hchain : ∀ h ∈ allTags t, chain (.tag h.info) (h.parent :: h.anc) ≠ [] := by
    intro h hh
    simp [chain, allTags_parent_truthy t h hh]
  unfold isMatchWith evalWith
  rw [evalE]
  unfold termResults
  simp only [Bool.false_eq_true, ↓reduceIte]
  simp [List.flatMap_eq_nil_iff]
  constructor
  · rintro ⟨x, h1, h2, _⟩; exact ⟨x, h1, h2⟩
  · rintro ⟨x, h1, h2⟩; exact ⟨x, h1, h2, hchain x h1⟩

theorem isMatch_iff (q : Expr) (t : Tree) : isMatchWith se q t = true ↔ evalE se t q false ≠ [] := by
  simp [isMatchWith, evalWith]

/-! ### results point into the annotation -/

mutual
theorem groupsIn_closed (anc : List Node) (n : Node) (gh : GroupHit) :
    gh ∈ groupsIn anc n →
      gh.anc = anc ∨ ∃ p rest, gh.anc = p :: rest ∧ (⟨p, rest⟩ : GroupHit) ∈ groupsIn anc n := by
  cases n with
  | tag i => intro hm; simp [groupsIn] at hm
  | group id g ks =>
    intro hm
    rw [groupsIn, List.mem_cons] at hm
    rcases hm with rfl | hm
    · left; rfl
    · right
      rcases groupsInL_closed (.group id g ks :: anc) ks gh hm with h1 | ⟨p, rest, h1, h2⟩
      · exact ⟨.group id g ks, anc, h1, by rw [groupsIn]; exact List.mem_cons_self⟩
      · exact ⟨p, rest, h1, by rw [groupsIn]; exact List.mem_cons_of_mem _ h2⟩
theorem groupsInL_closed (anc : List Node) (ks : List Node) (gh : GroupHit) :
    gh ∈ groupsInL anc ks →
      gh.anc = anc ∨ ∃ p rest, gh.anc = p :: rest ∧ (⟨p, rest⟩ : GroupHit) ∈ groupsInL anc ks := by
  cases ks with
  | nil => intro hm; simp [groupsInL] at hm
  | cons k ks' =>
    intro hm
    rw [groupsInL, List.mem_append] at hm
    rcases hm with hm | hm
    · rcases groupsIn_closed anc k gh hm with h1 | ⟨p, rest, h1, h2⟩
      · left; exact h1
      · right; exact ⟨p, rest, h1, by rw [groupsInL]; exact List.mem_append_left _ h2⟩
    · rcases groupsInL_closed anc ks' gh hm with h1 | ⟨p, rest, h1, h2⟩
      · left; exact h1
      · right; exact ⟨p, rest, h1, by rw [groupsInL]; exact List.mem_append_right _ h2⟩
end

/-- the parent of a group of the annotation is a group of the annotation (with its own ancestors) -/
theorem allGroups_closed (t : Tree) (g p : Node) (rest : List Node)
    (h : (⟨g, p :: rest⟩ : GroupHit) ∈ allGroups t) : (⟨p, rest⟩ : GroupHit) ∈ allGroups t := by
  unfold allGroups at h ⊢
  rcases List.mem_cons.1 h with h1 | h1
  · cases h1
  · rcases groupsInL_closed _ _ _ h1 with h2 | ⟨p', rest', h2, h3⟩
    · simp only [List.cons.injEq] at h2
      rw [h2.1, h2.2]; exact List.mem_cons_self
    · simp only [List.cons.injEq] at h2
      rw [h2.1, h2.2]; exact List.mem_cons_of_mem _ h3

mutual
theorem tagsIn_group (p : Node) (anc : List Node) (n : Node) (h : TagHit) :
    h ∈ tagsIn p anc n →
      (h.parent = p ∧ h.anc = anc) ∨ (⟨h.parent, h.anc⟩ : GroupHit) ∈ groupsIn (p :: anc) n := by
  cases n with
  | tag i => intro hm; simp [tagsIn] at hm; left; rw [hm]; exact ⟨rfl, rfl⟩
  | group id g ks =>
    intro hm
    rw [tagsIn] at hm
    right
    rw [groupsIn]
    rcases tagsInL_group (.group id g ks) (p :: anc) ks h hm with ⟨h1, h2⟩ | h1
    · rw [h1, h2]; exact List.mem_cons_self
    · exact List.mem_cons_of_mem _ h1
theorem tagsInL_group (p : Node) (anc : List Node) (ks : List Node) (h : TagHit) :
    h ∈ tagsInL p anc ks →
      (h.parent = p ∧ h.anc = anc) ∨ (⟨h.parent, h.anc⟩ : GroupHit) ∈ groupsInL (p :: anc) ks := by
  cases ks with
  | nil => intro hm; simp [tagsInL] at hm
  | cons k ks' =>
    intro hm
    rw [tagsInL, List.mem_append] at hm
    rw [groupsInL]
    rcases hm with hm | hm
    · rcases tagsIn_group p anc k h hm with h1 | h1
      · left; exact h1
      · right; exact List.mem_append_left _ h1
    · rcases tagsInL_group p anc ks' h hm with h1 | h1
      · left; exact h1
      · right; exact List.mem_append_right _ h1
end

/-- the result's group is a group of the annotation and `anc` are that group's real ancestors -/
def Good (t : Tree) (r : Result) : Prop := (⟨r.group, r.anc⟩ : GroupHit) ∈ allGroups t

theorem allTags_good (t : Tree) (h : TagHit) (hm : h ∈ allTags t) :
    (⟨h.parent, h.anc⟩ : GroupHit) ∈ allGroups t := by
  unfold allTags at hm
  unfold allGroups
  rcases tagsInL_group _ _ _ _ hm with ⟨h1, h2⟩ | h1
  · rw [h1, h2]; exact List.mem_cons_self
  · exact List.mem_cons_of_mem _ h1

theorem chain_good (t : Tree) (anc : List Node) (child g : Node)
    (hg : (⟨g, anc⟩ : GroupHit) ∈ allGroups t) : ∀ r ∈ chain child (g :: anc), Good t r := by
  induction anc generalizing child g with
  | nil =>
    intro r hr
    rw [chain] at hr
    split at hr
    · simp [chain] at hr; rw [hr]; exact hg
    · cases hr
  | cons p rest ih =>
    intro r hr
    rw [chain] at hr
    split at hr
    · rcases List.mem_cons.1 hr with rfl | hr'
      · exact hg
      · exact ih g p (allGroups_closed t g p rest hg) r hr'
    · cases hr

theorem chain0_good (t : Tree) (gh : GroupHit) (hg : gh ∈ allGroups t) :
    ∀ r ∈ chain0 gh.group gh.anc, Good t r := by
  intro r hr
  unfold chain0 at hr
  split at hr
  · rcases List.mem_cons.1 hr with rfl | hr'
    · exact hg
    · cases hanc : gh.anc with
      | nil => rw [hanc] at hr'; simp [chain] at hr'
      | cons p rest =>
        rw [hanc] at hr'
        have : (⟨gh.group, p :: rest⟩ : GroupHit) ∈ allGroups t := by rw [← hanc]; exact hg
        exact chain_good t rest gh.group p (allGroups_closed t _ p rest this) r hr'
  · cases hr

theorem parents_good (t : Tree) (rs : List Result) (h : ∀ r ∈ rs, Good t r) :
    ∀ r ∈ parents rs, Good t r := by
  intro r hr
  unfold parents at hr
  rcases List.mem_filterMap.1 hr with ⟨r0, hr0, hf⟩
  split at hf
  · cases hf
  · split at hf
    · cases hf
    · rename_i p rest hanc
      split at hf
      · simp only [Option.some.injEq] at hf
        rw [← hf]
        have h0 := h r0 hr0
        unfold Good at h0 ⊢
        rw [hanc] at h0
        exact allGroups_closed t _ p rest h0
      · cases hf

theorem mergeAnd_good (t : Tree) (g1 g2 : List Result) (h : ∀ r ∈ g1, Good t r) :
    ∀ r ∈ mergeAnd se g1 g2, Good t r := by
  intro r hr
  rcases mem_mergeAnd g1 g2 r hr with ⟨a, ha, b, _, _, rfl⟩
  exact h a ha

theorem filterExact_good (t : Tree) (rs : List Result) (h : ∀ r ∈ rs, Good t r) :
    ∀ r ∈ filterExact rs, Good t r := by
  intro r hr
  exact h r (List.mem_filter.1 hr).1

/-- **every result of every expression refers to a group of the (unchanged) annotation** -/
theorem evalE_good (t : Tree) (q : Expr) : ∀ ex, ∀ r ∈ evalE se t q ex, Good t r := by
  induction q with
  | term text mode nil =>
    intro ex r hr
    rw [evalE] at hr
    unfold termResults at hr
    simp only at hr
    split at hr
    · split at hr
      · cases hr
      · split at hr
        · rcases List.mem_map.1 hr with ⟨g, hg, rfl⟩; exact hg
        · rcases List.mem_flatMap.1 hr with ⟨g, hg, hr'⟩; exact chain0_good t g hg r hr'
    · split at hr
      · rcases List.mem_map.1 hr with ⟨h, hh, rfl⟩
        exact allTags_good t h (List.mem_filter.1 hh).1
      · rcases List.mem_flatMap.1 hr with ⟨h, hh, hr'⟩
        exact chain_good t h.anc _ h.parent (allTags_good t h (List.mem_filter.1 hh).1) r hr'
  | wild w =>
    intro ex r hr
    rw [evalE] at hr
    unfold wildResults at hr
    rcases List.mem_flatMap.1 hr with ⟨g, hg, hr'⟩
    rcases List.mem_map.1 hr' with ⟨k, _, rfl⟩
    exact hg
  | and l r ihl ihr =>
    intro ex x hx
    rw [evalE_and] at hx
    exact mergeAnd_good t _ _ (ihl ex) x hx
  | or l r ihl ihr =>
    intro ex x hx
    rw [evalE] at hx
    unfold mergeOr at hx
    rcases List.mem_append.1 hx with h1 | h1
    · exact ihl ex x (List.mem_filter.1 h1).1
    · exact ihr ex x h1
  | neg r ih =>
    intro ex x hx
    rw [evalE] at hx
    unfold negResults at hx
    rcases List.mem_map.1 hx with ⟨g, hg, rfl⟩
    exact (List.mem_filter.1 hg).1
  | desc r ih =>
    intro ex x hx
    rw [evalE] at hx
    exact parents_good t _ (ih false) x hx
  | exactAny r ih =>
    intro ex x hx
    rw [evalE] at hx
    exact parents_good t _ (ih true) x hx
  | exactNone r ih =>
    intro ex x hx
    rw [evalE] at hx
    split at hx
    · exact parents_good t _ (filterExact_good t _ (ih true)) x hx
    · cases hx
  | exactOpt r l ihr ihl =>
    intro ex x hx
    rw [evalE] at hx
    split at hx
    · exact parents_good t _ (filterExact_good t _ (ihr true)) x hx
    · simp only at hx
      split at hx
      · exact parents_good t _ (filterExact_good t _ (mergeAnd_good t _ _ (ihr true))) x hx
      · cases hx

/-! ### associativity of `&&` at the level of "matches" -/

/-- No two *distinct* groups of the annotation are equal in the sense of `HedGroup.__eq__`.
(`has_same_tags` compares the groups with `!=`, i.e. by equality, so two results with no children on two
equal groups, e.g. the `~a` results on `(Red),(Red)`, count as duplicates of each other.) -/
def NoEqualGroups (t : Tree) : Prop :=
  ∀ g ∈ allGroups t, ∀ h ∈ allGroups t, Node.eqv g.group h.group = true → g.group.id = h.group.id

theorem compat_congr (m r c : Result) (hg : m.group.id = r.group.id)
    (ht : m.tags.map Node.id = r.tags.map Node.id) : compat m c = compat r c := by
  have key : ∀ l : List Node, l.any (fun t => hasId c.tags t.id) = (l.map Node.id).any (hasId c.tags) := by
    intro l; simp [List.any_map, Function.comp_def]
  unfold compat
  rw [hg, key, key, ht]

theorem sameTags_tagIds (m r : Result) (h : sameTags se m r = true) :
    m.tags.map Node.id = r.tags.map Node.id := by
  simp only [sameTags, Bool.and_eq_true, beq_iff_eq] at h
  exact h.2

/-- two results that `has_same_tags` identifies sit on the same group (identity): immediate for the repaired
code; for the code before the repair it needs `NoEqualGroups` and that both results lie in the annotation -/
theorem sameTags_gid (t : Tree) (hne : se = true → NoEqualGroups t) (m r : Result) (hm : Good t m)
    (hr : Good t r) (h : sameTags se m r = true) : m.group.id = r.group.id := by
  simp only [sameTags, Bool.and_eq_true, beq_iff_eq] at h
  cases se with
  | false => simpa using h.1.1
  | true => exact hne rfl _ hm _ hr (by simpa using h.1.1)

theorem exists_compat_mergeAnd (t : Tree) (hne : se = true → NoEqualGroups t) (g1 g2 g3 : List Result)
    (h1 : ∀ r ∈ g1, Good t r) :
    (∃ r ∈ mergeAnd se g1 g2, ∃ c ∈ g3, compat r c = true) ↔
      ∃ a ∈ g1, ∃ b ∈ g2, ∃ c ∈ g3, compat a b = true ∧ compat (mergeRes a b) c = true := by
  constructor
  · rintro ⟨r, hr, c, hc, hrc⟩
    rcases mem_mergeAnd g1 g2 r hr with ⟨a, ha, b, hb, hab, rfl⟩
    exact ⟨a, ha, b, hb, c, hc, hab, hrc⟩
  · rintro ⟨a, ha, b, hb, c, hc, hab, hmc⟩
    rcases mergeAnd_complete (se := se) g1 g2 a b ha hb hab with ⟨r, hr, rfl | hs⟩
    · exact ⟨_, hr, c, hc, hmc⟩
    · refine ⟨r, hr, c, hc, ?_⟩
      have hi := sameTags_tagIds _ _ hs
      have hgm : Good t (mergeRes a b) := h1 a ha
      have hgr : Good t r := mergeAnd_good t g1 g2 h1 r hr
      have hid := sameTags_gid t hne _ _ hgm hgr hs
      rw [← compat_congr (mergeRes a b) r c hid hi]; exact hmc

def disj (a b : Result) : Prop := ∀ x ∈ a.tags, ∀ y ∈ b.tags, x.id ≠ y.id

theorem disj_symm (a b : Result) : disj a b ↔ disj b a :=
  ⟨fun h x hx y hy e => h y hy x hx e.symm, fun h x hx y hy e => h y hy x hx e.symm⟩

theorem tri_left (a b c : Result) :
    (compat a b = true ∧ compat (mergeRes a b) c = true) ↔
      (a.group.id = b.group.id ∧ a.group.id = c.group.id ∧ disj a b ∧ disj a c ∧ disj b c) := by
  rw [compat_iff, compat_iff]
  have hgrp : (mergeRes a b).group = a.group := rfl
  rw [hgrp]
  constructor
  · rintro ⟨⟨h1, dab⟩, h2, dm⟩
    refine ⟨h1, h2, dab, fun x hx y hy => dm x ((mem_mergeRes_tags a b x).2 (Or.inl hx)) y hy,
      fun x hx y hy => dm x ((mem_mergeRes_tags a b x).2 (Or.inr ⟨hx, ?_⟩)) y hy⟩
    cases hh : hasId a.tags x.id with
    | false => rfl
    | true =>
      rcases (hasId_iff _ _).1 hh with ⟨n, hn, hnx⟩
      exact absurd hnx (dab n hn x hx)
  · rintro ⟨h1, h2, dab, dac, dbc⟩
    refine ⟨⟨h1, dab⟩, h2, fun x hx y hy => ?_⟩
    rcases (mem_mergeRes_tags a b x).1 hx with h | ⟨h, _⟩
    · exact dac x h y hy
    · exact dbc x h y hy

/-! ### grouping symbols: balance, and the segments the recursive descent consumes -/

/-- the three kinds of grouping symbols -/
inductive BK where
  | paren | sq | curly
deriving DecidableEq, Repr

/-- an opening or a closing grouping symbol -/
inductive Br where
  | op (k : BK)
  | cl (k : BK)
deriving DecidableEq, Repr

/-- read grouping symbols with a stack of the open ones; `none` = a closing symbol without its partner -/
def scan : List BK → List Br → Option (List BK)
  | st, [] => some st
  | st, .op k :: r => scan (k :: st) r
  | [], .cl _ :: _ => none
  | k' :: st, .cl k :: r => if k = k' then scan st r else none

/-- properly nested -/
def Balanced (bs : List Br) : Prop := scan [] bs = some []

def brOfChar (c : Char) : Option Br :=
  if c = '(' then some (.op .paren) else if c = ')' then some (.cl .paren)
  else if c = '[' then some (.op .sq) else if c = ']' then some (.cl .sq)
  else if c = '{' then some (.op .curly) else if c = '}' then some (.cl .curly)
  else none

/-- the grouping symbols `( ) [ ] { }` of a query text, in order -/
def textBrs (s : Str) : List Br := s.filterMap brOfChar

def brOfKind : Kind → Option Br
  | .parenOpen => some (.op .paren) | .parenClose => some (.cl .paren)
  | .descOpen => some (.op .sq) | .descClose => some (.cl .sq)
  | .exactOpen => some (.op .curly) | .exactClose => some (.cl .curly)
  | _ => none

def brOf (t : Token) : Option Br := brOfKind t.kind
def brs (ts : List Token) : List Br := ts.filterMap brOf

/-- a stretch of grouping symbols that leaves every stack as it found it -/
def Neutral (bs : List Br) : Prop := ∀ st rest, scan st (bs ++ rest) = scan st rest

theorem neutral_nil : Neutral [] := fun _ _ => rfl

theorem neutral_append {a b : List Br} (ha : Neutral a) (hb : Neutral b) : Neutral (a ++ b) := by
  intro st rest; rw [List.append_assoc, ha, hb]

theorem neutral_wrap {bs : List Br} (k : BK) (h : Neutral bs) : Neutral (.op k :: (bs ++ [.cl k])) := by
  intro st rest
  rw [List.cons_append, List.append_assoc]
  simp only [scan]
  rw [h]
  simp [scan]

theorem brs_append (a b : List Token) : brs (a ++ b) = brs a ++ brs b := by
  simp [brs, List.filterMap_append]

/-- `ts = c ++ r` where the consumed stretch `c` is neutral (claimed for the repaired parser only) -/
def SegL (lg : Bool) (ts r : List Token) : Prop :=
  ∃ c, ts = c ++ r ∧ (lg = false → Neutral (brs c))

/-- the same with at least one token consumed -/
def Seg (lg : Bool) (ts r : List Token) : Prop := SegL lg ts r ∧ r.length < ts.length

theorem SegL.refl (lg : Bool) (ts : List Token) : SegL lg ts ts := ⟨[], rfl, fun _ => neutral_nil⟩

theorem SegL.len {lg : Bool} {ts r : List Token} (h : SegL lg ts r) : r.length ≤ ts.length := by
  rcases h with ⟨c, rfl, _⟩; simp

theorem SegL.trans {lg : Bool} {a b c : List Token} (h1 : SegL lg a b) (h2 : SegL lg b c) : SegL lg a c := by
  rcases h1 with ⟨c1, rfl, n1⟩
  rcases h2 with ⟨c2, rfl, n2⟩
  exact ⟨c1 ++ c2, by simp, fun h => by rw [brs_append]; exact neutral_append (n1 h) (n2 h)⟩

theorem Seg.transL {lg : Bool} {a b c : List Token} (h1 : Seg lg a b) (h2 : SegL lg b c) : Seg lg a c :=
  ⟨h1.1.trans h2, Nat.lt_of_le_of_lt h2.len h1.2⟩

theorem Seg.plain {lg : Bool} {r r' : List Token} (t : Token) (ht : lg = false → brOf t = none)
    (h : SegL lg r r') : Seg lg (t :: r) r' := by
  rcases h with ⟨c, rfl, n⟩
  refine ⟨⟨t :: c, rfl, fun hl => ?_⟩, by simp; omega⟩
  have : brs (t :: c) = brs c := by simp [brs, ht hl]
  rw [this]; exact n hl

theorem Seg.wrap {lg : Bool} {r r2 : List Token} (t c : Token) (k : BK) (ht : brOf t = some (.op k))
    (hc : brOf c = some (.cl k)) (h : SegL lg r (c :: r2)) : Seg lg (t :: r) r2 := by
  rcases h with ⟨c1, rfl, n⟩
  refine ⟨⟨t :: (c1 ++ [c]), by simp, fun hl => ?_⟩, by simp; omega⟩
  have : brs (t :: (c1 ++ [c])) = .op k :: (brs c1 ++ [.cl k]) := by
    simp [brs, List.filterMap_append, ht, hc]
  rw [this]; exact neutral_wrap k (n hl)

theorem takeClose_some {ts r : List Token} (h : takeClose ts = some r) :
    ∃ d, ts = d :: r ∧ d.kind = .exactClose := by
  unfold takeClose at h
  split at h
  · cases h
  · rename_i d r0
    split at h
    · simp only [Option.some.injEq] at h; subst h; exact ⟨d, rfl, ‹_›⟩
    · cases h

theorem closeOf_ok {ex e : Expr} {o : Option (List Token)} {r : List Token}
    (h : closeOf ex o = .ok (e, r)) : o = some r := by
  unfold closeOf at h
  split at h
  · cases h
  · split at h
    · cases h
    · simp only [Except.ok.injEq, Prod.mk.injEq] at h; rw [h.2]

theorem closeOf_not_fuel (ex : Expr) (o : Option (List Token)) : closeOf ex o ≠ .error .fuel := by
  unfold closeOf
  split
  · simp
  · split <;> simp

theorem afterColon_seg {lg : Bool} (sub : List Token → PRes)
    (hsub : ∀ ts e r, sub ts = .ok (e, r) → SegL lg ts r) (e0 : Expr) (rest : List Token) (e : Expr)
    (r : List Token) (h : afterColon sub e0 rest = .ok (e, r)) :
    ∃ d, d.kind = .exactClose ∧ SegL lg rest (d :: r) := by
  unfold afterColon at h
  split at h
  · rename_i r3 htc
    have := closeOf_ok h
    simp only [Option.some.injEq] at this
    subst this
    rcases takeClose_some htc with ⟨d, rfl, hd⟩
    exact ⟨d, hd, SegL.refl _ _⟩
  · split at h
    · cases h
    · rename_i l r3 hs
      have hc := closeOf_ok h
      rcases takeClose_some hc with ⟨d, rfl, hd⟩
      exact ⟨d, hd, hsub _ _ _ hs⟩

theorem afterColon_fuel (sub : List Token → PRes) (e0 : Expr) (rest : List Token)
    (h : afterColon sub e0 rest = .error .fuel) : sub rest = .error .fuel := by
  unfold afterColon at h
  split at h
  · exact absurd h (closeOf_not_fuel _ _)
  · split at h
    · rename_i x hx; simp only [Except.error.injEq] at h; rw [hx, h]
    · exact absurd h (closeOf_not_fuel _ _)

theorem termOf_plain {t : Token} {e : Expr} (h : termOf false t = .ok e) : brOf t = none := by
  unfold termOf at h
  split at h
  · rename_i hk; simp [brOf, hk, brOfKind]
  · split at h
    · rename_i hk
      simp only [Bool.or_false, decide_eq_true_eq] at hk
      simp [brOf, hk, brOfKind]
    · cases h

/-- what each parsing function consumes -/
def SegAll (lg : Bool) (f : Nat) : Prop :=
  (∀ ts e r, pOr lg f ts = .ok (e, r) → Seg lg ts r) ∧
  (∀ e0 ts e r, pOrLoop lg f e0 ts = .ok (e, r) → SegL lg ts r) ∧
  (∀ ts e r, pAnd lg f ts = .ok (e, r) → Seg lg ts r) ∧
  (∀ e0 ts e r, pAndLoop lg f e0 ts = .ok (e, r) → SegL lg ts r) ∧
  (∀ ts e r, pNeg lg f ts = .ok (e, r) → Seg lg ts r) ∧
  (∀ ts e r, pGroup lg f ts = .ok (e, r) → Seg lg ts r)

theorem segAll (lg : Bool) : ∀ f, SegAll lg f := by
  intro f
  induction f with
  | zero =>
    refine ⟨?_, ?_, ?_, ?_, ?_, ?_⟩
    · intro ts e r h; rw [pOr.eq_def] at h; cases h
    · intro e0 ts e r h; rw [pOrLoop.eq_def] at h; cases h
    · intro ts e r h; rw [pAnd.eq_def] at h; cases h
    · intro e0 ts e r h; rw [pAndLoop.eq_def] at h; cases h
    · intro ts e r h; rw [pNeg.eq_def] at h; cases h
    · intro ts e r h; rw [pGroup.eq_def] at h; cases h
  | succ f ih =>
    rcases ih with ⟨iOr, iOrL, iAnd, iAndL, iNeg, iGrp⟩
    refine ⟨?_, ?_, ?_, ?_, ?_, ?_⟩
    · -- pOr
      intro ts e r h
      rw [pOr.eq_def] at h; simp only at h
      split at h
      · cases h
      · rename_i e1 r1 h1
        exact (iAnd _ _ _ h1).transL (iOrL _ _ _ _ h)
    · -- pOrLoop
      intro e0 ts e r h
      rw [pOrLoop.eq_def] at h; simp only at h
      split at h
      · simp only [Except.ok.injEq, Prod.mk.injEq] at h; rw [← h.2]; exact SegL.refl _ _
      · rename_i t r0
        split at h
        · rename_i hk
          split at h
          · cases h
          · rename_i e2 r2 h2
            exact (Seg.plain t (fun _ => by simp [brOf, hk, brOfKind])
              ((iAnd _ _ _ h2).1.trans (iOrL _ _ _ _ h))).1
        · simp only [Except.ok.injEq, Prod.mk.injEq] at h; rw [← h.2]; exact SegL.refl _ _
    · -- pAnd
      intro ts e r h
      rw [pAnd.eq_def] at h; simp only at h
      split at h
      · cases h
      · rename_i e1 r1 h1
        exact (iNeg _ _ _ h1).transL (iAndL _ _ _ _ h)
    · -- pAndLoop
      intro e0 ts e r h
      rw [pAndLoop.eq_def] at h; simp only at h
      split at h
      · simp only [Except.ok.injEq, Prod.mk.injEq] at h; rw [← h.2]; exact SegL.refl _ _
      · rename_i t r0
        split at h
        · rename_i hk
          split at h
          · cases h
          · rename_i e2 r2 h2
            exact (Seg.plain t (fun _ => by simp [brOf, hk, brOfKind])
              ((iNeg _ _ _ h2).1.trans (iAndL _ _ _ _ h))).1
        · simp only [Except.ok.injEq, Prod.mk.injEq] at h; rw [← h.2]; exact SegL.refl _ _
    · -- pNeg
      intro ts e r h
      rw [pNeg.eq_def] at h; simp only at h
      split at h
      · exact iGrp _ _ _ h
      · rename_i t r0
        split at h
        · rename_i hk
          split at h
          · cases h
          · rename_i e2 r2 h2
            split at h
            · cases h
            · simp only [Except.ok.injEq, Prod.mk.injEq] at h; rw [← h.2]
              exact Seg.plain t (fun _ => by simp [brOf, hk, brOfKind]) (iGrp _ _ _ h2).1
        · exact iGrp _ _ _ h
    · -- pGroup
      intro ts e r h
      rw [pGroup.eq_def] at h; simp only at h
      split at h
      · cases h
      · rename_i t r0
        split at h
        · -- ( ... )
          rename_i hk
          split at h
          · cases h
          · rename_i e1 r1 h1
            split at h
            · cases h
            · rename_i c r2
              split at h
              · rename_i hc
                simp only [Except.ok.injEq, Prod.mk.injEq] at h; rw [← h.2]
                exact Seg.wrap t c .paren (by simp [brOf, hk, brOfKind]) (by simp [brOf, hc, brOfKind])
                  (iOr _ _ _ h1).1
              · cases h
        · split at h
          · -- [ ... ]
            rename_i hk
            split at h
            · cases h
            · rename_i e1 r1 h1
              split at h
              · cases h
              · rename_i c r2
                split at h
                · rename_i hc
                  simp only [Except.ok.injEq, Prod.mk.injEq] at h; rw [← h.2]
                  exact Seg.wrap t c .sq (by simp [brOf, hk, brOfKind]) (by simp [brOf, hc, brOfKind])
                    (iOr _ _ _ h1).1
                · cases h
          · split at h
            · -- { ... }
              rename_i hk
              split at h
              · cases h
              · rename_i e1 r1 h1
                split at h
                · cases h
                · rename_i c r2
                  split at h
                  · rename_i hc
                    simp only [Except.ok.injEq, Prod.mk.injEq] at h; rw [← h.2]
                    exact Seg.wrap t c .curly (by simp [brOf, hk, brOfKind]) (by simp [brOf, hc, brOfKind])
                      (iOr _ _ _ h1).1
                  · split at h
                    · rename_i hc
                      rcases afterColon_seg (pOr lg f) (fun ts e r hh => (iOr ts e r hh).1) _ _ _ _ h with
                        ⟨d, hd, hseg⟩
                      exact Seg.wrap t d .curly (by simp [brOf, hk, brOfKind]) (by simp [brOf, hd, brOfKind])
                        ((iOr _ _ _ h1).1.trans (Seg.plain c (fun _ => by simp [brOf, hc, brOfKind]) hseg).1)
                    · cases h
            · -- a term
              split at h
              · cases h
              · rename_i e1 h1
                simp only [Except.ok.injEq, Prod.mk.injEq] at h; rw [← h.2]
                refine Seg.plain t (fun hl => ?_) (SegL.refl _ _)
                subst hl
                exact termOf_plain h1

/-- the fuel given by `parseToks` is never used up -/
def FuelAll (lg : Bool) (f : Nat) : Prop :=
  (∀ ts, 6 * ts.length + 4 ≤ f → pOr lg f ts ≠ .error .fuel) ∧
  (∀ e0 ts, 6 * ts.length + 1 ≤ f → pOrLoop lg f e0 ts ≠ .error .fuel) ∧
  (∀ ts, 6 * ts.length + 3 ≤ f → pAnd lg f ts ≠ .error .fuel) ∧
  (∀ e0 ts, 6 * ts.length + 1 ≤ f → pAndLoop lg f e0 ts ≠ .error .fuel) ∧
  (∀ ts, 6 * ts.length + 2 ≤ f → pNeg lg f ts ≠ .error .fuel) ∧
  (∀ ts, 6 * ts.length + 1 ≤ f → pGroup lg f ts ≠ .error .fuel)

theorem fuelAll (lg : Bool) : ∀ f, FuelAll lg f := by
  intro f
  induction f with
  | zero =>
    refine ⟨?_, ?_, ?_, ?_, ?_, ?_⟩ <;> intros <;> omega
  | succ f ih =>
    rcases ih with ⟨iOr, iOrL, iAnd, iAndL, iNeg, iGrp⟩
    rcases segAll lg f with ⟨sOr, sOrL, sAnd, sAndL, sNeg, sGrp⟩
    refine ⟨?_, ?_, ?_, ?_, ?_, ?_⟩
    · intro ts hb h
      rw [pOr.eq_def] at h; simp only at h
      split at h
      · rename_i x hx
        simp only [Except.error.injEq] at h; subst h
        exact iAnd ts (by omega) hx
      · rename_i e1 r1 h1
        have := (sAnd _ _ _ h1).2
        exact iOrL e1 r1 (by omega) h
    · intro e0 ts hb h
      rw [pOrLoop.eq_def] at h; simp only at h
      split at h
      · cases h
      · rename_i t r0
        split at h
        · split at h
          · rename_i x hx
            simp only [Except.error.injEq] at h; subst h
            simp only [List.length_cons] at hb
            exact iAnd r0 (by omega) hx
          · rename_i e2 r2 h2
            have := (sAnd _ _ _ h2).2
            simp only [List.length_cons] at hb
            exact iOrL _ r2 (by omega) h
        · cases h
    · intro ts hb h
      rw [pAnd.eq_def] at h; simp only at h
      split at h
      · rename_i x hx
        simp only [Except.error.injEq] at h; subst h
        exact iNeg ts (by omega) hx
      · rename_i e1 r1 h1
        have := (sNeg _ _ _ h1).2
        exact iAndL e1 r1 (by omega) h
    · intro e0 ts hb h
      rw [pAndLoop.eq_def] at h; simp only at h
      split at h
      · cases h
      · rename_i t r0
        split at h
        · split at h
          · rename_i x hx
            simp only [Except.error.injEq] at h; subst h
            simp only [List.length_cons] at hb
            exact iNeg r0 (by omega) hx
          · rename_i e2 r2 h2
            have := (sNeg _ _ _ h2).2
            simp only [List.length_cons] at hb
            exact iAndL _ r2 (by omega) h
        · cases h
    · intro ts hb h
      rw [pNeg.eq_def] at h; simp only at h
      split at h
      · exact iGrp _ (by omega) h
      · rename_i t r0
        simp only [List.length_cons] at hb
        split at h
        · split at h
          · rename_i x hx
            simp only [Except.error.injEq] at h; subst h
            exact iGrp r0 (by omega) hx
          · split at h <;> cases h
        · exact iGrp (t :: r0) (by simp only [List.length_cons]; omega) h
    · intro ts hb h
      rw [pGroup.eq_def] at h; simp only at h
      split at h
      · cases h
      · rename_i t r0
        simp only [List.length_cons] at hb
        split at h
        · split at h
          · rename_i x hx
            simp only [Except.error.injEq] at h; subst h
            exact iOr r0 (by omega) hx
          · split at h
            · cases h
            · split at h <;> cases h
        · split at h
          · split at h
            · rename_i x hx
              simp only [Except.error.injEq] at h; subst h
              exact iOr r0 (by omega) hx
            · split at h
              · cases h
              · split at h <;> cases h
          · split at h
            · split at h
              · rename_i x hx
                simp only [Except.error.injEq] at h; subst h
                exact iOr r0 (by omega) hx
              · rename_i e1 r1 h1
                have hl := (sOr _ _ _ h1).2
                split at h
                · cases h
                · rename_i c r2
                  simp only [List.length_cons] at hl
                  split at h
                  · cases h
                  · split at h
                    · exact iOr r2 (by omega) (afterColon_fuel _ _ _ h)
                    · cases h
            · split at h
              · rename_i x hx
                simp only [Except.error.injEq] at h; subst h
                unfold termOf at hx
                split at hx
                · cases hx
                · split at hx <;> cases hx
              · cases h

theorem parseToks_not_fuel (lg : Bool) (ts : List Token) : parseToks lg ts ≠ .error .fuel := by
  unfold parseToks
  split
  · rename_i x hx
    intro h
    simp only [Except.error.injEq] at h; subst h
    exact (fuelAll lg (fuelFor ts)).1 ts (by unfold fuelFor; omega) hx
  · split <;> simp

/-- a compiled token list has properly nested grouping symbols (repaired parser) -/
theorem parseToks_balanced (ts : List Token) (e : Expr) (h : parseToks false ts = .ok e) :
    Balanced (brs ts) := by
  unfold parseToks at h
  split at h
  · cases h
  · rename_i e1 r1 h1
    split at h
    · rename_i hr
      rw [List.isEmpty_iff] at hr; subst hr
      rcases ((segAll false _).1 _ _ _ h1).1 with ⟨c, hc, hn⟩
      rw [hc, List.append_nil]
      have := hn rfl [] []
      simpa [Balanced, scan] using this
    · cases h

/-! ### the tokenizer maps each grouping symbol of the text to one grouping token -/

theorem kindOf_br {text : Str} {b : Br} (h : brOfKind (kindOf text) = some b) :
    ∃ c, text = [c] ∧ brOfChar c = some b := by
  match text, h with
  | [], h => simp [kindOf, brOfKind] at h
  | [c], h =>
    refine ⟨c, rfl, ?_⟩
    simp only [kindOf, List.cons.injEq, and_true, and_false, if_false, List.ne_cons_self, reduceCtorEq] at h
    unfold brOfChar
    by_cases h1 : c = '(' ; · subst h1; simpa [brOfKind] using h
    by_cases h2 : c = ')' ; · subst h2; simpa [brOfKind] using h
    by_cases h3 : c = '[' ; · subst h3; simpa [brOfKind] using h
    by_cases h4 : c = ']' ; · subst h4; simpa [brOfKind] using h
    by_cases h5 : c = '{' ; · subst h5; simpa [brOfKind] using h
    by_cases h6 : c = '}' ; · subst h6; simpa [brOfKind] using h
    exfalso
    simp only [h1, h2, h3, h4, h5, h6, if_false] at h
    repeat' split at h
    all_goals simp [brOfKind] at h
  | c1 :: c2 :: rest, h =>
    exfalso
    simp [kindOf] at h
    repeat' split at h
    all_goals simp [brOfKind] at h

theorem wordChar_no_br {c : Char} (h : isWordChar c = true) : brOfChar c = none := by
  unfold brOfChar
  repeat' split
  all_goals first
    | rfl
    | (rename_i hc; subst hc; simp [isWordChar] at h)

/-- the pending run holds word characters or `?` only -/
def BufOK (buf : Str) : Prop := ∀ c ∈ buf, isWordChar c = true ∨ c = '?'

theorem bufOK_no_br {buf : Str} (h : BufOK buf) {x : Char} (hx : x ∈ buf) : brOfChar x = none := by
  rcases h x hx with h1 | h1
  · exact wordChar_no_br h1
  · subst h1; simp [brOfChar]

theorem flush_brs {buf : Str} (h : BufOK buf) : brs (flush buf) = [] := by
  unfold flush
  split
  · rfl
  · rename_i c cs
    cases hb : brOf (mkTok (c :: cs).reverse) with
    | none => simp only [brs, List.filterMap_cons, hb, List.filterMap_nil]
    | some b =>
      exfalso
      rcases kindOf_br (text := (c :: cs).reverse) (b := b) (by simpa [brOf, mkTok] using hb) with ⟨x, hx, hxb⟩
      have hmem : x ∈ (c :: cs) := by
        rw [← List.mem_reverse, hx]; simp
      rw [bufOK_no_br h hmem] at hxb
      cases hxb

theorem textBrs_cons (c : Char) (s : Str) :
    textBrs (c :: s) = (match brOfChar c with | some b => [b] | none => []) ++ textBrs s := by
  unfold textBrs
  rw [List.filterMap_cons]
  split <;> simp_all


theorem textBrs_plain {c : Char} (s : Str) (h : brOfChar c = none) : textBrs (c :: s) = textBrs s := by
  rw [textBrs_cons, h]; rfl

theorem bufOK_nil : BufOK [] := by intro c hc; cases hc

theorem tokGo_brs (cs : Str) : ∀ (skip : Bool) (buf : Str), BufOK buf →
    brs (tokGo false skip cs buf) = textBrs (if skip then cs.drop 1 else cs) := by
  induction cs with
  | nil =>
    intro skip buf hb
    have : tokGo false skip [] buf = flush buf := by rw [tokGo.eq_def]
    rw [this, flush_brs hb]; cases skip <;> rfl
  | cons c rest ih =>
    intro skip buf hb
    cases skip with
    | true =>
      have : tokGo false true (c :: rest) buf = tokGo false false rest buf := by rw [tokGo.eq_def]
      rw [this, ih false buf hb]; rfl
    | false =>
      simp only [Bool.false_eq_true, if_false]
      rw [tokGo.eq_def]; simp only
      by_cases hw : isWordChar c = true
      · simp only [hw, if_true]
        rw [textBrs_plain rest (wordChar_no_br hw)]
        split
        · rw [brs_append, flush_brs hb, ih false [c] (by intro x hx; simp at hx; subst hx; exact Or.inl hw)]
          rfl
        · rw [ih false (c :: buf) (by
            intro x hx
            rcases List.mem_cons.1 hx with rfl | hx
            · exact Or.inl hw
            · exact hb x hx)]
          rfl
      · simp only [hw, Bool.false_eq_true, if_false]
        by_cases hq : (c == '?') = true
        · have hc : c = '?' := by simpa using hq
          subst hc
          simp only [beq_self_eq_true, if_true]
          rw [textBrs_plain rest (by simp [brOfChar])]
          have hq1 : BufOK ['?'] := by intro x hx; simp at hx; exact Or.inr hx
          split
          · rw [ih false _ hq1]; rfl
          · rw [ih false _ (by
              intro x hx
              rcases List.mem_cons.1 hx with rfl | hx
              · exact Or.inr rfl
              · exact hb x hx)]
            rfl
          · rw [brs_append, flush_brs hb, ih false _ hq1]; rfl
        · simp only [hq, Bool.false_eq_true, if_false]
          rw [brs_append, flush_brs hb, List.nil_append]
          by_cases h1 : (c == '&' || c == '|') = true
          · simp only [h1, if_true]
            have hcn : brOfChar c = none := by
              simp only [Bool.or_eq_true, beq_iff_eq] at h1
              rcases h1 with rfl | rfl <;> simp [brOfChar]
            have hk : brOf (mkTok [c, c]) = none := by
              simp only [Bool.or_eq_true, beq_iff_eq] at h1
              rcases h1 with rfl | rfl <;> simp [brOf, mkTok, kindOf, brOfKind]
            rw [textBrs_plain rest hcn]
            split
            · rename_i hh
              have : brs (mkTok [c, c] :: tokGo false true rest []) = brs (tokGo false true rest []) := by
                simp [brs, hk]
              rw [this, ih true [] bufOK_nil]
              simp only [if_true]
              cases rest with
              | nil => simp at hh
              | cons d rest' =>
                have hh' : d = c := by simpa using hh
                subst hh'
                simp only [List.drop_succ_cons, List.drop_zero]
                rw [textBrs_plain rest' hcn]
            · rw [ih false [] bufOK_nil]; rfl
          · simp only [h1, Bool.false_eq_true, if_false]
            by_cases h2 : (c == '[' || c == ']') = true
            · simp only [h2, if_true, Bool.false_and, Bool.false_eq_true, if_false]
              have : brs (mkTok [c] :: tokGo false false rest []) = brs [mkTok [c]] ++ brs (tokGo false false rest []) := by
                rw [← brs_append]; rfl
              rw [this, ih false [] bufOK_nil, textBrs_cons]
              simp only [Bool.or_eq_true, beq_iff_eq] at h2
              rcases h2 with rfl | rfl <;> simp [brs, brOf, mkTok, kindOf, brOfKind, brOfChar]
            · simp only [h2, Bool.false_eq_true, if_false]
              by_cases h3 : (c == '{' || c == '}' || c == ':' || c == '(' || c == ')' || c == '~' || c == ',') = true
              · simp only [h3, if_true]
                have : brs (mkTok [c] :: tokGo false false rest []) = brs [mkTok [c]] ++ brs (tokGo false false rest []) := by
                  rw [← brs_append]; rfl
                rw [this, ih false [] bufOK_nil, textBrs_cons]
                simp only [Bool.or_eq_true, beq_iff_eq] at h3
                rcases h3 with (((((rfl | rfl) | rfl) | rfl) | rfl) | rfl) | rfl <;>
                  simp [brs, brOf, mkTok, kindOf, brOfKind, brOfChar]
              · simp only [h3, Bool.false_eq_true, if_false]
                rw [ih false [] bufOK_nil]
                simp only [Bool.false_eq_true, if_false]
                rw [textBrs_plain]
                simp only [Bool.or_eq_true, beq_iff_eq, not_or] at h2 h3
                simp [brOfChar, h2.1, h2.2, h3.1.1.1.2, h3.1.1.2, h3.1.1.1.1.1.1, h3.1.1.1.1.1.2]

theorem tokenize_brs (s : Str) : brs (tokenize s) = textBrs s := by
  unfold tokenize tokenizeWith
  rw [tokGo_brs s false [] bufOK_nil]; rfl


theorem fold_upper : ∀ n, n < 91 → 65 ≤ n → brOfChar (Char.ofNat (n + 32)) = none := by decide

theorem asciiFold_brs (s : Str) : textBrs (asciiFold s) = textBrs s := by
  unfold textBrs asciiFold
  rw [List.filterMap_map]
  congr 1
  funext c
  simp only [Function.comp]
  split
  · rename_i h
    simp only [Bool.and_eq_true, decide_eq_true_eq] at h
    rw [fold_upper c.toNat (by omega) h.1]
    unfold brOfChar
    repeat' split
    all_goals first
      | rfl
      | (rename_i hc; subst hc; exact absurd h (by decide))
  · rfl

instance (bs : List Br) : Decidable (Balanced bs) := by unfold Balanced; infer_instance

instance : DecidableEq (Except ParseErr Expr)
  | .ok a, .ok b => if h : a = b then isTrue (by rw [h]) else isFalse (by intro h'; cases h'; exact h rfl)
  | .error a, .error b => if h : a = b then isTrue (by rw [h]) else isFalse (by intro h'; cases h'; exact h rfl)
  | .ok _, .error _ => isFalse (by intro h; cases h)
  | .error _, .ok _ => isFalse (by intro h; cases h)

/-! ### negation, lifting through `[ ]` / `{ }`, wildcards -/

mutual
theorem groupsIn_anc (anc : List Node) (n : Node) (gh : GroupHit) :
    gh ∈ groupsIn anc n → gh.anc = anc ∨ ∃ p rest, gh.anc = p :: rest ∧ p.truthy = true := by
  cases n with
  | tag i => intro hm; simp [groupsIn] at hm
  | group id g ks =>
    intro hm
    rw [groupsIn, List.mem_cons] at hm
    rcases hm with rfl | hm
    · left; rfl
    · right
      rcases groupsInL_anc (.group id g ks :: anc) ks gh hm with h1 | h1
      · refine ⟨.group id g ks, anc, h1, ?_⟩
        cases ks with
        | nil => simp [groupsInL] at hm
        | cons k ks' => simp [Node.truthy]
      · exact h1
theorem groupsInL_anc (anc : List Node) (ks : List Node) (gh : GroupHit) :
    gh ∈ groupsInL anc ks → gh.anc = anc ∨ ∃ p rest, gh.anc = p :: rest ∧ p.truthy = true := by
  cases ks with
  | nil => intro hm; simp [groupsInL] at hm
  | cons k ks' =>
    intro hm
    rw [groupsInL, List.mem_append] at hm
    rcases hm with hm | hm
    · exact groupsIn_anc anc k gh hm
    · exact groupsInL_anc anc ks' gh hm
end

/-- a group of the annotation other than the string itself has a non-empty (truthy) parent -/
theorem allGroups_parent_truthy (t : Tree) (gh : GroupHit) (h : gh ∈ allGroups t) (p : Node)
    (rest : List Node) (ha : gh.anc = p :: rest) : p.truthy = true := by
  unfold allGroups at h
  rcases List.mem_cons.1 h with rfl | h1
  · cases ha
  · rcases groupsInL_anc _ _ _ h1 with h2 | ⟨p', rest', h2, h3⟩
    · rw [h2] at ha
      simp only [List.cons.injEq] at ha
      rw [← ha.1]
      cases hk : t.kids with
      | nil => rw [hk] at h1; simp [groupsInL] at h1
      | cons k ks => simp [Tree.root, Node.truthy, hk]
    · rw [h2] at ha
      simp only [List.cons.injEq] at ha
      rw [← ha.1]; exact h3

/-- the result can be lifted by `_get_parent_groups`: its group is parenthesised and has a parent -/
def Liftable (r : Result) : Prop := r.group.isGroupFlag = true ∧ r.anc ≠ []

theorem parents_ne_nil_iff (t : Tree) (rs : List Result) (hg : ∀ r ∈ rs, Good t r) :
    parents rs ≠ [] ↔ ∃ r ∈ rs, Liftable r := by
  constructor
  · intro h
    rcases List.exists_mem_of_ne_nil _ h with ⟨x, hx⟩
    unfold parents at hx
    rcases List.mem_filterMap.1 hx with ⟨r, hr, hf⟩
    refine ⟨r, hr, ?_⟩
    split at hf
    · cases hf
    · rename_i hflag
      split at hf
      · cases hf
      · rename_i p rest hanc
        exact ⟨by simpa using hflag, by rw [hanc]; simp⟩
  · rintro ⟨r, hr, hflag, hanc⟩
    cases ha : r.anc with
    | nil => exact absurd ha hanc
    | cons p rest =>
      have htr := allGroups_parent_truthy t ⟨r.group, r.anc⟩ (hg r hr) p rest ha
      apply List.ne_nil_of_mem (a := (⟨p, rest, [r.group]⟩ : Result))
      unfold parents
      apply List.mem_filterMap.2
      refine ⟨r, hr, ?_⟩
      simp [hflag, ha, htr]

theorem negResults_ne_nil_iff (t : Tree) (found : List Result) :
    negResults t found ≠ [] ↔ ∃ g ∈ allGroups t, ∀ r ∈ found, r.group.id ≠ g.group.id := by
  constructor
  · intro h
    rcases List.exists_mem_of_ne_nil _ h with ⟨x, hx⟩
    unfold negResults at hx
    rcases List.mem_map.1 hx with ⟨g, hg, _⟩
    rcases List.mem_filter.1 hg with ⟨hg1, hg2⟩
    refine ⟨g, hg1, fun r hr heq => ?_⟩
    simp only [Bool.not_eq_true', List.any_eq_false, beq_iff_eq] at hg2
    exact hg2 r hr heq
  · rintro ⟨g, hg, h⟩
    apply List.ne_nil_of_mem (a := (⟨g.group, g.anc, []⟩ : Result))
    unfold negResults
    refine List.mem_map.2 ⟨g, List.mem_filter.2 ⟨hg, ?_⟩, rfl⟩
    simp only [Bool.not_eq_true', List.any_eq_false, beq_iff_eq]
    exact h

/-- the kind of child a wildcard accepts -/
def wildOk : Wild → Node → Bool
  | .any, _ => true
  | .tags, .tag _ => true
  | .tags, .group _ _ _ => false
  | .groups, .tag _ => false
  | .groups, .group _ _ _ => true

theorem wildResults_eq (t : Tree) (w : Wild) :
    wildResults t w = (allGroups t).flatMap (fun g =>
      (g.group.kids.filter (wildOk w)).map (fun k => (⟨g.group, g.anc, [k]⟩ : Result))) := by
  unfold wildResults
  congr 1

theorem wildResults_ne_nil_iff (t : Tree) (w : Wild) :
    wildResults t w ≠ [] ↔ ∃ g ∈ allGroups t, ∃ k ∈ g.group.kids, wildOk w k = true := by
  rw [wildResults_eq]
  constructor
  · intro h
    rcases List.exists_mem_of_ne_nil _ h with ⟨x, hx⟩
    rcases List.mem_flatMap.1 hx with ⟨g, hg, hx'⟩
    rcases List.mem_map.1 hx' with ⟨k, hk, _⟩
    rcases List.mem_filter.1 hk with ⟨hk1, hk2⟩
    exact ⟨g, hg, k, hk1, hk2⟩
  · rintro ⟨g, hg, k, hk, h⟩
    apply List.ne_nil_of_mem (a := (⟨g.group, g.anc, [k]⟩ : Result))
    exact List.mem_flatMap.2 ⟨g, hg, List.mem_map.2 ⟨k, List.mem_filter.2 ⟨hk, h⟩, rfl⟩⟩

/-! ### the batch interface -/

theorem mem_setOps (objs : List Tree) (queries : List Expr) (i j : Nat) :
    (i, j) ∈ setOps se objs queries ↔
      ∃ o q, objs[i]? = some o ∧ queries[j]? = some q ∧ o.truthy = true ∧ isMatchWith se q o = true := by
  unfold setOps
  simp only [List.mem_flatMap, List.mem_range, List.mem_filterMap]
  constructor
  · rintro ⟨j', hj', i', hi', h⟩
    split at h
    · rename_i o q ho hq
      split at h
      · rename_i hc
        simp only [Option.some.injEq, Prod.mk.injEq] at h
        rcases h with ⟨rfl, rfl⟩
        simp only [Bool.and_eq_true] at hc
        exact ⟨o, q, ho, hq, hc.1, hc.2⟩
      · cases h
    · cases h
  · rintro ⟨o, q, ho, hq, h1, h2⟩
    have hj : j < queries.length := by
      rcases List.getElem?_eq_some_iff.1 hq with ⟨h, _⟩; exact h
    have hi : i < objs.length := by
      rcases List.getElem?_eq_some_iff.1 ho with ⟨h, _⟩; exact h
    refine ⟨j, hj, i, hi, ?_⟩
    simp [ho, hq, h1, h2]

/-! ### sibling order -/

def Node.isTag : Node → Bool
  | .tag _ => true
  | .group _ _ _ => false

/-- what the evaluator reads of a node apart from its children: identity, kind, `is_group`, number of children -/
def ι (n : Node) : Nat × Bool × Bool × Nat := (n.id, n.isTag, n.isGroupFlag, n.kids.length)

/-- what a wildcard reads of a child -/
def κ (n : Node) : Nat × Bool := (n.id, n.isTag)

mutual
/-- `n'` is `n` with the children of any of its groups, at any depth, reordered -/
def Shuf : Node → Node → Prop
  | .tag i, n' => n' = .tag i
  | .group id g ks, n' => ∃ ks', n' = .group id g ks' ∧ ShufL ks ks'
/-- `l'` is a permutation of the list obtained from `l` by reordering inside each member -/
def ShufL : List Node → List Node → Prop
  | [], l' => l' = []
  | k :: ks, l' => ∃ k' ks', Shuf k k' ∧ ShufL ks ks' ∧ (k' :: ks').Perm l'
end

/-- the annotation `t'` is `t` with siblings reordered (top level and every group, any depth) -/
def ShufT (t t' : Tree) : Prop := t'.id = t.id ∧ ShufL t.kids t'.kids

mutual
theorem shuf_ικ : ∀ (n n' : Node), Shuf n n' → ι n = ι n' ∧ κ n = κ n'
  | .tag i, n', h => by rw [Shuf] at h; subst h; exact ⟨rfl, rfl⟩
  | .group id g ks, n', h => by
    rw [Shuf] at h
    rcases h with ⟨ks', rfl, hl⟩
    have := (shufL_len ks ks' hl).1
    simp [ι, κ, Node.id, Node.isTag, Node.isGroupFlag, Node.kids, this]
theorem shufL_len : ∀ (l l' : List Node), ShufL l l' → l.length = l'.length ∧ (l.map κ).Perm (l'.map κ)
  | [], l', h => by rw [ShufL] at h; subst h; exact ⟨rfl, List.Perm.refl _⟩
  | k :: ks, l', h => by
    rw [ShufL] at h
    rcases h with ⟨k', ks', h1, h2, hp⟩
    have i1 := shuf_ικ k k' h1
    have i2 := shufL_len ks ks' h2
    refine ⟨by rw [← hp.length_eq]; simp [i2.1], ?_⟩
    refine List.Perm.trans ?_ (hp.map κ)
    simp only [List.map_cons, i1.2]
    exact List.Perm.cons _ i2.2
end


/-- one direction of "the same results up to `R`" -/
def Sub {α : Type} (R : α → α → Prop) (l l' : List α) : Prop := ∀ x ∈ l, ∃ y ∈ l', R x y

theorem Sub.append {α : Type} {R : α → α → Prop} {a a' b b' : List α} (h1 : Sub R a a') (h2 : Sub R b b') :
    Sub R (a ++ b) (a' ++ b') := by
  intro x hx
  rcases List.mem_append.1 hx with h | h
  · rcases h1 x h with ⟨y, hy, hr⟩; exact ⟨y, List.mem_append_left _ hy, hr⟩
  · rcases h2 x h with ⟨y, hy, hr⟩; exact ⟨y, List.mem_append_right _ hy, hr⟩

theorem Sub.mono {α : Type} {R : α → α → Prop} {a a' b' : List α} (h1 : Sub R a a') (h2 : ∀ y ∈ a', y ∈ b') :
    Sub R a b' := by
  intro x hx
  rcases h1 x hx with ⟨y, hy, hr⟩; exact ⟨y, h2 y hy, hr⟩

def TH (h h' : TagHit) : Prop := h.info = h'.info ∧ ι h.parent = ι h'.parent ∧ h.anc.map ι = h'.anc.map ι

def GH (g g' : GroupHit) : Prop :=
  ι g.group = ι g'.group ∧ (g.group.kids.map κ).Perm (g'.group.kids.map κ) ∧ g.anc.map ι = g'.anc.map ι

theorem tagsInL_eq (p : Node) (anc : List Node) (l : List Node) :
    tagsInL p anc l = l.flatMap (tagsIn p anc) := by
  induction l with
  | nil => simp [tagsInL]
  | cons k ks ih => rw [tagsInL, ih]; simp

theorem groupsInL_eq (anc : List Node) (l : List Node) : groupsInL anc l = l.flatMap (groupsIn anc) := by
  induction l with
  | nil => simp [groupsInL]
  | cons k ks ih => rw [groupsInL, ih]; simp

theorem tagsInL_perm (p : Node) (anc : List Node) {l l' : List Node} (hp : l.Perm l') (x : TagHit) :
    x ∈ tagsInL p anc l → x ∈ tagsInL p anc l' := by
  rw [tagsInL_eq, tagsInL_eq, List.mem_flatMap, List.mem_flatMap]
  rintro ⟨k, hk, hx⟩; exact ⟨k, hp.mem_iff.1 hk, hx⟩

theorem groupsInL_perm (anc : List Node) {l l' : List Node} (hp : l.Perm l') (x : GroupHit) :
    x ∈ groupsInL anc l → x ∈ groupsInL anc l' := by
  rw [groupsInL_eq, groupsInL_eq, List.mem_flatMap, List.mem_flatMap]
  rintro ⟨k, hk, hx⟩; exact ⟨k, hp.mem_iff.1 hk, hx⟩

mutual
theorem shuf_tagsIn (p p' : Node) (anc anc' : List Node) (hp : ι p = ι p') (ha : anc.map ι = anc'.map ι) :
    ∀ (n n' : Node), Shuf n n' →
      Sub TH (tagsIn p anc n) (tagsIn p' anc' n') ∧ Sub TH (tagsIn p' anc' n') (tagsIn p anc n)
  | .tag i, n', h => by
    rw [Shuf] at h; subst h
    simp only [tagsIn]
    constructor
    · intro x hx; simp at hx; subst hx; exact ⟨⟨i, p', anc'⟩, by simp, rfl, hp, ha⟩
    · intro x hx; simp at hx; subst hx; exact ⟨⟨i, p, anc⟩, by simp, rfl, hp.symm, ha.symm⟩
  | .group id g ks, n', h => by
    rw [Shuf] at h
    rcases h with ⟨ks', rfl, hl⟩
    rw [tagsIn, tagsIn]
    have hι := (shuf_ικ (.group id g ks) (.group id g ks') (by rw [Shuf]; exact ⟨ks', rfl, hl⟩)).1
    exact shuf_tagsInL (.group id g ks) (.group id g ks') (p :: anc) (p' :: anc') hι
      (by simp [hp, ha]) ks ks' hl
theorem shuf_tagsInL (p p' : Node) (anc anc' : List Node) (hp : ι p = ι p') (ha : anc.map ι = anc'.map ι) :
    ∀ (l l' : List Node), ShufL l l' →
      Sub TH (tagsInL p anc l) (tagsInL p' anc' l') ∧ Sub TH (tagsInL p' anc' l') (tagsInL p anc l)
  | [], l', h => by
    rw [ShufL] at h; subst h
    simp only [tagsInL]
    exact ⟨fun x hx => (by cases hx), fun x hx => (by cases hx)⟩
  | k :: ks, l', h => by
    rw [ShufL] at h
    rcases h with ⟨k', ks', h1, h2, hperm⟩
    have i1 := shuf_tagsIn p p' anc anc' hp ha k k' h1
    have i2 := shuf_tagsInL p p' anc anc' hp ha ks ks' h2
    constructor
    · have : Sub TH (tagsInL p anc (k :: ks)) (tagsInL p' anc' (k' :: ks')) := by
        rw [tagsInL, tagsInL]; exact i1.1.append i2.1
      exact this.mono (fun y hy => tagsInL_perm p' anc' hperm y hy)
    · have : Sub TH (tagsInL p' anc' (k' :: ks')) (tagsInL p anc (k :: ks)) := by
        rw [tagsInL, tagsInL]; exact i1.2.append i2.2
      intro y hy
      exact this y (tagsInL_perm p' anc' hperm.symm y hy)
end

mutual
theorem shuf_groupsIn (anc anc' : List Node) (ha : anc.map ι = anc'.map ι) :
    ∀ (n n' : Node), Shuf n n' →
      Sub GH (groupsIn anc n) (groupsIn anc' n') ∧ Sub GH (groupsIn anc' n') (groupsIn anc n)
  | .tag i, n', h => by
    rw [Shuf] at h; subst h
    simp only [groupsIn]
    exact ⟨fun x hx => (by cases hx), fun x hx => (by cases hx)⟩
  | .group id g ks, n', h => by
    rw [Shuf] at h
    rcases h with ⟨ks', rfl, hl⟩
    have hι := (shuf_ικ (.group id g ks) (.group id g ks') (by rw [Shuf]; exact ⟨ks', rfl, hl⟩)).1
    have hk := (shufL_len ks ks' hl).2
    have ih := shuf_groupsInL (.group id g ks :: anc) (.group id g ks' :: anc') (by simp [hι, ha]) ks ks' hl
    rw [groupsIn, groupsIn]
    constructor
    · intro x hx
      rcases List.mem_cons.1 hx with rfl | hx
      · exact ⟨_, List.mem_cons_self, hι, hk, ha⟩
      · rcases ih.1 x hx with ⟨y, hy, hr⟩; exact ⟨y, List.mem_cons_of_mem _ hy, hr⟩
    · intro x hx
      rcases List.mem_cons.1 hx with rfl | hx
      · exact ⟨_, List.mem_cons_self, hι.symm, hk.symm, ha.symm⟩
      · rcases ih.2 x hx with ⟨y, hy, hr⟩; exact ⟨y, List.mem_cons_of_mem _ hy, hr⟩
theorem shuf_groupsInL (anc anc' : List Node) (ha : anc.map ι = anc'.map ι) :
    ∀ (l l' : List Node), ShufL l l' →
      Sub GH (groupsInL anc l) (groupsInL anc' l') ∧ Sub GH (groupsInL anc' l') (groupsInL anc l)
  | [], l', h => by
    rw [ShufL] at h; subst h
    simp only [groupsInL]
    exact ⟨fun x hx => (by cases hx), fun x hx => (by cases hx)⟩
  | k :: ks, l', h => by
    rw [ShufL] at h
    rcases h with ⟨k', ks', h1, h2, hperm⟩
    have i1 := shuf_groupsIn anc anc' ha k k' h1
    have i2 := shuf_groupsInL anc anc' ha ks ks' h2
    constructor
    · have : Sub GH (groupsInL anc (k :: ks)) (groupsInL anc' (k' :: ks')) := by
        rw [groupsInL, groupsInL]; exact i1.1.append i2.1
      exact this.mono (fun y hy => groupsInL_perm anc' hperm y hy)
    · have : Sub GH (groupsInL anc' (k' :: ks')) (groupsInL anc (k :: ks)) := by
        rw [groupsInL, groupsInL]; exact i1.2.append i2.2
      intro y hy
      exact this y (groupsInL_perm anc' hperm.symm y hy)
end


/-- two results that look the same to every later step of the evaluation -/
def RR (r r' : Result) : Prop :=
  ι r.group = ι r'.group ∧ r.anc.map ι = r'.anc.map ι ∧ (r.tags.map Node.id).Perm (r'.tags.map Node.id)

theorem RR.symm {r r' : Result} (h : RR r r') : RR r' r := ⟨h.1.symm, h.2.1.symm, h.2.2.symm⟩
theorem RR.trans {a b c : Result} (h1 : RR a b) (h2 : RR b c) : RR a c :=
  ⟨h1.1.trans h2.1, h1.2.1.trans h2.2.1, h1.2.2.trans h2.2.2⟩
theorem TH.symm {r r' : TagHit} (h : TH r r') : TH r' r := ⟨h.1.symm, h.2.1.symm, h.2.2.symm⟩
theorem GH.symm {r r' : GroupHit} (h : GH r r') : GH r' r := ⟨h.1.symm, h.2.1.symm, h.2.2.symm⟩

theorem ι_id {a b : Node} (h : ι a = ι b) : a.id = b.id := by
  simp only [ι, Prod.mk.injEq] at h; exact h.1
theorem ι_flag {a b : Node} (h : ι a = ι b) : a.isGroupFlag = b.isGroupFlag := by
  simp only [ι, Prod.mk.injEq] at h; exact h.2.2.1
theorem ι_len {a b : Node} (h : ι a = ι b) : a.kids.length = b.kids.length := by
  simp only [ι, Prod.mk.injEq] at h; exact h.2.2.2
theorem truthy_eq (n : Node) : n.truthy = (n.isTag || decide (n.kids.length ≠ 0)) := by
  cases n with
  | tag i => rfl
  | group id g ks => cases ks <;> simp [Node.truthy, Node.isTag, Node.kids]
theorem ι_truthy {a b : Node} (h : ι a = ι b) : a.truthy = b.truthy := by
  rw [truthy_eq, truthy_eq]
  simp only [ι, Prod.mk.injEq] at h
  rw [h.2.1, h.2.2.2]

/-- group ids identify the groups of the annotation (what object identity means for the real objects) -/
def UniqueIds (t : Tree) : Prop :=
  ∀ g ∈ allGroups t, ∀ h ∈ allGroups t, g.group.id = h.group.id →
    ι g.group = ι h.group ∧ g.anc.map ι = h.anc.map ι

/-- everything the proof needs about a pair of annotations, symmetric in the two -/
structure Ctx (se : Bool) (t t' : Tree) : Prop where
  tags : Sub TH (allTags t) (allTags t')
  tags' : Sub TH (allTags t') (allTags t)
  groups : Sub GH (allGroups t) (allGroups t')
  groups' : Sub GH (allGroups t') (allGroups t)
  uniq : UniqueIds t
  uniq' : UniqueIds t'
  neq : se = true → NoEqualGroups t
  neq' : se = true → NoEqualGroups t'

theorem Ctx.symm {se : Bool} {t t' : Tree} (c : Ctx se t t') : Ctx se t' t :=
  ⟨c.tags', c.tags, c.groups', c.groups, c.uniq', c.uniq, c.neq', c.neq⟩

theorem sameTags_RR (t : Tree) (hu : UniqueIds t) (hne : se = true → NoEqualGroups t) (m r : Result)
    (hm : Good t m) (hr : Good t r) (h : sameTags se m r = true) : RR m r := by
  have hid := sameTags_gid t hne m r hm hr h
  have hu' := hu _ hm _ hr hid
  refine ⟨hu'.1, hu'.2, ?_⟩
  rw [sameTags_tagIds m r h]

theorem compat_rel {a a' b b' : Result} (ha : RR a a') (hb : RR b b') : compat a b = compat a' b' := by
  rw [Bool.eq_iff_iff, compat_iff, compat_iff]
  have key : ∀ {a a' b b' : Result}, RR a a' → RR b b' →
      (a.group.id = b.group.id ∧ ∀ x ∈ a.tags, ∀ y ∈ b.tags, x.id ≠ y.id) →
      (a'.group.id = b'.group.id ∧ ∀ x ∈ a'.tags, ∀ y ∈ b'.tags, x.id ≠ y.id) := by
    intro a a' b b' ha hb ⟨h1, h2⟩
    refine ⟨by rw [← ι_id ha.1, ← ι_id hb.1]; exact h1, fun x hx y hy hxy => ?_⟩
    have hx' : x.id ∈ a.tags.map Node.id := ha.2.2.mem_iff.2 (List.mem_map.2 ⟨x, hx, rfl⟩)
    have hy' : y.id ∈ b.tags.map Node.id := hb.2.2.mem_iff.2 (List.mem_map.2 ⟨y, hy, rfl⟩)
    rcases List.mem_map.1 hx' with ⟨x0, hx0, ex⟩
    rcases List.mem_map.1 hy' with ⟨y0, hy0, ey⟩
    exact h2 x0 hx0 y0 hy0 (by rw [ex, ey, hxy])
  exact ⟨key ha hb, key ha.symm hb.symm⟩

theorem perm_insertByStr (x : Node) (l : List Node) : (insertByStr x l).Perm (x :: l) := by
  induction l with
  | nil => simp [insertByStr]
  | cons y ys ih =>
    rw [insertByStr]
    split
    · exact (List.Perm.cons y ih).trans (List.Perm.swap x y ys)
    · exact List.Perm.refl _

theorem perm_sortByStr (l : List Node) : (sortByStr l).Perm l := by
  induction l with
  | nil => simp [sortByStr]
  | cons x xs ih => rw [sortByStr]; exact (perm_insertByStr x _).trans (List.Perm.cons x ih)

theorem mergeRes_ids (a b : Result) :
    ((mergeRes a b).tags.map Node.id).Perm
      (a.tags.map Node.id ++ (b.tags.map Node.id).filter (fun i => !(a.tags.map Node.id).contains i)) := by
  unfold mergeRes
  refine ((perm_sortByStr _).map Node.id).trans ?_
  rw [List.map_append]
  refine List.Perm.append_left _ ?_
  rw [List.filter_map]
  have : (fun t : Node => !hasId a.tags t.id) = ((fun i => !(a.tags.map Node.id).contains i) ∘ Node.id) := by
    funext t
    simp only [Function.comp, hasId]
    congr 1
    rw [Bool.eq_iff_iff]
    simp
  rw [this]

theorem mergeRes_rel {a a' b b' : Result} (ha : RR a a') (hb : RR b b') : RR (mergeRes a b) (mergeRes a' b') := by
  refine ⟨ha.1, ha.2.1, ?_⟩
  refine (mergeRes_ids a b).trans (List.Perm.trans ?_ (mergeRes_ids a' b').symm)
  refine List.Perm.append ha.2.2 ?_
  have hf : (fun i => !(a.tags.map Node.id).contains i) = (fun i => !(a'.tags.map Node.id).contains i) := by
    funext i
    congr 1
    rw [Bool.eq_iff_iff]
    simp only [List.contains_iff_mem]
    exact ha.2.2.mem_iff
  rw [hf]
  exact hb.2.2.filter _

theorem mergeAnd_rel (t' : Tree) (hu : UniqueIds t') (hne : se = true → NoEqualGroups t')
    {g1 g1' g2 g2' : List Result} (h1 : Sub RR g1 g1') (h2 : Sub RR g2 g2') (hg : ∀ r ∈ g1', Good t' r) :
    Sub RR (mergeAnd se g1 g2) (mergeAnd se g1' g2') := by
  intro x hx
  rcases mem_mergeAnd g1 g2 x hx with ⟨a, ha, b, hb, hc, rfl⟩
  rcases h1 a ha with ⟨a', ha', ra⟩
  rcases h2 b hb with ⟨b', hb', rb⟩
  have hc' : compat a' b' = true := by rw [← compat_rel ra rb]; exact hc
  rcases mergeAnd_complete (se := se) g1' g2' a' b' ha' hb' hc' with ⟨r', hr', rfl | hs⟩
  · exact ⟨_, hr', mergeRes_rel ra rb⟩
  · refine ⟨r', hr', (mergeRes_rel ra rb).trans ?_⟩
    exact sameTags_RR t' hu hne _ _ (hg a' ha') (mergeAnd_good t' g1' g2' hg r' hr') hs

theorem mergeOr_rel (t' : Tree) (hu : UniqueIds t') (hne : se = true → NoEqualGroups t')
    {g1 g1' g2 g2' : List Result} (h1 : Sub RR g1 g1') (h2 : Sub RR g2 g2') (hg1 : ∀ r ∈ g1', Good t' r)
    (hg2 : ∀ r ∈ g2', Good t' r) : Sub RR (mergeOr se g1 g2) (mergeOr se g1' g2') := by
  intro x hx
  unfold mergeOr at hx ⊢
  have inB : ∀ y, (∃ b ∈ g2', RR y b) → ∃ z ∈ List.filter (fun a => !g2'.any fun b => sameTags se a b) g1' ++ g2', RR y z := by
    rintro y ⟨b, hb, hr⟩; exact ⟨b, List.mem_append_right _ hb, hr⟩
  rcases List.mem_append.1 hx with h | h
  · rcases h1 x (List.mem_filter.1 h).1 with ⟨a', ha', ra⟩
    by_cases hd : (g2'.any fun b => sameTags se a' b) = true
    · rcases List.any_eq_true.1 hd with ⟨b', hb', hs⟩
      exact ⟨b', List.mem_append_right _ hb', ra.trans (sameTags_RR t' hu hne _ _ (hg1 a' ha') (hg2 b' hb') hs)⟩
    · exact ⟨a', List.mem_append_left _ (List.mem_filter.2 ⟨ha', by simpa using hd⟩), ra⟩
  · exact inB x (h2 x h)

theorem chain_rel : ∀ (l l' : List Node) (c c' : Node), c.id = c'.id → l.map ι = l'.map ι →
    Sub RR (chain c l) (chain c' l')
  | [], l', c, c', _, _ => by intro x hx; simp [chain] at hx
  | g :: anc, [], c, c', _, hl => by simp at hl
  | g :: anc, g' :: anc', c, c', hc, hl => by
    simp only [List.map_cons, List.cons.injEq] at hl
    intro x hx
    rw [chain] at hx ⊢
    rw [← ι_truthy hl.1]
    split at hx
    · rename_i htr
      simp only [htr, if_true]
      rcases List.mem_cons.1 hx with rfl | hx
      · exact ⟨_, List.mem_cons_self, hl.1, hl.2, by simp [hc]⟩
      · rcases chain_rel anc anc' g g' (ι_id hl.1) hl.2 x hx with ⟨y, hy, hr⟩
        exact ⟨y, List.mem_cons_of_mem _ hy, hr⟩
    · cases hx

theorem chain0_rel (g g' : Node) (anc anc' : List Node) (hg : ι g = ι g') (ha : anc.map ι = anc'.map ι) :
    Sub RR (chain0 g anc) (chain0 g' anc') := by
  intro x hx
  unfold chain0 at hx ⊢
  rw [← ι_truthy hg]
  split at hx
  · rename_i htr
    simp only [htr, if_true]
    rcases List.mem_cons.1 hx with rfl | hx
    · exact ⟨_, List.mem_cons_self, hg, ha, by simp⟩
    · rcases chain_rel anc anc' g g' (ι_id hg) ha x hx with ⟨y, hy, hr⟩
      exact ⟨y, List.mem_cons_of_mem _ hy, hr⟩
  · cases hx

theorem parents_rel {rs rs' : List Result} (h : Sub RR rs rs') : Sub RR (parents rs) (parents rs') := by
  intro x hx
  unfold parents at hx
  rcases List.mem_filterMap.1 hx with ⟨r, hr, hf⟩
  rcases h r hr with ⟨r', hr', rr⟩
  split at hf
  · cases hf
  · rename_i hflag
    split at hf
    · cases hf
    · rename_i p rest hanc
      split at hf
      · rename_i htr
        simp only [Option.some.injEq] at hf
        subst hf
        have hmap := rr.2.1
        rw [hanc] at hmap
        cases hanc' : r'.anc with
        | nil => rw [hanc'] at hmap; simp at hmap
        | cons p' rest' =>
          rw [hanc'] at hmap
          simp only [List.map_cons, List.cons.injEq] at hmap
          refine ⟨⟨p', rest', [r'.group]⟩, ?_, hmap.1, hmap.2, by simp [ι_id rr.1]⟩
          unfold parents
          refine List.mem_filterMap.2 ⟨r', hr', ?_⟩
          have hf' : r'.group.isGroupFlag = true := by rw [← ι_flag rr.1]; simpa using hflag
          have ht' : p'.truthy = true := by rw [← ι_truthy hmap.1]; exact htr
          simp [hf', hanc', ht']
      · cases hf

theorem filterExact_rel {rs rs' : List Result} (h : Sub RR rs rs') : Sub RR (filterExact rs) (filterExact rs') := by
  intro x hx
  unfold filterExact at hx ⊢
  rcases List.mem_filter.1 hx with ⟨hx1, hx2⟩
  rcases h x hx1 with ⟨y, hy, rr⟩
  refine ⟨y, List.mem_filter.2 ⟨hy, ?_⟩, rr⟩
  simp only [beq_iff_eq] at hx2 ⊢
  have := rr.2.2.length_eq
  simp only [List.length_map] at this
  rw [← ι_len rr.1, ← this]; exact hx2

theorem Sub.nil_of {rs rs' : List Result} (h : Sub RR rs' rs) (he : rs = []) : rs' = [] := by
  cases rs' with
  | nil => rfl
  | cons y ys => rcases h y List.mem_cons_self with ⟨x, hx, _⟩; rw [he] at hx; cases hx


theorem parents_nil : parents [] = [] := rfl

theorem ite_parents (l : List Result) : (if (!l.isEmpty) = true then parents l else []) = parents l := by
  cases l <;> simp [parents_nil]

theorem wildOk_κ (w : Wild) {k k' : Node} (h : κ k = κ k') : wildOk w k = wildOk w k' := by
  cases w <;> cases k <;> cases k' <;> simp_all [κ, Node.isTag, wildOk]

/-- **the results on two annotations that differ by the order of siblings are the same up to `RR`** -/
theorem evalE_sub (q : Expr) :
    ∀ (t t' : Tree), Ctx se t t' → ∀ ex, Sub RR (evalE se t q ex) (evalE se t' q ex) := by
  induction q with
  | term text mode nil =>
    intro t t' c ex
    have hF : ∀ (t t' : Tree), Sub TH (allTags t) (allTags t') →
        Sub TH ((allTags t).filter (fun h => tagMatches text mode h.info))
          ((allTags t').filter (fun h => tagMatches text mode h.info)) := by
      intro t t' hs x hx
      rcases List.mem_filter.1 hx with ⟨h1, h2⟩
      rcases hs x h1 with ⟨y, hy, hr⟩
      exact ⟨y, List.mem_filter.2 ⟨hy, by rw [← hr.1]; exact h2⟩, hr⟩
    have h1 := hF t t' c.tags
    have h2 := hF t' t c.tags'
    rw [evalE, evalE]
    unfold termResults
    simp only
    intro x hx
    cases nil with
    | true =>
      simp only [if_true] at hx ⊢
      split at hx
      · cases hx
      · rename_i hemp
        have he : (allTags t).filter (fun h => tagMatches text mode h.info) = [] := by
          simpa [List.isEmpty_iff] using hemp
        have he' : (allTags t').filter (fun h => tagMatches text mode h.info) = [] := by
          cases hl : (allTags t').filter (fun h => tagMatches text mode h.info) with
          | nil => rfl
          | cons y ys =>
            rcases h2 y (by rw [hl]; exact List.mem_cons_self) with ⟨z, hz, _⟩
            rw [he] at hz; cases hz
        simp only [he', List.isEmpty_nil, Bool.not_true, Bool.false_eq_true, if_false]
        cases ex with
        | true =>
          simp only [if_true] at hx ⊢
          rcases List.mem_map.1 hx with ⟨g, hg, rfl⟩
          rcases c.groups g hg with ⟨g', hg', gr⟩
          exact ⟨_, List.mem_map.2 ⟨g', hg', rfl⟩, gr.1, gr.2.2, by simp⟩
        | false =>
          simp only [Bool.false_eq_true, if_false] at hx ⊢
          rcases List.mem_flatMap.1 hx with ⟨g, hg, hx'⟩
          rcases c.groups g hg with ⟨g', hg', gr⟩
          rcases chain0_rel g.group g'.group g.anc g'.anc gr.1 gr.2.2 x hx' with ⟨y, hy, hr⟩
          exact ⟨y, List.mem_flatMap.2 ⟨g', hg', hy⟩, hr⟩
    | false =>
      simp only [Bool.false_eq_true, if_false] at hx ⊢
      cases ex with
      | true =>
        simp only [if_true] at hx ⊢
        rcases List.mem_map.1 hx with ⟨h, hh, rfl⟩
        rcases h1 h hh with ⟨h', hh', hr⟩
        exact ⟨_, List.mem_map.2 ⟨h', hh', rfl⟩, hr.2.1, hr.2.2, by simp [Node.id, hr.1]⟩
      | false =>
        simp only [Bool.false_eq_true, if_false] at hx ⊢
        rcases List.mem_flatMap.1 hx with ⟨h, hh, hx'⟩
        rcases h1 h hh with ⟨h', hh', hr⟩
        rcases chain_rel (h.parent :: h.anc) (h'.parent :: h'.anc) (.tag h.info) (.tag h'.info)
          (by simp [Node.id, hr.1]) (by simp [hr.2.1, hr.2.2]) x hx' with ⟨y, hy, hry⟩
        exact ⟨y, List.mem_flatMap.2 ⟨h', hh', hy⟩, hry⟩
  | wild w =>
    intro t t' c ex x hx
    rw [evalE, wildResults_eq] at hx ⊢
    rcases List.mem_flatMap.1 hx with ⟨g, hg, hx'⟩
    rcases List.mem_map.1 hx' with ⟨k, hk, rfl⟩
    rcases List.mem_filter.1 hk with ⟨hk1, hk2⟩
    rcases c.groups g hg with ⟨g', hg', gr⟩
    have : κ k ∈ g'.group.kids.map κ := gr.2.1.mem_iff.1 (List.mem_map.2 ⟨k, hk1, rfl⟩)
    rcases List.mem_map.1 this with ⟨k', hk', hκ⟩
    refine ⟨⟨g'.group, g'.anc, [k']⟩, List.mem_flatMap.2 ⟨g', hg', List.mem_map.2 ⟨k', List.mem_filter.2
      ⟨hk', by rw [wildOk_κ w hκ]; exact hk2⟩, rfl⟩⟩, gr.1, gr.2.2, ?_⟩
    have : k'.id = k.id := by simp only [κ, Prod.mk.injEq] at hκ; exact hκ.1
    simp [this]
  | and l r ihl ihr =>
    intro t t' c ex
    rw [evalE_and, evalE_and]
    exact mergeAnd_rel t' c.uniq' c.neq' (ihl t t' c ex) (ihr t t' c ex) (evalE_good t' l ex)
  | or l r ihl ihr =>
    intro t t' c ex
    rw [evalE, evalE]
    exact mergeOr_rel t' c.uniq' c.neq' (ihl t t' c ex) (ihr t t' c ex) (evalE_good t' l ex) (evalE_good t' r ex)
  | neg r ih =>
    intro t t' c ex x hx
    rw [evalE] at hx ⊢
    unfold negResults at hx ⊢
    rcases List.mem_map.1 hx with ⟨g, hg, rfl⟩
    rcases List.mem_filter.1 hg with ⟨hg1, hg2⟩
    rcases c.groups g hg1 with ⟨g', hg', gr⟩
    refine ⟨_, List.mem_map.2 ⟨g', List.mem_filter.2 ⟨hg', ?_⟩, rfl⟩, gr.1, gr.2.2, by simp⟩
    simp only [Bool.not_eq_true', List.any_eq_false, beq_iff_eq] at hg2 ⊢
    intro r' hr' heq
    rcases ih t' t c.symm ex r' hr' with ⟨r0, hr0, rr⟩
    exact hg2 r0 hr0 (by rw [← ι_id rr.1, heq, ι_id gr.1])
  | desc r ih =>
    intro t t' c ex
    rw [evalE, evalE]
    exact parents_rel (ih t t' c false)
  | exactAny r ih =>
    intro t t' c ex
    rw [evalE, evalE]
    exact parents_rel (ih t t' c true)
  | exactNone r ih =>
    intro t t' c ex
    rw [evalE, evalE]
    simp only [ite_parents]
    exact parents_rel (filterExact_rel (ih t t' c true))
  | exactOpt r l ihr ihl =>
    intro t t' c ex
    rw [evalE, evalE]
    simp only [ite_parents]
    have hf := filterExact_rel (ihr t t' c true)
    have hf' := filterExact_rel (ihr t' t c.symm true)
    have hm := filterExact_rel (mergeAnd_rel t' c.uniq' c.neq' (ihr t t' c true) (ihl t t' c true)
      (evalE_good t' r true))
    by_cases he : filterExact (evalE se t r true) = []
    · have he' : filterExact (evalE se t' r true) = [] := Sub.nil_of hf' he
      simp only [he, he', List.isEmpty_nil, Bool.not_true, Bool.false_eq_true, if_false]
      exact parents_rel hm
    · have he' : filterExact (evalE se t' r true) ≠ [] := by
        intro h0; exact he (Sub.nil_of hf h0)
      have e1 : (!(filterExact (evalE se t r true)).isEmpty) = true := by simp [he]
      have e2 : (!(filterExact (evalE se t' r true)).isEmpty) = true := by simp [he']
      simp only [e1, e2, if_true]
      exact parents_rel hf

theorem uniq_transfer {t t' : Tree} (hs : Sub GH (allGroups t') (allGroups t)) (hu : UniqueIds t) :
    UniqueIds t' := by
  intro g' hg' h' hh' hid
  rcases hs g' hg' with ⟨g, hg, rg⟩
  rcases hs h' hh' with ⟨h, hh, rh⟩
  have := hu g hg h hh (by rw [← ι_id rg.1, ← ι_id rh.1]; exact hid)
  exact ⟨rg.1.trans (this.1.trans rh.1.symm), rg.2.2.trans (this.2.trans rh.2.2.symm)⟩

theorem ctx_of_shuf {t t' : Tree} (hs : ShufT t t') (hu : UniqueIds t)
    (hne : se = true → NoEqualGroups t ∧ NoEqualGroups t') : Ctx se t t' := by
  rcases hs with ⟨hid, hl⟩
  have hlen := shufL_len _ _ hl
  have hroot : ι t.root = ι t'.root := by
    simp [ι, Tree.root, Node.id, Node.isTag, Node.isGroupFlag, Node.kids, hid, hlen.1]
  have ht := shuf_tagsInL t.root t'.root [] [] hroot rfl _ _ hl
  have hg := shuf_groupsInL [t.root] [t'.root] (by simp [hroot]) _ _ hl
  have hG : Sub GH (allGroups t) (allGroups t') := by
    intro x hx
    unfold allGroups at hx ⊢
    rcases List.mem_cons.1 hx with rfl | hx
    · exact ⟨_, List.mem_cons_self, hroot, by simpa [Tree.root, Node.kids] using hlen.2, rfl⟩
    · rcases hg.1 x hx with ⟨y, hy, hr⟩; exact ⟨y, List.mem_cons_of_mem _ hy, hr⟩
  have hG' : Sub GH (allGroups t') (allGroups t) := by
    intro x hx
    unfold allGroups at hx ⊢
    rcases List.mem_cons.1 hx with rfl | hx
    · exact ⟨_, List.mem_cons_self, hroot.symm, by simpa [Tree.root, Node.kids] using hlen.2.symm, rfl⟩
    · rcases hg.2 x hx with ⟨y, hy, hr⟩; exact ⟨y, List.mem_cons_of_mem _ hy, hr⟩
  exact ⟨ht.1, ht.2, hG, hG', hu, uniq_transfer hG' hu, fun h => (hne h).1, fun h => (hne h).2⟩

theorem isMatch_ctx {t t' : Tree} (c : Ctx se t t') (q : Expr) : isMatchWith se q t = isMatchWith se q t' := by
  rw [Bool.eq_iff_iff, isMatch_iff, isMatch_iff]
  constructor
  · intro h
    rcases List.exists_mem_of_ne_nil _ h with ⟨x, hx⟩
    rcases evalE_sub q t t' c false x hx with ⟨y, hy, _⟩
    exact List.ne_nil_of_mem hy
  · intro h
    rcases List.exists_mem_of_ne_nil _ h with ⟨x, hx⟩
    rcases evalE_sub q t' t c.symm false x hx with ⟨y, hy, _⟩
    exact List.ne_nil_of_mem hy

mutual
theorem shuf_refl : ∀ (n : Node), Shuf n n
  | .tag i => by rw [Shuf]
  | .group id g ks => by rw [Shuf]; exact ⟨ks, rfl, shufL_refl ks⟩
theorem shufL_refl : ∀ (l : List Node), ShufL l l
  | [] => by rw [ShufL]
  | k :: ks => by rw [ShufL]; exact ⟨k, ks, shuf_refl k, shufL_refl ks, List.Perm.refl _⟩
end

end HedVerif.Query

namespace HedVerif.C15
open HedVerif.Query

variable {se : Bool}

/-! Theorems with the implicit flag `se` hold for the repaired code (`se = false`: `isMatchWith false = isMatch`)
and for the code before the repair of `has_same_tags` (`se = true`). -/

/-- **Bare term.** A bare term matches exactly when some tag has the word among its schema-path terms
(`tag.tag_terms`). -/
theorem term (w : Str) (t : Tree) :
    isMatchWith se (.term w .terms false) t = true ↔ ∃ h ∈ allTags t, w ∈ h.info.terms := by
  rw [term_match]; simp [tagMatches]

/-- **Quoted term** (and a term with `/`): only the exact tag, compared casefolded. -/
theorem term_quoted (w : Str) (t : Tree) :
    isMatchWith se (.term w .exact false) t = true ↔ ∃ h ∈ allTags t, h.info.fold = w := by
  rw [term_match]; simp [tagMatches]

/-- **Trailing star**: prefix of the casefolded short form. -/
theorem term_prefix (w : Str) (t : Tree) :
    isMatchWith se (.term w .pref false) t = true ↔ ∃ h ∈ allTags t, w <+: h.info.fold := by
  rw [term_match]; simp [tagMatches]

/-- **`A || B` matches iff `A` matches or `B` matches** (the duplicate filter never empties the result). -/
theorem or_iff (A B : Expr) (t : Tree) :
    isMatchWith se (.or A B) t = true ↔ isMatchWith se A t = true ∨ isMatchWith se B t = true := by
  simp only [isMatchWith, evalWith]
  rw [evalE, mergeOr_isEmpty]
  simp

/-- **`||` is symmetric.** -/
theorem or_comm (A B : Expr) (t : Tree) : isMatchWith se (.or A B) t = isMatchWith se (.or B A) t := by
  rw [Bool.eq_iff_iff, or_iff, or_iff]; exact Or.comm

/-- **`||` is associative.** -/
theorem or_assoc (A B C : Expr) (t : Tree) :
    isMatchWith se (.or (.or A B) C) t = isMatchWith se (.or A (.or B C)) t := by
  rw [Bool.eq_iff_iff, or_iff, or_iff, or_iff, or_iff]; exact _root_.or_assoc

/-- **`A && B` matches only if both do.** -/
theorem and_imp (A B : Expr) (t : Tree) (h : isMatchWith se (.and A B) t = true) :
    isMatchWith se A t = true ∧ isMatchWith se B t = true := by
  rw [isMatch_iff, evalE_and, mergeAnd_ne_nil_iff] at h
  rcases h with ⟨a, ha, b, hb, _⟩
  exact ⟨(isMatch_iff _ _).2 (List.ne_nil_of_mem ha), (isMatch_iff _ _).2 (List.ne_nil_of_mem hb)⟩

/-- `A && B` matches iff some result of `A` and some result of `B` sit on the same group and share no
child (identity). -/
theorem and_iff (A B : Expr) (t : Tree) :
    isMatchWith se (.and A B) t = true ↔
      ∃ a ∈ evalWith se A t, ∃ b ∈ evalWith se B t,
        a.group.id = b.group.id ∧ ∀ x ∈ a.tags, ∀ y ∈ b.tags, x.id ≠ y.id := by
  rw [isMatch_iff, evalE_and, mergeAnd_ne_nil_iff]
  simp only [compat_iff, evalWith]

/-- **`&&` is symmetric.** -/
theorem and_comm (A B : Expr) (t : Tree) :
    isMatchWith se (.and A B) t = isMatchWith se (.and B A) t := by
  rw [Bool.eq_iff_iff, isMatch_iff, isMatch_iff, evalE_and, evalE_and, mergeAnd_ne_nil_iff,
    mergeAnd_ne_nil_iff]
  constructor
  · rintro ⟨a, ha, b, hb, hc⟩; exact ⟨b, hb, a, ha, by rw [compat_symm]; exact hc⟩
  · rintro ⟨a, ha, b, hb, hc⟩; exact ⟨b, hb, a, ha, by rw [compat_symm]; exact hc⟩

/-- **Via distinct tags.** Every result of `A && B` is one result of `A` joined with one result of `B` on
the same group, the two sharing no child; its children are exactly the children of the two. -/
theorem and_distinct (A B : Expr) (t : Tree) (r : Result) (h : r ∈ evalWith se (.and A B) t) :
    ∃ a ∈ evalWith se A t, ∃ b ∈ evalWith se B t,
      a.group.id = b.group.id ∧ (∀ x ∈ a.tags, ∀ y ∈ b.tags, x.id ≠ y.id) ∧
      r.group = a.group ∧ ∀ n, n ∈ r.tags ↔ (n ∈ a.tags ∨ n ∈ b.tags) := by
  unfold evalWith at h
  rw [evalE_and] at h
  rcases mem_mergeAnd _ _ r h with ⟨a, ha, b, hb, hc, rfl⟩
  rw [compat_iff] at hc
  refine ⟨a, ha, b, hb, hc.1, hc.2, rfl, fun n => ?_⟩
  rw [mem_mergeRes_tags]
  constructor
  · rintro (h1 | ⟨h1, _⟩)
    · exact Or.inl h1
    · exact Or.inr h1
  · rintro (h1 | h1)
    · exact Or.inl h1
    · refine Or.inr ⟨h1, ?_⟩
      cases hh : hasId a.tags n.id with
      | false => rfl
      | true =>
        rcases (hasId_iff _ _).1 hh with ⟨x, hx, hxn⟩
        exact absurd hxn (hc.2 x hx n h1)

/-- associativity of `&&` at the level of "matches"; for the code before the repair of `has_same_tags`
only on annotations without two equal distinct groups -/
theorem and_assoc_gen (A B C : Expr) (t : Tree) (hne : se = true → NoEqualGroups t) :
    isMatchWith se (.and (.and A B) C) t = isMatchWith se (.and A (.and B C)) t := by
  rw [Bool.eq_iff_iff, isMatch_iff, isMatch_iff]
  simp only [evalE_and]
  rw [mergeAnd_ne_nil_iff, mergeAnd_ne_nil_iff]
  have hA := evalE_good (se := se) t A false
  have hB := evalE_good (se := se) t B false
  rw [exists_compat_mergeAnd t hne _ _ _ hA]
  have hswap : (∃ a ∈ evalE se t A false, ∃ s ∈ mergeAnd se (evalE se t B false) (evalE se t C false),
        compat a s = true) ↔
      (∃ s ∈ mergeAnd se (evalE se t B false) (evalE se t C false), ∃ a ∈ evalE se t A false,
        compat s a = true) := by
    constructor
    · rintro ⟨a, ha, s, hs, h⟩; exact ⟨s, hs, a, ha, by rw [compat_symm]; exact h⟩
    · rintro ⟨s, hs, a, ha, h⟩; exact ⟨a, ha, s, hs, by rw [compat_symm]; exact h⟩
  rw [hswap, exists_compat_mergeAnd t hne _ _ _ hB]
  constructor
  · rintro ⟨a, ha, b, hb, c, hc, h⟩
    rcases (tri_left a b c).1 h with ⟨h1, h2, dab, dac, dbc⟩
    refine ⟨b, hb, c, hc, a, ha, (tri_left b c a).2 ⟨by omega, by omega, dbc, (disj_symm _ _).1 dab, (disj_symm _ _).1 dac⟩⟩
  · rintro ⟨b, hb, c, hc, a, ha, h⟩
    rcases (tri_left b c a).1 h with ⟨h1, h2, dbc, dba, dca⟩
    refine ⟨a, ha, b, hb, c, hc, (tri_left a b c).2 ⟨by omega, by omega, (disj_symm _ _).1 dba, (disj_symm _ _).1 dca, dbc⟩⟩

/-- **`&&` is associative** (repaired code: `has_same_tags` compares the groups by identity): for every
annotation. -/
theorem and_assoc (A B C : Expr) (t : Tree) :
    isMatch (.and (.and A B) C) t = isMatch (.and A (.and B C)) t :=
  and_assoc_gen (se := false) A B C t (by simp)

/-- the code before the repair is associative on annotations in which no two distinct groups are equal -/
theorem and_assoc_partial (A B C : Expr) (t : Tree) (hne : NoEqualGroups t) :
    isMatchWith true (.and (.and A B) C) t = isMatchWith true (.and A (.and B C)) t :=
  and_assoc_gen (se := true) A B C t (fun _ => hne)

/-- **Negation**: `~A` matches iff some group of the annotation (the string itself included) is not the
group of any result of `A`. -/
theorem negation (A : Expr) (t : Tree) :
    isMatchWith se (.neg A) t = true ↔
      ∃ g ∈ allGroups t, ∀ r ∈ evalWith se A t, r.group.id ≠ g.group.id := by
  rw [isMatch_iff, evalE, negResults_ne_nil_iff]; rfl

/-- **Descendant group**: `[A]` matches iff `A` has a result on a parenthesised group that has a parent (any
group except the string itself): the result is lifted to that parent. -/
theorem descendant (A : Expr) (t : Tree) :
    isMatchWith se (.desc A) t = true ↔ ∃ r ∈ evalWith se A t, Liftable r := by
  rw [isMatch_iff, evalE, parents_ne_nil_iff t _ (evalE_good t A false)]; rfl

/-- **Exact group `{A}`**: the same, with `A` evaluated *exactly* (a term's result is only the group that
directly contains the tag, not its ancestors). -/
theorem exact_any (A : Expr) (t : Tree) :
    isMatchWith se (.exactAny A) t = true ↔ ∃ r ∈ evalE se t A true, Liftable r := by
  rw [isMatch_iff, evalE, parents_ne_nil_iff t _ (evalE_good t A true)]

/-- the result accounts for every child of its group -/
def Full (r : Result) : Prop := r.group.kids.length = r.tags.length

/-- **`{A:}`**: an exact result of `A` that uses every child of its group, on a liftable group. -/
theorem exact_none (A : Expr) (t : Tree) :
    isMatchWith se (.exactNone A) t = true ↔ ∃ r ∈ evalE se t A true, Full r ∧ Liftable r := by
  rw [isMatch_iff, evalE]
  have hg := filterExact_good t _ (evalE_good (se := se) t A true)
  have key : (∃ r ∈ filterExact (evalE se t A true), Liftable r) ↔
      ∃ r ∈ evalE se t A true, Full r ∧ Liftable r := by
    simp only [filterExact, List.mem_filter, beq_iff_eq, Full]
    constructor
    · rintro ⟨r, ⟨h1, h2⟩, h3⟩; exact ⟨r, h1, h2, h3⟩
    · rintro ⟨r, h1, h2, h3⟩; exact ⟨r, ⟨h1, h2⟩, h3⟩
  rw [← key, ← parents_ne_nil_iff t _ hg]
  split
  · rfl
  · rename_i h
    simp only [Bool.not_eq_true', Bool.not_eq_false, List.isEmpty_iff] at h
    rw [h]; simp [parents]

/-- **`{A: B}`**: as `{A:}`; only if *no* exact result of `A` is full, a result of `A` merged (as by `&&`:
same group, no shared child) with an exact result of `B` may be the full one. -/
theorem exact_opt (A B : Expr) (t : Tree) :
    isMatchWith se (.exactOpt A B) t = true ↔
      (∃ r ∈ evalE se t A true, Full r ∧ Liftable r) ∨
      ((∀ r ∈ evalE se t A true, ¬ Full r) ∧
        ∃ r ∈ mergeAnd se (evalE se t A true) (evalE se t B true), Full r ∧ Liftable r) := by
  rw [isMatch_iff, evalE]
  have hA := evalE_good (se := se) t A true
  have key : ∀ rs : List Result, (∀ r ∈ rs, Good t r) →
      (parents (filterExact rs) ≠ [] ↔ ∃ r ∈ rs, Full r ∧ Liftable r) := by
    intro rs hrs
    rw [parents_ne_nil_iff t _ (filterExact_good t _ hrs)]
    simp only [filterExact, List.mem_filter, beq_iff_eq, Full]
    constructor
    · rintro ⟨r, ⟨h1, h2⟩, h3⟩; exact ⟨r, h1, h2, h3⟩
    · rintro ⟨r, h1, h2, h3⟩; exact ⟨r, ⟨h1, h2⟩, h3⟩
  have hfull : filterExact (evalE se t A true) = [] ↔ ∀ r ∈ evalE se t A true, ¬ Full r := by
    simp [filterExact, List.filter_eq_nil_iff, Full]
  by_cases h1 : filterExact (evalE se t A true) = []
  · have hno := hfull.1 h1
    simp only [h1, List.isEmpty_nil, Bool.not_true, Bool.false_eq_true, if_false]
    have : ¬ ∃ r ∈ evalE se t A true, Full r ∧ Liftable r := by
      rintro ⟨r, hr, hf, _⟩; exact hno r hr hf
    have hand : ∀ P : Prop, ((∀ r ∈ evalE se t A true, ¬ Full r) ∧ P) ↔ P :=
      fun P => ⟨fun h => h.2, fun h => ⟨hno, h⟩⟩
    simp only [this, false_or]
    rw [hand, ← key _ (mergeAnd_good t _ _ hA)]
    split
    · rfl
    · rename_i h
      simp only [Bool.not_eq_true', Bool.not_eq_false, List.isEmpty_iff] at h
      rw [h]; simp [parents]
  · have hne : (!(filterExact (evalE se t A true)).isEmpty) = true := by
      simp [List.isEmpty_iff, h1]
    simp only [hne, if_true]
    rw [key _ hA]
    have : ¬ ∀ r ∈ evalE se t A true, ¬ Full r := fun h => h1 (hfull.2 h)
    simp [this]

/-- **`{A: B}` is `{A:} || {A && B:}`** whenever every exact result of `A` that accounts for all children of
its group sits on a liftable group (always so when `A` is made of terms: a full result on the string itself
leaves no other group).  Without the hypothesis the early return of `ExpressionExactMatch.handle_expr`
(`if filtered_list: return ...`) can hide the optional branch: `exact_optional_counterexample`. -/
theorem exact_optional_equiv (A B : Expr) (t : Tree)
    (h : ∀ r ∈ evalE se t A true, Full r → Liftable r) :
    isMatchWith se (.exactOpt A B) t = isMatchWith se (.or (.exactNone A) (.exactNone (.and A B))) t := by
  rw [Bool.eq_iff_iff, exact_opt, or_iff, exact_none, exact_none, evalE_and]
  constructor
  · rintro (h1 | ⟨_, h2⟩)
    · exact Or.inl h1
    · exact Or.inr h2
  · rintro (h1 | h2)
    · exact Or.inl h1
    · by_cases hn : ∀ r ∈ evalE se t A true, ¬ Full r
      · exact Or.inr ⟨hn, h2⟩
      · left
        have : ∃ r ∈ evalE se t A true, Full r := by
          apply Classical.byContradiction
          intro hc
          exact hn (fun r hr hf => hc ⟨r, hr, hf⟩)
        rcases this with ⟨r, hr, hf⟩
        exact ⟨r, hr, hf, h r hr hf⟩

/-- **Wildcards**: `?` / `??` / `???` match iff some group (the string included) has a child / a tag child / a
group child. -/
theorem wildcard (w : Wild) (t : Tree) :
    isMatchWith se (.wild w) t = true ↔ ∃ g ∈ allGroups t, ∃ k ∈ g.group.kids, wildOk w k = true := by
  rw [isMatch_iff, evalE, wildResults_ne_nil_iff]

/-- **Sibling order** (repaired code): reordering the children of the top level and of any groups, at any
depth, does not change whether a query matches.  `UniqueIds t` is the well-formedness of the model's stand-in
for object identity (distinct groups carry distinct ids). -/
theorem sibling_order (q : Expr) (t t' : Tree) (hs : ShufT t t') (hu : UniqueIds t) :
    isMatch q t = isMatch q t' :=
  isMatch_ctx (ctx_of_shuf (se := false) hs hu (by simp)) q

/-- the code before the repair of `has_same_tags`: only when neither annotation has two equal distinct groups -/
theorem sibling_order_partial (q : Expr) (t t' : Tree) (hs : ShufT t t') (hu : UniqueIds t)
    (hne : NoEqualGroups t) (hne' : NoEqualGroups t') :
    isMatchWith true q t = isMatchWith true q t' :=
  isMatch_ctx (ctx_of_shuf (se := true) hs hu (fun _ => ⟨hne, hne'⟩)) q

/-- **Searching never alters the annotation**: `eval` is a function of the query and the annotation (so
repeated searches agree) and every result only *refers* to a group of that same annotation, with that
group's real ancestors - nothing is rebuilt or modified. -/
theorem pure (q : Expr) (t : Tree) :
    ∀ r ∈ evalWith se q t, (⟨r.group, r.anc⟩ : GroupHit) ∈ allGroups t :=
  evalE_good t q false

/-- **Batch interface** (`search_hed_objs`): the cell of object `i` and query `j` of the factor table is 1
exactly when the object is non-empty and the single search `bool(queries[j].search(objs[i]))` is true. -/
theorem batch_eq_single (objs : List Tree) (queries : List Expr) (i j : Nat) (o : Tree) (q : Expr)
    (ho : objs[i]? = some o) (hq : queries[j]? = some q) :
    (searchObjs se objs queries)[i]?.bind (fun row => row[j]?) = some (cellOf se q o) := by
  have hi : i < objs.length := (List.getElem?_eq_some_iff.1 ho).1
  have hj : j < queries.length := (List.getElem?_eq_some_iff.1 hq).1
  unfold searchObjs
  simp only [List.getElem?_map, List.getElem?_range hi, List.getElem?_range hj, Option.map_some,
    Option.bind_some]
  congr 1
  unfold cellOf
  by_cases hc : o.truthy = true ∧ isMatchWith se q o = true
  · have : (i, j) ∈ setOps se objs queries := (mem_setOps objs queries i j).2 ⟨o, q, ho, hq, hc.1, hc.2⟩
    simp [List.contains_iff_mem, this, hc.1, hc.2]
  · have : (i, j) ∉ setOps se objs queries := by
      intro hm
      rcases (mem_setOps objs queries i j).1 hm with ⟨o', q', ho', hq', h1, h2⟩
      rw [ho] at ho'; rw [hq] at hq'
      simp only [Option.some.injEq] at ho' hq'
      subst ho' hq'
      exact hc ⟨h1, h2⟩
    simp only [List.contains_iff_mem, this, if_false]
    by_cases ht : o.truthy = true
    · have : isMatchWith se q o = false := by
        cases hm : isMatchWith se q o with
        | false => rfl
        | true => exact absurd ⟨ht, hm⟩ hc
      simp [ht, this]
    · simp [ht]

/-- **`get_query_handlers`**: one handler per query, present exactly when the query compiles; every query that
does not compile is reported as an issue. -/
theorem handlers_spec (queries : List Str) (names : Option (List Str)) (hs : List (Option Expr))
    (nm : List Str) (n : Nat) (h : getHandlers queries names = some (hs, nm, n)) :
    hs.length = queries.length ∧
    (∀ (i : Nat) (q : Str), queries[i]? = some q → hs[i]? = some (match parse q with | .ok e => some e | .error _ => none)) ∧
    (queries.filter (fun q => match parse q with | .ok _ => false | .error _ => true)).length ≤ n := by
  unfold getHandlers at h
  split at h
  · cases h
  · simp only [Option.some.injEq, Prod.mk.injEq] at h
    rcases h with ⟨rfl, _, rfl⟩
    refine ⟨by simp, ?_, ?_⟩
    · intro i q hq
      rw [List.getElem?_map, hq]; rfl
    · have : ∀ l : List Str,
          (l.filter (fun q => match parse q with | .ok _ => false | .error _ => true)).length =
          ((l.map (fun q => match parse q with | .ok e => some e | .error _ => none)).filter
            (fun h => h.isNone)).length := by
        intro l
        induction l with
        | nil => rfl
        | cons q qs ih =>
          simp only [List.filter_cons, List.map_cons]
          cases parse q <;> simp [ih]
      rw [this]; exact Nat.le_add_left _ _

/-- **Every query text either compiles or is rejected with a parse error**: the parser has no other way
to fail (every partial step of the Python code - the token index, the look-ahead - is an explicit check in
the model; the model's own recursion bound is never reached).  Holds for the code before the repair too. -/
theorem parse_total (s : Str) (lg : Bool) :
    (∃ e, parseWith lg s = .ok e) ∨ (∃ err, parseWith lg s = .error err ∧ err ≠ .fuel) := by
  cases h : parseWith lg s with
  | ok e => exact Or.inl ⟨e, rfl⟩
  | error err =>
    refine Or.inr ⟨err, rfl, ?_⟩
    rintro rfl
    exact parseToks_not_fuel lg _ h

/-- **Unbalanced grouping symbols are always rejected** (repaired code): if the symbols `( ) [ ] { }` of
the text are not properly nested, the query does not compile. -/
theorem unbalanced_rejected (s : Str) (h : ¬ Balanced (textBrs s)) :
    ∃ err, parse s = .error err ∧ err ≠ .fuel := by
  cases hp : parse s with
  | error err =>
    refine ⟨err, rfl, ?_⟩
    rintro rfl
    exact parseToks_not_fuel false _ hp
  | ok e =>
    exfalso
    apply h
    have := parseToks_balanced _ e hp
    unfold tokenizeWith at this
    have h2 := tokGo_brs (asciiFold s) false [] bufOK_nil
    simp only [Bool.false_eq_true, if_false] at h2
    rw [h2, asciiFold_brs] at this
    exact this

/-- conversely every compiled query has properly nested grouping symbols -/
theorem compiled_balanced (s : Str) (e : Expr) (h : parse s = .ok e) : Balanced (textBrs s) := by
  apply Decidable.byContradiction
  intro hb
  rcases unbalanced_rejected s hb with ⟨err, he, _⟩
  rw [h] at he; cases he

/-- **The code before the repair violates the clause**: a lone `)`, `]` or `}` compiled (the term branch of
`_handle_grouping_op` wrapped any token into a search term), and so did the legacy token `]]`. -/
theorem legacy_unbalanced_counterexample :
    (parseWith true [')'] = .ok (.term [')'] .terms false) ∧ ¬ Balanced (textBrs [')'])) ∧
    (parseWith true [']'] = .ok (.term [']'] .terms false) ∧ ¬ Balanced (textBrs [']'])) ∧
    (parseWith true ['}'] = .ok (.term ['}'] .terms false) ∧ ¬ Balanced (textBrs ['}'])) ∧
    (parseWith true [']', ']'] = .ok (.term [']', ']'] .terms false) ∧ ¬ Balanced (textBrs [']', ']'])) := by
  decide

/-! regression: the old witnesses are rejected by the repaired parser; well-formed queries still compile -/
example : parse [')'] = .error .unexpected := by decide
example : parse [']'] = .error .unexpected := by decide
example : parse ['}'] = .error .unexpected := by decide
example : parse ['&', '&'] = .error .unexpected := by decide
example : parse [':'] = .error .unexpected := by decide
example : parse ['~', '~'] = .error .unexpected := by decide
example : parse ['[', '['] = .error .nextToken := by decide
example : parse [']', ']'] = .error .unexpected := by decide
example : parse ['a', ' ', ')'] = .error .trailing := by decide
example : parse ['(', 'a'] = .error .missingParen := by decide
example : parse [] = .error .nextToken := by decide
example : parse ['[', '[', 'a', ']', ']'] = .ok (.desc (.desc (.term ['a'] .terms false))) := by decide
example : parse ['R', 'e', 'd'] = .ok (.term ['r', 'e', 'd'] .terms false) := by decide
example : parse ['"', 'R', 'e', 'd', '"'] = .ok (.term ['r', 'e', 'd'] .exact false) := by decide
example : parse ['r', 'e', '*'] = .ok (.term ['r', 'e'] .pref false) := by decide
example : parse ['{', 'a', ':', '~', 'b', '}'] = .error .negInExact := by decide
example : parse ['~', '?'] = .error .negWildcard := by decide
example : parse ['{', 'a', ',', 'b', ':', '}'] =
    .ok (.exactNone (.and (.term ['a'] .terms false) (.term ['b'] .terms false))) := by decide
example : parse ['a', '|', '|', 'b', '&', '&', '~', 'c'] =
    .ok (.or (.term ['a'] .terms false) (.and (.term ['b'] .terms false) (.neg (.term ['c'] .terms false)))) := by
  decide

/-- `(A, B), C, D` with unique ids -/
def demoTree : Tree :=
  ⟨0, [.group 1 true [.tag ⟨2, ['A'], ['a'], ['a'], [['a']]⟩, .tag ⟨3, ['B'], ['b'], ['b'], [['b']]⟩],
       .tag ⟨4, ['C'], ['c'], ['c'], [['c']]⟩, .tag ⟨5, ['D'], ['d'], ['d'], [['d']]⟩]⟩

/-! non-vacuity: `(a && c) && ??` matches `demoTree` (the three results sit on the top level: the group
    holding `A`, the tag `C`, the tag `D`); `NoEqualGroups` holds on it and fails on `(Red),(Red)` -/
example : NoEqualGroups demoTree := by unfold NoEqualGroups; decide
example : isMatch (.and (.and (.term ['a'] .terms false) (.term ['c'] .terms false)) (.wild .tags)) demoTree = true := by
  decide
example : isMatch (.and (.term ['a'] .terms false) (.term ['a'] .terms false)) demoTree = false := by decide

/-- `(R),(R)`: two distinct equal groups -/
def twinTree : Tree :=
  ⟨0, [.group 1 true [.tag ⟨2, ['R'], ['r'], ['r'], [['r']]⟩],
       .group 3 true [.tag ⟨4, ['R'], ['r'], ['r'], [['r']]⟩]]⟩

example : ¬ NoEqualGroups twinTree := by unfold NoEqualGroups; decide

/-- **The code before the repair of `has_same_tags` is not associative**: with `A = ~(~g && ~b)`, `B = ~y`,
`C = ~p` on `(R),(R)`, `(A && B) && C` matches and `A && (B && C)` does not (the result on the second of
the two equal groups is dropped as a "duplicate" of the first). -/
theorem legacy_assoc_counterexample :
    let nt (w : Char) : Expr := .neg (.term [w] .terms false)
    let A : Expr := .neg (.and (nt 'g') (nt 'b'))
    isMatchWith true (.and (.and A (nt 'y')) (nt 'p')) twinTree = true ∧
    isMatchWith true (.and A (.and (nt 'y') (nt 'p'))) twinTree = false := by
  decide

def tagN (i : Nat) (c : Char) : Query.Node := .tag ⟨i, [c], [c], [c], [[c]]⟩

/-- `((R),C),((R),S)` -/
def orderTree1 : Tree :=
  ⟨0, [.group 1 true [.group 2 true [tagN 3 'r'], tagN 4 'c'], .group 5 true [.group 6 true [tagN 7 'r'], tagN 8 's']]⟩
/-- `((R),S),((R),C)`: the same objects, top level reordered -/
def orderTree2 : Tree :=
  ⟨0, [.group 5 true [.group 6 true [tagN 7 'r'], tagN 8 's'], .group 1 true [.group 2 true [tagN 3 'r'], tagN 4 'c']]⟩

/-- **The code before the repair of `has_same_tags` depends on sibling order**: `[[~g && ~b] && s]` does not
match `((R),C),((R),S)` but matches the reordered `((R),S),((R),C)` (the `~g && ~b` result on the second `(R)`
is dropped as a "duplicate" of the one on the first, equal, group); the repaired code matches both. -/
theorem legacy_sibling_order_counterexample :
    let q : Expr := .desc (.and (.desc (.and (.neg (.term ['g'] .terms false)) (.neg (.term ['b'] .terms false))))
      (.term ['s'] .terms false))
    ShufT orderTree1 orderTree2 ∧ UniqueIds orderTree1 ∧
    isMatchWith true q orderTree1 = false ∧ isMatchWith true q orderTree2 = true ∧
    isMatch q orderTree1 = true ∧ isMatch q orderTree2 = true := by
  refine ⟨⟨rfl, ?_⟩, by unfold UniqueIds; decide, by decide, by decide, by decide, by decide⟩
  unfold orderTree1 orderTree2
  rw [ShufL]
  exact ⟨_, _, shuf_refl _, shufL_refl _, List.Perm.swap _ _ _⟩

example : UniqueIds demoTree := by unfold UniqueIds; decide

/-- the hypothesis of `exact_optional_equiv` is needed: on `(A,B)` the required part `??? || a` is fully
satisfied by the string itself (its only child is a group), so `{??? || a: b}` returns the (unliftable) string
and does not match, while `{(??? || a) && b:}` matches the group.  (Same on the real code:
`{??? || red: blue}` vs `{??? || red:} || {(??? || red) && blue:}` on `(Red,Blue)`.) -/
theorem exact_optional_counterexample :
    let A : Expr := .or (.wild .groups) (.term ['a'] .terms false)
    let B : Expr := .term ['b'] .terms false
    let t : Tree := ⟨0, [.group 1 true [tagN 2 'a', tagN 3 'b']]⟩
    isMatch (.exactOpt A B) t = false ∧ isMatch (.or (.exactNone A) (.exactNone (.and A B))) t = true := by
  decide

end HedVerif.C15
