-- GENERATED from hed/errors/error_reporter.py and error_types.py by harness/props/c12.py; do not edit
import HedVerif.Model.Tok
namespace HedVerif.Generated.C12

/-- `default_sort_list` in order, with the `int_sort_list` flag -/
def sortList : List (Str × Bool) := [
  ("ec_title".toList, false),
  ("ec_filename".toList, false),
  ("ec_sidecarColumnName".toList, false),
  ("ec_sidecarKeyName".toList, false),
  ("ec_row".toList, true),
  ("ec_column".toList, false),
  ("ec_line".toList, false),
  ("ec_section".toList, false),
  ("ec_schema_tag".toList, false),
  ("ec_attribute".toList, false)]

/-- the context names the property orders by: file, sidecar column, sidecar key, row -/
def specOrder : List Str := ["ec_filename".toList, "ec_sidecarColumnName".toList, "ec_sidecarKeyName".toList, "ec_row".toList]

end HedVerif.Generated.C12
