/- Line-protocol driver: one JSON request per line in, one JSON answer per line out.
   Unknown or malformed requests answer {"bad-op": msg}; the model never defaults. -/
import HedVerif.Driver.Util
import HedVerif.Driver.C01
import HedVerif.Driver.C02
import HedVerif.Driver.C03
import HedVerif.Driver.C04
import HedVerif.Driver.C05
import HedVerif.Driver.C06
import HedVerif.Driver.C07
import HedVerif.Driver.C08
import HedVerif.Driver.C09
import HedVerif.Driver.C10
import HedVerif.Driver.C11
import HedVerif.Driver.C12
import HedVerif.Driver.C13
import HedVerif.Driver.C14
import HedVerif.Driver.C15
import HedVerif.Driver.C16
import HedVerif.Driver.C17
import HedVerif.Driver.C18
import HedVerif.Driver.C19
import HedVerif.Driver.C20
import HedVerif.Driver.Closed
open Lean HedVerif.Driver

def handlers : List (String → Json → Option (Except String Json)) :=
  [HedVerif.Driver.C01.handle,
   HedVerif.Driver.C02.handle,
   HedVerif.Driver.C03.handle,
   HedVerif.Driver.C04.handle,
   HedVerif.Driver.C05.handle,
   HedVerif.Driver.C06.handle,
   HedVerif.Driver.C07.handle,
   HedVerif.Driver.C08.handle,
   HedVerif.Driver.C09.handle,
   HedVerif.Driver.C10.handle,
   HedVerif.Driver.C11.handle,
   HedVerif.Driver.C12.handle,
   HedVerif.Driver.C13.handle,
   HedVerif.Driver.C14.handle,
   HedVerif.Driver.C15.handle,
   HedVerif.Driver.C16.handle,
   HedVerif.Driver.C17.handle,
   HedVerif.Driver.C18.handle,
   HedVerif.Driver.C19.handle,
   HedVerif.Driver.C20.handle,
   HedVerif.Driver.Closed.handle]

/-- handlers that read or write the session state (installed vocabularies) -/
def ioHandlers : List (String → Json → Option (IO (Except String Json))) :=
  [HedVerif.Driver.C03.handleIO, HedVerif.Driver.C11.handleIO]

def dispatchIO (j : Json) : IO (Option Json) := do
  match getString j "op" with
  | .error _ => pure none
  | .ok op =>
    for h in ioHandlers do
      match h op j with
      | some act =>
        match ← act with
        | .ok r => return some r
        | .error e => return some (jobj [("bad-op", Json.str e)])
      | none => pure ()
    pure none

def dispatch (j : Json) : Json :=
  match getString j "op" with
  | .error e => jobj [("bad-op", Json.str e)]
  | .ok op =>
    let rec go : List (String → Json → Option (Except String Json)) → Json
      | [] => jobj [("bad-op", Json.str s!"unknown op {op}")]
      | h :: hs => match h op j with
        | some (.ok r) => r
        | some (.error e) => jobj [("bad-op", Json.str e)]
        | none => go hs
    go handlers

partial def loop (hin : IO.FS.Stream) (hout : IO.FS.Stream) : IO Unit := do
  let line ← hin.getLine
  if line.isEmpty then return ()
  let t := line.trimAscii.toString
  if t.isEmpty then loop hin hout else
  let out ← match Json.parse t with
    | .error e => pure (jobj [("bad-op", Json.str s!"json: {e}")])
    | .ok j => do
      match ← dispatchIO j with
      | some r => pure r
      | none => pure (dispatch j)
  hout.putStrLn out.compress
  loop hin hout

def main : IO Unit := do
  let hin ← IO.getStdin
  let hout ← IO.getStdout
  loop hin hout
  hout.flush
