/- Line-protocol driver: one JSON request per line in, one JSON answer per line out.
   Unknown or malformed requests answer {"bad-op": msg}; the model never defaults. -/
import HedVerif.Driver.Util
import HedVerif.Driver.C02
open Lean HedVerif.Driver

def handlers : List (String → Json → Option (Except String Json)) :=
  [HedVerif.Driver.C02.handle]

def dispatch (j : Json) : Json :=
  match getString j "op" with
  | .error e => jobj [("bad-op", Json.str e)]
  | .ok op =>
    let rec go : List (String → Json → Option (Except String Json)) → Json
      | [] => jobj [("bad-op", Json.str s!"unknown op {op}")]
      | h :: hs => match h op j with
        | some (.ok r) => r
        | some (.error e) => jobj [("bad-op", Json.str e)]
        | none => go hs
    go handlers

partial def loop (hin : IO.FS.Stream) (hout : IO.FS.Stream) : IO Unit := do
  let line ← hin.getLine
  if line.isEmpty then return ()
  let t := line.trimAscii.toString
  if t.isEmpty then loop hin hout else
  let out := match Json.parse t with
    | .error e => jobj [("bad-op", Json.str s!"json: {e}")]
    | .ok j => dispatch j
  hout.putStrLn out.compress
  loop hin hout

def main : IO Unit := do
  let hin ← IO.getStdin
  let hout ← IO.getStdout
  loop hin hout
  hout.flush
