#!/bin/bash
# usage: tools/mutant.sh <patch.diff> <Cxx> [tier]
# Applies a patch to a scratch copy of /repo (outside /repo and /verif), runs the check against it, removes it.
set -u
PATCH=$(realpath "$1"); PROP=$2; TIER=${3:-quick}
D=$(mktemp -d /tmp/hv_mut.XXXXXX)
rsync -a --exclude .git --exclude '__pycache__' /repo/ "$D/"
( cd "$D" && patch -p1 -s < "$PATCH" ) || { echo "patch failed"; rm -rf "$D"; exit 9; }
cd "$(dirname "$0")/.."
VERIF_REPO="$D" VERIF_EVIDENCE_DIR="$D/.evidence" ./check "$PROP" --tier "$TIER" 2>&1 | grep -v "WARNING conda" | tail -12
RC=${PIPESTATUS[0]}
rm -rf "$D"
./check --regen >/dev/null 2>&1   # Generated/*.lean back to what /repo says (the run above regenerated them from the scratch copy)
echo "mutant exit=$RC"
exit $RC
