#!/venv/bin/python
"""usage: tools/mkmut.py <relpath> <old> <new> <out.diff>   — make a one-replacement mutant patch of /repo (working tree untouched)"""
import difflib, sys
rel, old, new, out = sys.argv[1:5]
src = open(f"/repo/{rel}", newline="").read()
if "\r\n" in src:
    old, new = old.replace("\n", "\r\n"), new.replace("\n", "\r\n")
assert src.count(old) >= 1, "old text not found"
dst = src.replace(old, new, 1)
d = difflib.unified_diff(src.splitlines(True), dst.splitlines(True), f"a/{rel}", f"b/{rel}")
open(out, "w", newline="").write("".join(d))
print("wrote", out)
