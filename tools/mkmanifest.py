#!/venv/bin/python
"""Regenerate MANIFEST.json from tools/manifest_src.json (per-property texts) — keeps the file valid and uniform."""
import json, pathlib
root = pathlib.Path(__file__).resolve().parent.parent
src = json.loads((root / "tools" / "manifest_src.json").read_text())
base = json.load(open("/root/.vp/BASELINE.json"))
checks = []
for pid, c in sorted(src["checks"].items()):
    checks.append({
        "property_id": pid,
        "quick_cmd": f"./check {pid} --tier quick",
        "thorough_cmd": f"./check {pid} --tier thorough",
        "evidence_file": f"evidence/{pid}.json",
        "replay_cmd_template": f"./check {pid} --replay {{path}}",
        "engine": "lean-proofs+correspondence-harness",
        "level_claimed": {"category": "proof", "text": c["text"], "design_ref": c.get("design_ref", "DESIGN.md section 7 " + pid)},
        "level_note": c["note"],
        "technique": "Lean 4 theorems over an executable model + differential correspondence check against the implementation",
    })
m = {
    "version": 1,
    "setup_cmd": "./check --setup",
    "hooks": {
        "guard": "HED_PYTHON_VERIF",
        "enable": "none needed: all instrumentation (crash injection, scheduling, clocks) is applied from the harness by wrapping module attributes at run time; /repo carries no hook code",
        "baseline_off_cmd": base["cmd"],
        "source_commits": [],
        "add_only": True,
    },
    "engines": [
        {"name": "lean-proofs", "path": "lean/", "serves_properties": sorted(src["checks"]), "kind_free_text": "Lean 4 models (Model/), property theorems (Props/), native driver (Main.lean)"},
        {"name": "correspondence-harness", "path": "harness/", "serves_properties": sorted(src["checks"]), "kind_free_text": "Python generators/adapters/oracles that run the real hed code in-process and diff against the Lean driver"},
    ],
    "checks": checks,
    "notes": src["notes"],
    "not_applicable": [{"property_id": k, "reason": v} for k, v in sorted(src["not_applicable"].items())],
}
(root / "MANIFEST.json").write_text(json.dumps(m, indent=1) + "\n")
import jsonschema
jsonschema.validate(m, json.load(open("/root/.vp/MANIFEST.schema.json")))
print("MANIFEST.json written and valid:", len(checks), "checks,", len(m["not_applicable"]), "not claimed")
