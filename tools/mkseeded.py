#!/venv/bin/python
"""Regenerate seeded/README.md from seeded/*/meta.json."""
import json, pathlib
root = pathlib.Path(__file__).resolve().parent.parent
rows = []
for d in sorted((root / "seeded").iterdir()):
    m = d / "meta.json"
    if not m.exists():
        continue
    j = json.loads(m.read_text())
    oc = j.get("our_check", {})
    rows.append(f"| {d.name} | {j.get('property')} | {j.get('summary','').replace('|','/')[:220]} | "
                f"{j.get('needs_to_manifest','').replace('|','/')[:220]} | "
                f"{'caught, concrete replay' if oc.get('exit') == 1 and oc.get('concrete_replay') else ('caught (no-failing-input-found)' if oc.get('exit') == 1 else 'MISSED')} |")
text = ("# Independently seeded changes\n\nEach directory holds `patch.diff` (a change to hed-python written by a sub-agent that saw only the property text and a "
        "scratch worktree), `demo.py` (fails with the change, passes without) and `meta.json` (what it needs to manifest, what we ran). "
        "Confirmed by `tools/seedcheck.py`: demo exit 0 on the unchanged tree, exit 1 with the patch, pinned suite still `stable_missing=0`; then our "
        "check is run against the patched scratch copy.\n\n| id | property | change | needs to manifest | our check |\n|---|---|---|---|---|\n" + "\n".join(rows) + "\n")
(root / "seeded" / "README.md").write_text(text)
print(text[-1500:])
