#!/bin/bash
# run every registered quick check once (VERIF_SEED from env, default 0) and print one summary line each
cd "$(dirname "$0")/.."
for p in $(/venv/bin/python -c "import json;print(' '.join(c['property_id'] for c in json.load(open('MANIFEST.json'))['checks']))"); do
  out=$(./check $p --tier ${1:-quick} 2>&1 | grep -v "WARNING conda")
  rc=$?
  echo "$out" | grep -E "^(VIOLATION|TIMEOUT|HARNESS-ERROR|$p tier)" | cut -c1-200
done
