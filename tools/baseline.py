#!/venv/bin/python
"""Run the repository's pinned baseline suite (guard OFF) and compare with /root/.vp/BASELINE.json.
Exit 0 iff every stable_pass test passes."""
import json, os, subprocess, sys, tempfile
import xml.etree.ElementTree as ET

base = json.load(open("/root/.vp/BASELINE.json"))
stable = set(base["stable_pass"])
d = tempfile.mkdtemp(prefix="hedverif_base_")
out = os.path.join(d, "r.xml")
cmd = base["cmd"].replace("<file>", out)
if len(sys.argv) > 1:
    cmd = cmd.replace("cd /repo", "cd " + sys.argv[1])
env = dict(os.environ)
env.pop("HED_PYTHON_VERIF", None)
p = subprocess.run(cmd, shell=True, capture_output=True, text=True, env=env)
passed = set()
for tc in ET.parse(out).getroot().iter("testcase"):
    if not any(ch.tag in ("failure", "error", "skipped") for ch in tc):
        passed.add(f"{tc.get('classname')}::{tc.get('name')}")
missing = sorted(stable - passed)
print(f"stable={len(stable)} passed_now={len(passed)} stable_missing={len(missing)}")
for m in missing[:40]:
    print("  MISSING", m)
import shutil; shutil.rmtree(d, ignore_errors=True)
sys.exit(1 if missing else 0)
