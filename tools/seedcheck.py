#!/venv/bin/python
"""Confirm and file an independently written seeded change.
usage: tools/seedcheck.py <out_dir with patch.diff demo.py meta.json> <Cxx> <seed-id> [--tier quick]
Steps (all in a scratch copy of /repo outside /repo and /verif, removed afterwards):
  demo on the unchanged copy must exit 0; apply patch; demo must exit 1; pinned suite must keep stable_missing=0;
  our check Cxx run against the changed copy (VERIF_REPO) is expected to exit 1 with a VIOLATION line.
The change is kept under /verif/seeded/<seed-id>/ only if the first three confirmations hold."""
import json, os, shutil, subprocess, sys, tempfile
from pathlib import Path

ROOT = Path(__file__).resolve().parent.parent
out, prop, sid = Path(sys.argv[1]), sys.argv[2], sys.argv[3]
tier = sys.argv[5] if len(sys.argv) > 5 and sys.argv[4] == "--tier" else "quick"
d = Path(tempfile.mkdtemp(prefix="hv_seed_"))
res = {}
try:
    subprocess.run(["rsync", "-a", "--exclude", ".git", "--exclude", "__pycache__", "/repo/", str(d) + "/"], check=True)
    shutil.copy(out / "demo.py", d / "demo.py")
    env = dict(os.environ, PYTHONWARNINGS="ignore")
    r0 = subprocess.run(["/venv/bin/python", "demo.py"], cwd=d, capture_output=True, text=True, env=env, timeout=900)
    res["demo_unchanged_exit"] = r0.returncode
    ap = subprocess.run(["git", "apply", "--whitespace=nowarn", str((out / "patch.diff").resolve())], cwd=d, capture_output=True, text=True)
    if ap.returncode != 0:
        ap = subprocess.run(["patch", "-p1", "-s", "-i", str((out / "patch.diff").resolve())], cwd=d, capture_output=True, text=True)
    res["patch_applied"] = ap.returncode == 0
    r1 = subprocess.run(["/venv/bin/python", "demo.py"], cwd=d, capture_output=True, text=True, env=env, timeout=900)
    res["demo_changed_exit"] = r1.returncode
    res["demo_changed_output"] = (r1.stdout + r1.stderr).strip().splitlines()[-1:] if (r1.stdout + r1.stderr).strip() else []
    (d / "demo.py").unlink()
    b = subprocess.run([str(ROOT / "tools" / "baseline.py"), str(d)], capture_output=True, text=True)
    res["baseline"] = [l for l in b.stdout.splitlines() if l.startswith("stable=")][-1:] or [b.stdout[-200:]]
    res["baseline_ok"] = b.returncode == 0
    c = subprocess.run([str(ROOT / "check"), prop, "--tier", tier], cwd=ROOT, capture_output=True, text=True,
                       env=dict(os.environ, VERIF_REPO=str(d), VERIF_EVIDENCE_DIR=str(d / ".evidence")))
    lines = [l for l in c.stdout.splitlines() if "WARNING conda" not in l]
    res["check_exit"] = c.returncode
    res["check_lines"] = [l for l in lines if l.startswith("VIOLATION") or l.startswith("  clause") or l.startswith(prop)][:6]
    res["check_concrete"] = any(l.startswith("VIOLATION") and "no-failing-input-found" not in l for l in lines)
finally:
    shutil.rmtree(d, ignore_errors=True)
    # Generated/*.lean back to what /repo says (the check above regenerated them from the scratch copy)
    subprocess.run([str(ROOT / "check"), "--regen"], cwd=ROOT, capture_output=True, env={k: v for k, v in os.environ.items() if k != "VERIF_REPO"})
confirmed = res.get("demo_unchanged_exit") == 0 and res.get("patch_applied") and res.get("demo_changed_exit") == 1 and res.get("baseline_ok")
print(json.dumps(res, indent=1))
print("CONFIRMED" if confirmed else "NOT CONFIRMED", "| caught" if res.get("check_exit") == 1 else "| MISSED by check")
if confirmed:
    dest = ROOT / "seeded" / sid
    dest.mkdir(parents=True, exist_ok=True)
    shutil.copy(out / "patch.diff", dest / "patch.diff")
    shutil.copy(out / "demo.py", dest / "demo.py")
    meta = json.loads((out / "meta.json").read_text()) if (out / "meta.json").exists() else {}
    meta.update({"property": prop, "confirmed_by_us": {k: res[k] for k in ("demo_unchanged_exit", "demo_changed_exit", "baseline")},
                 "our_check": {"command": f"VERIF_REPO=<scratch copy with patch> ./check {prop} --tier {tier}", "exit": res["check_exit"],
                               "concrete_replay": res["check_concrete"], "lines": res["check_lines"]}})
    (dest / "meta.json").write_text(json.dumps(meta, indent=1) + "\n")
