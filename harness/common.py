"""Shared machinery of the checks: build, audit, model driver, evidence, findings, replay.

Every check is   regenerate -> lake build -> audit -> corpus -> correspondence + oracle -> classify
(DESIGN.md section 6).  Nothing here knows about a particular property.
"""
import fcntl
import hashlib
import json
import os
import random
import re
import shutil
import subprocess
import sys
import tempfile
import time
import traceback
from pathlib import Path

ROOT = Path(__file__).resolve().parent.parent
LEAN = ROOT / "lean"
REPO = Path(os.environ.get("VERIF_REPO", "/repo"))
EXE = LEAN / ".lake" / "build" / "bin" / "hedmodel"
ALLOWED_AXIOMS = {"propext", "Classical.choice", "Quot.sound"}
FORBIDDEN = re.compile(r"\b(sorry|admit|native_decide|bv_decide|implemented_by)\b|^\s*axiom\s|\bunsafe\s|maxHeartbeats\s+0\b")
TRUSTED_BASE = [
    "Lean 4.33.0 kernel (theorems); axioms limited to propext, Classical.choice, Quot.sound (audited each run)",
    "Lean compiler/runtime for executing the model in the driver",
    "the correspondence harness (generators, canonicalisers, adapters) and the finiteness of what it explores",
    "CPython, pandas, re, json, xml.etree semantics on the implementation side",
]


def use_repo():
    """Make `import hed` resolve to the tree under test."""
    p = str(REPO)
    if p not in sys.path:
        sys.path.insert(0, p)
    import warnings
    warnings.filterwarnings("ignore")
    import hed  # noqa
    got = Path(hed.__file__).resolve().parent.parent
    if got != REPO.resolve():
        raise HarnessError(f"hed imported from {got}, expected {REPO}")


# ------------------------------------------------------------------------------------------ build

class _Lock:
    def __enter__(self):
        self.f = open(LEAN / ".build.lock", "w")
        fcntl.flock(self.f, fcntl.LOCK_EX)
        return self

    def __exit__(self, *a):
        fcntl.flock(self.f, fcntl.LOCK_UN)
        self.f.close()


def lake_build(targets, timeout=1500, snapshot_exe=None):
    """Build the given lake targets (serialised by a file lock). Returns (ok, log).
    `snapshot_exe`: path to copy the freshly built driver to while the lock is still held (other builders sharing
    the project may re-link it at any time)."""
    with _Lock():
        p = subprocess.run(["lake", "build"] + list(targets), cwd=LEAN, capture_output=True, text=True,
                           timeout=timeout)
        if p.returncode == 0 and snapshot_exe and EXE.exists():
            shutil.copy2(EXE, snapshot_exe)
    log = "\n".join(l for l in (p.stdout + p.stderr).splitlines() if "WARNING conda" not in l)
    return p.returncode == 0, log


def import_closure(module):
    """files of this project reachable from a module through `import HedVerif.…` lines"""
    seen, todo = set(), [module]
    while todo:
        m = todo.pop()
        f = LEAN / (m.replace(".", "/") + ".lean")
        if m in seen or not f.exists():
            continue
        seen.add(m)
        todo += re.findall(r"^import (HedVerif\.\S+)", f.read_text(), flags=re.M)
    return {LEAN / (m.replace(".", "/") + ".lean") for m in seen}


def forbidden_scan(module=None):
    """grep the Lean sources for tokens that would weaken the trusted base; comment hits discarded.
    Scope: everything the property's theorems import, plus all executable code (Model/, Driver/, Main)."""
    hits = []
    files = set(LEAN.rglob("*.lean"))
    if module:
        files = import_closure(module) | set((LEAN / "HedVerif" / "Model").glob("*.lean")) | \
            set((LEAN / "HedVerif" / "Driver").glob("*.lean")) | set((LEAN / "HedVerif" / "Generated").glob("*.lean")) | \
            {LEAN / "Main.lean"}
    for f in sorted(files):
        if ".lake" in f.parts:
            continue
        text = f.read_text()
        # strip block comments and line comments
        text = re.sub(r"/-.*?-/", lambda m: "\n" * m.group(0).count("\n"), text, flags=re.S)
        for n, line in enumerate(text.splitlines(), 1):
            line = line.split("--", 1)[0]
            if FORBIDDEN.search(line):
                hits.append(f"{f.relative_to(LEAN)}:{n}: {line.strip()}")
    return hits


def audit(module, names, timeout=600):
    """#print axioms for every listed theorem. Returns {name: sorted axiom list | None (missing)}, log."""
    d = tempfile.mkdtemp(prefix="hedverif_audit_")
    try:
        src = f"import {module}\n" + "".join(f"#print axioms {n}\n" for n in names)
        fn = Path(d) / "Audit.lean"
        fn.write_text(src)
        p = subprocess.run(["lake", "env", "lean", str(fn)], cwd=LEAN, capture_output=True, text=True,
                           timeout=timeout)
        out = p.stdout + p.stderr
    finally:
        shutil.rmtree(d, ignore_errors=True)
    res = {n: None for n in names}
    for m in re.finditer(r"'([^']+)' depends on axioms: \[([^\]]*)\]", out, flags=re.S):
        res[m.group(1)] = sorted(a.strip() for a in m.group(2).replace("\n", " ").split(",") if a.strip())
    for m in re.finditer(r"'([^']+)' does not depend on any axioms", out):
        res[m.group(1)] = []
    return res, out


class Model:
    """The compiled Lean model behind the JSON line protocol (batch mode)."""

    def __init__(self):
        self.calls = 0
        self.exe = EXE

    def batch(self, requests, timeout=1200):
        if not requests:
            return []
        for _ in range(90):   # another builder may be re-linking the shared driver
            if Path(self.exe).exists():
                break
            time.sleep(1)
        else:
            raise HarnessError("model driver not built")
        data = "\n".join(json.dumps(r, ensure_ascii=True) for r in requests) + "\n"
        p = subprocess.run([str(self.exe)], input=data, capture_output=True, text=True, timeout=timeout)
        lines = [l for l in p.stdout.splitlines() if l.strip()]
        if p.returncode != 0 or len(lines) != len(requests):
            raise HarnessError(f"driver failed rc={p.returncode} answers={len(lines)}/{len(requests)} "
                               f"stderr={p.stderr[-500:]}")
        self.calls += len(requests)
        return [json.loads(l) for l in lines]


# --------------------------------------------------------------------------------------- findings

def load_findings():
    p = ROOT / "known_findings.json"
    if not p.exists():
        return []
    return json.loads(p.read_text())["findings"]


# ------------------------------------------------------------------------------------------ context

class HarnessError(RuntimeError):
    """a failure of our own machinery (model driver, import path), never of the implementation"""


class Timeout(Exception):
    pass


class Ctx:
    """State of one check run."""

    def __init__(self, prop, tier, seed, budget_s):
        self.prop, self.tier, self.seed = prop, tier, seed
        self.rng = random.Random(f"{prop}-{seed}")
        self.t0 = time.time()
        self.budget_s = budget_s
        self.model = Model()
        self.evaluations = 0
        self.nontrivial = set()
        self.hist = {}
        self.samples = []
        self.violations = []      # concrete property violations on the implementation
        self.disagreements = []   # model != implementation
        self.broken = []          # proof obligations / extractions that no longer check
        self.obligations = []     # (name, discharged?, axioms)
        self.notes = []
        self.extra = {}
        self.known = [f for f in load_findings() if f["property"] == prop]
        self.known_hit = {}

    # ---- bookkeeping
    def quick(self):
        return self.tier == "quick"

    def elapsed(self):
        return time.time() - self.t0

    def check_time(self):
        if self.elapsed() > self.budget_s:
            raise Timeout()

    def count(self, key, n=1):
        self.hist[key] = self.hist.get(key, 0) + n

    def case(self, canon, nontrivial=True, sample=None):
        """Register one evaluated case; `canon` is a hashable canonical form of the input."""
        self.evaluations += 1
        if nontrivial:
            self.nontrivial.add(hashlib.sha1(repr(canon).encode()).digest()[:8])
        if sample is not None and len(self.samples) < 8:
            self.samples.append(sample)

    # ---- outcomes
    def violation(self, clause, case, detail, signature=None):
        """The implementation breaks the property on `case` (concrete, replayable)."""
        self.violations.append({"clause": clause, "case": case, "detail": detail, "signature": signature})

    def disagree(self, what, case, model_out, impl_out):
        self.disagreements.append({"correspondence": what, "case": case, "model": model_out, "impl": impl_out})

    def obligation(self, name, ok, detail=""):
        self.obligations.append((name, bool(ok), detail))
        if not ok:
            self.broken.append({"obligation": name, "detail": detail[-2000:]})


def _digest(obj):
    return hashlib.sha1(json.dumps(obj, sort_keys=True, default=str).encode()).hexdigest()[:12]


def finalize(ctx, level_text=""):
    """Classify what was seen, print KNOWN-FINDING / VIOLATION lines, write evidence, return exit code."""
    new = []
    for v in ctx.violations:
        sig = v.get("signature")
        match = next((f for f in ctx.known if f.get("status") == "finding" and f["signature"] == sig), None) \
            if sig else None
        if match:
            ctx.known_hit.setdefault(sig, (match, v))
        else:
            new.append(v)
    for sig, (f, v) in sorted(ctx.known_hit.items()):
        print(f"KNOWN-FINDING: property={ctx.prop} {f['what']} [signature={sig}; witness={json.dumps(v['case'], default=str)[:200]}]")
    exit_code = 0
    (ROOT / "replays").mkdir(exist_ok=True)
    seen = set()
    for v in new:
        key = (v["clause"], v.get("signature"))
        if key in seen:
            continue
        seen.add(key)
        rp = ROOT / "replays" / f"{ctx.prop}-{_digest(v)}.json"
        rp.write_text(json.dumps({"property": ctx.prop, "kind": "violation", "seed": ctx.seed, **v}, indent=1, default=str))
        print(f"VIOLATION property={ctx.prop} replay={rp.relative_to(ROOT)}")
        print(f"  clause={v['clause']} case={json.dumps(v['case'], default=str)[:300]} detail={str(v['detail'])[:300]}")
        exit_code = 1
    if not new and (ctx.broken or ctx.disagreements):
        # the proof or the tie no longer checks, and the search found no concrete failing input
        rec = {"property": ctx.prop, "kind": "no-failing-input-found", "seed": ctx.seed,
               "broken_obligations": ctx.broken, "disagreements": ctx.disagreements[:5],
               "n_disagreements": len(ctx.disagreements)}
        rp = ROOT / "replays" / f"{ctx.prop}-{_digest(rec)}.json"
        rp.write_text(json.dumps(rec, indent=1, default=str))
        what = [b["obligation"] for b in ctx.broken] + sorted({d["correspondence"] for d in ctx.disagreements})
        print(f"  no longer checks: {', '.join(what)[:400]}")
        if ctx.disagreements:
            d = ctx.disagreements[0]
            print(f"  first divergence: {json.dumps(d, default=str)[:600]}")
        print(f"VIOLATION property={ctx.prop} replay={rp.relative_to(ROOT)} no-failing-input-found")
        exit_code = 1
    write_evidence(ctx, len(new) + (1 if exit_code and not new else 0))
    cleanup(ctx)
    return exit_code


def cleanup(ctx):
    if getattr(ctx, "scratch", None):
        shutil.rmtree(ctx.scratch, ignore_errors=True)


def write_evidence(ctx, n_viol):
    obl = len(ctx.obligations)
    dis = sum(1 for o in ctx.obligations if o[1])
    cov = {
        "obligations": obl,
        "discharged": dis,
        "checker_cmd": f"cd lean && lake build HedVerif.Props.{ctx.prop} && lake env lean <#print axioms of each listed theorem>",
        "trusted_base": TRUSTED_BASE,
        "obligation_names": [o[0] for o in ctx.obligations],
        "evaluations": ctx.evaluations,
        "distinct_nontrivial": len(ctx.nontrivial),
        "rule": ctx.extra.pop("rule", "distinct canonical inputs that reached a non-default branch"),
        "samples": ctx.samples[:8] or ["(none)"],
        "histogram": dict(sorted(ctx.hist.items())),
        "disagreements_checked": ctx.evaluations,
        "model_requests": ctx.model.calls,
        "known_findings_hit": sorted(ctx.known_hit),
        "broken": [b["obligation"] for b in ctx.broken],
        "n_disagreements": len(ctx.disagreements),
    }
    # keys the evidence schema types (EVIDENCE.schema.json) keep their type: a property-specific extra of another type is
    # stored under "<key>_detail" instead of overwriting them
    typed = {"evaluations": int, "distinct_nontrivial": int, "rule": str, "samples": list, "states": int, "transitions": int,
             "traces_validated_against_impl": int, "obligations": int, "discharged": int, "checker_cmd": str,
             "trusted_base": list, "programs": int, "disagreements_checked": int, "explanation": str, "exhaustive": bool}
    for k, v in ctx.extra.items():
        if k in typed and (not isinstance(v, typed[k]) or (typed[k] is int and isinstance(v, bool))):
            cov[k + "_detail"] = v
        else:
            cov[k] = v
    ev = {
        "property_id": ctx.prop, "tier": ctx.tier, "seed": ctx.seed, "level": "proof",
        "coverage": cov,
        "assumptions": ctx.notes,
        "wall_s": round(ctx.elapsed(), 2),
        "violations": n_viol,
    }
    # our own mutant/seed runs (tools/mutant.sh, tools/seedcheck.py) point VERIF_EVIDENCE_DIR at their scratch
    # directory so that the committed evidence always describes a run against /repo
    evdir = Path(os.environ.get("VERIF_EVIDENCE_DIR") or (ROOT / "evidence"))
    evdir.mkdir(exist_ok=True, parents=True)
    (evdir / f"{ctx.prop}.json").write_text(json.dumps(ev, indent=1, default=str) + "\n")


def standard_obligations(ctx, theorems, extra_targets=(), extra_audit=None):
    """Steps 1-2 of the decision procedure: build, forbidden-token scan, axiom audit."""
    module = f"HedVerif.Props.{ctx.prop}"
    ctx.scratch = tempfile.mkdtemp(prefix="hedverif_run_")
    snap = os.path.join(ctx.scratch, "hedmodel")
    extra_audit = list(extra_audit or [])
    ok, log = lake_build([module, "hedmodel", *extra_targets, *[m for m, _ in extra_audit]], snapshot_exe=snap)
    if os.path.exists(snap):
        ctx.model.exe = snap
    if not ok:
        # find which theorem failed, if we can
        m = re.findall(r"error: (\S+\.lean:\d+:\d+: .*)", log)
        ctx.obligation(f"build:{module}", False, "\n".join(m) or log)
        for t in theorems:
            ctx.obligation(t, False, "build failed")
        return False
    ctx.obligation(f"build:{module}", True)
    hits = forbidden_scan(module)
    ctx.obligation("forbidden-token-scan", not hits, "\n".join(hits))
    if ctx.tier == "thorough":
        # independent re-check of the compiled .olean files of the property's module by leanchecker
        p = subprocess.run(["lake", "env", "leanchecker", module], cwd=LEAN, capture_output=True, text=True, timeout=1800)
        lc = (p.stdout + p.stderr)
        ctx.obligation(f"leanchecker:{module}", p.returncode == 0 and "uncaught exception" not in lc, lc[-600:])
    res, out = audit(module, theorems)
    for t in theorems:
        ax = res.get(t)
        if ax is None:
            ctx.obligation(t, False, "theorem missing: " + out[-400:])
        elif not set(ax) <= ALLOWED_AXIOMS:
            ctx.obligation(t, False, f"axioms {ax}")
        else:
            ctx.obligation(t, True, ",".join(ax))
    # theorems of this property that live in another module (e.g. compositions with other properties' models)
    for emod, names in extra_audit:
        hits2 = forbidden_scan(emod)
        ctx.obligation(f"forbidden-token-scan:{emod}", not hits2, "\n".join(hits2))
        res2, out2 = audit(emod, names)
        for t in names:
            ax = res2.get(t)
            if ax is None:
                ctx.obligation(t, False, "theorem missing: " + out2[-400:])
            elif not set(ax) <= ALLOWED_AXIOMS:
                ctx.obligation(t, False, f"axioms {ax}")
            else:
                ctx.obligation(t, True, ",".join(ax))
    return True
