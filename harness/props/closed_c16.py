"""C16, closed mode — `BidsDataset(root).validate(check_for_warnings)` against `Bids.validateDatasetClosedRaw`.

Driver op `c16.closed` (lean/HedVerif/Driver/C16.lean; models lean/HedVerif/Model/ClosedDataset.lean and
ClosedDatasetRaw.lean): from the directory tree with the content of every file — the JSON of the sidecars, the header
and the raw cells of the events files — and the schema environment of the C01 model (our own XML reading, no
definitions: `BidsDataset.validate` passes none), Lean computes the participating files, the merged sidecar of each,
the issues of every participating sidecar (`SidecarV.validateClosed`) and of every participating events file
(`Tabular.validateClosedRaw`: assembly, file layer and string validator composed), labelled with their files, sidecars
first.  Nothing is recorded from, or built by, the real validator.

Compared with the real `BidsDataset.validate`: per file name, the complete sorted issue list
(sidecars: kind, code, severity, column, key; events files: code:kind, severity, ec_row, ec_column), and for fully
modelled trees the whole list.  Objects outside the closed fragment (a string outside the C01 model, a Delay group, a
sidecar declaring definitions, a frame that depends on the iteration order of the reference set, an onset spelling
off the 1/8 s grid, a malformed cell in a checked row) are answered `unmodelled`: the issues labelled with that file
name are skipped and counted.
"""
import collections
import json
import os
import shutil
import tempfile
import time

from harness.props import c01, c07, c08, closed_c07, closed_c08

BUDGET_S = 70
# sidecars that declare definitions (modelled: SidecarV.validateClosedD / Tabular.validateClosedRawD with the environment of
# each file's merged sidecar).  On by default; C16_DECLARE_DEFS=0 turns it off.
# Observation, not a violation: the definition issues of a sidecar are returned by the code without a file name
# (SidecarValidator.validate appends them without passing them through its handler).  Neither C16 ("exactly the issues of
# validating each merged sidecar ...": the lower-level Sidecar.validate returns the same unlabelled issue) nor C12 (no
# clause requires a file context) says otherwise, so such issues are counted, attributed to the sidecar whose closed
# result lists them, and compared like every other issue.  Any OTHER issue without a file name is a violation.
DECLARE = os.environ.get("C16_DECLARE_DEFS", "1") == "1"
EXCLUDED = ['sourcedata', 'derivatives', 'code', 'stimuli', 'phenotype']
CAT_VALUES = ["go", "stop", "1", "left", "n/a", "zz"]
VAL_VALUES = ["v1", "3", "w 3", "n/a", "7.5", "NA", "null", "None"]


def parse_tsv(text):
    """header and rows of cells of a generated TSV text (no quoting, no embedded tabs or newlines)"""
    lines = text.split("\n")
    if lines and lines[-1] == "":
        lines.pop()
    rows = [l.split("\t") for l in lines]
    return rows[0], rows[1:]


def gen_tsv(rng, g, uid):
    """an events table as text: columns in any order, sometimes no onset column, columns no sidecar describes,
    n/a and empty cells, onsets on the 1/8 s grid in several spellings"""
    n = rng.randint(1, 4)
    onsets = rng.sample(range(1, 60), n)
    if rng.random() < 0.7:
        onsets.sort()
    has_onset = rng.random() < 0.85
    hed = rng.random() < 0.5
    header = (["onset"] if has_onset else []) + (["duration"] if rng.random() < 0.8 else []) + \
        [c for c in closed_c08.NAMES if rng.random() < 0.45] + (["HED"] if hed else []) + \
        rng.sample(["trial", "sample"], rng.choice([0, 0, 1]))
    if not header:
        header = ["trial"]
    if rng.random() < 0.4:
        rng.shuffle(header)
    rows = []
    for t in onsets:
        row = []
        for c in header:
            u = rng.random()
            if c == "onset":
                row.append("n/a" if u < 0.05 else str(t // 8) if (t % 8 == 0 and u < 0.5) else str(t / 8))
            elif c == "duration":
                row.append(rng.choice(["n/a", "0.5", ""]))
            elif c == "HED":
                if u < 0.25:
                    row.append(rng.choice(["n/a", ""]))
                else:
                    uid[0] += 1
                    row.append(closed_c07.fragment(rng, g, uid[0], has_onset))
            elif c in ("trial", "sample"):
                row.append(str(rng.randint(1, 9)))
            else:
                row.append("" if u < 0.05 else rng.choice(CAT_VALUES) if u < 0.7 else rng.choice(VAL_VALUES))
        rows.append(row)
    return "\n".join("\t".join(r) for r in [header] + rows) + "\n", onsets


def gen_tree(rng, g):
    """-> files {relpath: JSON value | tsv text}, onsets {relpath: [eighths]}, excl, cfw"""
    from harness.props import c16
    subs = rng.sample(["01", "02"], rng.randint(1, 2))
    ses = rng.choice([None, None, "1"])
    tasks = rng.sample(["A", "B"], rng.randint(1, 2))
    uid = [rng.randint(0, 10 ** 6) * 10]
    files, onsets, data = {}, {}, []
    for s in subs:
        for t in tasks:
            if rng.random() < 0.25 and data:
                continue
            d = ["sub-" + s] + (["ses-" + ses] if ses else [])
            ents = [("sub", s)] + ([("ses", ses)] if ses else []) + [("task", t)]
            p = "/".join(d + [c16.data_name(ents)])
            files[p], onsets[p] = gen_tsv(rng, g, uid)
            data.append((tuple(d), ents))
    dirs = sorted({d[:i] for d, _ in data for i in range(len(d) + 1)})
    for d in dirs:
        if rng.random() >= (0.85 if not d else 0.45):
            continue
        below = [e for dd, e in data if dd[:len(d)] == d]
        ents = [kv for kv in rng.choice(below) if rng.random() < 0.35]
        if rng.random() < 0.1 and ents:
            ents[0] = (ents[0][0], "Z9")
        name = "_".join([f"{k}-{v}" for k, v in ents] + ["events"]) + ".json"
        files.setdefault("/".join(list(d) + [name]),
                         [1, 2] if rng.random() < 0.03 else closed_c08.gen_doc(rng, g, declare=DECLARE))
    excl = list(EXCLUDED)
    if rng.random() < 0.45:           # an excluded-name directory at any depth, with faulty content
        base = list(rng.choice(dirs)) + [rng.choice(["derivatives", "code", "stimuli", "mystuff"])]
        if base[-1] == "mystuff":
            excl.append("mystuff")
        files["/".join(base + ["events.json"])] = {"a": {"HED": {"go": "Greenish", "stop": "Red, Red"}}}
        dp = "/".join(base + [c16.data_name(rng.choice(data)[1])])
        files[dp] = "onset\tduration\tHED\n1.0\tn/a\tGreenish\n"
        onsets[dp] = [8]
    tree = {"files": files, "excl": excl, "cfw": rng.random() < 0.5}
    c16.make_unique(rng, tree)
    tree["onsets"] = onsets
    return tree


WITNESS = [
    # the deeper sidecar overrides column a with an unknown tag: only subject 1 is affected (and its sidecar)
    {"files": {"events.json": {"a": {"HED": {"go": "Red", "stop": "Blue"}}, "b": {"HED": "Label/#"}},
               "sub-01/sub-01_events.json": {"a": {"HED": {"go": "Greenish", "stop": "Red, {b}"}}},
               "sub-01/sub-01_task-A_events.tsv": "onset\tduration\ta\tb\tHED\n1.0\tn/a\tgo\tv1\tRed, Red\n2.0\tn/a\tstop\tn/a\tn/a\n",
               "sub-02/sub-02_task-A_events.tsv": "onset\tduration\ta\tb\n1.0\tn/a\tgo\tv1\n2.0\tn/a\tstop\tRed\n",
               "sub-02/code/events.json": {"a": {"HED": {"go": "Greenish"}}},
               "sub-02/code/sub-02_task-A_events.tsv": "onset\tduration\tHED\n1.0\tn/a\tGreenish\n"},
     "onsets": {"sub-01/sub-01_task-A_events.tsv": [8, 16], "sub-02/sub-02_task-A_events.tsv": [8, 16],
                "sub-02/code/sub-02_task-A_events.tsv": [8]},
     "excl": list(EXCLUDED), "cfw": True},
    # outside the closed fragment: a Delay group in an events file, a definition in a sidecar (skipped, counted)
    {"files": {"events.json": {"a": {"HED": {"go": "Red"}}, "defs": {"HED": {"d1": "(Definition/MyDef, (Blue))"}}},
               "sub-01/sub-01_task-A_events.tsv": "onset\tduration\ta\tHED\n1.0\tn/a\tgo\t(Delay/1 s, (Green))\n",
               "sub-02/sub-02_task-A_events.tsv": "onset\tduration\ta\n1.0\tn/a\tgo\n"},
     "onsets": {"sub-01/sub-01_task-A_events.tsv": [8], "sub-02/sub-02_task-A_events.tsv": [8]},
     "excl": list(EXCLUDED), "cfw": False},
]


def canon_real(issues):
    """issues of BidsDataset.validate grouped by file base name, in the models' observables; and the issues that carry
    no file name at all (sidecar observables, whether they belong to the definition family)"""
    out = collections.defaultdict(list)
    nameless = []
    for i in issues:
        if not i.get("ec_filename"):
            # the family of the observation: issues of definition extraction (all published as DEFINITION_INVALID) on an
            # entry that holds a Definition tag - with or without a name ("(Definition)" has no slash)
            family = str(i.get("code")) == "DEFINITION_INVALID" and \
                "definition" in str(getattr(i.get("ec_HedString"), "_hed_string", i.get("ec_HedString"))).casefold()
            nameless.append((c08.strip_kind([c08.canon_issue(i)])[0], family,
                             {k: str(v)[:80] for k, v in i.items() if k not in ("message", "_kw", "source_tag")}))
            continue
        name = os.path.basename(str(i["ec_filename"]))
        if name.lower().endswith(".json"):
            out[name].append(c08.strip_kind([c08.canon_issue(i)])[0])
        else:
            col = i.get("ec_column")
            out[name].append([i["code"] + ":" + str(i.get("_kind")), i["severity"],
                              -1 if i.get("ec_row") is None else i.get("ec_row"), "" if col is None else str(col)])
    return {k: sorted(v, key=c08.obs_key) for k, v in out.items()}, nameless


def canon_model_file(f, cfw):
    if f["kind"] == "sidecar":
        return [i for i in f["issues"] if cfw or i[2] < 10]
    return [[i[0], i[1], -1 if i[2] is None else i[2], "" if i[3] is None else i[3]] for i in f["issues"] if cfw or i[1] < 10]


def run_closed(ctx, trees=None):
    from hed.schema.hed_schema_entry import pluralize
    from hed.tools.bids.bids_dataset import BidsDataset
    from harness.props import c16
    t0 = time.time()
    c08.install_recorders()
    c08.tables()
    real = c07.Real()
    variant = c07.detect_variant(real)
    real.cleanup()
    v = c01.Vocab("8.3.0", pluralize.plural)
    v.defs = []                                   # BidsDataset.validate passes no external definitions
    g = c01.Gen(ctx.rng, v, pluralize.plural)
    if trees is None:
        n = 110 if ctx.quick() else 1500
        trees = [json.loads(json.dumps(w)) for w in WITNESS] + [gen_tree(ctx.rng, g) for _ in range(n)]
    base = tempfile.mkdtemp(prefix="hedverif_c16c_")
    try:
        for lo in range(0, len(trees), 40):
            chunk = trees[lo:lo + 40]
            roots, dirs = [], []
            for n, t in enumerate(chunk):
                root = os.path.realpath(os.path.join(base, f"c{lo + n}"))
                os.makedirs(root)
                c16.materialize(root, t["files"])
                d, _ = c16.nested(root, c08.enc)
                roots.append(root)
                dirs.append(d)
            reqs, texts = [], []
            for t, d in zip(chunk, dirs):
                tables = []
                for p, c in t["files"].items():
                    if isinstance(c, str) and p.lower().endswith(".tsv"):
                        header, rows = parse_tsv(c)
                        tables.append([p.split("/"), header, rows])
                texts.append(json.dumps(t["files"], ensure_ascii=False))
                reqs.append({"dir": d, "excluded": t["excl"], "types": ["events"], "cfw": t["cfw"], "tables": tables, "defs_modelled": DECLARE,
                             "maskByRow": variant["maskByRow"], "guardDelay": variant["guardDelay"]})
            chars = sorted({c for x in texts for c in x if ord(c) > 127})
            env = dict(v.payload(chars), **c01.detect_variant(), ns="")
            ans = ctx.model.batch([dict(env, op="c16.closed", trees=reqs)])[0]
            if "bad-op" in ans:
                raise RuntimeError("driver: " + str(ans["bad-op"]))
            for t, root, m in zip(chunk, roots, ans["answers"]):
                check_one(ctx, t, root, m, real.schema, BidsDataset)
            if time.time() - t0 > BUDGET_S and ctx.quick():
                ctx.count("closed:stopped-at-budget")
                break
            ctx.check_time()
    finally:
        shutil.rmtree(base, ignore_errors=True)
        real.cleanup()
    ctx.extra["closed_rule"] = ("closed dataset stream: 1-2 subjects x 0-1 sessions x 1-2 tasks, sidecars at any level from "
                                "closed C08's document generator (references, value and categorical columns, faults), events "
                                "cells from c01's conforming / injected-fault strings via closed C07's fragments, excluded-name "
                                "directories with faulty content; dataset issues computed inside Lean from the JSON and the raw "
                                "cells only (Assemble, Tabular, SidecarV, Validate composed inside Bids)")


def check_one(ctx, t, root, m, schema, BidsDataset):
    from hed.errors.exceptions import HedFileError
    case = {"closed": True, "files": t["files"], "onsets": t["onsets"], "excl": t["excl"], "cfw": t["cfw"]}
    ctx.count("closed:trees")
    try:
        ds = BidsDataset(root, schema=schema, exclude_dirs=list(t["excl"]))
        raw = ds.validate(check_for_warnings=t["cfw"])
    except HedFileError as e:
        if m.get("error") != e.code:
            ctx.disagree("validateDatasetClosed raises the HedFileError code", case, m.get("error"), e.code)
        return
    except Exception as e:
        ctx.violation("closed:dataset-validation-raised", case, f"{type(e).__name__}: {e}")
        return
    if "error" in m:
        ctx.disagree("validateDatasetClosed raises the HedFileError code", case, m["error"], None)
        return
    impl, nameless = canon_real(raw)
    by_name = collections.defaultdict(list)
    for f in m["files"]:
        by_name[os.path.basename(f["path"])].append(f)
    names_model = set(by_name)
    n_files = len(m["files"])
    ctx.case(("closed", json.dumps(case, sort_keys=True)), nontrivial=n_files >= 3)
    # no issue may carry the name of a file that does not take part
    for name in impl:
        if name not in names_model:
            ctx.violation("closed:issue-labelled-with-a-non-participating-file", case, {"file": name, "issues": impl[name][:4]})
    # an issue without any file name: the definition issues of a sidecar are appended by SidecarValidator.validate
    # without the FILE_NAME context (known family, classified); to compare the rest, give each such issue to a
    # participating sidecar whose model answer lists it
    if nameless:
        fam = [x for x in nameless if x[1]]
        other = [x for x in nameless if not x[1]]
        if fam:
            ctx.count("closed:observation:definition-issue-without-file-name", len(fam))
        if other:
            ctx.violation("closed:issue-without-file-name", case, {"issues": [x[2] for x in other][:4]})
        impl = {k: list(v) for k, v in impl.items()}
        # several participating sidecars may share a base name (`events.json` at several levels): what the model lists
        # for a name is the union over the files of that name
        listed = collections.defaultdict(list)
        for f in m["files"]:
            if f["kind"] == "sidecar" and "issues" in f:
                listed[os.path.basename(f["path"])] += canon_model_file(f, t["cfw"])
        for x, _, rawi in nameless:
            for nm, xs in listed.items():
                if xs.count(x) > impl.get(nm, []).count(x):
                    impl.setdefault(nm, []).append(x)
                    break
            else:
                if not any("unmodelled" in f for f in m["files"]):
                    ctx.disagree("an issue without file name belongs to a participating sidecar's closed result", case, None, rawi)
        impl = {k: sorted(v, key=c08.obs_key) for k, v in impl.items()}
    skipped = False
    for name, fs in by_name.items():
        ctx.count("closed:objects", len(fs))
        if any("unmodelled" in f for f in fs):
            skipped = True
            ctx.count("closed:objects-skipped-unmodelled", len(fs))
            for f in fs:
                if "unmodelled" in f:
                    ctx.count("closed:skipped:" + f["kind"] + ":" + f["unmodelled"])
            continue
        if any("raise" in f or "exc" in f for f in fs):
            ctx.disagree("validateDatasetClosedRaw: a per-file step raises", {**case, "file": name},
                         [f.get("raise") or f.get("exc") for f in fs], "issues")
            continue
        mine = sorted((i for f in fs for i in canon_model_file(f, t["cfw"])), key=c08.obs_key)
        theirs = impl.get(name, [])
        kind = fs[0]["kind"]
        ctx.count(f"closed:compared-{kind}", len(fs))
        if mine:
            ctx.count(f"closed:{kind}-with-issues", 1)
        if mine != theirs:
            ctx.disagree(f"validateDatasetClosedRaw = BidsDataset.validate ({kind}, complete list for the file name)",
                         {**case, "file": name}, [x for x in mine if x not in theirs][:6], [x for x in theirs if x not in mine][:6])
    if skipped:
        ctx.count("closed:trees-with-unmodelled-object")
        return
    ctx.count("closed:trees-compared-whole")
    if not isinstance(m["all"], list):
        ctx.disagree("validateDatasetClosed raises", case, m["all"], "issues")
        return
    # the whole list: concatenation of the per-file answers in dataset order, filtered by the flag, sidecars first
    concat = []
    for f in m["files"]:
        for i in f["issues"]:
            sev = i[2] if f["kind"] == "sidecar" else i[1]
            if t["cfw"] or sev < 10:
                concat.append([f["path"], f["kind"], i])
    if concat != m["all"]:
        ctx.disagree("validateDatasetClosed = concatenation of its per-file steps (driver)", case, m["all"][:4], concat[:4])
    kinds = [k for _, k, _ in m["all"]]
    if kinds != sorted(kinds, key=lambda k: k != "sidecar"):
        ctx.disagree("sidecar issues come first", case, kinds, None)
    if any("definition/" in json.dumps(c).casefold() for c in t["files"].values() if not isinstance(c, str)):
        ctx.count("closed:trees-with-declared-definitions")
    if len(m["all"]) != len(raw):
        ctx.disagree("validateDatasetClosed: number of issues", case, len(m["all"]), len(raw))
    ctx.count("closed:issues-empty" if not raw else "closed:issues-nonempty")
