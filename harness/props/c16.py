"""C16 — Each dataset file is validated with its inherited, merged sidecar.

Generated BIDS-style trees are written to a scratch directory; the real `BidsDataset` is run on them and
compared (a) with the Lean model `Bids.load/chain/mergeImpl` (discovery, parse errors, chains, merged
column dictionaries) and (b) with a direct oracle: an independent Python recomputation of the property's
merge, the issue list recomputed with the lower-level API (`Sidecar.validate`, `TabularInput.validate`)
from the oracle's merges, and the CLI exit status.
"""
import collections
import contextlib
import io
import json
import os
import shutil
import sys
import tempfile

THEOREMS = [
    "HedVerif.C16.applies_subset",
    "HedVerif.C16.applies_self",
    "HedVerif.C16.applies_eq_specApplies",
    "HedVerif.C16.chain_eq_specChain",
    "HedVerif.C16.merge_spec",
    "HedVerif.C16.specChain_depth_sorted",
    "HedVerif.C16.override",
    "HedVerif.C16.override_absent",
    "HedVerif.C16.override_impl",
    "HedVerif.C16.visible_false_iff",
    "HedVerif.C16.excluded",
    "HedVerif.C16.discover_visible",
    "HedVerif.C16.parseAll_error_iff",
    "HedVerif.C16.load_error_iff",
    "HedVerif.C16.exit_iff",
    "HedVerif.C16.exit_zero_iff",
    "HedVerif.C16.validate_composition",
    "HedVerif.C16.mergeImplOld_counterexample",
    "HedVerif.C16.exTree_unique",
    "HedVerif.C16.exGroup_is_load",
    "HedVerif.C16.exGroup_wellFormed",
]
BUDGET = {"quick": 900, "thorough": 3600}

DEFAULT_EXCL = ['sourcedata', 'derivatives', 'code', 'stimuli', 'phenotype']   # BidsDataset's default
CUSTOM_EXCL = "mystuff"
SIG_NONNESTED = "C16-nonnested-entity-chain"
TAGS = ["Red", "Blue", "Green", "Black", "White"]


# ------------------------------------------------------------------------------------------ generator

def gen_columns(rng, p_err):
    cols = {}
    if rng.random() < 0.7:
        cols["A"] = {"HED": {"x": rng.choice(TAGS), "y": rng.choice(TAGS)}}
    if rng.random() < 0.5:
        cols["B"] = {"HED": rng.choice(["Label/#", "ID/#"])}
    if rng.random() < 0.4:
        cols["C"] = {"HED": {"x": rng.choice(TAGS)}}
    if rng.random() < 0.3:
        cols["D"] = {"Description": "d" + str(rng.randint(0, 9)), "Levels": {"x": "level x"}}
    if rng.random() < p_err:
        k = rng.choice(["A", "C", "B"])
        cols[k] = {"HED": "Label"} if k == "B" else {"HED": {"x": "Redd"}}     # no '#' / unknown tag
    if not cols:
        cols["A"] = {"HED": {"x": rng.choice(TAGS)}}
    return cols


def gen_tsv(rng, p_err):
    cols = ["onset", "duration"] + [c for c in "ABCD" if rng.random() < 0.6]
    if rng.random() < 0.4:
        cols.append("HED")
    rows = [cols]
    t = 0.0
    for _ in range(rng.randint(1, 3)):
        t += rng.choice([0.5, 1.0, 2.5])
        row = []
        for c in cols:
            if c == "onset":
                row.append(str(t))
            elif c == "duration":
                row.append("n/a")
            elif c == "B":
                row.append(rng.choice(["lab1", "lab2", "n/a"]))
            elif c == "HED":
                row.append("Bluee" if rng.random() < p_err else rng.choice(["Red", "n/a", "Blue, Green"]))
            else:
                row.append(rng.choice(["x", "x", "y", "n/a"]) if c == "A" else rng.choice(["x", "n/a"]))
        rows.append(row)
    return "\n".join("\t".join(r) for r in rows) + "\n"


def data_name(ents):
    return "_".join(f"{k}-{v}" for k, v in ents) + "_events.tsv"


def gen_tree(rng):
    """-> {"files": {relpath: dict (json) | str (tsv text)}, "excl": [names], "cfw": bool, "malformed": code|None}"""
    p_err = rng.choice([0.0, 0.0, 0.1, 0.25])
    subs = rng.sample(["01", "02", "03"], rng.randint(1, 3))
    sess = rng.sample(["1", "2"], rng.randint(0, 2))
    tasks = rng.sample(["A", "B"], rng.randint(1, 2))
    runs = rng.sample(["1", "2"], rng.randint(1, 2))
    dtype = rng.choice([None, "eeg"])
    files = {}
    data = []          # (dir tuple, entity list)
    combos = [(s, se, t, r) for s in subs for se in (sess or [None]) for t in tasks for r in runs]
    keep = [c for c in combos if rng.random() < 0.6] or [rng.choice(combos)]
    for s, se, t, r in keep:
        d = ["sub-" + s] + (["ses-" + se] if se else []) + ([dtype] if dtype else [])
        ents = [("sub", s)] + ([("ses", se)] if se else []) + [("task", t), ("run", r)]
        files["/".join(d + [data_name(ents)])] = gen_tsv(rng, p_err / 2)
        data.append((tuple(d), ents))
    dirs = sorted({d[:i] for d, _ in data for i in range(len(d) + 1)})
    for d in dirs:
        if rng.random() >= (0.75 if not d else 0.4):
            continue
        below = [e for dd, e in data if dd[:len(d)] == d]
        for _ in range(rng.choice([1, 1, 1, 2])):
            ents = [kv for kv in rng.choice(below) if rng.random() < 0.4]
            suffix, ext = "events", ".json"
            kind = rng.random()
            if kind < 0.10 and ents:
                i = rng.randrange(len(ents))
                ents[i] = (ents[i][0], "Z9")                       # wrong value: not applicable
            elif kind < 0.15:
                ents.insert(rng.randint(0, len(ents)), ("acq", "x"))   # entity the data files lack
            elif kind < 0.19:
                suffix = rng.choice(["myevents", "channels"])      # 'myevents' is picked up, suffix differs
            elif kind < 0.22:
                ext = ".JSON"
            elif kind < 0.24:
                suffix = "x-events"                                # last piece key-value: suffix None
            name = "_".join([f"{k}-{v}" for k, v in ents] + [suffix]) + ext
            path = "/".join(list(d) + [name])
            if path not in files:
                files[path] = gen_columns(rng, p_err)
    # other directories: excluded names (root level or nested), a look-alike that is not excluded
    excl = list(DEFAULT_EXCL)
    malformed = None
    r = rng.random()
    if r < 0.65:
        name = rng.choice(['derivatives', 'code', 'sourcedata', 'stimuli', 'phenotype', CUSTOM_EXCL, CUSTOM_EXCL])
        if name == CUSTOM_EXCL and rng.random() < 0.8:
            excl.append(CUSTOM_EXCL)          # else: 'mystuff' exists but is not excluded
        where = [] if rng.random() < 0.5 else list(rng.choice(dirs[1:] or [()]))
        base = where + [name] + (["pipeline"] if rng.random() < 0.3 else [])
        ents = rng.choice(data)[1]
        files["/".join(base + [rng.choice(["events.json", "task-A_events.json"])])] = gen_columns(rng, 0.7)
        files["/".join(base + [data_name(ents)])] = gen_tsv(rng, 0.7)
        if rng.random() < 0.25:
            files["/".join(base + [rng.choice(["bad_events.json", "sub-01_a-b-c_events.tsv", "oops_x_events.tsv"])])] = {}
    elif r < 0.75:
        base = [rng.choice(["derivatives2", "mycode", "Code"])]     # not excluded (names are matched exactly)
        files["/".join(base + ["events.json"])] = gen_columns(rng, 0.5)
        files["/".join(base + [data_name(rng.choice(data)[1])])] = gen_tsv(rng, 0.5)
    if rng.random() < 0.05:                                         # a malformed visible name: construction raises
        d = list(rng.choice(dirs))
        nm, malformed = rng.choice([("sub-01_bad_events.json", "BadKeyValue"), ("sub-01_a-b-c_events.tsv", "BadSuffixPiece"),
                                    ("task_events.tsv", "BadKeyValue"), ("sub-01_x-y-z_events.json", "BadKeyValue"),
                                    ("sub-01__events.json", "BadKeyValue")])
        files["/".join(d + [nm])] = {} if nm.endswith(".json") else "onset\tduration\n1.0\tn/a\n"
    return {"files": files, "excl": excl, "cfw": rng.random() < 0.35}


# ------------------------------------------------------------------------------------------- oracle

def o_parse(path):
    """independent reading of a generated (well-formed) name: (dir tuple, suffix|None, entity dict)"""
    parts = path.split("/")
    stem = parts[-1].rsplit(".", 1)[0]
    pieces = stem.split("_")
    last = pieces[-1]
    ents = {}
    for p in pieces[:-1] + ([last] if "-" in last else []):
        k, v = p.split("-", 1)
        ents.setdefault(k, v)
    return tuple(parts[:-1]), (None if "-" in last else last), ents


def o_wellformed(name):
    stem = name.rsplit(".", 1)[0]
    pieces = stem.split("_")
    if not stem.strip() or pieces[-1].count("-") > 1 or not pieces[-1].strip():
        return False
    return all(p.count("-") == 1 for p in pieces[:-1])


def o_visible(path, excl):
    return not any(c in excl for c in path.split("/")[:-1])


def o_discover(files, excl, ext):
    out = []
    for p in files:
        low = p.split("/")[-1].lower()
        if o_visible(p, excl) and low.endswith(ext) and low[:-len(ext)].endswith("events"):
            out.append(p)
    return out


def o_applicable(s, o):
    (sd, ssfx, sents), (od, osfx, oents) = o_parse(s), o_parse(o)
    return ssfx == osfx and od[:len(sd)] == sd and all(oents.get(k) == v for k, v in sents.items())


def oracle(files, excl):
    """-> dict: sidecars, datafiles (visible), per object: applicable list sorted by depth, unique?, merge"""
    sc, df = o_discover(files, excl, ".json"), o_discover(files, excl, ".tsv")
    res = {"sidecars": sc, "datafiles": df, "obj": {},
           "malformed": [p for p in sc + df if not o_wellformed(p.split("/")[-1])]}
    if res["malformed"]:
        return res
    for o in sc + df:
        app = sorted((s for s in sc if o_applicable(s, o)), key=lambda s: s.count("/"))
        per_dir = collections.Counter(s.rsplit("/", 1)[0] if "/" in s else "" for s in app)
        merged = {}
        for s in app:
            merged.update(files[s])
        res["obj"][o] = {"chain": app, "unique": all(n <= 1 for n in per_dir.values()), "merged": merged}
    return res


def nested_chain(chain):
    ents = [o_parse(s)[2] for s in chain]
    return all(set(a.items()) <= set(b.items()) for a, b in zip(ents, ents[1:]))


# -------------------------------------------------------------------------------- implementation side

def canon(x):
    return json.dumps(x, sort_keys=True)


def issue_key(i):
    return (os.path.basename(str(i.get("ec_filename", ""))), i.get("code"), i.get("ec_row"), i.get("ec_column"),
            i.get("ec_sidecarColumnName"), i.get("ec_sidecarKeyName"))


def materialize(root, files):
    for p, c in files.items():
        fp = os.path.join(root, *p.split("/"))
        os.makedirs(os.path.dirname(fp), exist_ok=True)
        with open(fp, "w") as f:
            if isinstance(c, dict):
                json.dump(c, f)
            else:
                f.write(c)
    with open(os.path.join(root, "dataset_description.json"), "w") as f:
        json.dump({"Name": "generated", "BIDSVersion": "1.8.0", "HEDVersion": "8.3.0"}, f)


def listing(root):
    """the tree as the model sees it, in os.walk order (the order the implementation also sees)"""
    out = []
    for r, _dirs, fs in os.walk(root, topdown=True):
        rel = [] if os.path.realpath(r) == root else os.path.relpath(r, root).split(os.sep)
        for f in fs:
            content = None
            if f.lower().endswith(".json"):
                with open(os.path.join(r, f)) as fp:
                    content = json.load(fp)
            out.append({"path": rel + [f], "content": content})
    return out


def run_impl(root, excl, cfw, schema):
    from hed.tools.bids.bids_dataset import BidsDataset
    from hed.errors.exceptions import HedFileError
    rel = lambda p: os.path.relpath(p, root).replace(os.sep, "/")
    try:
        ds = BidsDataset(root, schema=schema, exclude_dirs=list(excl))
    except HedFileError as e:
        return {"error": e.code}
    grp = ds.get_tabular_group("events")
    out = {"error": None, "sidecars": {}, "datafiles": {}}
    for p, s in grp.sidecar_dict.items():
        out["sidecars"][rel(p)] = {"chain": [rel(x) for x in grp.get_sidecars_from_path(s)],
                                   "merged": s.contents.loaded_dict}
    for p, d in grp.datafile_dict.items():
        out["datafiles"][rel(p)] = {"chain": [rel(x) for x in grp.get_sidecars_from_path(d)],
                                    "merged": d.sidecar.contents.loaded_dict if d.sidecar else None}
    out["issues"] = sorted(map(issue_key, ds.validate(check_for_warnings=cfw)), key=repr)
    return out


def expected_issues(root, orc, cfw, schema):
    """the property's right-hand side with the lower-level API and the oracle's merges"""
    from hed.models.sidecar import Sidecar
    from hed.models.tabular_input import TabularInput
    from hed.errors.error_reporter import ErrorHandler
    out = []
    for s in orc["sidecars"]:
        sc = Sidecar(io.StringIO(json.dumps(orc["obj"][s]["merged"])), name=os.path.basename(s))
        out += sc.validate(schema, name=os.path.basename(s), error_handler=ErrorHandler(cfw))
    for d in orc["datafiles"]:
        o = orc["obj"][d]
        sc = Sidecar(io.StringIO(json.dumps(o["merged"])), name="merged") if o["chain"] else None
        fp = os.path.join(root, *d.split("/"))
        ti = TabularInput(file=fp, sidecar=sc, name=fp)
        out += ti.validate(schema, name=os.path.basename(d), error_handler=ErrorHandler(cfw))
    return sorted(map(issue_key, out), key=repr)


def run_cli(root, cfw):
    from hed.scripts import hed_validator
    argv = ["hed_validator", root] + (["--check-for-warnings"] if cfw else [])
    old = sys.argv
    sys.argv = argv
    try:
        with contextlib.redirect_stdout(io.StringIO()):
            return hed_validator.main()
    finally:
        sys.argv = old


# --------------------------------------------------------------------------------------------- check

def check_tree(ctx, tree, model, root, schema, exit_table):
    files, excl, cfw = tree["files"], tree["excl"], tree["cfw"]
    case = {"files": files, "excl": excl, "cfw": cfw}
    try:
        impl = run_impl(root, excl, cfw, schema)
    except Exception as e:
        ctx.violation("dataset-raised", case, f"{type(e).__name__}: {e}")
        return
    orc = oracle(files, excl)
    bad_names = orc["malformed"]
    # ---- malformed names: construction raises (model: load = error)
    if impl["error"] or "error" in model or bad_names:
        ctx.case(("err", canon(case)), nontrivial=True)
        ctx.count("tree-malformed-name")
        if model.get("error") != impl["error"]:
            ctx.disagree("Bids.load error = HedFileError code", case, model.get("error"), impl["error"])
        if bool(impl["error"]) != bool(bad_names):
            ctx.violation("malformed-visible-name-raises-iff", case, {"impl": impl["error"], "malformed": bad_names})
        return
    # ---- model = implementation: discovery, chains, merged dictionaries
    m_sc = {f["path"]: f for f in model["sidecars"]}
    m_df = {f["path"]: f for f in model["datafiles"]}
    if sorted(m_sc) != sorted(impl["sidecars"]) or sorted(m_df) != sorted(impl["datafiles"]):
        ctx.disagree("Bids.discover = get_file_list", case, [sorted(m_sc), sorted(m_df)],
                     [sorted(impl["sidecars"]), sorted(impl["datafiles"])])
    else:
        for kind, mm in (("sidecars", m_sc), ("datafiles", m_df)):
            for p, f in mm.items():
                i = impl[kind][p]
                want = f["merged"] if f["has_sidecar"] else None
                if f["chain"] != i["chain"]:
                    ctx.disagree("Bids.chain = get_sidecars_from_path", {**case, "file": p}, f["chain"], i["chain"])
                elif canon(want) != canon(i["merged"]):
                    ctx.disagree("Bids.mergeImpl = sidecar.contents.loaded_dict", {**case, "file": p}, want, i["merged"])
    # ---- oracle: discovery with excluded names
    if sorted(orc["sidecars"]) != sorted(impl["sidecars"]) or sorted(orc["datafiles"]) != sorted(impl["datafiles"]):
        ctx.violation("excluded-directories-take-no-part", case,
                      {"impl": [sorted(impl["sidecars"]), sorted(impl["datafiles"])],
                       "expected": [sorted(orc["sidecars"]), sorted(orc["datafiles"])]})
        return
    # ---- oracle: the merge of every applicable sidecar on the path
    all_unique = all(o["unique"] for o in orc["obj"].values())
    maxlen, override, nonnested, merge_bad = 0, False, False, False
    for kind in ("sidecars", "datafiles"):
        for p in orc[kind]:
            o, i = orc["obj"][p], impl[kind][p]
            if not o["unique"]:
                ctx.count("object-with-two-applicable-in-one-directory(model only)")
                continue
            maxlen = max(maxlen, len(o["chain"]))
            keys = [k for s in o["chain"] for k in files[s]]
            override |= len(keys) != len(set(keys))
            nonnested |= not nested_chain(o["chain"])
            want = o["merged"] if o["chain"] else None
            if canon(want) != canon(i["merged"]):
                mo = (m_sc.get(p) or m_df.get(p) or {})
                sig = SIG_NONNESTED if (kind == "datafiles" and not nested_chain(o["chain"]) and
                                        canon(mo.get("merged_old")) == canon(i["merged"])) else None
                merge_bad = True
                ctx.violation("sidecar-is-top-down-merge-of-every-applicable-file", {**case, "file": p},
                              {"impl": i["merged"], "expected": want, "applicable": o["chain"], "impl_chain": i["chain"]},
                              signature=sig)
    ctx.count(f"max-chain-{maxlen}")
    if nonnested:
        ctx.count("tree-with-non-nested-entity-chain")
    if override:
        ctx.count("tree-with-overridden-column")
    if any(not o_visible(p, excl) for p in files):
        ctx.count("tree-with-excluded-directory")
    ctx.case(canon(case), nontrivial=maxlen >= 2 and override,
             sample={"files": sorted(files), "excl": [e for e in excl if e not in DEFAULT_EXCL]} if maxlen >= 3 and len(files) <= 8 else None)
    if not all_unique:
        ctx.count("tree-ambiguous(model only)")
        return
    if merge_bad:          # issues and exit status of this tree follow from the wrong merge already reported
        return
    # ---- validation composition and exit status
    exp = expected_issues(root, orc, cfw, schema)
    ctx.count("issues-empty" if not exp else "issues-nonempty")
    if exp != impl["issues"]:
        ca, cb = collections.Counter(impl["issues"]), collections.Counter(exp)
        ctx.violation("dataset-issues-are-the-concatenation", case,
                      {"only_impl": [list(k) for k in (ca - cb)][:6], "only_expected": [list(k) for k in (cb - ca)][:6]})
    m_exit = exit_table[bool(impl["issues"])]
    if m_exit != int(bool(impl["issues"])):
        ctx.disagree("Bids.exitCode", case, m_exit, int(bool(impl["issues"])))
    # CLI: BidsDataset(path) with the default excluded names and the schema of dataset_description.json
    if excl == DEFAULT_EXCL:
        exp_cli = exp
    else:
        orc2 = oracle(files, DEFAULT_EXCL)
        if orc2["malformed"] or not all(o["unique"] for o in orc2["obj"].values()):
            return
        exp_cli = expected_issues(root, orc2, cfw, schema)
    try:
        rc = run_cli(root, cfw)
    except Exception as e:
        ctx.violation("cli-raised", case, f"{type(e).__name__}: {e}")
        return
    ctx.count(f"cli-exit-{rc}")
    if (rc != 0) != bool(exp_cli) or rc not in (0, 1):
        ctx.violation("cli-exit-nonzero-iff-issues", case, {"exit": rc, "expected_issues": len(exp_cli)})


def make_unique(rng, tree):
    """BIDS allows at most one applicable sidecar per directory: drop offenders (8 % of trees keep them and
    are compared with the model only, which records that the first listed one is used)."""
    if rng.random() < 0.08:
        return tree
    files = tree["files"]
    for _ in range(20):
        orc = oracle(files, tree["excl"])
        drop = None
        for p, o in orc["obj"].items():
            if not o["unique"]:
                seen = {}
                for s in o["chain"]:
                    d = s.rsplit("/", 1)[0] if "/" in s else ""
                    if d in seen:
                        drop = s
                        break
                    seen[d] = s
                if drop:
                    break
        if not drop:
            break
        del files[drop]
    return tree


def run_batch(ctx, trees, schema, exit_table):
    base = tempfile.mkdtemp(prefix="hedverif_c16_")
    try:
        roots, reqs = [], []
        for n, t in enumerate(trees):
            root = os.path.realpath(os.path.join(base, f"ds{n}"))
            os.makedirs(root)
            materialize(root, t["files"])
            roots.append(root)
            reqs.append({"op": "c16.group", "tree": listing(root), "excluded": t["excl"], "suffix": "events"})
        answers = ctx.model.batch(reqs)
        for t, root, a in zip(trees, roots, answers):
            if "bad-op" in a:
                raise RuntimeError(f"driver: {a}")
            check_tree(ctx, t, a, root, schema, exit_table)
            if len(ctx.violations) + len(ctx.disagreements) > 60:
                break
            ctx.check_time()
    finally:
        shutil.rmtree(base, ignore_errors=True)


def exit_table(ctx):
    """the model's exit code on an empty and on a non-empty issue list"""
    ex = ctx.model.batch([{"op": "c16.exit", "issues": []}, {"op": "c16.exit", "issues": [1]}])
    return {False: ex[0]["exit"], True: ex[1]["exit"]}


def run(ctx):
    from hed import load_schema_version
    schema = load_schema_version("8.3.0")
    ctx.extra["rule"] = ("generated BIDS trees (1-3 subjects x 0-2 sessions x 1-2 tasks x 1-2 runs, optional datatype "
                         "directory; sidecars at any directory level with any entity subset plus non-applicable ones; "
                         "excluded directory names at root or nested, look-alike names, malformed names); "
                         "non-trivial = some file has a chain of >= 2 sidecars and a column defined more than once")
    et = exit_table(ctx)
    corpus = [{"files": {"task-A_events.json": {"A": {"HED": {"x": "Red"}}, "B": {"HED": "Label/#"}},
                         "sub-01/sub-01_events.json": {"B": {"HED": "ID/#"}},
                         "sub-01/sub-01_task-A_events.tsv": "onset\tduration\tA\tB\n1.0\tn/a\tx\tlab1\n"},
               "excl": list(DEFAULT_EXCL), "cfw": False}]
    n = 220 if ctx.quick() else 3500
    trees = corpus + [make_unique(ctx.rng, gen_tree(ctx.rng)) for _ in range(n)]
    for lo in range(0, len(trees), 100):
        run_batch(ctx, trees[lo:lo + 100], schema, et)
        if len(ctx.violations) + len(ctx.disagreements) > 60:
            break
        ctx.check_time()


def replay(ctx, rec):
    from hed import load_schema_version
    schema = load_schema_version("8.3.0")
    case = rec.get("case") or (rec.get("disagreements") or [{}])[0].get("case")
    if not case:
        print("nothing to replay (obligation-only record):", rec.get("broken_obligations"))
        return
    run_batch(ctx, [{"files": case["files"], "excl": case["excl"], "cfw": case["cfw"]}], schema, exit_table(ctx))
    print("replayed", json.dumps(sorted(case["files"]))[:300])
