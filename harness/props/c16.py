"""C16 — Each dataset file is validated with its inherited, merged sidecar.

Generated BIDS-style trees are written to a scratch directory; the real `BidsDataset` is run on them and
compared
(a) with the Lean model: `Dir.files/getFileList/getDirDictionary` (traversal, filters, pruning), `Bids.load`
    (parse errors), `chain/chosenChain/mergeImpl` for every object of every tree (also trees with two applicable
    sidecars in one directory: first listed wins), `cliMain` (sidecar issues through the C08 model `SidecarV`
    with the string layer recorded by C08's instrumentation, table issues fed in from `TabularInput.validate`);
(b) with a direct oracle: an independent Python recomputation of the property's merge, the issue list recomputed
    with the lower-level API (`Sidecar.validate`, `TabularInput.validate`) from the oracle's merges, the
    warnings filter, and the CLI exit status / output destination for every format.
"""
import collections
import contextlib
import io
import json
import os
import shutil
import sys
import tempfile

THEOREMS = [
    "HedVerif.C16.applies_subset",
    "HedVerif.C16.applies_self",
    "HedVerif.C16.applies_eq_specApplies",
    "HedVerif.C16.chainAt_eq",
    "HedVerif.C16.chain_eq_chosenChain",
    "HedVerif.C16.merge_chosen",
    "HedVerif.C16.first_listed_wins",
    "HedVerif.C16.chosenChain_eq_specChain",
    "HedVerif.C16.chain_eq_specChain",
    "HedVerif.C16.merge_spec",
    "HedVerif.C16.load_files",
    "HedVerif.C16.isListingB_sound",
    "HedVerif.C16.specChain_depth_sorted",
    "HedVerif.C16.override",
    "HedVerif.C16.override_absent",
    "HedVerif.C16.override_impl",
    "HedVerif.C16.visible_false_iff",
    "HedVerif.C16.excluded",
    "HedVerif.C16.discover_visible",
    "HedVerif.C16.discover_spec",
    "HedVerif.C16.discover_mem",
    "HedVerif.C16.discover_order_independent",
    "HedVerif.C16.discover_eq_getFileList",
    "HedVerif.C16.walkers_agree_on_exclusion",
    "HedVerif.C16.prunes_by_name",
    "HedVerif.C16.walkers_agree",
    "HedVerif.C16.participation_spec",
    "HedVerif.C16.parseAll_error_iff",
    "HedVerif.C16.load_error_iff",
    "HedVerif.C16.exit_iff",
    "HedVerif.C16.exit_zero_iff",
    "HedVerif.C16.validate_composition",
    "HedVerif.C16.validate_obj",
    "HedVerif.C16.dataset_validate_eq",
    "HedVerif.C16.mergeChosen_eq_mergeSpec",
    "HedVerif.C16.cli_options",
    "HedVerif.C16.cli_spec",
    "HedVerif.C16.cli_exit_independent",
    "HedVerif.C16.cli_raises_iff",
    "HedVerif.C16.filterSev_false",
    "HedVerif.C16.mergeImplOld_counterexample",
    "HedVerif.C16.first_listed_example",
    "HedVerif.C16.exTree_unique",
    "HedVerif.C16.exTree_isListing",
    "HedVerif.C16.exGroup_is_load",
    "HedVerif.C16.exGroup_wellFormed",
]
BUDGET = {"quick": 900, "thorough": 3600}
# closed mode at dataset level: theorems of lean/HedVerif/Props/C16Closed.lean (stream: harness/props/closed_c16.py)
EXTRA_AUDIT = ("HedVerif.Props.C16Closed", [
    "HedVerif.C16.closed_is_instance",
    "HedVerif.C16.datasetClosed_is_instance",
    "HedVerif.C16.dataset_closed_is_union",
    "HedVerif.C16.dataset_closed_is_union_tree",
    "HedVerif.C16.sidecarClosed_total",
    "HedVerif.C16.group_closed_total",
    "HedVerif.C16.dataset_closed_total",
    "HedVerif.C16.dataset_closed_fileError",
    "HedVerif.C16.group_issue_file",
    "HedVerif.C16.excluded_files_silent",
    "HedVerif.C16.chain_map",
    "HedVerif.C16.file_judged_with_merged_sidecar_closed",
    "HedVerif.C16.two_subject_example_closed",
    "HedVerif.C16.raw_table_step",
    "HedVerif.C16.dataset_closed_raw_is_union",
    "HedVerif.C16.dataset_closed_raw_is_union_tree",
    "HedVerif.C16.dataset_closed_raw_total",
    "HedVerif.C16.excluded_files_silent_raw",
    "HedVerif.C16.file_judged_with_merged_sidecar_closed_raw",
    "HedVerif.C16.two_subject_example_closed_raw",
    "HedVerif.C16.sidecarOracleFor_validate",
    "HedVerif.C16.sidecarClosed_eq_closedD",
    "HedVerif.C16.inherited_definition_example_closed_raw",
    "HedVerif.C16.readCell_spec",
    "HedVerif.C16.readTable_header",
])


def _chars(s):
    return "[" + ", ".join("'" + ("\\'" if c == "'" else "\\\\" if c == "\\" else c) + "'" for c in s) + "]"


def extract_defaults():
    """defaults of BidsDataset.__init__ / BidsFileGroup.__init__ and the CLI's options -> Generated/C16Defaults.lean
    (read with ast; the model's CLI uses exactly these)"""
    import ast
    from harness.extract import GEN, write_if_changed
    from harness.common import REPO

    def init_defaults(rel, cls):
        tree = ast.parse((REPO / rel).read_text())
        c = next(n for n in tree.body if isinstance(n, ast.ClassDef) and n.name == cls)
        f = next(n for n in c.body if isinstance(n, ast.FunctionDef) and n.name == "__init__")
        names = [a.arg for a in f.args.args]
        return dict(zip(names[len(names) - len(f.args.defaults):], (ast.literal_eval(d) for d in f.args.defaults)))
    ds = init_defaults("hed/tools/bids/bids_dataset.py", "BidsDataset")
    fg = init_defaults("hed/tools/bids/bids_file_group.py", "BidsFileGroup")
    tree = ast.parse((REPO / "hed/scripts/hed_validator.py").read_text())
    opts = []
    for n in ast.walk(tree):
        if isinstance(n, ast.Call) and isinstance(n.func, ast.Attribute) and n.func.attr == "add_argument":
            opts.append([ast.literal_eval(a) for a in n.args])
    ctor = next(n for n in ast.walk(tree) if isinstance(n, ast.Call) and isinstance(n.func, ast.Name) and n.func.id == "BidsDataset")
    ctor_kw = sorted(k.arg for k in ctor.keywords)
    fmt = next(n for n in ast.walk(tree) if isinstance(n, ast.Call) and isinstance(n.func, ast.Attribute)
               and n.func.attr == "add_argument" and any(isinstance(a, ast.Constant) and a.value == "--format" for a in n.args))
    choices = ast.literal_eval(next(k.value for k in fmt.keywords if k.arg == "choices"))
    lst = lambda xs: "[" + ", ".join(_chars(x) for x in xs) + "]"
    # how an events file is read: the literal keyword arguments of the read_csv call in BaseInput, and pandas' own
    # default NA spellings when keep_default_na is set
    bi = ast.parse((REPO / "hed/models/base_input.py").read_text())
    rc = next(n for n in ast.walk(bi) if isinstance(n, ast.Call) and isinstance(n.func, ast.Attribute) and n.func.attr == "read_csv")
    kw = {k.arg: ast.literal_eval(k.value) for k in rc.keywords if k.arg in ("keep_default_na", "na_values", "dtype", "delimiter")
          and isinstance(k.value, (ast.Constant, ast.Tuple, ast.List))}
    na = set(kw.get("na_values") or ())
    if kw.get("keep_default_na", True):
        from pandas._libs.parsers import STR_NA_VALUES
        na |= set(STR_NA_VALUES)
    na = sorted(na)
    text = ("/- GENERATED by harness/props/c16.py (extract_defaults) from hed/tools/bids/bids_dataset.py,\n"
            "   hed/tools/bids/bids_file_group.py and hed/scripts/hed_validator.py.  Do not edit. -/\n"
            "namespace HedVerif.Generated.C16\n\n"
            f"/-- `BidsDataset.__init__(exclude_dirs=...)` -/\ndef datasetExcludeDirs : List (List Char) := {lst(ds['exclude_dirs'])}\n"
            f"/-- `BidsDataset.__init__(tabular_types=...)` -/\ndef datasetTabularTypes : List (List Char) := {lst(ds['tabular_types'])}\n"
            f"/-- `BidsFileGroup.__init__(exclude_dirs=...)` (used only when the group is built directly) -/\n"
            f"def groupExcludeDirs : List (List Char) := {lst(fg['exclude_dirs'])}\n"
            f"/-- option strings of the CLI, one list per `add_argument` -/\ndef cliOptions : List (List (List Char)) := "
            f"[{', '.join(lst(o) for o in opts)}]\n"
            f"/-- `--format` choices -/\ndef cliFormats : List (List Char) := {lst(choices)}\n"
            f"/-- keyword arguments the CLI passes to `BidsDataset(path, ...)` (none: all defaults) -/\n"
            f"def cliDatasetKeywords : List (List Char) := {lst(ctor_kw)}\n"
            f"/-- cells that `BaseInput` reads as missing and replaces by \"n/a\": `na_values` of its `read_csv` call"
            f" and pandas' default NA spellings (`keep_default_na`), then `fillna(\"n/a\")` -/\n"
            f"def fileNaValues : List (List Char) := {lst(na)}\n\nend HedVerif.Generated.C16\n")
    write_if_changed(GEN / "C16Defaults.lean", text)


EXTRACT = [extract_defaults]

DEFAULT_EXCL = ['sourcedata', 'derivatives', 'code', 'stimuli', 'phenotype']   # BidsDataset's default
CUSTOM_EXCL = "mystuff"
SIG_NONNESTED = "C16-nonnested-entity-chain"
TAGS = ["Red", "Blue", "Green", "Black", "White"]
WARNING = 10


# ------------------------------------------------------------------------------------------ generator

def gen_columns(rng, p_err):
    cols = {}
    if rng.random() < 0.7:
        cols["A"] = {"HED": {"x": rng.choice(TAGS), "y": rng.choice(TAGS)}}
    if rng.random() < 0.5:
        cols["B"] = {"HED": rng.choice(["Label/#", "ID/#"])}
    if rng.random() < 0.4:
        cols["C"] = {"HED": {"x": rng.choice(TAGS)}}
    if rng.random() < 0.3:
        cols["D"] = {"Description": "d" + str(rng.randint(0, 9)), "Levels": {"x": "level x"}}
    if rng.random() < p_err:
        k = rng.choice(["A", "C", "B"])
        cols[k] = {"HED": "Label"} if k == "B" else {"HED": {"x": "Redd"}}     # no '#' / unknown tag
    if not cols:
        cols["A"] = {"HED": {"x": rng.choice(TAGS)}}
    return cols


def gen_tsv(rng, p_err):
    cols = ["onset", "duration"] + [c for c in "ABCD" if rng.random() < 0.6]
    if rng.random() < 0.4:
        cols.append("HED")
    rows = [cols]
    t = 0.0
    for _ in range(rng.randint(1, 3)):
        t += rng.choice([0.5, 1.0, 2.5])
        row = []
        for c in cols:
            if c == "onset":
                row.append(str(t))
            elif c == "duration":
                row.append("n/a")
            elif c == "B":
                row.append(rng.choice(["lab1", "lab2", "n/a"]))
            elif c == "HED":
                row.append("Bluee" if rng.random() < p_err else rng.choice(["Red", "n/a", "Blue, Green"]))
            else:
                row.append(rng.choice(["x", "x", "y", "n/a"]) if c == "A" else rng.choice(["x", "n/a"]))
        rows.append(row)
    return "\n".join("\t".join(r) for r in rows) + "\n"


def data_name(ents):
    return "_".join(f"{k}-{v}" for k, v in ents) + "_events.tsv"


def gen_tree(rng):
    """-> {"files": {relpath: JSON value (.json) | str (tsv text)}, "excl": [names], "cfw": bool}"""
    p_err = rng.choice([0.0, 0.0, 0.1, 0.25])
    subs = rng.sample(["01", "02", "03"], rng.randint(1, 3))
    sess = rng.sample(["1", "2"], rng.randint(0, 2))
    tasks = rng.sample(["A", "B"], rng.randint(1, 2))
    runs = rng.sample(["1", "2"], rng.randint(1, 2))
    dtype = rng.choice([None, "eeg"])
    files = {}
    data = []          # (dir tuple, entity list)
    combos = [(s, se, t, r) for s in subs for se in (sess or [None]) for t in tasks for r in runs]
    keep = [c for c in combos if rng.random() < 0.6] or [rng.choice(combos)]
    for s, se, t, r in keep:
        d = ["sub-" + s] + (["ses-" + se] if se else []) + ([dtype] if dtype else [])
        ents = [("sub", s)] + ([("ses", se)] if se else []) + [("task", t), ("run", r)]
        files["/".join(d + [data_name(ents)])] = gen_tsv(rng, p_err / 2)
        data.append((tuple(d), ents))
    dirs = sorted({d[:i] for d, _ in data for i in range(len(d) + 1)})
    for d in dirs:
        if rng.random() >= (0.75 if not d else 0.4):
            continue
        below = [e for dd, e in data if dd[:len(d)] == d]
        for _ in range(rng.choice([1, 1, 1, 2])):
            ents = [kv for kv in rng.choice(below) if rng.random() < 0.4]
            suffix, ext = "events", ".json"
            kind = rng.random()
            if kind < 0.10 and ents:
                i = rng.randrange(len(ents))
                ents[i] = (ents[i][0], "Z9")                       # wrong value: not applicable
            elif kind < 0.15:
                ents.insert(rng.randint(0, len(ents)), ("acq", "x"))   # entity the data files lack
            elif kind < 0.19:
                suffix = rng.choice(["myevents", "channels"])      # 'myevents' is picked up, suffix differs
            elif kind < 0.22:
                ext = ".JSON"
            elif kind < 0.24:
                suffix = "x-events"                                # last piece key-value: suffix None
            name = "_".join([f"{k}-{v}" for k, v in ents] + [suffix]) + ext
            path = "/".join(list(d) + [name])
            if path not in files:
                # 3 %: a JSON file whose top level is not an object (skipped by the merge, reported by validation)
                files[path] = rng.choice([[1, 2], [], 7]) if rng.random() < 0.03 else gen_columns(rng, p_err)
    # other directories, 0-3 per tree, at every depth (root, sub-, sub-/ses-, datatype): excluded names, a
    # user-supplied excluded name, look-alikes whose name merely contains an excluded name, and user-supplied
    # entries that are relative *paths* of existing directories (a name never equals a path: they exclude nothing)
    excl = list(DEFAULT_EXCL)
    if rng.random() < 0.3:
        excl.append(CUSTOM_EXCL)
    for _ in range(rng.choice([0, 1, 1, 2, 2, 3])):
        name = rng.choice(['derivatives', 'code', 'sourcedata', 'stimuli', 'phenotype', CUSTOM_EXCL, CUSTOM_EXCL,
                           'code2', 'mycode', 'Code', 'derivatives2'])
        where = list(rng.choice(dirs))                     # () = root, else any directory on a data path
        base = where + [name] + (["pipeline"] if rng.random() < 0.3 else [])
        ents = rng.choice(data)[1]
        bad = rng.random() < 0.6                            # seeded errors or valid content
        sname = rng.choice(["events.json", "task-A_events.json", "_".join(f"{k}-{v}" for k, v in ents[:1]) + "_events.json"])
        files.setdefault("/".join(base + [sname]), gen_columns(rng, 0.9 if bad else 0.0))
        files.setdefault("/".join(base + [data_name(ents)]), gen_tsv(rng, 0.9 if bad else 0.0))
        if rng.random() < 0.2:
            files.setdefault("/".join(base + [rng.choice(["bad_events.json", "sub-01_a-b-c_events.tsv", "oops_x_events.tsv"])]), {})
        if rng.random() < 0.25:
            excl.append("/".join(base[:len(where) + 1]))    # e.g. 'sub-01/mycode' or 'derivatives': by name only
    if rng.random() < 0.15 and len(dirs) > 1:
        excl.append("/".join(rng.choice(dirs[1:])))         # path of a real data directory, e.g. 'sub-01/ses-1'
    if rng.random() < 0.05:                                         # a malformed visible name: construction raises
        d = list(rng.choice(dirs))
        nm = rng.choice(["sub-01_bad_events.json", "sub-01_a-b-c_events.tsv", "task_events.tsv",
                         "sub-01_x-y-z_events.json", "sub-01__events.json"])
        files["/".join(d + [nm])] = {} if nm.endswith(".json") else "onset\tduration\n1.0\tn/a\n"
    return {"files": files, "excl": excl, "cfw": rng.random() < 0.35,
            "format": rng.choice(["text", "text", "json", "json_pp"]), "output": rng.random() < 0.4}


# ------------------------------------------------------------------------------------------- oracle

def o_parse(path):
    """independent reading of a generated (well-formed) name: (dir tuple, suffix|None, entity dict)"""
    parts = path.split("/")
    stem = parts[-1].rsplit(".", 1)[0]
    pieces = stem.split("_")
    last = pieces[-1]
    ents = {}
    for p in pieces[:-1] + ([last] if "-" in last else []):
        k, v = p.split("-", 1)
        ents.setdefault(k, v)
    return tuple(parts[:-1]), (None if "-" in last else last), ents


def o_wellformed(name):
    stem = name.rsplit(".", 1)[0]
    pieces = stem.split("_")
    if not stem.strip() or pieces[-1].count("-") > 1 or not pieces[-1].strip():
        return False
    return all(p.count("-") == 1 for p in pieces[:-1])


def o_visible(path, excl):
    return not any(c in excl for c in path.split("/")[:-1])


def o_discover(files, excl, ext):
    out = []
    for p in files:
        low = p.split("/")[-1].lower()
        if o_visible(p, excl) and low.endswith(ext) and low[:-len(ext)].endswith("events"):
            out.append(p)
    return out


def o_applicable(s, o):
    (sd, ssfx, sents), (od, osfx, oents) = o_parse(s), o_parse(o)
    return ssfx == osfx and od[:len(sd)] == sd and all(oents.get(k) == v for k, v in sents.items())


def o_dir(p):
    return p.rsplit("/", 1)[0] if "/" in p else ""


def oracle(files, excl, order=None):
    """-> sidecars, datafiles (visible); per object: every applicable sidecar sorted by depth, unique?, the merge of
    all of them (the property), and — for any tree — the chosen chain (first in listing order per directory)"""
    sc, df = o_discover(files, excl, ".json"), o_discover(files, excl, ".tsv")
    res = {"sidecars": sc, "datafiles": df, "obj": {},
           "malformed": [p for p in sc + df if not o_wellformed(p.split("/")[-1])]}
    if res["malformed"]:
        return res
    pos = {p: i for i, p in enumerate(order or sorted(files))}
    for o in sc + df:
        app = sorted((s for s in sc if o_applicable(s, o)), key=lambda s: (s.count("/"), pos.get(s, 0)))
        per_dir = collections.Counter(o_dir(s) for s in app)
        chosen, seen = [], set()
        for s in app:
            if o_dir(s) not in seen:
                seen.add(o_dir(s))
                chosen.append(s)
        merged, merged_chosen = {}, {}
        for s in app:
            if isinstance(files[s], dict):
                merged.update(files[s])
        for s in chosen:
            if isinstance(files[s], dict):
                merged_chosen.update(files[s])
        res["obj"][o] = {"chain": app, "unique": all(n <= 1 for n in per_dir.values()), "merged": merged,
                         "chosen": chosen, "merged_chosen": merged_chosen,
                         "nonobj": [s for s in chosen if not isinstance(files[s], dict)]}
    return res


def nested_chain(chain):
    ents = [o_parse(s)[2] for s in chain]
    return all(set(a.items()) <= set(b.items()) for a, b in zip(ents, ents[1:]))


def o_check_filename(name, prefixes, suffixes, exts):
    """independent statement of the filter: some (non-empty) prefix / the first listed matching extension / some suffix"""
    low = name.lower()
    if prefixes:
        m = [p.lower() for p in prefixes if low.startswith(p.lower())]
        if not m or not m[0]:
            return False
    if exts:
        m = [e.lower() for e in exts if low.endswith(e.lower())]
        if not m or not m[0]:
            return False
        low = low[:len(low) - len(m[0])]
    else:
        low = os.path.splitext(low)[0]
    if suffixes:
        m = [s.lower() for s in suffixes if low.endswith(s.lower())]
        if not m or not m[0]:
            return False
    return True


# -------------------------------------------------------------------------------- implementation side

def canon(x):
    return json.dumps(x, sort_keys=True)


def issue_key(i):
    return (os.path.basename(str(i.get("ec_filename", ""))), i.get("code"), i.get("ec_row"), i.get("ec_column"),
            i.get("ec_sidecarColumnName"), i.get("ec_sidecarKeyName"))


def short_key(i):
    return (os.path.basename(str(i.get("ec_filename", ""))), i.get("code"), i.get("severity"))


def materialize(root, files):
    for p, c in files.items():
        fp = os.path.join(root, *p.split("/"))
        os.makedirs(os.path.dirname(fp), exist_ok=True)
        with open(fp, "w") as f:
            if isinstance(c, str):
                f.write(c)
            else:
                json.dump(c, f)
    with open(os.path.join(root, "dataset_description.json"), "w") as f:
        json.dump({"Name": "generated", "BIDSVersion": "1.8.0", "HEDVersion": "8.3.0"}, f)


def nested(root, enc):
    """the directory tree as the model sees it: files and sub-directories in os.walk (= scandir) order;
    also the flat list of relative paths in walk order"""
    nodes, order = {}, []
    top = None
    for r, dirs, fs in os.walk(root, topdown=True):
        node = nodes.setdefault(r, {"f": [], "d": []})
        if top is None:
            top = node
        rel = [] if r == root else os.path.relpath(r, root).split(os.sep)
        for f in fs:
            order.append("/".join(rel + [f]))
            if f.lower().endswith(".json"):
                with open(os.path.join(r, f)) as fp:
                    node["f"].append([f, enc(json.load(fp))])
            else:
                node["f"].append([f])
        for d in dirs:
            child = nodes.setdefault(os.path.join(r, d), {"f": [], "d": []})
            node["d"].append([d, child])
    return top, order


def run_impl(root, excl, cfw, schema):
    from hed.tools.bids.bids_dataset import BidsDataset
    from hed.errors.exceptions import HedFileError
    rel = lambda p: os.path.relpath(p, root).replace(os.sep, "/")
    try:
        ds = BidsDataset(root, schema=schema, exclude_dirs=list(excl))
    except HedFileError as e:
        return {"error": e.code}
    grp = ds.get_tabular_group("events")
    out = {"error": None, "sidecars": {}, "datafiles": {}}
    for p, s in grp.sidecar_dict.items():
        out["sidecars"][rel(p)] = {"chain": [rel(x) for x in grp.get_sidecars_from_path(s)],
                                   "merged": s.contents.loaded_dict}
    for p, d in grp.datafile_dict.items():
        out["datafiles"][rel(p)] = {"chain": [rel(x) for x in grp.get_sidecars_from_path(d)],
                                    "merged": d.sidecar.contents.loaded_dict if d.sidecar else None}
    raw = ds.validate(check_for_warnings=cfw)
    out["issues"] = sorted(map(issue_key, raw), key=repr)
    out["short"] = sorted(map(short_key, raw), key=repr)
    out["sidecar_short"] = sorted((short_key(i) + (i.get("ec_sidecarColumnName"), i.get("ec_sidecarKeyName"))
                                   for i in grp.validate_sidecars(schema, check_for_warnings=cfw)), key=repr)
    return out


def lower_level(root, files, orc, schema):
    """the property's right-hand side with the lower-level API and the oracle's merges, warnings included:
    -> [("sidecar"|"table", path, [issue dicts])]"""
    from hed.models.sidecar import Sidecar
    from hed.models.tabular_input import TabularInput
    from hed.errors.error_reporter import ErrorHandler

    def merged_sidecar(o):
        parts = [io.StringIO(json.dumps(files[s])) for s in o["nonobj"]] + [io.StringIO(json.dumps(o["merged_chosen"]))]
        return Sidecar(parts, name="merged")
    out = []
    for s in orc["sidecars"]:
        sc = merged_sidecar(orc["obj"][s])
        out.append(("sidecar", s, sc.validate(schema, name=os.path.basename(s), error_handler=ErrorHandler(True))))
    for d in orc["datafiles"]:
        o = orc["obj"][d]
        sc = merged_sidecar(o) if o["chosen"] else None
        fp = os.path.join(root, *d.split("/"))
        ti = TabularInput(file=fp, sidecar=sc, name=fp)
        out.append(("table", d, ti.validate(schema, name=os.path.basename(d), error_handler=ErrorHandler(True))))
    return out


def filtered(ll, cfw):
    return [i for _, _, iss in ll for i in iss if cfw or i["severity"] < WARNING]


def run_cli(root, cfw, fmt, outfile):
    """-> (returned value | None, exception class name | None, stdout text)"""
    from hed.scripts import hed_validator
    argv = ["hed_validator", root, "-f", fmt] + (["--check-for-warnings"] if cfw else []) + (["-o", outfile] if outfile else [])
    old = sys.argv
    sys.argv = argv
    buf = io.StringIO()
    try:
        with contextlib.redirect_stdout(buf):
            return hed_validator.main(), None, buf.getvalue()
    except Exception as e:
        return None, f"{type(e).__name__}: {str(e)[:80]}", buf.getvalue()
    finally:
        sys.argv = old


# --------------------------------------------------------------------------------------------- check

def check_discover(ctx, case, root, req, ans):
    """get_file_list / get_dir_dictionary with arbitrary filters against the model's walk and against the
    characterisation (files of the listing with the right name and no excluded directory component)"""
    from hed.tools.util import io_util
    rel = lambda p: os.path.relpath(p, root).replace(os.sep, "/")
    kw = dict(name_prefix=req["prefixes"] or None, name_suffix=req["suffixes"] or None,
              extensions=req["exts"] or None, exclude_dirs=req["excluded"])
    impl = [rel(p) for p in io_util.get_file_list(root, **kw)]
    dd = io_util.get_dir_dictionary(root, skip_empty=req["skip_empty"], **kw)
    impl_dict = [["" if rel(d) == "." else rel(d), [rel(p) for p in l]] for d, l in dd.items()]
    c = {**case, "filter": {k: req[k] for k in ("prefixes", "suffixes", "exts", "excluded", "skip_empty")}}
    ctx.count("discover-requests")
    if [p for _, l in impl_dict for p in l] != impl:
        ctx.violation("both-walkers-exclude-the-same-directories", c,
                      {"get_file_list": impl, "get_dir_dictionary": [p for _, l in impl_dict for p in l]})
    if ans["files"] != impl:
        ctx.disagree("Bids.getFileList = io_util.get_file_list (order included)", c, ans["files"], impl)
    if ans["dict"] != impl_dict:
        ctx.disagree("Bids.getDirDictionary = io_util.get_dir_dictionary", c, ans["dict"], impl_dict)
    if ans["spec"] != ans["files"]:
        ctx.disagree("discover_spec on the driver", c, ans["spec"], ans["files"])
    allf = list(case["files"]) + ["dataset_description.json"]
    want = sorted(p for p in allf if o_visible(p, req["excluded"]) and
                  o_check_filename(p.split("/")[-1], req["prefixes"], req["suffixes"], req["exts"]))
    if sorted(impl) != want:
        ctx.violation("discovered-files-are-those-with-the-name-and-no-excluded-directory", c,
                      {"impl": sorted(impl), "expected": want})


def check_tree(ctx, tree, model, root, order, schema, exit_table, base):
    """-> a c16.cli request (and what to compare its answer with) or None"""
    files, excl, cfw = tree["files"], tree["excl"], tree["cfw"]
    case = {"files": files, "excl": excl, "cfw": cfw, "format": tree.get("format", "text"), "output": tree.get("output", False)}
    try:
        impl = run_impl(root, excl, cfw, schema)
    except Exception as e:
        ctx.violation("dataset-raised", case, f"{type(e).__name__}: {e}")
        return None
    orc = oracle(files, excl, order)
    bad_names = orc["malformed"]
    w = model["walk"]
    if not w.get("is_listing"):      # hypothesis of `load_files`: holds for every listing of a real file system
        ctx.disagree("the generated tree is a file-system listing (IsListing)", case, w.get("is_listing"), True)
    if w["json"] != w["json_flat"] or w["tsv"] != w["tsv_flat"]:
        ctx.disagree("walk with pruning = filter of the listing (driver)", case, [w["json"], w["tsv"]], [w["json_flat"], w["tsv_flat"]])
    # ---- malformed names: construction raises (model: load = error)
    if impl["error"] or "error" in model or bad_names:
        ctx.case(("err", canon(case)), nontrivial=True)
        ctx.count("tree-malformed-name")
        if model.get("error") != impl["error"]:
            ctx.disagree("Bids.load error = HedFileError code", case, model.get("error"), impl["error"])
        if bool(impl["error"]) != bool(bad_names):
            ctx.violation("malformed-visible-name-raises-iff", case, {"impl": impl["error"], "malformed": bad_names})
        return None
    # ---- model = implementation: discovery, chains, merged dictionaries (every tree, ambiguous ones included)
    m_sc = {f["path"]: f for f in model["sidecars"]}
    m_df = {f["path"]: f for f in model["datafiles"]}
    if list(m_sc) != list(impl["sidecars"]) or list(m_df) != list(impl["datafiles"]):
        ctx.disagree("Bids.discover = get_file_list (order included)", case, [list(m_sc), list(m_df)],
                     [list(impl["sidecars"]), list(impl["datafiles"])])
    else:
        for kind, mm in (("sidecars", m_sc), ("datafiles", m_df)):
            for p, f in mm.items():
                i = impl[kind][p]
                want = f["merged"] if f["has_sidecar"] else None
                if f["chain"] != i["chain"] or f["chosen_chain"] != i["chain"]:
                    ctx.disagree("Bids.chain = chosenChain = get_sidecars_from_path", {**case, "file": p},
                                 [f["chain"], f["chosen_chain"]], i["chain"])
                elif canon(want) != canon(i["merged"]):
                    ctx.disagree("Bids.mergeImpl = sidecar.contents.loaded_dict", {**case, "file": p}, want, i["merged"])
    # ---- oracle: discovery with excluded names
    if sorted(orc["sidecars"]) != sorted(impl["sidecars"]) or sorted(orc["datafiles"]) != sorted(impl["datafiles"]):
        ctx.violation("excluded-directories-take-no-part", case,
                      {"impl": [sorted(impl["sidecars"]), sorted(impl["datafiles"])],
                       "expected": [sorted(orc["sidecars"]), sorted(orc["datafiles"])]})
        return None
    # ---- oracle: the merge of every applicable sidecar on the path; first listed wins where BIDS is broken
    all_unique = all(o["unique"] for o in orc["obj"].values())
    maxlen, override, nonnested, merge_bad = 0, False, False, False
    for kind in ("sidecars", "datafiles"):
        for p in orc[kind]:
            o, i = orc["obj"][p], impl[kind][p]
            if not o["unique"]:
                ctx.count("object-with-two-applicable-in-one-directory")
                want = o["merged_chosen"] if o["chosen"] else None
                if o["chosen"] != i["chain"] or canon(want) != canon(i["merged"]):
                    merge_bad = True
                    ctx.disagree("first listed applicable sidecar per directory wins", {**case, "file": p},
                                 {"chosen": o["chosen"], "merged": want}, {"chain": i["chain"], "merged": i["merged"]})
                continue
            if o["nonobj"]:
                ctx.count("chain-with-non-object-json")
            maxlen = max(maxlen, len(o["chain"]))
            keys = [k for s in o["chain"] if isinstance(files[s], dict) for k in files[s]]
            override |= len(keys) != len(set(keys))
            nonnested |= not nested_chain(o["chain"])
            want = o["merged"] if o["chain"] else None
            if canon(want) != canon(i["merged"]):
                mo = (m_sc.get(p) or m_df.get(p) or {})
                sig = SIG_NONNESTED if (kind == "datafiles" and not nested_chain(o["chain"]) and
                                        canon(mo.get("merged_old")) == canon(i["merged"])) else None
                merge_bad = True
                ctx.violation("sidecar-is-top-down-merge-of-every-applicable-file", {**case, "file": p},
                              {"impl": i["merged"], "expected": want, "applicable": o["chain"], "impl_chain": i["chain"]},
                              signature=sig)
    ctx.count(f"max-chain-{maxlen}")
    if nonnested:
        ctx.count("tree-with-non-nested-entity-chain")
    if override:
        ctx.count("tree-with-overridden-column")
    if any(not o_visible(p, excl) for p in files):
        ctx.count("tree-with-excluded-directory")
    for k in sorted({next(i for i, c in enumerate(p.split("/")[:-1]) if c in excl) for p in files if not o_visible(p, excl)}):
        ctx.count(f"excluded-name-directory-at-depth-{k}")
    if any("/" in e for e in excl):
        ctx.count("tree-with-exclude-entry-that-is-a-path")
    if any(any(x in c and c not in excl for x in DEFAULT_EXCL) for p in files for c in p.split("/")[:-1]):
        ctx.count("tree-with-look-alike-directory-name")
    if not all_unique:
        ctx.count("tree-with-two-applicable-in-one-directory")
    ctx.case(canon(case), nontrivial=maxlen >= 2 and override,
             sample={"files": sorted(files), "excl": [e for e in excl if e not in DEFAULT_EXCL]} if maxlen >= 3 and len(files) <= 8 else None)
    if merge_bad:          # issues and exit status of this tree follow from the wrong merge already reported
        return None
    # ---- validation composition (lower-level API on the oracle's merges), warnings filter, exit status
    ll = lower_level(root, files, orc, schema)
    exp = sorted(map(issue_key, filtered(ll, cfw)), key=repr)
    ctx.count("issues-empty" if not exp else "issues-nonempty")
    if exp != impl["issues"]:
        ca, cb = collections.Counter(impl["issues"]), collections.Counter(exp)
        clause = "dataset-issues-are-the-concatenation" if all_unique else None
        detail = {"only_impl": [list(k) for k in (ca - cb)][:6], "only_expected": [list(k) for k in (cb - ca)][:6]}
        if clause:
            ctx.violation(clause, case, detail)
        else:
            ctx.disagree("dataset issues = concatenation over chosen merges", case, detail["only_expected"], detail["only_impl"])
    m_exit = exit_table[bool(impl["issues"])]
    if m_exit != int(bool(impl["issues"])):
        ctx.disagree("Bids.exitCode", case, m_exit, int(bool(impl["issues"])))
    # ---- CLI: BidsDataset(path) with the default excluded names and the schema of dataset_description.json
    if excl == DEFAULT_EXCL:
        orc2, ll2 = orc, ll
    else:
        orc2 = oracle(files, DEFAULT_EXCL, order)
        if orc2["malformed"]:
            return None
        ll2 = lower_level(root, files, orc2, schema)
    exp_cli = filtered(ll2, cfw)
    fmt = tree.get("format", "text")
    outfile = os.path.join(base, f"report_{abs(hash(root)) % 10**8}.out") if tree.get("output") else None
    rc, exc, stdout = run_cli(root, cfw, fmt, outfile)
    wrote = bool(outfile) and os.path.exists(outfile) and os.path.getsize(outfile) > 0
    report = stdout
    if outfile and os.path.exists(outfile):
        with open(outfile) as fp:
            report = fp.read()
        os.remove(outfile)
    if exc:
        # the json formats hand the issue dicts (which may hold HedTag objects) to json.dumps; the process then ends
        # with a traceback and status 1.  Not part of the modelled CLI; recorded, and the status is still checked.
        if fmt != "text" and exc.startswith("TypeError") and "JSON serializable" in exc:
            ctx.count("cli-json-format-raised-TypeError(not serializable)")
            rc_eff = 1
        else:
            ctx.violation("cli-raised", case, exc)
            return None
    else:
        rc_eff = rc
        ctx.count(f"cli-{fmt}-{'file' if outfile else 'stdout'}")
        if bool(outfile) != wrote or (not outfile and not stdout.strip()):
            ctx.violation("cli-report-goes-to-the-output-file-iff-given", case, {"output": bool(outfile), "wrote": wrote})
        if fmt != "text":
            try:
                n_listed = len(json.loads(report)["issues"])
            except Exception as e:
                n_listed = f"unreadable report: {type(e).__name__}"
            if n_listed != len(exp_cli):
                ctx.violation("cli-json-report-lists-the-issues", case, {"listed": n_listed, "expected": len(exp_cli)})
    ctx.count(f"cli-exit-{rc_eff}")
    if (rc_eff != 0) != bool(exp_cli) or rc_eff not in (0, 1):
        if all(o["unique"] for o in orc2["obj"].values()):
            ctx.violation("cli-exit-nonzero-iff-issues", case, {"exit": rc_eff, "expected_issues": len(exp_cli)})
        else:       # two applicable sidecars in one directory: outside the property, the chosen-chain model applies
            ctx.disagree("CLI exit on a tree with two applicable sidecars in one directory", case, len(exp_cli), rc_eff)
    if excl != DEFAULT_EXCL:
        return None
    # ---- request for the model's CLI: string layer from C08's recorders, table layer from TabularInput.validate
    from harness.props import c08
    # union of the per-document oracle tables (whatever keys C08's `observe` provides: keyed tables are merged by
    # their key columns, plain lists are concatenated without duplicates)
    merged_tabs = {}
    try:
        for kind, p, _ in ll:
            if kind == "sidecar":
                _, o = c08.observe(orc["obj"][p]["merged_chosen"], schema)
                for k, rows in o.items():
                    tab = merged_tabs.setdefault(k, {})
                    for row in rows:
                        key = canon(row[:-1]) if isinstance(row, list) and k != "defissues" else canon(row)
                        tab[key] = row
    except Exception as e:      # C08's adapter is another property's file: if its interface moves, say so, keep checking
        note = f"string-layer adapter of C08 unavailable ({type(e).__name__}: {e}); model CLI comparison skipped"
        if note not in ctx.notes:
            ctx.notes.append(note)
        ctx.count("model-cli-skipped(c08 adapter)")
        return None
    req = {"op": "c16.cli", "dir": None, "format": fmt, "output": "report.out" if outfile else None, "cfw": cfw,
           "basic": [], "full": [], "defs": [], "defissues": [], "defexpand": [],
           **{k: list(tab.values()) for k, tab in merged_tabs.items()},
           "tables": [[p.split("/"), [[i["code"], i["severity"]] for i in iss]] for kind, p, iss in ll if kind == "table"]}
    return {"req": req, "case": case, "rc": rc_eff, "dest_file": bool(outfile), "returned": exc is None,
            "short": impl["short"], "sidecar_short": impl["sidecar_short"]}


def check_cli_model(ctx, pending, ans):
    case = pending["case"]
    ctx.count("model-cli-requests")
    if "raise" in ans:
        ctx.disagree("Bids.cliMain raises", case, ans, {"exit": pending["rc"]})
        return
    m_short = sorted(((f, c, s) for f, c, s, _, _ in ans["issues"]), key=repr)
    if m_short != [tuple(x) for x in pending["short"]]:
        ca, cb = collections.Counter(m_short), collections.Counter(tuple(x) for x in pending["short"])
        ctx.disagree("Bids.cliMain issues = BidsDataset.validate (file, code, severity)", case,
                     [list(k) for k in (ca - cb)][:6], [list(k) for k in (cb - ca)][:6])
    # sidecar part through SidecarV.validate: also column / key
    names = {f for f, *_ in pending["sidecar_short"]}
    m_side = sorted((tuple(x) for x in ans["issues"] if x[0].lower().endswith(".json")), key=repr)
    if m_side != sorted((tuple(x) for x in pending["sidecar_short"]), key=repr):
        ctx.disagree("SidecarV.validate on merged sidecars = validate_sidecars (file, code, severity, column, key)", case,
                     m_side[:8], pending["sidecar_short"][:8])
    if ans["exit"] != pending["rc"]:
        ctx.disagree("Bids.cliMain exit = hed_validator.main()", case, ans["exit"], pending["rc"])
    if pending["returned"] and (ans["dest"] is not None) != pending["dest_file"]:
        ctx.disagree("Bids.cliMain destination", case, ans["dest"], pending["dest_file"])


def make_unique(rng, tree):
    """BIDS allows at most one applicable sidecar per directory: drop offenders.  12 % of the trees keep them: the
    model (first listed wins) and the chosen-chain oracle cover those as well."""
    if rng.random() < 0.12:
        return tree
    files = tree["files"]
    for _ in range(20):
        orc = oracle(files, tree["excl"])
        drop = None
        for p, o in orc["obj"].items():
            if not o["unique"]:
                seen = {}
                for s in o["chain"]:
                    if o_dir(s) in seen:
                        drop = s
                        break
                    seen[o_dir(s)] = s
                if drop:
                    break
        if not drop:
            break
        del files[drop]
    return tree


FILTERS = {"prefixes": [[], [], ["sub-01"], ["SUB", "task"], [""], ["events", "sub"]],
           "suffixes": [[], ["events"], ["events"], ["_events", "channels"], ["EVENTS"], [""], ["-1_events"]],
           "exts": [[], [".tsv"], [".json"], [".json", ".tsv"], [".JSON"], ["ents.json", ".json"], [""], [".tsv", "s.tsv"]]}


def gen_filter(rng, tree):
    return {"prefixes": rng.choice(FILTERS["prefixes"]), "suffixes": rng.choice(FILTERS["suffixes"]),
            "exts": rng.choice(FILTERS["exts"]), "skip_empty": rng.random() < 0.7,
            "excluded": rng.choice([tree["excl"], tree["excl"], [], ["eeg"], ["ses-1", "derivatives"], ["pipeline"],
                                    ["sub-01/ses-1", "code"]])}


def run_batch(ctx, trees, schema, exit_table):
    from harness.props import c08
    base = tempfile.mkdtemp(prefix="hedverif_c16_")
    try:
        roots, orders, reqs, dreqs = [], [], [], []
        for n, t in enumerate(trees):
            root = os.path.realpath(os.path.join(base, f"ds{n}"))
            os.makedirs(root)
            materialize(root, t["files"])
            d, order = nested(root, c08.enc)
            roots.append(root)
            orders.append(order)
            reqs.append({"op": "c16.group", "dir": d, "excluded": t["excl"], "suffix": "events"})
            for f in t.get("filters") or []:
                dreqs.append((n, {"op": "c16.discover", "dir": d, **f}))
        answers = ctx.model.batch(reqs + [r for _, r in dreqs])
        for a in answers:
            if "bad-op" in a:
                raise RuntimeError(f"driver: {a}")
        for (n, r), a in zip(dreqs, answers[len(reqs):]):
            check_discover(ctx, {"files": trees[n]["files"]}, roots[n], r, a)
        pending = []
        for t, root, order, a, rq in zip(trees, roots, orders, answers, reqs):
            p = check_tree(ctx, t, a, root, order, schema, exit_table, base)
            if p:
                p["req"]["dir"] = rq["dir"]
                pending.append(p)
            if len(ctx.violations) + len(ctx.disagreements) > 60:
                break
            ctx.check_time()
        if pending:
            ans = ctx.model.batch([p["req"] for p in pending])
            for p, a in zip(pending, ans):
                if "bad-op" in a:
                    raise RuntimeError(f"driver: {a}")
                check_cli_model(ctx, p, a)
    finally:
        shutil.rmtree(base, ignore_errors=True)


def exit_table(ctx):
    """the model's exit code on an empty and on a non-empty issue list"""
    ex = ctx.model.batch([{"op": "c16.exit", "issues": []}, {"op": "c16.exit", "issues": [1]}])
    return {False: ex[0]["exit"], True: ex[1]["exit"]}


def setup(ctx):
    from hed import load_schema_version
    from harness.props import c08
    c08.tables()
    c08.install_recorders()
    return load_schema_version("8.3.0")


def run(ctx):
    schema = setup(ctx)
    ctx.extra["rule"] = ("generated BIDS trees (1-3 subjects x 0-2 sessions x 1-2 tasks x 1-2 runs, optional datatype "
                         "directory; sidecars at any directory level with any entity subset plus non-applicable ones and "
                         "non-object JSON; 12 % with two applicable sidecars in one directory; excluded directory names at "
                         "root or nested, look-alike names, malformed names; random file-list filters; every CLI format "
                         "and destination); non-trivial = some file has a chain of >= 2 sidecars and a column defined "
                         "more than once")
    et = exit_table(ctx)
    corpus = [{"files": {"task-A_events.json": {"A": {"HED": {"x": "Red"}}, "B": {"HED": "Label/#"}},
                         "sub-01/sub-01_events.json": {"B": {"HED": "ID/#"}},
                         "sub-01/sub-01_task-A_events.tsv": "onset\tduration\tA\tB\n1.0\tn/a\tx\tlab1\n"},
               "excl": list(DEFAULT_EXCL), "cfw": False, "format": "json", "output": True},
              # two applicable sidecars in the root: the first listed one is used
              {"files": {"events.json": {"A": {"HED": {"x": "Red"}}}, "task-A_events.json": {"A": {"HED": {"x": "Blue"}}},
                         "sub-01/sub-01_task-A_events.tsv": "onset\tduration\tA\n1.0\tn/a\tx\n"},
               "excl": list(DEFAULT_EXCL), "cfw": False, "format": "text", "output": False},
              # a non-object sidecar in the chain
              {"files": {"events.json": [1, 2], "sub-01/sub-01_events.json": {"A": {"HED": {"x": "Red"}}},
                         "sub-01/sub-01_task-A_events.tsv": "onset\tduration\tA\n1.0\tn/a\tx\n"},
               "excl": list(DEFAULT_EXCL), "cfw": True, "format": "text", "output": True}]
    n = 170 if ctx.quick() else 2100
    trees = corpus + [make_unique(ctx.rng, gen_tree(ctx.rng)) for _ in range(n)]
    for t in trees:
        t["filters"] = [gen_filter(ctx.rng, t) for _ in range(2)]
    for lo in range(0, len(trees), 100):
        run_batch(ctx, trees[lo:lo + 100], schema, et)
        if len(ctx.violations) + len(ctx.disagreements) > 60:
            break
        ctx.check_time()
    if len(ctx.violations) + len(ctx.disagreements) <= 60:
        from harness.props import closed_c16
        closed_c16.run_closed(ctx)


def replay(ctx, rec):
    schema = setup(ctx)
    case = rec.get("case") or (rec.get("disagreements") or [{}])[0].get("case")
    if not case:
        print("nothing to replay (obligation-only record):", rec.get("broken_obligations"))
        return
    if case.get("closed"):
        from harness.props import closed_c16
        closed_c16.run_closed(ctx, trees=[{k: case[k] for k in ("files", "onsets", "excl", "cfw")}])
        print("replayed (closed)", json.dumps(sorted(case["files"]))[:300])
        return
    tree = {"files": case["files"], "excl": case.get("excl", list(DEFAULT_EXCL)), "cfw": case.get("cfw", False),
            "format": case.get("format", "text"), "output": case.get("output", False),
            "filters": [case["filter"]] if "filter" in case else []}
    run_batch(ctx, [tree], schema, exit_table(ctx))
    print("replayed", json.dumps(sorted(case["files"]))[:300])
