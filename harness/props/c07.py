"""C07 — File-level validation equals row-by-row string validation, with true locations.

Correspondence: `TabularInput/SpreadsheetInput.validate` on generated frames against `Tabular.validate`
(lean/HedVerif/Model/Tabular.lean).  String-level validation enters the model as an oracle: the driver says
which strings it needs which check of (`need`), the harness computes them with the real HedValidator and asks
again.  Direct oracles on the implementation's output alone: never raises; rows with error-free cells report
exactly the string-level error codes of the assembled row; every cell error is reported; every label is the
1-based file row (header counted) of the row whose text the issue was found in; shuffling rows with distinct
onsets relabels the issues and adds one ONSETS_UNORDERED warning.
"""
import itertools
import json
import re

from harness.props.c10 import install_kind_recorder, render_marker, DEFS, NAMES, KINDS, order_sensitive

THEOREMS = [
    "HedVerif.C07.labels",
    "HedVerif.C07.labels_typed",
    "HedVerif.C07.labels_point_partial",
    "HedVerif.C07.labels_merged",
    "HedVerif.C07.every_row_checked_once",
    "HedVerif.C07.mergeF_eq_blankOr",
    "HedVerif.C07.concat_join_example",
    "HedVerif.C07.concat_join_counterexample",
    "HedVerif.C07.labels_merged_counterexample",
    "HedVerif.C07.span_remap",
    "HedVerif.C07.row_equals_string",
    "HedVerif.C07.row_reported_twice_counterexample",
    "HedVerif.C07.cell_errors_kept",
    "HedVerif.C07.shuffle",
    "HedVerif.C07.total",
    "HedVerif.C07.total_counterexample",
    "HedVerif.C07.sortT_eq_sortRows",
]
BUDGET = {"quick": 900, "thorough": 3600}
# closed mode (string-level oracles instantiated by the C01 model): theorems of lean/HedVerif/Props/Closed.lean
EXTRA_AUDIT = [("HedVerif.Props.Closed", [
    "HedVerif.C07.eval_closed",
    "HedVerif.C07.total_closed",
    "HedVerif.C07.labels_closed",
    "HedVerif.C07.cell_issue_closed",
    "HedVerif.C07.cell_errors_kept_closed",
    "HedVerif.C07.row_equals_string_closed",
    "HedVerif.C07.row_equals_validate_closed",
    "HedVerif.C07.unbalanced_cell_reported_closed",
    "HedVerif.C07.shuffle_closed",
    "HedVerif.C07.pipeline_example_closed",
    "HedVerif.C07.cells_eq_closed",
    "HedVerif.C07.total_closed_cells",
    "HedVerif.C07.cell_errors_kept_closed_cells",
    "HedVerif.C07.eval_closed_cells",
    "HedVerif.C07.items_closed",
    "HedVerif.C07.DelayDemo.delay_pipeline_example_closed",
]), ("HedVerif.Props.ClosedRaw", [   # raw closed mode: C06 assembly o C07 file layer o C01 strings, from sidecar + table
    "HedVerif.C07.raw_is_composition",
    "HedVerif.C07.raw_rows_order",
    "HedVerif.C07.raw_series_is_assembly",
    "HedVerif.C07.total_closed_raw",
    "HedVerif.C07.labels_closed_raw",
    "HedVerif.C07.cell_issue_closed_raw",
    "HedVerif.C07.cell_errors_kept_closed_raw",
    "HedVerif.C07.pipeline_example_closed_raw",
    "HedVerif.C07.delay_pipeline_example_closed_raw",
    "HedVerif.C07.raw_defs_is_composition",
    "HedVerif.C07.total_closed_rawD",
    "HedVerif.C07.cell_issue_closed_rawD",
    "HedVerif.C07.defs_pipeline_example_closed_raw",
])]

SIG_MERGED = "C07-merged-row-label"
UNORDERED = "ONSETS_UNORDERED:ONSETS_UNORDERED"
TIME_TAGS = {"onset", "offset", "inset", "delay", "duration"}

# ---------------------------------------------------------------------------------------------- generator
VALID = ["Red", "Blue", "Green", "Black", "White", "Square", "Circle", "Triangle", "(Red, Square)", "(Blue, Circle)",
         "Item/Myext", "Red/Dark", "Label/x1"]
INVALID = ["Greenish", "Red/Blue", "Weight/3 foo", "(Duration/3 xyz, (Green))", "Age/5 years", "(Def/Zed, Onset)"]
FULL_ONLY = ["Red, Red", "Duration/3 s", "(Red, (Blue), Onset)", "(Black, White), (Black, White)"]
UNITS = [("s", 1), ("second", 1), ("seconds", 1), ("Seconds", 1), ("ms", 1000), ("milliseconds", 1000), ("", 1)]
BAD_DELAY = ["(Delay/1 xyz, (Red))", "(Delay/abc, (Red))", "(Delay/1000 msecond, (Red))"]


# onset cells that are text: the rule "a row has a time iff its onset cell parses as a number" stated on its own
# (pandas' to_numeric grammar for a str cell: optional blanks, sign, decimal digits with an optional point, optional exponent;
# `nan` spellings parse to NaN = no time; underscores, commas, hex and a bare exponent marker do not parse)
ONSET_TEXT_NO_TIME = ["1,5", "-", "later", "1.0.0", "1e", " ", "nan", "NaN", "1_0", "", "0x10", "3 s"]
ONSET_TEXT_TIME = ["+3", "3.", ".5", " 2 ", "1e1", "+0.5", "12.50"]
_NUM = re.compile(r"^\s*[+-]?(\d+\.?\d*|\.\d+)([eE][+-]?\d+)?\s*$")


def onset_time(t):
    """eighths of a second, or None if the row has no time; `t` is eighths (int), None (the cell n/a) or the cell text"""
    if t is None or isinstance(t, int):
        return t
    if not _NUM.match(t):
        return None
    v = float(t) * 8
    assert v == int(v), t
    return int(v)


def onset_cell(t):
    return "n/a" if t is None else (t if isinstance(t, str) else str(t / 8))


def timed_group(tag, eighths, rng, inner):
    unit, mult = rng.choice(UNITS)
    v = eighths / 8 * mult
    num = str(int(v)) if float(v).is_integer() else str(v)
    return f"({tag}/{num}{' ' + unit if unit else ''}, {inner})"


def gen_spec(rng, real, nrows=None, mode=None, distinct=False):
    """A table: mode, onsets (eighths of a second, None = 'n/a') or no onset column, and up to three data columns."""
    mode = mode or rng.choice(["tabular", "tabular", "sidecar", "sidecar", "sheet", "sheet_nohdr", "sheet_nohdr"])
    n = nrows or rng.randint(1, 7)
    has_onset = mode in ("tabular", "sidecar") and rng.random() < 0.75 or (mode == "sheet" and rng.random() < 0.3)
    ncols = 1 if mode == "tabular" else rng.randint(1, 3)
    for _ in range(60):
        spec = _gen_spec(rng, n, mode, has_onset, ncols, distinct)
        if has_onset:     # `clean` from the real per-cell checks of the assembled frame
            for p, row in enumerate(real.request(spec, {"maskByRow": True, "guardDelay": True})["rows"]):
                if any(s < 10 for x in row["cells"] if x and x != "n/a" for _, s in real.part("cell", x)):
                    spec["clean"][p] = False
        if not tie_sensitive(spec):
            return spec
    return _gen_spec(rng, n, mode, has_onset, ncols, True, plain=True)


def _gen_spec(rng, n, mode, has_onset, ncols, distinct, plain=False):
    uid = [rng.randint(0, 10 ** 6) * 100]
    onsets = None
    if has_onset:
        onsets, t = [], rng.randint(0, 8)
        for _ in range(n):
            if distinct or rng.random() < 0.75:
                t += rng.randint(1, 12)
            onsets.append(t)
        if not distinct and not plain:
            if rng.random() < 0.25:
                onsets[rng.randrange(n)] = None
            if rng.random() < 0.1:
                onsets[rng.randrange(n)] = None
            if rng.random() < 0.3:      # text that is neither a number nor n/a: the row has no time
                onsets[rng.randrange(n)] = rng.choice(ONSET_TEXT_NO_TIME)
            if rng.random() < 0.15:     # other spellings of a number
                onsets[rng.randrange(n)] = rng.choice(ONSET_TEXT_TIME)
        if rng.random() < 0.5:
            rng.shuffle(onsets)
    cols = [[] for _ in range(ncols)]
    marks = []     # c10-style structure of the temporal markers, for `order_sensitive`
    clean = []
    for r in range(n):
        numeric = onsets is not None and onset_time(onsets[r]) is not None
        odd = onsets is not None and isinstance(onsets[r], str) and not numeric     # no Delay there (see report)
        frags = [[] for _ in range(ncols)]
        ok = True
        row_marks = {"time": onset_time(onsets[r]) if numeric else -1000 - r, "markers": [], "delayed": []}
        for c in range(1 if mode == "sidecar" else ncols):     # the sidecar's columns are filled by gen_sidecar
            if rng.random() < 0.22:
                continue
            for _ in range(rng.choice([1, 1, 2, 3])):
                x = rng.random()
                if plain or x < 0.45:
                    frags[c].append(rng.choice(VALID))
                elif x < 0.55:
                    frags[c].append(rng.choice(INVALID))
                    ok = False
                elif x < 0.63:
                    frags[c].append(rng.choice(FULL_ONLY))
                elif x < 0.73:
                    inner = "(" + rng.choice(["Green", "Black", "Triangle"]) + f", Label/d{uid[0]})"
                    uid[0] += 1
                    if onsets is not None and not odd and rng.random() < 0.7:
                        d = rng.choice([4, 8, 12, 16, 20])
                        frags[c].append(timed_group("Delay", d, rng, inner))
                        if numeric:
                            row_marks["delayed"].append([d, []])
                    else:
                        frags[c].append(timed_group("Duration", rng.choice([4, 8, 24]), rng, inner))
                elif x < 0.76 and onsets is not None and not odd:
                    frags[c].append(rng.choice(BAD_DELAY))
                    ok = False
                elif x < 0.95:
                    kind, name = rng.choice(KINDS), rng.choice(NAMES)
                    uid[0] += 1
                    if onsets is not None and numeric and rng.random() < 0.3:
                        d = rng.choice([4, 8, 12, 16, 20])
                        frags[c].append(render_marker(kind, name, uid[0], delay=d))
                        row_marks["delayed"].append([d, [[kind, name]]])
                    else:
                        frags[c].append(render_marker(kind, name, uid[0]))
                        row_marks["markers"].append([kind, name])
                else:
                    frags[c].append(rng.choice(["Red,", "(Red"]))
                    ok = False
            if frags[c] and rng.random() < 0.6:
                frags[c].append(f"Label/r{r}c{c}")
        for c in range(ncols):
            cols[c].append(", ".join(frags[c]) if frags[c] else rng.choice(["n/a", "n/a", ""]))
        marks.append(row_marks)
        clean.append(ok)
    spec = {"mode": mode, "onsets": onsets, "cols": cols, "marks": marks, "clean": clean}
    if mode == "sheet_nohdr":     # integer column labels: HED columns at positions lead.., sometimes read from a TSV file
        spec["lead"] = rng.choice([0, 0, 0, 1, 2])
        spec["from_file"] = rng.random() < 0.25
    if mode == "sidecar":
        spec["sidecar"] = gen_sidecar(rng, spec)
    return spec


CAT_KEYS = {"a": "Red", "b": "(Blue, Circle)", "c": "Greenish", "d": "(Def/B, Onset)", "e": "Item/Catext"}


def gen_sidecar(rng, spec):
    """cols[0] stays the HED column; cols[1] becomes a categorical column (keys), cols[2] a value column."""
    n = len(spec["cols"][0])
    sc = {}
    if len(spec["cols"]) >= 2:
        keys = ["a", "b", "e"] + (["c"] if rng.random() < 0.3 else []) + (["d"] if spec["onsets"] is None else [])
        vals = [rng.choice(keys + ["n/a", "n/a"]) if rng.random() < 0.9 else "zz" for _ in range(n)]
        for r, v in enumerate(vals):
            if v == "c":
                spec["clean"][r] = False
            if v == "d":
                spec["marks"][r]["markers"].append(["onset", "B"])
        spec["cols"][1] = vals
        sc["cat"] = {"HED": {k: CAT_KEYS[k] for k in keys}}
    if len(spec["cols"]) >= 3:
        spec["cols"][2] = [rng.choice(["n/a", "v1", "v2", "w 3", "7"]) for _ in range(n)]
        tmpl = rng.choice(["Label/#", "(Duration/# s, (White))", "Label/#, {HED}", "(Label/#, {nocol})"])
        if "{HED}" in tmpl or "{nocol}" in tmpl:
            spec["clean"] = [False] * n     # keep such rows out of equal-time groups (assembly is C06's business)
        sc["val"] = {"HED": tmpl}
    return sc


def eff_times(spec):
    """effective times of the rows' time-point contributions (generator's view): [(time, row)]"""
    out = []
    if spec["onsets"] is None:
        return out
    for r, t in enumerate(spec["onsets"]):
        t = onset_time(t)
        if t is None:
            continue
        out.append((t, r))
        for d, _ in spec["marks"][r]["delayed"]:
            out.append((t + d, r))
    return out


def classes_of(pairs, n):
    """row -> smallest row of its class; rows are in one class if they contribute to a common time point"""
    parent = list(range(n))

    def find(x):
        while parent[x] != x:
            parent[x] = parent[parent[x]]
            x = parent[x]
        return x
    first = {}
    for t, r in pairs:
        if t in first:
            a, b = find(first[t]), find(r)
            if a != b:
                parent[max(a, b)] = min(a, b)
        else:
            first[t] = r
    return [find(r) for r in range(n)]


def tie_sensitive(spec):
    """pandas' default sort is not stable here: which row heads a merged time point is unspecified.  Not generated:
    equal-time groups of different rows that contain a row with an erroneous cell (the whole time point is
    skipped iff the HEAD row is invalid) or the same folded Def name twice (c10.order_sensitive)."""
    if spec["onsets"] is None:
        return False
    n = len(spec["onsets"])
    cl = classes_of(eff_times(spec), n)
    for r in range(n):
        if cl.count(cl[r]) > 1 and not spec["clean"][r]:
            return True
    return order_sensitive([m for r, m in enumerate(spec["marks"]) if onset_time(spec["onsets"][r]) is not None])


def permuted(spec, perm):
    s = dict(spec)
    s["onsets"] = None if spec["onsets"] is None else [spec["onsets"][i] for i in perm]
    s["cols"] = [[c[i] for i in perm] for c in spec["cols"]]
    s["marks"] = [spec["marks"][i] for i in perm]
    s["clean"] = [spec["clean"][i] for i in perm]
    return s


# ---------------------------------------------------------------------------------------------- real code
def norm_label(x):
    """a column label with its type: None, ["i", n] for an integer, ["s", text] for a string"""
    import numbers
    if x is None:
        return None
    if isinstance(x, numbers.Integral) and not isinstance(x, bool):
        return ["i", int(x)]
    if isinstance(x, str):
        return ["s", x]
    return ["o", repr(x)]


class Real:
    def __init__(self):
        from hed import load_schema_version
        from hed.models import DefinitionDict
        from hed.validator.hed_validator import HedValidator
        install_kind_recorder()
        self.schema = load_schema_version("8.3.0")
        self.dd = DefinitionDict(DEFS, self.schema)
        self.hv = HedValidator(self.schema, def_dicts=self.dd)
        self.cache = {}
        self.row_cells = {}
        self.rows_seen = set()

    def build(self, spec):
        import io
        import pandas as pd
        from hed import TabularInput, SpreadsheetInput, Sidecar
        n = len(spec["cols"][0])
        d = {}
        if spec["onsets"] is not None:
            d["onset"] = [onset_cell(t) for t in spec["onsets"]]
        if spec["mode"] in ("tabular", "sidecar"):
            d["duration"] = ["n/a"] * n
        names = ["HED", "cat", "val"]
        for c, col in enumerate(spec["cols"]):
            d[names[c]] = list(col)
        df = pd.DataFrame(d, dtype=str)
        if spec["mode"] == "tabular":
            return TabularInput(df, name="gen")
        if spec["mode"] == "sidecar":
            sc = Sidecar(io.StringIO(json.dumps(spec["sidecar"]))) if spec["sidecar"] else None
            return TabularInput(df, sidecar=sc, name="gen")
        tags = names[:len(spec["cols"])]
        if spec["mode"] == "sheet":
            return SpreadsheetInput(df, tag_columns=tags, name="gen")
        # header-less: the columns are addressed by integer position; `lead` non-HED columns come first
        lead = int(spec.get("lead") or 0)
        df = df[tags]
        for j in range(lead):
            df.insert(j, f"x{j}", [f"id{j}_{r}" for r in range(n)])
        df.columns = list(range(lead + len(tags)))
        cols = list(range(lead, lead + len(tags)))
        if spec.get("from_file"):
            import os
            path = os.path.join(self.tmpdir(), "nohdr.tsv")
            df.to_csv(path, sep="\t", header=False, index=False)
            return SpreadsheetInput(path, file_type=".tsv", tag_columns=cols, has_column_names=False, name="gen")
        return SpreadsheetInput(df, tag_columns=cols, has_column_names=False, name="gen")

    def tmpdir(self):
        import tempfile
        if not getattr(self, "_tmp", None):
            self._tmp = tempfile.mkdtemp(prefix="hv_c07_")
        return self._tmp

    def cleanup(self):
        import shutil
        if getattr(self, "_tmp", None):
            shutil.rmtree(self._tmp, ignore_errors=True)
            self._tmp = None

    def observe(self, spec):
        """exception class or the issues: (kind, severity, ec_row, ec_column) and, for the oracles, context"""
        data = self.build(spec)
        try:
            issues = data.validate(self.schema, extra_def_dicts=self.dd)
        except Exception as e:
            return {"exc": type(e).__name__, "msg": str(e)[:200]}
        out = []
        for i in issues:
            col = i.get("ec_column")
            hs = i.get("ec_HedString")
            out.append({"k": [i["code"] + ":" + str(i.get("_kind")), i["severity"], i.get("ec_row"),
                              None if col is None else str(col)],
                        "col": norm_label(col),     # type-exact: the integer 0 is neither "" nor "0"
                        "code": i["code"], "text": None if hs is None else getattr(hs, "_hed_string", hs),
                        "pos": i.get("char_index")})
        return {"issues": out}

    def fmt(self, issues):
        return [[i["code"] + ":" + str(i.get("_kind")), i["severity"]] for i in issues]

    def request(self, spec, variant):
        """the model's view of the file: taken from the real object (assembly is C06's, sidecar loading C08's)"""
        from hed.models.column_mapper import ColumnType
        data = self.build(spec)
        dfa = data.dataframe_a
        columns = [str(c) for c in dfa.columns]
        labels = [norm_label(c) for c in dfa.columns]
        cats = [[str(c.column_name), [str(k) for k in c.hed_dict.keys()]] for c in data.column_metadata().values()
                if c.column_type == ColumnType.Categorical]
        raw = data.dataframe
        rows = []
        for p in range(len(dfa)):
            cells = [str(x) for x in dfa.iloc[p]]
            livec = [x for x in cells if x and x != "n/a"]
            self.row_cells.setdefault(",".join(livec), livec)
            if livec:
                self.rows_seen.add(tuple(livec))
            rows.append({"onset": None if spec["onsets"] is None else onset_time(spec["onsets"][p]), "cells": cells,
                         "cats": [str(raw[name].iloc[p]) for name, _ in cats]})
        return {"op": "c07.validate", "rowAdj": 2 if data.has_column_names else 1,
                "hasOnset": data.onsets is not None, "columns": columns, "catCols": cats,
                "mapIssues": self.fmt(data._mapper.check_for_mapping_issues()),
                "refs": [str(x) for x in data.get_column_refs()], "allColumns": [str(c) for c in data.columns],
                "colIdx": [l[1] if l[0] == "i" else None for l in labels], "labels": labels,
                "maskByRow": variant["maskByRow"], "guardDelay": variant["guardDelay"], "rows": rows, "S": {}}

    # -- string-level oracle -------------------------------------------------------------------------
    def part(self, part, text):
        key = (part, text)
        if key not in self.cache:
            self.cache[key] = getattr(self, "_" + part)(text)
        return self.cache[key]

    def _cell(self, text):
        from hed import HedString
        return self.fmt(self.hv.run_basic_checks(HedString(text, self.schema), allow_placeholders=False))

    def _row_string(self, text):
        from hed import HedString
        strings = []
        for cell in self.row_cells.get(text, [text]):
            hs = HedString(cell, self.schema)
            self.hv.run_basic_checks(hs, allow_placeholders=False)
            strings.append(hs)
        return HedString.from_hed_strings(strings)

    def _full(self, text):
        return self.fmt(self.hv.run_full_string_checks(self._row_string(text)))

    def _banned(self, text):
        from hed.validator.onset_validator import OnsetValidator
        return self.fmt(OnsetValidator.check_for_banned_tags(self._row_string(text)))

    def _pfull(self, text):
        from hed import HedString
        return self.fmt(self.hv.run_full_string_checks(HedString(text, self.schema, self.hv._def_validator)))

    def _markers(self, text):
        from hed import HedString
        from hed.models.model_constants import DefTagNames
        hs = HedString(text, self.schema, self.hv._def_validator)
        out = []
        for tag, group in hs.find_top_level_tags(anchor_tags=DefTagNames.TEMPORAL_KEYS):
            defs = group.find_def_tags(include_groups=0)
            if defs:
                out.append([tag.short_base_tag.lower(), defs[0].extension])
        return out

    def _items(self, text):
        from hed import HedString
        if "delay/" not in text.casefold():
            return None
        hs = HedString(text, self.schema)
        delay = {id(g): t for t, g in hs.find_top_level_tags({"delay"})}
        out = []
        for child in hs.children:
            v = None
            if id(child) in delay:
                try:
                    x = delay[id(child)].value_as_default_unit()
                    v = "none" if x is None else round(x * 8)
                except ValueError:
                    v = "bad"
            out.append([str(child), v])
        return out


def model_batch(ctx, real, reqs):
    """ask, fill the oracle parts the model needs, ask again"""
    done = [None] * len(reqs)
    todo = list(range(len(reqs)))
    for _ in range(6):
        if not todo:
            break
        ans = ctx.model.batch([reqs[i] for i in todo])
        nxt = []
        for i, a in zip(todo, ans):
            if a.get("need"):
                for p, text in a["need"]:
                    reqs[i]["S"].setdefault(text, {})[p] = real.part(p, text)
                nxt.append(i)
            else:
                done[i] = a
        todo = nxt
    assert not todo, "oracle protocol did not converge"
    return done


# ---------------------------------------------------------------------------------------------- checks
def canon_obs(keys, classes, adj, has_onset):
    """sorted observable; column-less labels of an onset file are taken modulo equal-time classes"""
    out = []
    for kind, sev, row, col in keys:
        if has_onset and classes and row is not None and col is None and 0 <= row - adj < len(classes):
            row = classes[row - adj] + adj
        out.append([kind, sev, -1 if row is None else row, "" if col is None else col])
    return sorted(out)


def tl(label):
    """typed label as a sortable string: None, 'i:0', 's:HED'"""
    return None if label is None else f"{label[0]}:{label[1]}"


def model_label(x):
    """the driver's typed label (JSON number or string) in `norm_label` form"""
    return None if x is None else (["i", x] if isinstance(x, int) and not isinstance(x, bool) else ["s", x])


class Limiter:
    def __init__(self, ctx, cap=6):
        self.ctx, self.cap, self.n = ctx, cap, {}

    def violation(self, clause, case, detail, signature=None):
        self.n[clause] = self.n.get(clause, 0) + 1
        self.ctx.count("violation:" + clause)
        if self.n[clause] <= self.cap:
            self.ctx.violation(clause, case, detail, signature=signature)


def frame_parts(real, req):
    """independent of the model: the time-point contributions of every row: [(time, text, row)]"""
    parts = []
    for p, row in enumerate(req["rows"]):
        if row["onset"] is None:
            continue
        livec = [x for x in row["cells"] if x and x != "n/a"]
        series = ", ".join(livec)
        items = real.part("items", series)
        if items is None:
            parts.append((row["onset"], series, p))
            continue
        parts.append((row["onset"], ",".join(t for t, v in items if not isinstance(v, int)), p))
        for t, v in items:
            if isinstance(v, int):
                parts.append((row["onset"] + v, t, p))
    return parts


def check_table(ctx, lim, real, spec, req, model, variant, tag="table"):
    case = {"spec": spec}
    obs = real.observe(spec)
    adj, has_onset = req["rowAdj"], req["hasOnset"]
    n = len(req["rows"])
    nontrivial = n >= 2 and sum(1 for r in req["rows"] for x in r["cells"] if x and x != "n/a") >= 2
    ctx.case((tag, json.dumps(spec, sort_keys=True)), nontrivial=nontrivial,
             sample=case if n <= 3 and nontrivial else None)
    ctx.count("mode-" + spec["mode"] + ("-onset" if has_onset else ""))
    # ---- clause 1: never raises
    if "exc" in obs:
        lim.violation("file-validation-raised:" + obs["exc"] + ":" + obs["msg"].split(":")[0][:40], case, obs["msg"])
        if spec["mode"] == "sheet_nohdr" and not variant["sortKeyFixed"]:
            return obs      # sort_issues' mixed int/str column keys are outside the model
    parts = frame_parts(real, req) if has_onset else []
    classes = classes_of([(t, p) for t, _, p in parts], n) if has_onset else []
    # ---- correspondence
    refs = any("{" in str(v.get("HED")) for v in (spec.get("sidecar") or {}).values())
    if refs and model.get("sorted") and not variant["refsKeepIndex"]:
        # `_handle_curly_braces_refs` re-indexes the sorted copy's columns: the frame the code validates is not
        # the file's assembled frame; only the direct oracles apply
        if "exc" not in obs:
            direct_oracles(ctx, lim, real, case, req, obs, parts, classes)
        return obs
    if "exc" in model or "exc" in obs:
        if model.get("exc") != obs.get("exc"):
            ctx.disagree("Tabular.validate = validate (exception)", case, model.get("exc", "issues"), obs.get("exc", "issues"))
        return obs
    # the column label is compared with its type (integer labels of header-less files: 0 is not "" and not "0")
    m = canon_obs([i[:3] + [tl(model_label(i[6]))] for i in model["issues"]], classes, adj, has_onset)
    im = canon_obs([i["k"][:3] + [tl(i["col"])] for i in obs["issues"]], classes, adj, has_onset)
    if m != im:
        ctx.disagree("Tabular.validate = validate (kind, severity, ec_row, typed ec_column)", case, m, im)
    if any(l[0] == "i" for l in req["labels"]):
        ctx.count("headerless:tables")
        ctx.count("headerless:cell-issues-compared", sum(1 for i in obs["issues"] if i["col"] is not None))
        ctx.count("headerless:cell-issues-in-column-0", sum(1 for i in obs["issues"] if i["col"] == ["i", 0]))
    if model["sorted"]:
        ctx.count("sorted-copy")
    if spec["onsets"] and any(isinstance(t, str) for t in spec["onsets"]):
        ctx.count("text-onset:tables")
        ctx.count("text-onset:rows-without-time", sum(1 for t in spec["onsets"] if isinstance(t, str) and onset_time(t) is None))
        ctx.count("text-onset:rows-with-time", sum(1 for t in spec["onsets"] if isinstance(t, str) and onset_time(t) is not None))
    for i in model["issues"]:
        ctx.count("src-" + i[4])
    direct_oracles(ctx, lim, real, case, req, obs, parts, classes)
    return obs


def string_codes(real, text):
    """error codes of string-level validation of an assembled row, plus the file rule 'temporal tags need a time'"""
    from hed import HedString
    hs = HedString(text, real.schema, real.dd)
    codes = [i["code"] for i in hs.validate(allow_placeholders=False) if i["severity"] < 10]
    return codes, [t for t in hs.get_all_tags() if t.short_base_tag.lower() in TIME_TAGS]


def direct_oracles(ctx, lim, real, case, req, obs, parts, classes):
    adj, has_onset = req["rowAdj"], req["hasOnset"]
    n = len(req["rows"])
    issues = obs["issues"]
    by_row = {}
    for i in issues:
        if i["k"][2] is not None:
            by_row.setdefault(i["k"][2] - adj, []).append(i)
    times = {}
    for t, _, p in parts:
        times.setdefault(t, []).append(p)
    for p, row in enumerate(req["rows"]):
        livec = [(c, x) for c, x in enumerate(row["cells"]) if x and x != "n/a"]
        cell_iss = {c: real.part("cell", x) for c, x in livec}
        # ---- clause 3: every cell error is reported, with row and column
        got = sorted((i["k"][0], tl(i["col"])) for i in by_row.get(p, []) if i["col"] is not None and i["k"][1] < 10)
        want = sorted((k, tl(req["labels"][c])) for c, l in cell_iss.items() for k, s in l if s < 10)
        if any(got.count(x) < want.count(x) for x in want):
            lim.violation("cell-errors-kept", case, {"row": p, "reported": got, "cell_errors": want})
        # ---- clause 2: rows with error-free cells report exactly the string-level error codes
        if livec and any(s < 10 for _, s in cell_iss[livec[-1][0]]):
            # observation (not a clause of the model): the row is skipped for full checks, so an error that only the
            # full checks find in an EARLIER, per-cell clean cell (e.g. `Red, Red`) is not reported at all
            reported = {i["code"] for i in by_row.get(p, [])}
            for c, x in livec[:-1]:
                if not any(s < 10 for _, s in cell_iss[c]) and set(string_codes(real, x)[0]) - reported:
                    ctx.count("observation:full-only-error-of-earlier-cell-unreported")
        if not livec or any(s < 10 for l in cell_iss.values() for _, s in l):
            continue
        text = ", ".join(x for _, x in livec)
        file_codes = sorted(i["code"] for i in by_row.get(p, []) if i["k"][1] < 10)
        if not has_onset or row["onset"] is None:
            codes, timed = string_codes(real, text)
            want_codes = sorted(codes + ["TEMPORAL_TAG_ERROR"] * len(timed))
            ctx.count("clause2-rows")
        else:
            # a row that is a time point of its own and has no temporal content: the same, no extra rule
            own = [t for t, _, q in parts if q == p]
            if len(own) != 1 or len(times[own[0]]) != 1:
                continue
            codes, timed = string_codes(real, text)
            if timed:
                continue
            want_codes = sorted(codes)
            ctx.count("clause2-timepoint-rows")
        if file_codes != want_codes:
            lim.violation("row-equals-string", case, {"row": p, "file": file_codes, "string": want_codes, "text": text})
    # ---- clause 4: labels
    cats = {name: keys for name, keys in req["catCols"]}
    for i in issues:
        kind, sev, row, col = i["k"]
        if row is None:
            if col is not None:
                lim.violation("label-column-without-row", case, i["k"])
            continue
        p = row - adj
        if not 0 <= p < n:
            lim.violation("label-row-out-of-file", case, i["k"])
            continue
        cells = req["rows"][p]["cells"]
        if col is not None and i["text"] is None:     # SIDECAR_KEY_MISSING
            ci = [name for name, _ in req["catCols"]].index(col) if col in cats else -1
            v = req["rows"][p]["cats"][ci] if ci >= 0 else None
            if v is None or v == "n/a" or v in cats[col]:
                lim.violation("label-key-missing", case, i["k"])
        elif col is not None:
            # the label must be exactly (value AND type) the label of a column whose cell of that row holds the text
            sits_in = [req["labels"][c] for c, x in enumerate(cells) if x == i["text"]]
            if i["col"] not in sits_in:
                lim.violation("label-cell", case, {"issue": i["k"], "label": i["col"], "string": i["text"],
                                                   "text_sits_in_columns": sits_in, "row_cells": cells})
        elif not has_onset or req["rows"][p]["onset"] is None:
            if ",".join(x for x in cells if x and x != "n/a") != i["text"]:
                lim.violation("label-row", case, {"issue": i["k"], "string": i["text"], "row_cells": cells})
        else:
            check_point_label(ctx, lim, case, i, p, parts)


def check_point_label(ctx, lim, case, i, p, parts):
    """an issue of a time point: the string is the ','-join of the contributions with one effective time; the
    label must be the row the issue's tag is written in (located by the issue's character position)"""
    groups = {}
    for t, text, q in parts:
        groups.setdefault(t, []).append((text, q))
    for t, g in groups.items():
        if p not in [q for _, q in g]:
            continue
        if len(g) > 4:
            if all(x in i["text"] for x, _ in g):
                ctx.count("label-point-group-too-large-to-order")
                return
            continue
        for perm in itertools.permutations(g):
            if ",".join(x for x, _ in perm) == i["text"]:
                if len(g) == 1:
                    ctx.count("label-point-single")
                    return
                if i["pos"] is None:
                    ctx.count("label-point-merged-no-position")
                    return
                at = 0
                for x, q in perm:
                    if at <= int(i["pos"]) < at + len(x) + 1:
                        if q != p:
                            lim.violation("label-follows-source-row", case,
                                          {"issue": i["k"], "string": i["text"], "tag_at": i["pos"],
                                           "written_in_row": q, "labelled_row": p}, signature=SIG_MERGED)
                        else:
                            ctx.count("label-point-merged-ok")
                        return
                    at += len(x) + 1
                return
    lim.violation("label-point", case, {"issue": i["k"], "string": i["text"], "labelled_row": p,
                                       "contributions": [list(x) for x in parts]})


def shuffle_oracle(ctx, lim, base_spec, base_obs, perm, spec, obs, adj, classes):
    """clause 5: row `j` of the shuffled file is row `perm[j]` of the base file (ascending onsets)"""
    case = {"spec": spec, "base": base_spec, "perm": list(perm)}
    if "exc" in base_obs or "exc" in obs:
        return
    def relabelled(o, back):
        out = []
        for i in o["issues"]:
            kind, sev, row, col = i["k"]
            if kind == UNORDERED:
                continue
            if row is not None and not 0 <= row - adj < len(classes):
                row = 10 ** 6 + row       # a label outside the file (reported by the label oracle)
            elif row is not None:
                row = back(row - adj)
                if col is None:
                    row = classes[row]
            out.append([kind, sev, -1 if row is None else row, col or ""])
        return sorted(out)
    a = relabelled(base_obs, lambda r: r)
    b = relabelled(obs, lambda r: perm[r])
    if a != b:
        lim.violation("shuffle-relabels", case, {"base": a, "shuffled": b})
    cnt = sum(1 for i in obs["issues"] if i["k"][0] == UNORDERED)
    want = 0 if list(perm) == sorted(perm) else 1
    if cnt != want:
        lim.violation("shuffle-one-unordered-warning", case, {"count": cnt, "expected": want})
    ctx.count("shuffle-pairs")


# ---------------------------------------------------------------------------------------------- witnesses
def plain(mode, onsets, *cols):
    n = len(cols[0])
    return {"mode": mode, "onsets": onsets, "cols": [list(c) for c in cols],
            "marks": [{"time": 0, "markers": [], "delayed": []} for _ in range(n)], "clean": [True] * n}


W_MASK = plain("tabular", [8, None, 24], ["Green", "Blue", "Red, Red"])
W_DELAY = [plain("tabular", [8, 16], ["Green", "(Delay/1 xyz, (Red))"]),
           plain("tabular", [8, None], ["Green", "(Delay/1 s, (Red))"]),
           plain("tabular", [8, 16], ["Green", "(Delay/abc, (Red))"])]
W_SORTKEY = plain("sheet_nohdr", None, ["Greenish"], ["Red, Red"])
W_REFS = dict(plain("sidecar", [24, 8, 16], ["Blue", "Green", "Black"], ["n/a", "n/a", "n/a"], ["w 3", "v1", "v2"]),
              sidecar={"val": {"HED": "Label/#, {HED}"}})
# header-less spreadsheets: the columns are the integers 0, 1 (or 1, 2 behind a leading non-HED column)
W_NOHDR = [plain("sheet_nohdr", None, ["Greenish", "Red", "n/a"], ["Blue", "Greenish, Red", "Red/Blue"]),
           dict(plain("sheet_nohdr", None, ["Greenish", "Red"], ["Blue", "Greenish"]), lead=1),
           dict(plain("sheet_nohdr", None, ["Greenish", "Red"], ["Blue", "Greenish"]), lead=0, from_file=True)]
# onset cells that are text but not n/a: no time, so the row's assembled-row checks belong to `_run_checks`
W_TEXT_ONSET = [plain("tabular", [8, "1,5", "later", 24], ["Green", "Red, Red", "(Def/A, Onset, (Label/u1))", "Blue"]),
                plain("sheet", [8, "nan", "-"], ["Green", "Red", "Blue"], ["Blue", "Red", "(Def/A, Offset)"]),
                plain("tabular", ["+3", " 2 ", ".5", "1_0"], ["Red, Red", "Blue", "(Def/A, Onset, (Label/u2))", "Blue, Blue"])]
W_MERGED = plain("tabular", [8, 8, 24], ["n/a", "(Def/A, Offset)", "Red"])


def detect_variant(real):
    """which of the proposed repairs does the tree under test contain (the model mirrors the tree as it is)"""
    o = real.observe(W_MASK)
    twice = "issues" in o and sum(1 for i in o["issues"] if i["code"] == "TAG_EXPRESSION_REPEATED") == 2
    o = real.observe(W_REFS)
    moved = "issues" in o and any(i["code"] == "CHARACTER_INVALID" and i["k"][2] != 2 for i in o["issues"])
    return {"maskByRow": not twice, "refsKeepIndex": not moved,
            "guardDelay": all("exc" not in real.observe(w) for w in W_DELAY),
            "sortKeyFixed": "exc" not in real.observe(W_SORTKEY)}


def span_checks(ctx, real):
    """`_get_org_span_from_strings` against `remapSpan`, and the slice property on the real objects"""
    from hed import HedString
    cells_list = [["Red, (Blue, Circle)", "Green", "(Def/A, Onset), Label/x1"], ["Red"], ["Item/Myext, Red", "Square,Circle"]]
    for _ in range(40 if ctx.quick() else 400):
        cells_list.append([", ".join(ctx.rng.choice(VALID) for _ in range(ctx.rng.randint(1, 3)))
                           for _ in range(ctx.rng.randint(1, 4))])
    reqs, expect = [], []
    for cells in cells_list:
        strings = [HedString(c, real.schema) for c in cells]
        tags = [(k, t, t.span) for k, s in enumerate(strings) for t in s.get_all_tags()]
        joined = HedString.from_hed_strings(strings)
        for k, t, span in tags:
            got = joined._get_org_span(t)
            reqs.append({"op": "c07.span", "cells": cells, "i": k, "a": span[0], "b": span[1]})
            expect.append((cells, k, t, span, got, joined._hed_string))
    for (cells, k, t, span, got, text), a in zip(expect, ctx.model.batch(reqs)):
        case = {"cells": cells, "cell": k, "span": list(span)}
        ctx.case(("span", json.dumps(case)), nontrivial=len(cells) > 1)
        if list(got) != a["span"] or text != a["joined"]:
            ctx.disagree("remapSpan = _get_org_span_from_strings", case, a, [list(got), text])
        if text[got[0]:got[1]] != cells[k][span[0]:span[1]] or text[got[0]:got[1]] != t.org_tag:
            ctx.violation("span-remap-slices-tag", case, {"slice": text[got[0]:got[1]], "tag": t.org_tag})


def concat_checks(ctx, real):
    """`from_hed_strings(cells)`: the cells' trees side by side with remapped spans.  Model `concatTrees` against the real
    objects for every row seen; and, for rows whose cells all have balanced parentheses, both against the tree of the
    joined text parsed as one string (the unproved general statement of Props/C07, evaluated)."""
    from hed import HedString
    from hed.models.hed_group import HedGroup

    def code(nodes, span):
        out = []
        for ch in nodes:
            a, b = span(ch)
            out += ([1, a, b] + code(ch.children, span) + [2]) if isinstance(ch, HedGroup) else [0, a, b]
        return out
    rows = sorted(real.rows_seen)
    ctx.rng.shuffle(rows)
    rows = [list(r) for r in rows[:1500 if ctx.quick() else 12000]] + [["(Red", "Blue)"], ["Red)", "(Blue"]]
    ans = ctx.model.batch([{"op": "c07.concat", "cells": r} for r in rows])
    for cells, a in zip(rows, ans):
        case = {"cells": cells, "concat": True}
        ctx.case(("concat", json.dumps(cells)), nontrivial=len(cells) > 1)
        joined = HedString.from_hed_strings([HedString(c, real.schema) for c in cells])
        impl = code(joined.children, joined._get_org_span)
        if impl != a["code"]:
            ctx.disagree("concatTrees = HedString.from_hed_strings (tree with remapped spans)", case, a["code"], impl)
        whole = HedString(",".join(cells), real.schema)
        same_impl = impl == code(whole.children, lambda n: n.span)
        if all(a["balanced"]):
            ctx.count("concat:rows-with-balanced-cells")
            if not a["same"]:
                ctx.disagree("concatTrees = construct(join) for balanced cells (model)", case, a["code"], "differs")
            if not same_impl:
                ctx.violation("from_hed_strings-equals-parse-of-join", case, {"from_strings": impl})
        else:
            ctx.count("concat:rows-with-unbalanced-cell" + ("" if a["same"] and same_impl else "-trees-differ"))


# ---------------------------------------------------------------------------------------------- run
def run_specs(ctx, lim, real, specs, variant, tag="table"):
    out = []
    for lo in range(0, len(specs), 400):
        chunk = specs[lo:lo + 400]
        reqs = [real.request(s, variant) for s in chunk]
        models = model_batch(ctx, real, reqs)
        for s, rq, m in zip(chunk, reqs, models):
            out.append((rq, check_table(ctx, lim, real, s, rq, m, variant, tag)))
        ctx.check_time()
    return out


def run(ctx):
    real = Real()
    try:
        _run(ctx, real)
    finally:
        real.cleanup()


def _run(ctx, real):
    lim = Limiter(ctx)
    variant = detect_variant(real)
    ctx.extra["tree_variant"] = variant
    ctx.extra["rule"] = ("frames with 1-3 HED-bearing columns (HED column, sidecar categorical and value columns, spreadsheet tag "
                         "columns with header, and header-less with integer labels at positions 0.. or behind 1-2 leading columns, from a "
                         "DataFrame or a TSV file; column labels compared with their type), cells from valid / invalid / full-check-only fragments, Delay and Duration "
                         "groups in 7 unit spellings, c10 temporal markers (plain and delayed), n/a and empty cells, equal and "
                         "non-numeric onsets; all row permutations of files with <= 4 (quick) / 5 rows, random ones for longer; "
                         "non-trivial = at least 2 rows and 2 non-empty cells")
    span_checks(ctx, real)
    # the known witnesses first: concrete violations on a tree without the repairs
    specs = [W_MASK, W_MERGED, W_SORTKEY, W_REFS] + W_DELAY + W_NOHDR + W_TEXT_ONSET
    n_rand = 700 if ctx.quick() else 9000
    for _ in range(n_rand):
        specs.append(gen_spec(ctx.rng, real))
    run_specs(ctx, lim, real, specs, variant)
    # shuffles
    n_base = 45 if ctx.quick() else 320
    for b in range(n_base):
        nrows = ctx.rng.choice([2, 3, 3, 4, 4] if ctx.quick() else [2, 3, 4, 4, 5, 5, 6, 8])
        while True:
            base = gen_spec(ctx.rng, real, nrows=nrows, mode=ctx.rng.choice(["tabular", "sidecar"]), distinct=True)
            if base["onsets"] is not None:
                break
        order = sorted(range(nrows), key=lambda r: base["onsets"][r])
        base = permuted(base, order)
        if nrows <= 5:
            perms = list(itertools.permutations(range(nrows)))
        else:
            perms = [tuple(range(nrows))] + [tuple(ctx.rng.sample(range(nrows), nrows)) for _ in range(30)]
        specs = [permuted(base, p) for p in perms]
        res = run_specs(ctx, lim, real, specs, variant, tag="shuffle")
        rq0, obs0 = res[0]
        parts = frame_parts(real, rq0)
        classes = classes_of([(t, p) for t, _, p in parts], nrows)
        for p, s, (rq, obs) in zip(perms, specs, res):
            shuffle_oracle(ctx, lim, base, obs0, p, s, obs, rq0["rowAdj"], classes)
        ctx.check_time()
    concat_checks(ctx, real)
    try:    # closed mode: the same pipeline with string validation computed by the C01 model inside Lean
        from harness.props import closed_c07
        closed_c07.run_closed(ctx)
    except ImportError:
        pass


def replay(ctx, rec):
    real = Real()
    lim = Limiter(ctx)
    variant = detect_variant(real)
    case = rec.get("case") or (rec.get("disagreements") or [{}])[0].get("case")
    if not case:
        print("nothing to replay (obligation-only record):", rec.get("broken_obligations"))
        return
    if case.get("closed") == "raw":
        from harness.props import closed_c07
        closed_c07.run_closed(ctx, pairs=[case["pair"]])
    elif case.get("closed"):
        from harness.props import closed_c07
        closed_c07.run_closed(ctx, specs=[case["spec"]])
    elif case.get("concat"):
        real.rows_seen.add(tuple(case["cells"]))
        concat_checks(ctx, real)
    elif "cells" in case:
        span_checks(ctx, real)
    elif "perm" in case:
        res = run_specs(ctx, lim, real, [case["base"], case["spec"]], variant, tag="shuffle")
        n = len(case["perm"])
        classes = classes_of([(t, p) for t, _, p in frame_parts(real, res[0][0])], n)
        shuffle_oracle(ctx, lim, case["base"], res[0][1], case["perm"], case["spec"], res[1][1], res[0][0]["rowAdj"], classes)
    else:
        run_specs(ctx, lim, real, [case["spec"]], variant)
    real.cleanup()
    print("replayed", json.dumps(case)[:300])
