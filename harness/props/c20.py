"""C20 — Temporal context of every event equals the set of processes ongoing at that time.

Correspondence: the real `EventManager` / `HedTagManager` on generated events frames (Onset/Offset pairs,
Inset groups, Duration groups, Delay shifts, equal-onset rows, plain tags, type tags; times on a 1/8 s grid)
against the Lean model working on the *text* of the file (`Events.buildText`: C02 parser, classification of the
top-level groups, scan, process texts by `splitGroup`, unfolding with `remove_types` / `replace_defs`).
Direct oracle: the property statement computed independently in Python per *time point* from the generated
history (`spec_processes`, own rendering `item_str`), applied to the implementation's output.
"""
import itertools
import json
import math

THEOREMS = [
    "HedVerif.C20.context_spec",
    "HedVerif.C20.context_start_order",
    "HedVerif.C20.merged_rows",
    "HedVerif.C20.merged_rows_strict_counterexample",
    "HedVerif.C20.boundaries_duration_exact",
    "HedVerif.C20.boundaries_restart",
    "HedVerif.C20.boundaries_past_end",
    "HedVerif.C20.base_listed",
    "HedVerif.C20.remainder_plain",
    "HedVerif.C20.reject_unordered",
    "HedVerif.C20.accept_ordered",
    "HedVerif.C20.process_content_spec",
    "HedVerif.C20.inset_is_remainder",
    "HedVerif.C20.inset_not_scanned",
    "HedVerif.C20.onset_duration_is_onset",
    "HedVerif.C20.unfold_commutes",
    "HedVerif.C20.frame_is_timepoints",
    "HedVerif.C20.frame_times_are_effective_times",
    "HedVerif.C20.valid_history_never_rejected",
    "HedVerif.C20.valid_text_never_rejected",
    "HedVerif.C20.classify_ok",
    "HedVerif.C20.context_eq_validator_open_set",
    "HedVerif.C20.ongoing_iff_last_onset",
    "HedVerif.C20.seqOp_iff_last_onset",
    "HedVerif.C20.run_iff",
    "HedVerif.C20.rejects_iff_unmatched_offset",
    "HedVerif.C20.duration_context_interval",
    "HedVerif.C20.delay_shifts_start",
    "HedVerif.C20.context_case_insensitive",
    "HedVerif.C20.identical_processes_both_listed",
]
BUDGET = {"quick": 900, "thorough": 3600}

DEF_TABLE = [["A", "Condition-variable/Cv1, Red"], ["B", "Blue"], ["C", "Label/#, Task/T1"], ["Ab", "Green"]]
DEFS = "(Definition/A, (Condition-variable/Cv1, Red)), (Definition/B, (Blue)), (Definition/C/#, (Label/#, Task/T1)), " \
       "(Definition/Ab, (Green))"
NAMES = ["A", "a", "B", "C/1", "C/2", "Ab"]
# HedTagManager(em, remove_types=types).get_hed_objs(include_context=ctx, replace_defs=replace)
VARIANTS = [{"types": [], "ctx": True, "replace": False},
            {"types": ["Condition-variable"], "ctx": True, "replace": False},
            {"types": ["condition-variable", "Task"], "ctx": True, "replace": True},
            {"types": [], "ctx": False, "replace": True}]
INF = math.inf
# Reading of the property for the *later* rows of a merged time point (DESIGN section 8 #15).  False: the later
# rows are filler entries of the time point and are compared with the reading the model is proved to satisfy
# (`merged_rows`: started earlier *or at* this time point); True: every row must show the strict context and a
# deviation is reported with the signature below.
STRICT_LATER_ROWS = False
SIG_LATER = "C20-merged-rows-see-own-starts"

SPELLS = [lambda n: f"{n / 8} s", lambda n: f"{n * 125} ms", lambda n: f"{n / 8} second",
          lambda n: f"{n / 8} Seconds", lambda n: f"{n / 8} seconds"]

# Items of a row (JSON lists; the trailing fields are optional so that older replay files still load):
#   ["onset", name, uid, inner, lc]   inner: 0/False none, 1/True (Label/uN), 2 (Condition-variable/VN, Label/uN),
#                                      3 (Label/uN, (Task/TN, Red)); lc: reserved tags spelled in lower case
#   ["offset", name, lc]   ["inset", name, uid]   ["duration", len8, uid, spell, lc]   ["plain", uid, style]
#   ["onsetdur", name, len8, uid]  Onset and Duration in one group (rejected by the validator; model/impl only)
#   ["durbare", len8, uid]         Duration group without inner group (rejected by the validator; content "None")


def _inner(it):
    v = it[3] if len(it) > 3 else 0
    return 1 if v is True else 0 if v is False else v


def _lc(it, pos):
    return bool(it[pos]) if len(it) > pos else False


INNER_TEXT = {1: "(Label/u{u})", 2: "(Condition-variable/V{u}, Label/u{u})", 3: "(Label/u{u}, (Task/T{u}, Red))"}
PLAIN_TEXT = {0: "Label/p{u}", 1: "(Label/p{u}, Green)", 2: "(Condition-variable/W{u}, Label/p{u})", 3: "Task/Tp{u}"}


# ---------------------------------------------------------------- rendering (harness items -> HED text)
def _delay_tag(d, lc=False):
    return f"{'delay' if lc else 'Delay'}/{d / 8} s"


def cell_text(it, d=None):
    k = it[0]
    if k == "onset":
        lc = _lc(it, 4)
        dp = (_delay_tag(d, lc) + ", ") if d is not None else ""
        inner = _inner(it)
        tail = (", " + INNER_TEXT[inner].format(u=it[2])) if inner else ""
        return "(" + dp + (f"def/{it[1]}, onset" if lc else f"Def/{it[1]}, Onset") + tail + ")"
    if k == "offset":
        lc = _lc(it, 2)
        dp = (_delay_tag(d, lc) + ", ") if d is not None else ""
        return "(" + dp + (f"def/{it[1]}, offset)" if lc else f"Def/{it[1]}, Offset)")
    dp = (_delay_tag(d) + ", ") if d is not None else ""
    if k == "inset":
        return "(" + dp + f"Def/{it[1]}, Inset, (Label/u{it[2]}))"
    if k == "duration":
        lc = _lc(it, 4)
        dp = (_delay_tag(d, lc) + ", ") if d is not None else ""
        return "(" + dp + f"{'duration' if lc else 'Duration'}/{SPELLS[it[3]](it[1])}, (Label/u{it[2]}))"
    if k == "onsetdur":
        return "(" + dp + f"Def/{it[1]}, Onset, Duration/{it[2] / 8} s, (Label/u{it[3]}))"
    if k == "durbare":
        return "(" + dp + f"Duration/{it[1] / 8} s, Label/u{it[2]})"
    if d is not None:
        return f"({_delay_tag(d)}, (Label/p{it[1]}))"
    return PLAIN_TEXT[it[2]].format(u=it[1])


def _nosp(s):
    return s.replace(", ", ",")


def item_str(it, d=None):
    """the text the manager is expected to show for the item (process text or remainder text): the statement's
    'process content' / 'remaining annotation', rendered here independently of the Lean model"""
    k = it[0]
    dp = (_delay_tag(d) + ",") if d is not None else ""
    if k == "onset":
        inner = _inner(it)
        return f"({dp}Def/{it[1]},{_nosp(INNER_TEXT[inner].format(u=it[2]))})" if inner else f"Def/{it[1]}"
    if k == "duration":
        return f"({dp}(Label/u{it[2]}))"
    if k == "inset":
        return f"({dp}Def/{it[1]},Inset,(Label/u{it[2]}))"
    if k == "plain":
        if d is not None:
            return f"({dp}(Label/p{it[1]}))"
        return _nosp(PLAIN_TEXT[it[2]].format(u=it[1]))
    return None


def value_table(rows, spells_unused=None):
    """(tag text, value in default units x 8) of every Duration / Delay tag of the file (conversion is C11's)"""
    out = {}
    for r in rows:
        for d, it in [(None, i) for i in r["items"]] + [(d, i) for d, i in r["delayed"]]:
            if d is not None:
                for lc in (False, True):
                    out[_delay_tag(d, lc)] = d
            if it[0] == "duration":
                out[f"{'duration' if _lc(it, 4) else 'Duration'}/{SPELLS[it[3]](it[1])}"] = it[1]
            elif it[0] == "onsetdur":
                out[f"Duration/{it[2] / 8} s"] = it[2]
            elif it[0] == "durbare":
                out[f"Duration/{it[1] / 8} s"] = it[1]
    return [[k, v] for k, v in out.items()]


def row_text(r):
    cell = [cell_text(i) for i in r["items"]] + [cell_text(i, d) for d, i in r["delayed"]]
    return ", ".join(cell) if cell else "n/a"


def model_request(rows):
    # an empty cell reaches the manager as '' (n/a is dropped by the assembly)
    return {"op": "c20.text", "rows": [{"time": r["time"], "hed": "" if row_text(r) == "n/a" else row_text(r)} for r in rows],
            "vals": value_table(rows), "defs": DEF_TABLE, "variants": VARIANTS}


def rows_to_frame(rows):
    import pandas as pd
    # optional "label" of a row = its row label in the frame (default: its position).  The file is read in row
    # order whatever the labels are; `split_delay_tags` must look the onset of a Delay group's row up by label.
    return pd.DataFrame({"onset": [str(r["time"] / 8) for r in rows], "duration": ["n/a"] * len(rows),
                         "HED": [row_text(r) for r in rows]}, index=[r.get("label", k) for k, r in enumerate(rows)])


def with_labels(rows, labels):
    return [dict(r, label=l) for r, l in zip(rows, labels)]


def label_variants(files, limit):
    """every assignment of the labels 0..n-1 (all permutations, <= 4 rows) to files that carry Delay groups"""
    out = []
    for f in files:
        if 2 <= len(f) <= 4 and any(r["delayed"] for r in f) and len(out) < limit:
            for perm in itertools.permutations(range(len(f))):
                if list(perm) != list(range(len(f))):
                    out.append(with_labels(f, perm))
    return out


def split_top(s):
    """top-level comma split of a HED string"""
    out, depth, cur = [], 0, ""
    for ch in s:
        if ch == "," and depth == 0:
            out.append(cur)
            cur = ""
            continue
        depth += ch == "("
        depth -= ch == ")"
        cur += ch
    out.append(cur)
    return [x.strip() for x in out if x.strip()]


# ---------------------------------------------------------------- the property statement (independent reference)
def frame_rows(rows):
    """(effective time, [(item, delay)]) for every row of the working frame: own rows, then one per Delay group"""
    fr = [(r["time"], [(i, None) for i in r["items"]]) for r in rows]
    for r in rows:
        for d, i in r["delayed"]:
            fr.append((r["time"] + d, [(i, d)]))
    return fr


def spec_processes(rows):
    """processes (start time, end time or inf, text) and plain texts per time point, straight from the statement"""
    fr = frame_rows(rows)
    T = sorted({t for t, _ in fr})
    at = {t: [] for t in T}
    for t, its in fr:
        at[t].extend(its)
    procs, plain = [], {t: [] for t in T}
    for t in T:
        for it, d in at[t]:
            if it[0] == "onset":
                key = it[1].casefold()
                later = [t2 for t2 in T if t2 > t and any(j[0] in ("onset", "offset") and j[1].casefold() == key
                                                           for j, _ in at[t2])]
                procs.append((t, min(later, default=INF), item_str(it, d)))
            elif it[0] == "duration":
                procs.append((t, min([t2 for t2 in T if t2 >= t + it[1]], default=INF), item_str(it, d)))
            elif it[0] in ("plain", "inset"):
                plain[t].append(item_str(it, d))
    return T, procs, plain, sorted(t for t, _ in fr)


def valid_history(rows):
    """what string/temporal validation accepts: Offsets and Insets refer to a process open before their time
    point, no folded name twice in one time point, no Onset+Duration group, no bare Duration group"""
    fr = frame_rows(rows)
    if any(i[0] in ("onsetdur", "durbare") for _, its in fr for i, _ in its):
        return False
    for t in {t for t, _ in fr}:            # TAG_EXPRESSION_REPEATED: the same group text twice in one time point
        texts = [cell_text(i, d) for tt, its in fr if tt == t for i, d in its]
        if len(set(texts)) != len(texts):
            return False
    open_ = set()
    for t in sorted({t for t, _ in fr}):
        ms = [(i[0], i[1].casefold()) for tt, its in fr if tt == t for i, _ in its
              if i[0] in ("onset", "offset", "inset")]
        if len({k for _, k in ms}) != len(ms):
            return False
        for kind, k in ms:
            if kind != "onset" and k not in open_:
                return False
        for kind, k in ms:
            if kind == "onset":
                open_.add(k)
            elif kind == "offset":
                open_.discard(k)
    return True


def raises_expected(rows):
    """does the constructor have to raise for an ordered file (only possible for invalid histories):
    an Offset whose name is not open when the scan reaches it"""
    fr = frame_rows(rows)
    open_ = set()
    for t in sorted({t for t, _ in fr}):
        for tt, its in fr:
            if tt != t:
                continue
            for i, _ in its:
                if i[0] in ("onset", "onsetdur"):
                    open_.add(i[1].casefold())
                elif i[0] == "offset":
                    if i[1].casefold() not in open_:
                        return True
                    open_.discard(i[1].casefold())
    return False


def ambiguous_firsts(rows, onsets):
    """first-row indices of time points made of >= 2 non-empty frame rows (their join order is unspecified:
    pandas' sort is not stable)"""
    cnt = {}
    for t, its in frame_rows(rows):
        if its:
            cnt[t] = cnt.get(t, 0) + 1
    return {onsets.index(t) for t, c in cnt.items() if c >= 2 and t in onsets}


# ---------------------------------------------------------------- implementation
def impl_run(rows, schema, dd):
    from hed import TabularInput
    from hed.tools.analysis.event_manager import EventManager
    from hed.tools.analysis.hed_tag_manager import HedTagManager
    df = rows_to_frame(rows)
    before = df.copy()
    em = EventManager(TabularInput(df, name="gen"), schema, dd)
    objs, typedefs = [], []
    for v in VARIANTS:
        tm = HedTagManager(em, remove_types=list(v["types"]))
        objs.append([str(o) if o is not None else "" for o in tm.get_hed_objs(v["ctx"], v["replace"])])
        typedefs.append(sorted(tm.type_def_names))
    assert df.equals(before)
    return {
        "onsets": [round(float(x) * 8) for x in em.onsets],
        "onsets_exact": all(float(x) * 8 == round(float(x) * 8) for x in em.onsets),
        "base": list(em.base), "contexts": list(em.contexts),
        "hed": [str(h) for h in em.hed_strings],
        "events": [[e.start_index, e.end_index, str(e.contents)] for ev in em.event_list for e in ev],
        "anchors": [[e.start_index, e.end_index, e.anchor] for ev in em.event_list for e in ev],
        "objs": objs, "typedefs": typedefs,
    }


def _same(model_pairs, impl_strs, amb):
    """model [(text, start index)] vs impl [text]: equal lists, up to order inside a start index in `amb`"""
    if len(model_pairs) != len(impl_strs):
        return False
    k = 0
    while k < len(model_pairs):
        e = k
        while e < len(model_pairs) and model_pairs[e][1] == model_pairs[k][1]:
            e += 1
        a, b = [x for x, _ in model_pairs[k:e]], impl_strs[k:e]
        if (sorted(a) != sorted(b)) if model_pairs[k][1] in amb else (a != b):
            return False
        k = e
    return True


def _obj_parts(parts):
    cpart = [p for p in parts if p.startswith("(Event-context,(")]
    inner = split_top(cpart[0][len("(Event-context,("):-2]) if cpart else []
    rest = [p for p in parts if not p.startswith("(Event-context,(")]
    return len(cpart), inner, rest


def compare_model(ctx, rows, m, obs):
    case = {"rows": rows}
    if m["onsets"] != obs["onsets"]:
        ctx.disagree("Events.buildText onsets = EventManager.onsets", case, m["onsets"], obs["onsets"])
        return
    n = len(obs["onsets"])
    amb = ambiguous_firsts(rows, obs["onsets"])
    mp = [[c, s] for s, e, c in m["procs"]]
    if not _same(mp, [x[2] for x in obs["events"]], amb) or \
            sorted((s, e, c) for s, e, c in m["procs"]) != sorted(map(tuple, obs["events"])):
        ctx.disagree("Events.buildText processes = event_list (start_index, end_index, str(contents))", case,
                     m["procs"], obs["events"])
    for v, (mt, it) in enumerate(zip(m["typedefs"], obs["typedefs"])):
        if sorted(mt) != it:
            ctx.disagree("Events.typeDefNames = EventManager.get_type_defs", case, {"variant": v, "names": mt}, it)
    for i in range(n):
        mb = [[c, i] for c in m["base"][i]]
        if not _same(mb, split_top(obs["base"][i]), amb):
            ctx.disagree("Events.baseNodes = EventManager.base", case, {"row": i, "base": mb}, obs["base"][i])
        mc = m["contexts"][i]
        if not _same(mc, split_top(obs["contexts"][i]), amb):
            ctx.disagree("Events.ctxNodes = EventManager.contexts", case, {"row": i, "ctx": mc}, obs["contexts"][i])
        mr = [[c, i] for c in m["hed"][i]]
        if not _same(mr, split_top(obs["hed"][i]), amb):
            ctx.disagree("Events.remNodes = EventManager.hed_strings", case, {"row": i, "rem": mr}, obs["hed"][i])
        loose = i in amb or any(s in amb for _, s in mc)
        for v in range(len(VARIANTS)):
            a = _obj_parts(m["objs"][v][i])
            b = _obj_parts(split_top(obs["objs"][v][i]))
            if loose:
                a, b = (a[0], sorted(a[1]), sorted(a[2])), (b[0], sorted(b[1]), sorted(b[2]))
            if a != b:
                ctx.disagree("Events.objNodes = HedTagManager(remove_types).get_hed_objs(ctx, replace_defs)", case,
                             {"row": i, "variant": VARIANTS[v], "obj": m["objs"][v][i]}, obs["objs"][v][i])


def oracle(ctx, rows, obs):
    """the property statement evaluated on the implementation's output"""
    case = {"rows": rows}
    T, procs, plain, exp_onsets = spec_processes(rows)
    on = obs["onsets"]
    n = len(on)
    if on != exp_onsets or not obs["onsets_exact"]:
        ctx.violation("entries-in-time-order", case, {"onsets": on, "expected": exp_onsets})
        return
    first = [i == 0 or on[i] != on[i - 1] for i in range(n)]
    stat = {"ctx": 0}
    for i in range(n):
        t = on[i]
        got = split_top(obs["contexts"][i])
        strict = [p for p in procs if p[0] < t < p[1]]
        incl = [p for p in procs if p[0] <= t < p[1]]
        want = strict if first[i] or STRICT_LATER_ROWS else incl
        by = {}
        for p in want:
            by.setdefault(p[2], []).append(p[0])
        starts = [by[g].pop(0) if by.get(g) else None for g in got]
        ok = sorted(got) == sorted(p[2] for p in want) and None not in starts and starts == sorted(starts)
        if not first[i] and sorted(p[2] for p in strict) != sorted(p[2] for p in incl):
            ctx.count("later-row-of-merged-point-has-own-starts")
        if not ok:
            later_only = not first[i] and STRICT_LATER_ROWS and sorted(got) == sorted(p[2] for p in incl)
            ctx.violation("context-equals-ongoing-processes" if first[i] else "context-at-later-row-of-merged-point",
                          case, {"row": i, "time": t, "contexts": obs["contexts"][i], "expected": [p[2] for p in want]},
                          signature=SIG_LATER if later_only else None)
        stat["ctx"] += len(got) > 0
        wb = sorted(p[2] for p in procs if p[0] == t) if first[i] else []
        if sorted(split_top(obs["base"][i])) != wb:
            ctx.violation("process-listed-at-its-start-point", case, {"row": i, "base": obs["base"][i], "expected": wb})
        wr = sorted(plain[t]) if first[i] else []
        if sorted(split_top(obs["hed"][i])) != wr:
            ctx.violation("remaining-annotation-kept-without-temporal-groups", case,
                          {"row": i, "hed": obs["hed"][i], "expected": wr})
        # unfolding (no filtering) shows the same three parts
        k, inner, rest = _obj_parts(split_top(obs["objs"][0][i]))
        if sorted(inner) != sorted(got) or sorted(rest) != sorted(split_top(obs["hed"][i]) + split_top(obs["base"][i])):
            ctx.violation("unfolded-entry-shows-annotation-starts-and-context", case,
                          {"row": i, "obj": obs["objs"][0][i], "base": obs["base"][i], "contexts": obs["contexts"][i]})
    # every process: starts at the first row of its time point, ends at the first row of its end point / at the end
    ev = []
    for s, e, txt in obs["events"]:
        if not (0 <= s < n and first[s] and s <= e <= n and (e == n or first[e])):
            ctx.violation("process-bounds-are-time-points", case, {"event": [s, e, txt]})
            return stat
        ev.append((on[s], on[e] if e < n else INF, txt))
    if sorted(ev) != sorted(procs):
        ctx.violation("process-extent-as-stated", case, {"events": sorted(ev), "expected": sorted(procs)})
    boundary_stats(ctx, rows)
    return stat


def boundary_stats(ctx, rows):
    """how often the generated histories hit the boundary situations named in the property"""
    fr = frame_rows(rows)
    T = sorted({t for t, _ in fr})
    T_, procs_, _, _ = spec_processes(rows)
    for t in T_:
        strs = [p[2] for p in procs_ if p[0] <= t < p[1]]
        if len(set(strs)) != len(strs):
            ctx.count("identical-contents-ongoing-together")
            break
    marks = {}
    for t, its in fr:
        for it, _ in its:
            if it[0] in ("onset", "offset"):
                marks.setdefault(it[1].casefold(), []).append((t, it[0]))
    for t, its in fr:
        for it, _ in its:
            if it[0] == "duration":
                if t + it[1] in T:
                    ctx.count("duration-ends-exactly-at-a-time-point")
                elif t + it[1] > T[-1]:
                    ctx.count("duration-beyond-last-row")
                else:
                    ctx.count("duration-ends-between-time-points")
            elif it[0] == "onset":
                later = sorted(m for m in marks[it[1].casefold()] if m[0] > t)
                ctx.count("onset-open-to-end-of-file" if not later else
                          "onset-closed-by-restart" if later[0][1] == "onset" else "onset-closed-by-offset")
            elif it[0] == "inset":
                ctx.count("inset-group")


def validator_open_sets(rows, schema, dd):
    """the real OnsetValidator run over the time points of the file (all groups effective at one time, joined):
    (time, issues, set of open folded names after that time point)"""
    from hed import HedString
    from hed.validator.onset_validator import OnsetValidator
    fr = frame_rows(rows)
    ov, out = OnsetValidator(), []
    for t in sorted({t for t, _ in fr}):
        text = ", ".join(cell_text(i, d) for tt, its in fr if tt == t for i, d in its)
        issues = ov.validate_temporal_relations(HedString(text, schema, dd)) if text else []
        out.append((t, len(issues), set(ov._onsets.keys())))
    return out


def check_refinement(ctx, rows, obs, schema, dd):
    """`context_eq_validator_open_set` on the two real implementations: the Onset processes the manager has
    ongoing after a time point are the names the validator has open after it"""
    on = obs["onsets"]
    for t, nissues, open_ in validator_open_sets(rows, schema, dd):
        i = on.index(t)
        mine = {a[4:].casefold() for s, e, a in obs["anchors"] if a is not None and s <= i < e}
        if nissues or mine != open_:
            ctx.disagree("EventManager ongoing Onset processes = OnsetValidator open set (both real)", {"rows": rows},
                         {"time": t, "validator_open": sorted(open_), "validator_issues": nissues}, sorted(mine))
            return
    ctx.count("refinement-checked-on-both-implementations")


def check_file(ctx, rows, m, schema, dd, validate=False):
    case = {"rows": rows}
    ordered = all(a["time"] <= b["time"] for a, b in zip(rows, rows[1:]))
    valid = valid_history(rows)
    try:
        obs = impl_run(rows, schema, dd)
    except Exception as e:
        kind = type(e).__name__
        ctx.case(("x", json.dumps(rows)), nontrivial=False)
        if not ordered:
            ctx.count("rejected-unordered")
            if kind != "HedFileError":
                ctx.violation("unordered-file-rejected", case, f"raised {kind}: {e}")
            if m.get("reject") != "unordered":
                ctx.disagree("Events.buildText rejects unordered onsets", case, m, kind)
        elif not valid:
            ctx.count("invalid-history-raised:" + kind)
            if m.get("ok"):
                ctx.disagree("Events.buildText = EventManager on an invalid history", case, "ok", kind)
        else:
            # `valid_history_never_rejected`: nothing the validators accept makes the constructor raise
            ctx.violation("manager-raised-on-valid-file", case, f"{kind}: {e}")
        return
    if not ordered:
        ctx.violation("unordered-file-rejected", case, "EventManager accepted non-monotone onsets")
        return
    if not m.get("ok"):
        ctx.disagree("Events.buildText accepts what EventManager accepts", case, m, "ok")
        return
    compare_model(ctx, rows, m, obs)
    nt = False
    if valid:
        stat = oracle(ctx, rows, obs)
        nt = bool(stat and stat["ctx"] > 0)
        # the Lean specification agrees with the Python reference (the same statement, two formalisations)
        T, procs, _, _ = spec_processes(rows)
        for i, t in enumerate(obs["onsets"]):
            s_strict, s_incl, s_start = m["spec"][i]
            if sorted(s_strict) != sorted(p[2] for p in procs if p[0] < t < p[1]) or \
                    sorted(s_incl) != sorted(p[2] for p in procs if p[0] <= t < p[1]) or \
                    sorted(s_start) != sorted(p[2] for p in procs if p[0] == t):
                ctx.disagree("Events.specContext = reference of the statement", case, m["spec"][i], {"row": i})
    else:
        ctx.count("invalid-history-accepted-by-both")
        if raises_expected(rows):
            ctx.disagree("reference: unmatched Offset must raise", case, "ok", "ok")
    n = len(obs["onsets"])
    if len(set(obs["onsets"])) < n:
        ctx.count("has-merged-time-point")
    if any(r["delayed"] for r in rows):
        ctx.count("has-delay-groups")
        if any("label" in r for r in rows):
            ctx.count("row-labels-differ-from-positions-with-delay-groups")
    if any(obs["objs"][0][i] != obs["objs"][1][i] for i in range(n)):
        ctx.count("type-filter-changes-an-entry")
    if any(obs["objs"][0][i] != obs["objs"][3][i] and obs["objs"][3][i] for i in range(n)):
        ctx.count("replace-defs-changes-an-entry")
    if valid and ctx.evaluations % 3 == 0:
        check_refinement(ctx, rows, obs, schema, dd)
    if validate and valid:
        from hed import TabularInput
        iss = TabularInput(rows_to_frame(rows), name="gen").validate(schema, extra_def_dicts=dd)
        codes = sorted({i["code"] for i in iss if i["severity"] == 1})
        ctx.count("validator-clean" if not codes else "validator-errors:" + ",".join(codes))
    ctx.case(("f", json.dumps(rows)), nontrivial=nt,
             sample=case if nt and len(rows) <= 3 and any(r["delayed"] for r in rows) else None)


# ---------------------------------------------------------------- generators
def repair(rows):
    """drop markers that make the history invalid (Offset/Inset without open Onset, folded name twice in a time point)"""
    fr = []
    for k, r in enumerate(rows):
        for p, i in enumerate(r["items"]):
            fr.append((r["time"], k, "items", p, i))
        for p, (d, i) in enumerate(r["delayed"]):
            fr.append((r["time"] + d, k, "delayed", p, i))
    drop = set()
    open_ = set()
    for t in sorted({x[0] for x in fr}):
        seen, pend = set(), []
        for tt, k, where, p, i in fr:
            if tt != t or i[0] not in ("onset", "offset", "inset"):
                continue
            key = i[1].casefold()
            if key in seen or (i[0] != "onset" and key not in open_):
                drop.add((k, where, p))
                continue
            seen.add(key)
            pend.append((i[0], key))
        for kind, key in pend:
            if kind == "onset":
                open_.add(key)
            elif kind == "offset":
                open_.discard(key)
    out = []
    for k, r in enumerate(rows):
        out.append({"time": r["time"],
                    "items": [i for p, i in enumerate(r["items"]) if (k, "items", p) not in drop],
                    "delayed": [x for p, x in enumerate(r["delayed"]) if (k, "delayed", p) not in drop]})
    return out


def gen_rows(rng, nrows, spells, uid0=1):
    times, t = [], rng.randint(0, 16)
    for _ in range(nrows):
        if times and rng.random() < 0.25:
            pass
        else:
            t += rng.choice([1, 2, 4, 8, 8, 8, 12, 16])
        times.append(t)
    uid = [uid0]

    def nu():
        uid[0] += 1
        return uid[0]

    def span(k):
        later = [x - times[k] for x in times[k + 1:] if x > times[k]]
        if later and rng.random() < 0.55:
            return rng.choice(later)          # ends / arrives exactly at a later time point
        return rng.choice([1, 2, 4, 8, 12, 16, 24, 40])

    def item(k, delayed=False):
        c = rng.choice(["onset", "onset", "onset", "offset", "offset", "duration", "duration", "plain", "inset"])
        if c == "onset":
            return ["onset", rng.choice(NAMES), nu(), rng.choice([0, 1, 1, 2, 3]), rng.random() < 0.2]
        if c == "offset":
            return ["offset", rng.choice(NAMES), rng.random() < 0.2]
        if c == "inset":
            return ["inset", rng.choice(NAMES), nu()]
        if c == "duration":
            n = span(k)
            return ["duration", n, nu(), rng.choice(spells.get(n, [0])), rng.random() < 0.15]
        return ["plain", nu(), 0 if delayed else rng.choice([0, 1, 2, 3])]
    rows = []
    for k in range(nrows):
        its = [item(k) for _ in range(rng.choice([0, 1, 1, 1, 2, 2, 3]))]
        dl = [[span(k), item(k, True)] for _ in range(rng.choice([0, 0, 0, 1, 1, 2]))]
        rows.append({"time": times[k], "items": its, "delayed": dl})
    return add_twins(rng, repair(rows), spells)


def add_twins(rng, rows, spells):
    """a second Duration (or Delay+Duration) group with textually IDENTICAL contents — a distinct process that prints
    the same — placed so that the two usually overlap: in the same row / an equal-onset row (then with another
    length, identical group text twice in one time point is TAG_EXPRESSION_REPEATED) or in one of the next rows"""
    durs = [(k, None, it) for k, r in enumerate(rows) for it in r["items"] if it[0] == "duration"] + \
           [(k, d, it) for k, r in enumerate(rows) for d, it in r["delayed"] if it[0] == "duration"]
    if not durs or rng.random() > 0.35:
        return rows
    k, d, it = rng.choice(durs)
    if rng.random() < 0.6:
        it[1], it[3] = 40, rng.choice(spells.get(40, [0]))          # long enough to be still going on
    k2 = min(len(rows) - 1, k + rng.choice([0, 0, 1, 1, 2]))
    n2 = rng.choice([x for x in (8, 16, 24, 40, 64) if rows[k2]["time"] != rows[k]["time"] or x != it[1]])
    twin = ["duration", n2, it[2], rng.choice(spells.get(n2, [0])), False]
    if d is None:
        rows[k2]["items"].append(twin)
    else:
        rows[k2]["delayed"].append([d, twin])
    return rows


def exact_spells(schema):
    """(length -> usable unit spellings): only spellings whose conversion to seconds is exact on the 1/8 grid,
    so that `start + duration` meets a later onset exactly"""
    from hed import HedTag
    ok = {}
    for n in list(range(1, 49)) + [56, 64, 72, 80, 96]:
        for k, f in enumerate(SPELLS):
            try:
                v = HedTag(f"Duration/{f(n)}", schema).value_as_default_unit()
            except Exception:
                v = None
            if v is not None and float(v) == n / 8:
                ok.setdefault(n, []).append(k)
    return ok


CELLS = [
    [], [(None, ("on", "A"))], [(None, ("off", "A"))], [(None, ("on", "B"))], [(None, ("off", "B"))],
    [(None, ("dur", 8))], [(None, ("dur", 16))], [(None, ("plain",))],
    [(8, ("on", "A"))], [(8, ("off", "a"))], [(8, ("dur", 8))],
    [(None, ("on", "a")), (None, ("dur", 8))], [(None, ("on", "B")), (None, ("off", "A"))],
    [(None, ("in", "A"))],
    [(None, ("twin",))],
]
SMALL = [0, 1, 2, 3, 5, 6, 7, 9, 13]


def exhaustive(nmax_full, nmax_small):
    """every valid file of <= nmax_full rows over CELLS (<= nmax_small rows over the cells SMALL), gaps 0 or 1 s"""
    for n in range(1, nmax_small + 1):
        cells = CELLS if n <= nmax_full else [CELLS[k] for k in SMALL]
        for combo in itertools.product(range(len(cells)), repeat=n):
            for gaps in itertools.product([0, 8], repeat=n - 1):
                uid, t, rows = 0, 8, []
                for k, ci in enumerate(combo):
                    if k:
                        t += gaps[k - 1]
                    r = {"time": t, "items": [], "delayed": []}
                    for d, spec in cells[ci]:
                        uid += 1
                        if spec[0] == "on":
                            it = ["onset", spec[1], uid, (uid + k) % 4, (uid + k) % 5 == 0]
                        elif spec[0] == "off":
                            it = ["offset", spec[1], k % 2 == 1]
                        elif spec[0] == "in":
                            it = ["inset", spec[1], uid]
                        elif spec[0] == "dur":
                            it = ["duration", spec[1], uid, (uid + k) % 2, False]
                        elif spec[0] == "twin":        # identical contents in every row, lengths 2 s, 3 s, ...
                            it = ["duration", 16 + 8 * k, 77, 0, False]
                        else:
                            it = ["plain", uid, (uid + k) % 4 if d is None else 0]
                        if d is None:
                            r["items"].append(it)
                        else:
                            r["delayed"].append([d, it])
                    rows.append(r)
                if valid_history(rows):
                    yield rows


CORPUS = [
    # two DISTINCT processes whose contents print the same: overlapping in time (different rows), starting at the same
    # time point (same row / equal-onset rows, different lengths), and Delay+Duration twins
    [{"time": 0, "items": [["duration", 24, 7, 0]], "delayed": []}, {"time": 8, "items": [["duration", 24, 7, 1]], "delayed": []},
     {"time": 16, "items": [["plain", 2, 0]], "delayed": []}, {"time": 40, "items": [], "delayed": []}],
    [{"time": 0, "items": [["duration", 24, 7, 0], ["duration", 16, 7, 0]], "delayed": []},
     {"time": 0, "items": [["duration", 40, 7, 0]], "delayed": []}, {"time": 8, "items": [], "delayed": []},
     {"time": 16, "items": [], "delayed": []}, {"time": 24, "items": [], "delayed": []}],
    [{"time": 0, "items": [], "delayed": [[8, ["duration", 24, 7, 0]]]}, {"time": 4, "items": [], "delayed": [[8, ["duration", 24, 7, 2]]]},
     {"time": 16, "items": [], "delayed": []}, {"time": 20, "items": [["plain", 3, 1]], "delayed": []}],
    # the probe of DESIGN section 8 #15: rows 0 and 1 share onset 1.0
    [{"time": 8, "items": [["onset", "A", 1, False]], "delayed": []}, {"time": 8, "items": [["plain", 2, 0]], "delayed": []},
     {"time": 16, "items": [["offset", "a"]], "delayed": []}],
    # duration ending exactly at a time point; one past the end; restart of an open process
    [{"time": 0, "items": [["duration", 8, 1, 0], ["duration", 40, 2, 1], ["onset", "B", 3, True]], "delayed": []},
     {"time": 8, "items": [["onset", "b", 4, True]], "delayed": [[8, ["duration", 8, 5, 0]]]},
     {"time": 16, "items": [], "delayed": []}, {"time": 24, "items": [["plain", 6, 1]], "delayed": []}],
    # one row with two Delay groups; an Inset; type tags at several depths; the 'def/a' prefix of Def/Ab
    [{"time": 8, "items": [["onset", "A", 1, 2, True], ["plain", 2, 3]],
      "delayed": [[8, ["onset", "Ab", 3, 3]], [16, ["onset", "C/1", 4, 0]]]},
     {"time": 12, "items": [["inset", "a", 5], ["plain", 6, 2]], "delayed": []},
     {"time": 40, "items": [["offset", "AB", True]], "delayed": []}],
    # what validation rejects but the manager processes: Onset+Duration in one group, a bare Duration group
    [{"time": 0, "items": [["onsetdur", "A", 8, 1]], "delayed": []}, {"time": 8, "items": [["durbare", 8, 2]], "delayed": []},
     {"time": 16, "items": [["plain", 3, 0]], "delayed": []}, {"time": 24, "items": [["offset", "A"]], "delayed": []}],
]


def _run_files(ctx, files, schema, dd, validate_every=0):
    for lo in range(0, len(files), 2000):
        chunk = files[lo:lo + 2000]
        ans = ctx.model.batch([model_request(f) for f in chunk])
        for k, (f, a) in enumerate(zip(chunk, ans)):
            check_file(ctx, f, a, schema, dd, validate=bool(validate_every) and k % validate_every == 0)
            if k % 50 == 0:
                ctx.check_time()


def run(ctx):
    from hed import load_schema_version
    from hed.models import DefinitionDict
    schema = load_schema_version("8.3.0")
    dd = DefinitionDict(DEFS, schema)
    spells = exact_spells(schema)
    ctx.extra["rule"] = ("valid event histories (Offsets/Insets match an open Onset, no name twice per time point) over Onset/"
                         "Offset/Inset of A,a,B,C/1,C/2,Ab, Duration groups (lengths on the 1/8 s grid, unit spellings s/ms/second/"
                         "Seconds/seconds kept only where the conversion is exact), Delay groups, equal-onset rows, plain tags, type "
                         "tags (Condition-variable, Task) at several depths, lower-case reserved tags; <= 12 rows; exhaustive small "
                         "files + random; the model reads the file's text; 4 unfolding variants (remove_types, replace_defs); "
                         "non-trivial = some time point has a non-empty context")
    ctx.extra["later_rows_reading"] = "strict" if STRICT_LATER_ROWS else "inclusive (theorem merged_rows)"
    ctx.extra["variants"] = VARIANTS
    nfull, nsmall = (2, 3) if ctx.quick() else (3, 4)
    files = [f for f in CORPUS] + list(exhaustive(nfull, nsmall))
    ctx.extra["exhaustive_rows"] = {"full_alphabet": nfull, "reduced_alphabet": nsmall, "files": len(files)}
    # row labels that are not the positions (a frame that was filtered / re-sorted / re-indexed before): all label
    # permutations for some small files with Delay groups, one non-trivial labelling for every other such file
    perm_src = [f for f in files if len(f) == 3 and sum(len(r["delayed"]) for r in f) >= 2][:12] + \
               [f for f in files if len(f) == 2 and any(r["delayed"] for r in f)][:20] + [CORPUS[1], CORPUS[2]]
    extra = label_variants(perm_src, 400 if ctx.quick() else 4000)
    k3 = 0
    for j, f in enumerate(files):
        if len(f) >= 2 and any(r["delayed"] for r in f) and j % 2 == 0:
            perms = [p for p in itertools.permutations(range(len(f))) if list(p) != list(range(len(f)))]
            lab = perms[k3 % len(perms)] if k3 % 3 else [10 * (x + 1) for x in range(len(f))]
            files[j] = with_labels(f, lab)
            k3 += 1
    files += extra
    ctx.extra["relabelled_files"] = {"all_permutations": len(extra), "one_labelling": k3}
    _run_files(ctx, files, schema, dd, validate_every=25)
    nrand = 2000 if ctx.quick() else 15000
    rnd = []
    for k in range(nrand):
        rows = gen_rows(ctx.rng, ctx.rng.randint(1, 12), spells)
        r = ctx.rng.random()
        if r < 0.04 and len(rows) >= 2:            # non-monotone onsets: must be rejected
            i = ctx.rng.randrange(len(rows) - 1)
            if rows[i]["time"] == rows[i + 1]["time"]:
                rows[i]["time"] += 8
            else:
                rows[i]["time"], rows[i + 1]["time"] = rows[i + 1]["time"], rows[i]["time"]
        elif r < 0.06:                             # an unmatched Offset (not a valid history; model/impl only)
            rows[ctx.rng.randrange(len(rows))]["items"].append(["offset", "C/9"])
        elif r < 0.075:                            # validator errors the manager does not notice (model/impl only):
            k2 = ctx.rng.randrange(len(rows))      # the same name twice in one row; an Inset without Onset
            rows[k2]["items"] += ctx.rng.choice([[["onset", "C/7", 970 + k2, 1], ["onset", "c/7", 980 + k2, 0]],
                                                 [["onset", "C/7", 970 + k2, 1], ["offset", "C/7"]],
                                                 [["inset", "C/6", 990 + k2]]])
        elif r < 0.09:                             # groups the validator rejects (model/impl only)
            k2 = ctx.rng.randrange(len(rows))
            rows[k2]["items"].append(ctx.rng.choice([["onsetdur", "C/8", 8, 900 + k2],
                                                     ["durbare", ctx.rng.choice([4, 8, 16]), 950 + k2]]))
        if ctx.rng.random() < 0.4 and len(rows) >= 2:
            lab = list(range(len(rows)))
            if ctx.rng.random() < 0.7:
                ctx.rng.shuffle(lab)
            if ctx.rng.random() < 0.4:
                lab = [7 * x + 3 for x in lab]
            rows = with_labels(rows, lab)
        rnd.append(rows)
    _run_files(ctx, rnd, schema, dd, validate_every=8)


def replay(ctx, rec):
    from hed import load_schema_version
    from hed.models import DefinitionDict
    schema = load_schema_version("8.3.0")
    dd = DefinitionDict(DEFS, schema)
    case = rec.get("case") or (rec.get("disagreements") or [{}])[0].get("case")
    if not case:
        print("nothing to replay (obligation-only record):", rec.get("broken_obligations"))
        return
    a = ctx.model.batch([model_request(case["rows"])])[0]
    check_file(ctx, case["rows"], a, schema, dd)
    print("replayed", json.dumps(case)[:300])
