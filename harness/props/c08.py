"""C08 — Sidecar validation is total and flags each structural fault.

Correspondence: `Sidecar(io.StringIO(json.dumps(j))).validate(schema)` and `SidecarValidator(schema).validate(Sidecar(..))`
against `SidecarV.validate Guards.fixed` on (i) every JSON document of a small universe to depth 3 at the top level, at
the entry position and at two-column positions of a sidecar skeleton, (ii) entry strings on which text and parse tree differ
(unbalanced parentheses, `{#}`, Def-expand groups holding `#`, references spliced as n/a, declared definitions) in seven
sidecar skeletons, (iii) well-typed generated sidecars with one injected fault of each kind.  What the HED *string* layer says
(basic/full string checks, definition extraction, which tag resolves to Def-expand) is recorded from the real run and handed
to the model as its oracle, so the model covers exactly the sidecar layer; the `#` count on the tree after
remove_refs/shrink_defs and `replace_ref` (both branches) are computed by the model.  Unit correspondences:
`_find_non_matching_braces`, the reference regex, `str.replace`, `df_util.replace_ref`, the `#` count of
`_validate_pound_sign_count` (and whether `shrink_defs` raises), `_detect_column_type`.  Direct oracle: never raises;
well-formed => no error; fault k => error with the code of k (codes read from hed/errors/error_messages.py by `extract_codes`).
A closed mode (string validation by the C01 model inside Lean) is run at the end: harness/props/closed_c08.py.
"""
import ast
import io
import itertools
import json

from .. import common, extract

THEOREMS = [
    "HedVerif.C08.total",
    "HedVerif.C08.validate_eq",
    "HedVerif.C08.unfixed_raises_nondict_entry",
    "HedVerif.C08.unfixed_raises_null_entry",
    "HedVerif.C08.unfixed_raises_list_top",
    "HedVerif.C08.unfixed_raises_string_top",
    "HedVerif.C08.unfixed_raises_unknown_ref",
    "HedVerif.C08.unfixed_raises_two_def_expand",
    "HedVerif.C08.poundOf_eq",
    "HedVerif.C08.treeHash_unbalanced",
    "HedVerif.C08.fault_pound_unbalanced",
    "HedVerif.C08.extractDefs_eq",
    "HedVerif.C08.validateD_eq",
    "HedVerif.C08.sidecar_defs_total",
    "HedVerif.C08.extractP_run",
    "HedVerif.C08.runCands_dict",
    "HedVerif.C08.defs_extracted_spec",
    "HedVerif.C08.def_issue_in_extraction",
    "HedVerif.C08.def_issue_reported",
    "HedVerif.C08.merge_duplicate_reported",
    "HedVerif.C08.runCands_issues_nil",
    "HedVerif.C08.wellformed_defs_ok",
    "HedVerif.C08.braces_iff",
    "HedVerif.C08.wellformed_ok",
    "HedVerif.C08.fault_top_level",
    "HedVerif.C08.fault_hed_column",
    "HedVerif.C08.fault_unknown_type",
    "HedVerif.C08.fault_hed_nested",
    "HedVerif.C08.fault_blank_dict",
    "HedVerif.C08.fault_blank_value",
    "HedVerif.C08.fault_wrong_type",
    "HedVerif.C08.fault_na_key",
    "HedVerif.C08.fault_braces",
    "HedVerif.C08.fault_unknown_ref",
    "HedVerif.C08.fault_self_ref",
    "HedVerif.C08.fault_nested_ref",
    "HedVerif.C08.fault_pound_value",
    "HedVerif.C08.fault_pound_category",
    "HedVerif.C08.codes",
]
BUDGET = {"quick": 900, "thorough": 3600}
# closed mode (string-level oracle instantiated by the C01 model): theorems of lean/HedVerif/Props/Closed.lean
EXTRA_AUDIT = ("HedVerif.Props.Closed", [
    "HedVerif.C08.sidecar_eval_closed",
    "HedVerif.C08.validate_eq_closed",
    "HedVerif.C08.sidecar_total_closed",
    "HedVerif.C08.fault_top_level_closed",
    "HedVerif.C08.fault_braces_closed",
    "HedVerif.C08.fault_unknown_ref_closed",
    "HedVerif.C08.fault_pound_value_closed",
    "HedVerif.C08.fault_pound_category_closed",
    "HedVerif.C08.string_fault_category_closed",
    "HedVerif.C08.string_fault_value_closed",
    "HedVerif.C08.sidecar_pipeline_example_closed",
    "HedVerif.C08.extract_stage_closed",
    "HedVerif.C08.validate_eq_closedD",
    "HedVerif.C08.sidecar_total_closedD",
    "HedVerif.C08.defs_extracted_closed",
    "HedVerif.C08.sidecar_defs_example_closed",
])

# ------------------------------------------------------------------------------------------ extraction

# (class in error_types.py, attribute) of every internal error kind the sidecar layer raises
WANTED = [("SidecarErrors", "BLANK_HED_STRING"), ("SidecarErrors", "WRONG_HED_DATA_TYPE"),
          ("SidecarErrors", "INVALID_POUND_SIGNS_VALUE"), ("SidecarErrors", "INVALID_POUND_SIGNS_CATEGORY"),
          ("SidecarErrors", "UNKNOWN_COLUMN_TYPE"), ("SidecarErrors", "SIDECAR_HED_USED_COLUMN"),
          ("SidecarErrors", "SIDECAR_NA_USED"), ("SidecarErrors", "SIDECAR_HED_USED"),
          ("ColumnErrors", "INVALID_COLUMN_REF"), ("ColumnErrors", "SELF_COLUMN_REF"),
          ("ColumnErrors", "NESTED_COLUMN_REF"), ("ColumnErrors", "MALFORMED_COLUMN_REF"),
          ("DefinitionErrors", "BAD_DEFINITION_LOCATION"),
          # issues of `DefinitionDict.check_for_definitions` (sidecars that declare definitions)
          ("DefinitionErrors", "WRONG_NUMBER_GROUPS"), ("DefinitionErrors", "NO_DEFINITION_CONTENTS"),
          ("DefinitionErrors", "WRONG_NUMBER_TAGS"), ("DefinitionErrors", "INVALID_DEFINITION_EXTENSION"),
          ("DefinitionErrors", "DEF_TAG_IN_DEFINITION"), ("DefinitionErrors", "BAD_PROP_IN_DEFINITION"),
          ("DefinitionErrors", "WRONG_NUMBER_PLACEHOLDER_TAGS"), ("DefinitionErrors", "PLACEHOLDER_NO_TAKES_VALUE"),
          ("DefinitionErrors", "DUPLICATE_DEFINITION")]
REF_REGEX = r"\{([a-z_\-0-9]+)\}"


def _parse(relpath):
    import warnings
    with warnings.catch_warnings():
        warnings.simplefilter("ignore")           # the sources contain non-raw regex literals
        return ast.parse((common.REPO / relpath).read_text())


def _class_consts(relpath):
    tree = _parse(relpath)
    out = {}
    for node in tree.body:
        if isinstance(node, ast.ClassDef):
            for st in node.body:
                if isinstance(st, ast.Assign) and len(st.targets) == 1 and isinstance(st.targets[0], ast.Name) \
                        and isinstance(st.value, ast.Constant):
                    out[(node.name, st.targets[0].id)] = st.value.value
    return out


def read_code_table():
    """internal kind value -> (published code, default severity), from the decorators of error_messages.py"""
    consts = _class_consts("hed/errors/error_types.py")

    def resolve(node):
        if isinstance(node, ast.Attribute) and isinstance(node.value, ast.Name):
            return consts[(node.value.id, node.attr)]
        if isinstance(node, ast.Constant):
            return node.value
        raise ValueError("unresolvable decorator argument " + ast.dump(node))
    table = {}
    tree = _parse("hed/errors/error_messages.py")
    for fn in tree.body:
        if not isinstance(fn, ast.FunctionDef):
            continue
        for dec in fn.decorator_list:
            if isinstance(dec, ast.Call) and isinstance(dec.func, ast.Name) and dec.func.id in ("hed_error", "hed_tag_error"):
                kind = resolve(dec.args[0])
                kw = {k.arg: k.value for k in dec.keywords}
                code = resolve(kw["actual_code"]) if "actual_code" in kw else kind
                sev = resolve(kw["default_severity"]) if "default_severity" in kw else consts[("ErrorSeverity", "ERROR")]
                table[kind] = (code, sev)
    return consts, table


def _chars(s):
    def ch(c):
        if c == "'":
            return "'\\''"
        if c == "\\":
            return "'\\\\'"
        if 32 <= ord(c) < 127:
            return f"'{c}'"
        return "'\\u{%x}'" % ord(c)
    return "[" + ", ".join(ch(c) for c in s) + "]"


def _validator_lists():
    tree = _parse("hed/validator/sidecar_validator.py")
    out = {}
    for node in tree.body:
        if isinstance(node, ast.ClassDef) and node.name == "SidecarValidator":
            for st in node.body:
                if isinstance(st, ast.Assign) and isinstance(st.targets[0], ast.Name):
                    out[st.targets[0].id] = ast.literal_eval(st.value)
    return out


def extract_codes():
    consts, table = read_code_table()
    body = ("/- GENERATED by harness/props/c08.py (extract_codes) from hed/errors/error_types.py, the decorators of\n"
            "   hed/errors/error_messages.py and the class attributes of SidecarValidator.  Do not edit. -/\n"
            "namespace HedVerif.Generated.C08\n\n")
    body += f"def sevError : Nat := {consts[('ErrorSeverity', 'ERROR')]}\n"
    body += f"def sevWarning : Nat := {consts[('ErrorSeverity', 'WARNING')]}\n\n"
    for cls, attr in WANTED:
        kind = consts[(cls, attr)]
        code, sev = table[kind]
        body += f"/-- `{cls}.{attr}` = {kind!r}: published code {code!r} -/\n"
        body += f"def kind_{attr} : List Char := {_chars(kind)}\n"
        body += f"def code_{attr} : List Char := {_chars(code)}\n"
        body += f"def sev_{attr} : Nat := {sev}\n"
    lists = _validator_lists()
    body += "\n/-- `SidecarValidator.reserved_column_names` -/\ndef reservedColumnNames : List (List Char) := [" + \
        ", ".join(_chars(x) for x in lists["reserved_column_names"]) + "]\n"
    body += "/-- `SidecarValidator.reserved_category_values` -/\ndef reservedCategoryValues : List (List Char) := [" + \
        ", ".join(_chars(x) for x in lists["reserved_category_values"]) + "]\n"
    # the reference pattern is hard-wired in `SidecarV.findRefsGo`: fail the tie if the source spells another one
    for rel in ("hed/validator/sidecar_validator.py", "hed/models/sidecar.py"):
        pats = set()
        for node in ast.walk(_parse(rel)):
            if isinstance(node, ast.Call) and isinstance(node.func, ast.Attribute) and node.func.attr == "findall":
                for a in node.args:
                    if isinstance(a, ast.Constant) and isinstance(a.value, str) and "{" in a.value:
                        pats.add(a.value)
        if pats != {REF_REGEX}:
            raise ValueError(f"reference regex in {rel} is {sorted(pats)}, model implements {REF_REGEX!r}")
    body += "\nend HedVerif.Generated.C08\n"
    extract.write_if_changed(extract.GEN / "C08Codes.lean", body)


EXTRACT = [extract_codes]

# ------------------------------------------------------------------------------------------ instrumentation

REC = {"basic": {}, "full": {}}


def install_recorders():
    """Harness-side instrumentation (nothing in the tree under test is edited): keep the internal error kind on every
    issue, and record what the string layer answered for each string the sidecar validator handed to it."""
    from hed.errors.error_reporter import ErrorHandler
    from hed.validator.hed_validator import HedValidator
    if getattr(ErrorHandler, "_verif_c08", False):
        return
    if not getattr(ErrorHandler, "_verif_wrapped", False):
        orig = ErrorHandler.format_error

        def fe(error_type, *a, **k):
            r = orig(error_type, *a, **k)
            for i in r:
                i["_kind"] = error_type
            return r
        ErrorHandler.format_error = staticmethod(fe)
        ErrorHandler._verif_wrapped = True
    ob, of = HedValidator.run_basic_checks, HedValidator.run_full_string_checks

    def basic(self, hed_string, allow_placeholders):
        r = ob(self, hed_string, allow_placeholders)
        REC["basic"][hed_string._hed_string] = [[i["code"], i["severity"]] for i in r]
        return r

    def full(self, hed_string):
        r = of(self, hed_string)
        REC["full"][hed_string._hed_string] = [[i["code"], i["severity"]] for i in r]
        return r

    HedValidator.run_basic_checks = basic
    HedValidator.run_full_string_checks = full
    ErrorHandler._verif_c08 = True


def canon_issue(i):
    return [i.get("_kind") or "", i["code"], i["severity"], i.get("ec_sidecarColumnName"), i.get("ec_sidecarKeyName")]


def obs_key(x):
    return json.dumps(x, sort_keys=True)


def strip_kind(issues):
    """string-layer issues carry no kind in the model"""
    return sorted(([k if k in SIDECAR_KINDS else "", c, s, col, key] for k, c, s, col, key in issues), key=obs_key)


DEF_KINDS = set()       # filled by tables(): kinds of `check_for_definitions` / the dictionary merge
SIDECAR_KINDS = set()   # filled by tables(): internal kinds of the sidecar layer (values of the constants)


def tables():
    """kind value -> (published code, severity), keyed also by the constant's attribute name; '_warning' threshold"""
    consts, tab = read_code_table()
    table = {"_warning": consts[("ErrorSeverity", "WARNING")]}
    for w in WANTED:
        table[consts[w]] = tab[consts[w]]
        table["attr:" + w[1]] = consts[w]
        SIDECAR_KINDS.add(consts[w])
        if w[0] == "DefinitionErrors" and w[1] != "BAD_DEFINITION_LOCATION":
            DEF_KINDS.add(consts[w])
    return table


_TREE = []


def tree_json(h):
    """children of a HedString in the encoding of the definition model (`c09.Env.tree_json` / `Driver/C09.nodeOf`)"""
    if not _TREE:
        from harness.props import c09
        _TREE.append(object.__new__(c09.Env))
    return _TREE[0].tree_json(h)


def observe(doc, schema, extra=None):
    """Run the real code on one JSON document: ({'raise': cls} | {'ok': issues, 'dict': the sidecar's own definitions},
    oracle for the model).  `extra` = an external DefinitionDict passed as `extra_def_dicts`."""
    from hed import Sidecar, HedString
    from hed.validator.sidecar_validator import SidecarValidator
    from hed.models.model_constants import DefTagNames
    for d in REC.values():
        d.clear()
    text = json.dumps(doc)
    out, sc = {}, None
    try:
        sc = Sidecar(io.StringIO(text))
        issues = sc.validate(schema, extra_def_dicts=extra)
        out["ok"] = strip_kind([canon_issue(i) for i in issues])
        if sc.def_dict is not None:        # the early exit was not taken: the sidecar's own dictionary exists
            out["dict"] = []
            for k, e in sc.def_dict.defs.items():
                c = str(e.contents) if e.contents is not None else None
                out["dict"].append([k, e.name, bool(e.takes_value), None if c in (None, "()") else c])
        if not isinstance(issues, list):
            out = {"raise": "not-a-list:" + type(issues).__name__}
    except Exception as e:                                   # the property says: never
        out = {"raise": type(e).__name__, "msg": str(e)[:120]}
    # the same through the validator class directly
    try:
        sc2 = Sidecar(io.StringIO(text))
        direct = {"ok": strip_kind([canon_issue(i) for i in SidecarValidator(schema).validate(sc2, extra_def_dicts=extra)])}
    except Exception as e:
        direct = {"raise": type(e).__name__, "msg": str(e)[:120]}
    out["direct_same"] = (direct.get("ok") == out.get("ok") and direct.get("raise") == out.get("raise"))
    oracle = {"basic": [[s, v] for s, v in REC["basic"].items()], "full": [[s, v] for s, v in REC["full"].items()],
              "defs": [], "defissues": [], "defexpand": [], "trees": []}
    dx = set()
    for s in REC["basic"]:
        h = HedString(s, schema)
        oracle["trees"].append([s, tree_json(h)])
        oracle["defs"].append([s, len(h.find_tags({DefTagNames.DEFINITION_KEY}, recursive=True, include_groups=0))])
        dx.update(def_expand_texts(h))
    oracle["defexpand"] = sorted(dx)
    if "ok" in out and sc is not None:
        try:
            di = list(sc._extract_definition_issues) + list(sc.get_def_dict(schema).issues)
            oracle["defissues"] = [[i.get("_kind") if i.get("_kind") in SIDECAR_KINDS else "", i["code"], i["severity"],
                                    i.get("ec_sidecarColumnName"), i.get("ec_sidecarKeyName")] for i in di]
        except Exception:
            pass
    return out, oracle


def def_expand_texts(h):
    """source texts of the tags of a HedString that resolve to Def-expand (what `find_tags({"Def-expand"})` matches)"""
    from hed.models.model_constants import DefTagNames
    key = DefTagNames.DEF_EXPAND_KEY.casefold()
    return {t.org_tag for t in h.get_all_tags() if t.short_base_tag.casefold() == key}


def enc(j):
    """JSON value -> tagged encoding for the driver (keeps object order; bool before int)"""
    if j is None:
        return None
    if isinstance(j, bool):
        return j
    if isinstance(j, int):
        return j
    if isinstance(j, str):
        return j
    if isinstance(j, list):
        return {"a": [enc(x) for x in j]}
    if isinstance(j, dict):
        return {"o": [[k, enc(v)] for k, v in j.items()]}
    raise TypeError(type(j))


def request(doc, oracle, ext=()):
    """the definition part (`defs`, `defissues` as recorded) is NOT sent: the model extracts the sidecar's definitions and
    their issues itself from the entries' trees (`validateD`)"""
    o = {k: v for k, v in oracle.items() if k not in ("defs", "defissues")}
    return {"op": "c08.validate", "doc": enc(doc), "fixed": True, "extract": True, "ext": list(ext), **o}


# ------------------------------------------------------------------------------------------ universe (i)

ATOMS = [None, True, 0, 3, "", "Red", "Red/#", "Label/#", "{a}", [], ["Red"], {}]
KEYS = ["HED", "x", "n/a"]


def universe(depth):
    """all values to the given depth: atoms, singleton lists, one-key objects over KEYS, and {"x": v, "y": "Blue"}"""
    cur, seen = [], set()

    def add(v, into):
        k = json.dumps(v)
        if k not in seen:
            seen.add(k)
            into.append(v)
    for a in ATOMS:
        add(a, cur)
    for _ in range(depth):
        nxt = list(cur)
        for v in cur:
            add([v], nxt)
            for k in KEYS:
                add({k: v}, nxt)
            add({"x": v, "y": "Blue"}, nxt)
        cur = nxt
    return cur


SIBLING = {"HED": {"go": "Blue", "stop": "({a}, Green)"}}


# entry strings on which the text and the tree disagree about `#`, references that are spliced as n/a, definitions
ENTRIES = ["(Label/#", "Label/#)", "(Red", "Red)", "((Label/#)", "{#}", "{a#}, Label/#", "{b}", "({b})", "({b}), Label/#",
           "{b}, {b}", "(Def-expand/A/#, (Label/#))", "((Def-expand/A/#, (Label/#)), Red)",
           "(Def-expand/A, (Def-expand/B/#, (Label/#)))", "(Def-expand/A/#, Def-expand/B/#)", "((Def-expand/A, Def-expand/B), Red)",
           "Def-expand/A/#", "(Def-expand/Abc/#, (Label/#))", "(Def-expand/Abc/#, (Label/#)), Label/#", "Def/Abc/#",
           "(Def/Abc/#, Label/#)", "(Label/#, ({b}))", "Label/# , ( Red , {b} )", "(Definition/Q/#, (Label/#))",
           "(Definition/Q, (Red)), Label/#", "Label/##", "#", "(#)", "n/a", "{HED}", "({HED}), Label/#", "Red, {HED}",
           "(Red, {HED}, Blue)", "{HED}, {b}", "Label/#, {b}", "Square, ({b}, {HED})", ""]
CAT_B = {"HED": {"x": "Blue", "y": "Green"}}
NA_B = {"HED": {"x": "n/a", "y": "Blue"}}
DEFS = {"HED": {"d": "(Definition/Abc/#, (Label/#))"}}


def entry_documents(ctx):
    """each entry string as a value template and as a category entry, alone, next to a referenced column, next to a
    column with an n/a entry, and in a sidecar that declares the definition it uses"""
    ents = list(ENTRIES)
    if not ctx.quick():
        ents += [s + ", " + t for s in ENTRIES[:24] for t in ENTRIES[:24]]
    docs = []
    for s in ents:
        docs += [{"a": {"HED": s}}, {"a": {"HED": s}, "b": CAT_B}, {"a": {"HED": {"k": s}}, "b": CAT_B},
                 {"a": {"HED": {"k": s, "m": "Square"}}, "b": {"HED": "ID/#"}}, {"a": {"HED": {"k": s}}, "b": NA_B},
                 {"defs": DEFS, "a": {"HED": s}, "b": CAT_B}, {"defs": DEFS, "a": {"HED": {"k": s, "m": "Square"}}}]
    return docs


# ---- sidecars that declare definitions: (entry, reason it is rejected | None)
DEF_OK = ["(Definition/Abc, (Red))", "(Definition/Xyz/#, (Label/#))", "(Definition/Solo)", "(Definition/Two, (Red, (Blue, Green)))",
          "(Definition/Val/#, (Item-count/#, Square))", "(Definition/Abc, (Red)), (Definition/Other, (Blue))"]
DEF_BAD = [("(Definition/G2, (Red), (Blue))", "WRONG_NUMBER_GROUPS"), ("(Definition/NoC/#)", "NO_DEFINITION_CONTENTS"),
           ("(Definition/T2, Red, (Blue))", "WRONG_NUMBER_TAGS"), ("(Definition/A/B, (Red))", "INVALID_DEFINITION_EXTENSION"),
           ("(Definition/A#b, (Red))", "INVALID_DEFINITION_EXTENSION"), ("(Definition/D1, (Def/Abc))", "DEF_TAG_IN_DEFINITION"),
           ("(Definition/D2, (Red, (Def-expand/Abc, (Red))))", "DEF_TAG_IN_DEFINITION"),
           ("(Definition/D3, ((Definition/In, (Red))))", "DEF_TAG_IN_DEFINITION"),
           ("(Definition/U1, (Event-context, (Red)))", "BAD_PROP_IN_DEFINITION"),
           ("(Definition/P1/#, (Red))", "WRONG_NUMBER_PLACEHOLDER_TAGS"), ("(Definition/P2, (Label/#))", "WRONG_NUMBER_PLACEHOLDER_TAGS"),
           ("(Definition/P3/#, (Label/#, ID/#))", "WRONG_NUMBER_PLACEHOLDER_TAGS"),
           ("(Definition/P4/#, (Label/##))", "WRONG_NUMBER_PLACEHOLDER_TAGS"),
           ("(Definition/P5/#, (Red/#))", "PLACEHOLDER_NO_TAKES_VALUE"),
           ("(Definition/Dup, (Red)), (Definition/dup, (Blue))", "DUPLICATE_DEFINITION"),
           ("(Definition/ABC, (Green))", None)]          # a duplicate only next to Abc
DEF_ODD = ["(Definition/M, (Red)), Blue", "((Definition/N, (Red)))", "(Definition/Q, (Red)", "Definition/Bare", "(Definition/R, (Red)), {b}",
           "(Definition)", "(Definition/, (Red))", "(Definition/W/#, (Label/#), (ID/#))"]
DEF_USERS = ["Def/Abc", "Def/Xyz/3", "(Def-expand/Abc, (Red))", "Def/Nope", "Def/abc, Blue", "(Def/Val/4, Circle)", "Def/Xyz"]


EXTERNAL_DEFS = ["(Definition/Abc, (Green))", "(Definition/Ext/#, (Label/#))", "(Definition/dup, (Red))"]


def definition_documents(ctx):
    """sidecars with a column of definitions: every entry alone (category, value-like), next to a first definition of the same
    name, with users of the definitions in another column; pairs / random triples of entries as keys of one column and
    spread over two columns.  Returns (docs, expectations)."""
    rng = ctx.rng
    entries = DEF_OK + [e for e, _ in DEF_BAD] + DEF_ODD
    reason = dict(DEF_BAD)
    docs, exp = [], []

    def add(d, e=None):
        docs.append(d)
        exp.append(e)
    users = {"HED": {"u": "Def/Abc, Blue", "v": "Def/Xyz/3", "w": "Green"}}
    for e in entries:
        r = reason.get(e)
        add({"d": {"HED": {"x": e}}}, ("definition-rejected", r, "d") if r else None)
        add({"d": {"HED": e}})                                        # a value column needs its '#': screened only then
        add({"d": {"HED": {"x": "(Definition/Abc, (Red))", "y": e}}, "a": users},
            ("definition-rejected", r, "d", "y") if r else
            (("definition-rejected", "DUPLICATE_DEFINITION", "d", "y") if e in DEF_OK + ["(Definition/ABC, (Green))"]
             and "definition/abc," in e.casefold() else None))
        add({"a": users, "d": {"HED": {"x": e, "z": "Blue"}}})      # definitions mixed with plain entries in one column
        add({"d": {"HED": {"x": e}}, "e": {"HED": {"k": e}}},        # the same entry again in a later column: all duplicates
            None)
    pairs = [(a, b) for a in entries for b in entries] if not ctx.quick() else \
        [(rng.choice(entries), rng.choice(entries)) for _ in range(250)]
    for a, b in pairs:
        add({"d": {"HED": {"x": a, "y": b}}, "a": {"HED": {"u": rng.choice(DEF_USERS), "v": rng.choice(DEF_USERS)}}})
    for _ in range(150 if ctx.quick() else 3000):
        ks = rng.sample(["x", "y", "z", "1"], rng.randint(1, 3))
        d = {"d": {"HED": {k: rng.choice(entries) for k in ks}}}
        if rng.random() < 0.6:
            d["e"] = {"HED": {k: rng.choice(entries) for k in rng.sample(["x", "y"], rng.randint(1, 2))}}
        if rng.random() < 0.7:
            d["a"] = {"HED": {"u": rng.choice(DEF_USERS), "v": rng.choice(DEF_USERS + ["Red"])}}
        if rng.random() < 0.3:
            d["v"] = {"HED": rng.choice(["Label/#", "(Definition/Vc/#, (Label/#))", "Def/Xyz/#"])}
        items = list(d.items())
        rng.shuffle(items)
        add(dict(items))
    return docs, exp


def documents(ctx):
    v2, v3 = universe(2), universe(3)
    docs = list(v3)                                       # every value at the top level
    docs += [{"a": v} for v in v3]                        # ... at the entry position (HED / HED.key positions inside)
    sib = v2 if ctx.quick() else v3
    docs += [{"a": v, "b": SIBLING} for v in sib]         # ... next to a column that references it
    if ctx.quick():
        docs += [{"a": ctx.rng.choice(v2), "b": ctx.rng.choice(v2)} for _ in range(800)]
    else:
        docs += [{"a": v, "b": w} for v in v2 for w in v2]   # all pairs: exhaustive to depth 2 with two columns
    ctx.extra["universe_sizes"] = {"depth2": len(v2), "depth3": len(v3)}
    return docs


# ------------------------------------------------------------------------------------------ generator (ii)

PLAIN = ["Red", "Blue", "Green", "Square", "(Red, Blue)", "(Green, Square)", "Red, Square"]
VALUE = ["Label/#", "ID/#", "(Label/#, Red)"]
OWN = ["Circle", "Triangle", "(Circle, Triangle)", "Ellipse"]          # tags of referring entries: disjoint from PLAIN/VALUE,
OWN_VALUE = ["Age/#", "(Age/#, Circle)"]                                # so that an expansion never repeats a tag
IGNORED = [{"Levels": {"1": "one", "2": "two"}}, {"Description": "free text"}, {"LongName": "x", "Units": "s"}, {}]
NAMES = ["a", "b", "c", "d", "e_1"]


def gen_sidecar(rng):
    """a sidecar obeying every structural rule; returns (doc, roles) with roles[name] in
    {'target','referrer','plain','ignored','defs'} (targets are referenced, referrers reference targets or HED)"""
    names = NAMES[:rng.randint(2, 5)]
    rng.shuffle(names)
    doc, roles = {}, {}
    targets = []
    for n in names:
        r = rng.random()
        if r < 0.2:
            doc[n] = json.loads(json.dumps(rng.choice(IGNORED)))
            roles[n] = "ignored"
        elif r < 0.3 and "defs" not in roles.values():
            doc[n] = {"HED": {"d1": "(Definition/Abc, (Red))", "d2": "(Definition/Xyz/#, (Label/#))"}}
            roles[n] = "defs"
        else:
            if rng.random() < 0.4:
                doc[n] = {"HED": rng.choice(VALUE)}
            else:
                ks = rng.sample(["go", "stop", "1", "left", "n_a"], rng.randint(1, 3))
                doc[n] = {"HED": {k: rng.choice(PLAIN) for k in ks}}
                if rng.random() < 0.3:
                    doc[n]["Levels"] = {k: "text" for k in ks}
            roles[n] = "plain"
            targets.append(n)
    # turn some plain columns into referrers of other plain columns (targets keep no references) or of HED
    plain = [n for n in names if roles[n] == "plain"]
    if len(plain) >= 2 and rng.random() < 0.7:
        k = rng.randint(1, len(plain) - 1)
        referrers = rng.sample(plain, k)
        tg = [n for n in plain if n not in referrers]
        for n in referrers:
            roles[n] = "referrer"
            t = rng.choice(tg + ["HED"])
            if t != "HED":
                roles[t] = "target"
            h = doc[n]["HED"]
            h = rng.choice(OWN_VALUE) if isinstance(h, str) else {k: rng.choice(OWN) for k in h}
            form = rng.choice(["{%s}, %s", "(%s, {%s})", "%s, ({%s}, Cross)"])

            def addref(s, form=form, t=t):
                return form % ((t, s) if form.startswith("{") else (s, t))
            doc[n]["HED"] = addref(h) if isinstance(h, str) else {k: (addref(s) if i == 0 or rng.random() < 0.5 else s)
                                                                  for i, (k, s) in enumerate(h.items())}
    if "defs" in roles.values() and rng.random() < 0.7:
        for n in names:
            if roles[n] in ("plain", "referrer") and isinstance(doc[n]["HED"], dict):
                k0 = next(iter(doc[n]["HED"]))
                doc[n]["HED"][k0] += ", Def/Abc"
                break
    return doc, roles


def hed_strings(doc, n):
    h = doc[n].get("HED") if isinstance(doc[n], dict) else None
    if isinstance(h, str):
        return [(None, h)]
    if isinstance(h, dict):
        return [(k, s) for k, s in h.items() if isinstance(s, str)]
    return []


def set_string(doc, n, k, s):
    if k is None:
        doc[n]["HED"] = s
    else:
        doc[n]["HED"][k] = s


def faults(doc, roles, rng):
    """(fault name, mutated doc, expected internal kind, expected column or None) for every applicable fault"""
    out = []

    def cp():
        return json.loads(json.dumps(doc))
    hedcols = [n for n in doc if roles[n] in ("plain", "referrer", "target")]
    cats = [n for n in hedcols if isinstance(doc[n]["HED"], dict)]
    vals = [n for n in hedcols if isinstance(doc[n]["HED"], str)]
    ign = [n for n in doc if roles[n] == "ignored"]
    d = cp()
    d["HED"] = {"HED": rng.choice(VALUE)}
    out.append(("hed-column-name", d, "SIDECAR_HED_USED_COLUMN", "HED"))
    for n in hedcols[:2]:
        for bad in (3, ["Red"], None, True):
            d = cp()
            d[n]["HED"] = bad
            out.append(("hed-entry-not-string-or-map", d, "UNKNOWN_COLUMN_TYPE", n))
    for n in ign[:1]:
        for bad in ({"HED": "Red"}, [{"HED": 1}], {"q": {"HED": {}}}):
            d = cp()
            d[n]["Levels"] = bad
            out.append(("hed-key-in-ignored-column", d, "SIDECAR_HED_USED", n))
    for n in cats[:2]:
        k = rng.choice(list(doc[n]["HED"]))
        d = cp()
        d[n]["HED"] = {}
        out.append(("empty-category-map", d, "BLANK_HED_STRING", n))
        for bad in ("", 0, None, [], {}, False):
            d = cp()
            d[n]["HED"][k] = bad
            out.append(("blank-category-value", d, "BLANK_HED_STRING", n))
        for bad in (3, ["Red"], {"q": "Red"}, True):
            d = cp()
            d[n]["HED"][k] = bad
            out.append(("non-string-category-value", d, "WRONG_HED_DATA_TYPE", n))
        d = cp()
        d[n]["HED"]["n/a"] = "Red"
        out.append(("na-category-key", d, "SIDECAR_NA_USED", n))
        d = cp()
        d[n]["HED"][k] = doc[n]["HED"][k] + ", Label/#"
        out.append(("pound-in-category", d, "INVALID_POUND_SIGNS_CATEGORY", n))
    for n in vals[:2]:
        s = doc[n]["HED"]
        d = cp()
        d[n]["HED"] = s.replace("#", "3")
        out.append(("value-without-pound", d, "INVALID_POUND_SIGNS_VALUE", n))
        d = cp()
        d[n]["HED"] = s + ", Item-count/#"
        out.append(("value-with-two-pounds", d, "INVALID_POUND_SIGNS_VALUE", n))
        d = cp()
        d[n]["HED"] = "(" + s           # no tree, so no `#` is counted: flagged besides the parentheses error
        out.append(("value-with-unbalanced-parentheses", d, "INVALID_POUND_SIGNS_VALUE", n))
        d = cp()
        d[n]["HED"] = s.replace("#", "{#}") if "/#" not in s else s.replace("Label/#", "{#}").replace("ID/#", "{#}")
        if "#" in d[n]["HED"].replace("{#}", ""):
            d[n]["HED"] = "{#}"
        out.append(("value-whose-only-pound-is-in-a-reference-tag", d, "INVALID_POUND_SIGNS_VALUE", n))
    for n in hedcols[:3]:
        k, s = rng.choice(hed_strings(doc, n))
        for bad in (s + ", {b", "}, " + s, s + ", {{b}}", s + ", {b}}"):
            d = cp()
            set_string(d, n, k, bad)
            out.append(("unbalanced-braces", d, "MALFORMED_COLUMN_REF", n))
        if roles[n] != "target":
            d = cp()
            set_string(d, n, k, s + ", {zzz}")
            out.append(("unknown-reference", d, "INVALID_COLUMN_REF", n))
            if ign:
                d = cp()
                set_string(d, n, k, s + ", {%s}" % ign[0])
                out.append(("reference-to-column-without-hed", d, "INVALID_COLUMN_REF", n))
        d = cp()
        set_string(d, n, k, s + ", {%s}" % n)
        out.append(("self-reference", d, "SELF_COLUMN_REF", None))
    tg = [n for n in doc if roles[n] == "target"]
    others = [n for n in hedcols if roles[n] == "plain"]
    for t in tg[:1]:
        for o in others[:1] + ["HED"]:
            k, s = rng.choice(hed_strings(doc, t))
            d = cp()
            set_string(d, t, k, s + ", {%s}" % o)
            out.append(("nested-reference", d, "NESTED_COLUMN_REF", None))
    return out


# ------------------------------------------------------------------------------------------ checks

RAISE_FAMILY = [("two-def-expand-in-group", lambda d, o: o["raise"] == "KeyError" and "not found in the group" in o.get("msg", "")),
                ("top-level-not-object", lambda d, o: not isinstance(d, dict)),
                ("column-entry-not-object", lambda d, o: any(not isinstance(v, dict) for v in d.values())),
                ("reference-to-missing-column", lambda d, o: o["raise"] == "KeyError"),
                ("other", lambda d, o: True)]


def check_docs(ctx, docs, schema, table, expect=None, extra=None):
    """model = implementation on each document; never raises; optional expectation per document:
    ('clean',) or (fault, kind, column[, key]); `extra` = an external DefinitionDict given to every validation"""
    obs = []
    ext = sorted(extra.defs) if extra is not None else []
    for d in docs:
        obs.append(observe(d, schema, extra))
        ctx.check_time()
    ans = ctx.model.batch([request(d, o[1], ext) for d, o in zip(docs, obs)])
    for idx, (d, (out, _), a) in enumerate(zip(docs, obs, ans)):
        strings = sum(1 for _ in _walk_strings(d))
        ctx.case(("doc", json.dumps(d)), nontrivial=isinstance(d, dict) and len(d) > 0,
                 sample={"doc": d} if strings >= 2 and len(json.dumps(d)) < 160 and idx % 97 == 0 else None)
        if "raise" in out:
            fam = next(name for name, p in RAISE_FAMILY if p(d, out))
            ctx.count("impl-raises:" + out["raise"])
            ctx.violation("never-raises:" + fam, {"doc": d}, f"{out['raise']}: {out.get('msg', '')}",
                          signature="C08-raises-" + fam)
            continue
        if not out["direct_same"]:
            ctx.violation("Sidecar.validate = SidecarValidator.validate", {"doc": d}, "the two entry points differ")
        if "raise" in a:
            ctx.disagree("SidecarV.validate = Sidecar.validate", {"doc": d}, a, out["ok"])
            continue
        m = sorted(a["ok"], key=obs_key)
        errs = [i for i in out["ok"] if i[2] < table["_warning"]]
        ctx.count("early-exit" if a["early"] else "full-run")
        ctx.count("issues:" + (",".join(sorted({i[1] for i in errs})) or ("warnings-only" if out["ok"] else "none")))
        if m != out["ok"]:
            ctx.disagree("SidecarV.validate = Sidecar.validate", {"doc": d, "ext": ext}, m, out["ok"])
        if "dict" in out:
            # the sidecar's own dictionary, as extracted by the model from the entries' trees
            if out["dict"] or a.get("dict"):
                ctx.count("definitions:sidecars-with-accepted-definitions")
                ctx.count("definitions:accepted", len(out["dict"]))
            if sorted(map(json.dumps, a.get("dict", []))) != sorted(map(json.dumps, out["dict"])):
                ctx.disagree("SidecarV.extractDefs = Sidecar.get_def_dict", {"doc": d, "ext": ext}, a.get("dict"), out["dict"])
            for i in out["ok"]:
                if i[0] in DEF_KINDS:
                    ctx.count("definitions:issue:" + i[0] + (":no-context" if i[3] is None else ""))
        if expect is not None and expect[idx] is not None:
            e = expect[idx]
            if e[0] == "clean":
                if errs:
                    ctx.violation("well-formed-sidecar-has-no-error", {"doc": d}, {"errors": errs})
            else:
                fault, attr, col = e[:3]
                kind = table["attr:" + attr]
                code, sev = table[kind]
                ctx.count("fault:" + fault)
                hit = [i for i in out["ok"] if i[0] == kind and i[1] == code and i[2] == sev and sev < table["_warning"]
                       and (col is None or i[3] == col) and (len(e) < 4 or i[4] == e[3])]
                if not hit:
                    ctx.violation("fault-flagged-with-its-code:" + fault, {"doc": d, "expect": list(e), "ext": ext},
                                  {"expected_code": code, "issues": out["ok"]})


def _walk_strings(j):
    if isinstance(j, str):
        yield j
    elif isinstance(j, list):
        for x in j:
            yield from _walk_strings(x)
    elif isinstance(j, dict):
        for x in j.values():
            yield from _walk_strings(x)


def check_replace_ref(ctx):
    """`SidecarV.replaceRef` (= `Assemble.replaceRef`) against `df_util.replace_ref`, both branches"""
    from hed.models import df_util
    rng = ctx.rng
    parts = ["{a}", "{a}", "{b}", ",", ", ", " ", "(", ")", "Red", "Blue", "(Red, {a})", "({a})", "{a},", ",{a}", "n/a", "#"]
    values = ["n/a", "", "Red", "Red, Blue", "(Red)", "{a}", "n/a ", "N/A"]
    texts = ["".join(p) for n in range(1, 4) for p in itertools.product(["{a}", ",", " ", "(", ")", "X"], repeat=n)]
    texts += ["".join(rng.choice(parts) for _ in range(rng.randint(1, 7))) for _ in range(1500 if ctx.quick() else 15000)]
    reqs = [{"op": "c08.replaceref", "text": t, "ref": "a", "value": rng.choice(values)} for t in texts]
    for r, a in zip(reqs, ctx.model.batch(reqs)):
        ctx.case(("rr", r["text"], r["value"]), nontrivial="{a}" in r["text"])
        try:
            want = df_util.replace_ref(r["text"], "{a}", r["value"])
        except Exception as ex:
            ctx.violation("never-raises:replace_ref", {"text": r["text"], "value": r["value"]}, f"{type(ex).__name__}: {ex}")
            continue
        ctx.count("replace_ref:" + ("removed" if r["value"] in ("", "n/a") else "replaced"))
        if a["out"] != want:
            ctx.disagree("SidecarV.replaceRef = df_util.replace_ref", {"text": r["text"], "value": r["value"]}, a["out"], want)


TREE_PARTS = ["(", ")", "(", ")", ",", ", ", " ", "#", "{a}", "{#}", "{a#}", "Red", "Label/#", "Def-expand/A/#", "Def-expand/B",
              "Def/A/#", "ID/#"]
SHRINK = {}


def shrink_defs_guarded(schema):
    """does the tree under test carry the `shrink_defs` guard (fixes/C08_shrink_defs_twice.diff)?"""
    from hed import HedString
    if "fixed" not in SHRINK:
        try:
            HedString("(Def-expand/A, Def-expand/B)", schema).shrink_defs()
            SHRINK["fixed"] = True
        except KeyError:
            SHRINK["fixed"] = False
    return SHRINK["fixed"]


def impl_tree_hash(s, schema):
    """what `_validate_pound_sign_count` counts for the entry text `s`: (count | None, raised)"""
    import copy
    from hed import HedString
    h = HedString(s, schema)
    h.remove_refs()
    c = copy.deepcopy(h)
    c.remove_definitions()
    try:
        c.shrink_defs()
    except KeyError:
        return None, True
    return str(c).count("#"), False


def check_tree_hash(ctx):
    """`SidecarV.treeHash` / `twiceList` against HedString + remove_refs + remove_definitions + shrink_defs + str"""
    from hed import HedString, load_schema_version
    schema = load_schema_version("8.3.0")
    rng = ctx.rng
    strs = list(ENTRIES) + ["".join(p) for n in range(1, 4) for p in itertools.product(["(", ")", ",", "L/#", "{a}"], repeat=n)]
    strs += ["".join(rng.choice(TREE_PARTS) for _ in range(rng.randint(1, 8))) for _ in range(1500 if ctx.quick() else 15000)]
    guarded = shrink_defs_guarded(schema)
    reqs = []
    for s in strs:
        reqs.append({"op": "c08.treehash", "s": s, "defexpand": sorted(def_expand_texts(HedString(s, schema)))})
    for s, a in zip(strs, ctx.model.batch(reqs)):
        if HedString(s, schema).find_tags({"Definition"}, recursive=True, include_groups=0):
            ctx.count("treehash:skipped-entry-with-definition")     # the validator does not count `#` in such entries
            continue
        ctx.case(("th", s), nontrivial="#" in s)
        n, raised = impl_tree_hash(s, schema)
        if raised:
            ctx.count("treehash:shrink_defs-raises")
            ctx.violation("never-raises:two-def-expand-in-group", {"entry": s}, "KeyError in HedString.shrink_defs",
                          signature="C08-raises-two-def-expand-in-group")
        if raised != (a["twice"] and not guarded):
            ctx.disagree("SidecarV.twiceList = shrink_defs raises", {"entry": s}, a["twice"], raised)
        if not raised:
            ctx.count("treehash:" + ("same-as-text" if n == s.count("#") else "differs-from-text"))
            if a["hash"] != n:
                ctx.disagree("SidecarV.treeHash = str(tree after remove_refs/shrink_defs).count('#')", {"entry": s}, a["hash"], n)


def check_units(ctx):
    """braces / reference regex / str.replace / column kind against the real functions"""
    import re
    from hed.validator.sidecar_validator import SidecarValidator
    from hed.models.column_metadata import ColumnMetadata
    rng = ctx.rng
    alpha = ["{", "}", "{", "}", "a", "B", "_", "-", "9", " ", ",", "#", "(", "İ", "ı", "ſ", "K", "é"]
    strs = ["".join(p) for n in range(0, 5) for p in itertools.product("{}a ", repeat=n)]
    strs += ["".join(rng.choice(alpha) for _ in range(rng.randint(0, 14))) for _ in range(2000 if ctx.quick() else 20000)]
    reqs = [{"op": "c08.strings", "s": s, "old": "{a}", "new": rng.choice(["X", "", "{a}", "a{a}"])} for s in strs]
    for s, r, a in zip(strs, reqs, ctx.model.batch(reqs)):
        ctx.case(("s", s), nontrivial="{" in s or "}" in s)
        b = SidecarValidator._find_non_matching_braces(s)
        f = re.findall(REF_REGEX, s, re.IGNORECASE)
        p = s.replace(r["old"], r["new"])
        if a["braces"] != b:
            ctx.disagree("SidecarV.braces = _find_non_matching_braces", {"s": s}, a["braces"], b)
        if a["refs"] != f:
            ctx.disagree("SidecarV.findRefs = re.findall(ref regex)", {"s": s}, a["refs"], f)
        if a["replaced"] != p:
            ctx.disagree("SidecarV.replaceAll = str.replace", {"s": s, "old": r["old"], "new": r["new"]}, a["replaced"], p)
        # the property's reading of "balanced": '{' and '}' alternate, starting with '{', and the last one is '}'
        bs = [c for c in s if c in "{}"]
        balanced = len(bs) % 2 == 0 and all(c == "{}"[i % 2] for i, c in enumerate(bs))
        if (b == []) != balanced:
            ctx.violation("braces-flagged-iff-unbalanced", {"s": s}, {"impl": b, "balanced": balanced})
    check_replace_ref(ctx)
    check_tree_hash(ctx)
    ents = universe(3)
    reqs = [{"op": "c08.kind", "entry": enc(e)} for e in ents]
    for e, a in zip(ents, ctx.model.batch(reqs)):
        ctx.case(("k", json.dumps(e)), nontrivial=isinstance(e, dict))
        got = []
        try:
            for basic in (True, False):
                t = ColumnMetadata._detect_column_type(e, basic_validation=basic)
                got.append(None if t is None else t.value)
        except Exception as ex:
            ctx.violation("never-raises:_detect_column_type", {"entry": e}, f"{type(ex).__name__}: {ex}")
            continue
        if [a["basic"], a["raw"]] != got:
            ctx.disagree("SidecarV.detect = _detect_column_type", {"entry": e}, [a["basic"], a["raw"]], got)


def run(ctx):
    from hed import load_schema_version
    install_recorders()
    schema = load_schema_version("8.3.0")
    table = tables()
    ctx.extra["rule"] = ("(0) entry strings whose text and parse tree differ (unbalanced, {#}, Def-expand with #, n/a splices, "
                         "definitions) in 7 skeletons; (i) every JSON value of the universe (12 atoms incl. null/true/0/3/''/'{a}'/[]/{}; singleton lists; "
                         "objects over keys HED/x/n-a; depth 3) at the top level, as a column entry, next to a referencing "
                         "column, and pairs of depth-2 values as two columns; (ii) generated well-formed sidecars (value, "
                         "categorical, ignored, definition, referencing columns) and each of them with one injected "
                         "structural fault; non-trivial = the document is a non-empty object")
    check_units(ctx)
    corpus = [{"TaskName": "rest"}, {"a": None}, [1, 2], "x", {"onset": {"HED": "{col1}"}},
              {"a": {"HED": "Label/#, {b}"}, "b": {"HED": {"x": "Red", "y": "Blue"}}},
              {"a": {"HED": {"x": "Red, {HED}", "y": "({HED}), Blue"}}},
              {"a": {"HED": {"d": "(Definition/Abc, (Red))", "e": "Blue"}}},
              {"a": {"HED": "{a}"}}, {"a": {"HED": "{b}, {b}, Label/#"}, "b": {"HED": {"x": "Red", "y": "Blue"}}}]
    docs = corpus + entry_documents(ctx) + documents(ctx)
    for lo in range(0, len(docs), 3000):
        check_docs(ctx, docs[lo:lo + 3000], schema, table)
    # sidecars that declare definitions: extraction, dictionary and issues computed by the model
    ddocs, dexp = definition_documents(ctx)
    for lo in range(0, len(ddocs), 3000):
        check_docs(ctx, ddocs[lo:lo + 3000], schema, table, dexp[lo:lo + 3000])
    # ... and merged with an external dictionary that defines some of the same names
    from hed.models import DefinitionDict
    extra = DefinitionDict(EXTERNAL_DEFS, schema)
    sub = ddocs[::3] if ctx.quick() else ddocs
    check_docs(ctx, sub, schema, table, None, extra=extra)
    ctx.extra["definition_sidecars"] = len(ddocs) + len(sub)
    nbase = 150 if ctx.quick() else 1500
    gdocs, expect = [], []
    for _ in range(nbase):
        d, roles = gen_sidecar(ctx.rng)
        gdocs.append(d)
        expect.append(("clean",))
        for fault, fd, kind, col in faults(d, roles, ctx.rng):
            gdocs.append(fd)
            expect.append((fault, kind, col))
    for lo in range(0, len(gdocs), 3000):
        check_docs(ctx, gdocs[lo:lo + 3000], schema, table, expect[lo:lo + 3000])
    ctx.extra["generated_wellformed"] = nbase
    ctx.extra["fault_cases"] = len(gdocs) - nbase
    try:    # closed mode: the same pipeline with string validation computed by the C01 model inside Lean
        from harness.props import closed_c08
        closed_c08.run_closed(ctx)
    except ImportError:
        pass


def replay(ctx, rec):
    from hed import load_schema_version
    install_recorders()
    schema = load_schema_version("8.3.0")
    table = tables()
    case = rec.get("case") or (rec.get("disagreements") or [{}])[0].get("case")
    if not case:
        print("nothing to replay (obligation-only record):", rec.get("broken_obligations"))
        return
    if case.get("closed"):
        from harness.props import closed_c08
        closed_c08.run_closed(ctx, docs=[case["doc"]])
        print("replayed (closed mode)", json.dumps(case)[:300])
        return
    if "doc" in case:
        exp = None
        if "expect" in case:
            exp = [tuple(case["expect"])]
        extra = None
        if case.get("ext"):
            from hed.models import DefinitionDict
            extra = DefinitionDict(EXTERNAL_DEFS, schema)
        check_docs(ctx, [case["doc"]], schema, table, exp, extra=extra)
        out, _ = observe(case["doc"], schema)
        print("replayed", json.dumps(case["doc"])[:300], "->", json.dumps(out)[:400])
    else:
        print("string-level case:", json.dumps(case)[:300])
