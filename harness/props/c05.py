"""C05 — Schemas survive saving and reloading in every format.

Implementation side: the real writers/readers (`get_as_xml_string`, `get_as_mediawiki_string`,
`save_as_dataframes`, `from_string`, `load_schema`) and `HedSchema.__eq__`.
Independent side: our own ElementTree walk of the saved XML text (no hed code) against the vocabulary of the
schema object and of the source XML file.
Model side (lean/HedVerif/Model/SchemaIO.lean): attribute-string grammar, wiki entry lines, tag-section and
other-section writers/readers of MediaWiki, the rows of the TSV tag sheet, the XML element forest of the tag
section, save decisions of `Schema2Base.process_schema`; compared with what the real writers produce for every
entry (lines as text, TSV rows read back with the csv module, XML read back with ElementTree) and with
`parse_attribute_string`, the wiki line reader, `SchemaLoaderDF._read_schema` and
`SchemaLoaderXML._populate_tag_dictionaries` on generated (also malformed) inputs.
"""
import json
import os
import shutil
import tempfile
import xml.etree.ElementTree as ET

from harness import common, schema_xml

THEOREMS = [
    "HedVerif.C05.attr_roundtrip",
    "HedVerif.C05.attr_multivalue_survives",
    "HedVerif.C05.line_roundtrip_partial",
    "HedVerif.C05.line_counterexample",
    "HedVerif.C05.wiki_tags_roundtrip_partial",
    "HedVerif.C05.refuse",
    "HedVerif.C05.refuse_iff",
    "HedVerif.C05.strip_inlibrary",
    "HedVerif.C05.merged_keeps_everything",
    "HedVerif.C05.wiki_order_counterexample",
    "HedVerif.C05.treeOrder_is_preorder",
    "HedVerif.C05.preorder_of_groups",
    "HedVerif.C05.line_roundtrip",
    "HedVerif.C05.wiki_tags_roundtrip",
    "HedVerif.C05.normEntry_normal",
    "HedVerif.C05.normDesc_fixed",
    "HedVerif.C05.blank_description_counterexample",
    "HedVerif.C05.loaded_descriptions_normal",
    "HedVerif.C05.tsv_writes_all_sheets",
    "HedVerif.C05.escape_roundtrip",
    "HedVerif.C05.extend_here_counterexample",
    "HedVerif.C05.nowiki_counterexample",
    "HedVerif.C05.formats_agree",
    "HedVerif.C05.formats_agree_merged",
    "HedVerif.C05.unit_classes_unmerged",
    "HedVerif.C05.unit_classes_merged",
    "HedVerif.C05.rooted_relevel",
    "HedVerif.C05.child_keeps_shift",
    "HedVerif.C05.loaded_descriptions_trimmed",
    "HedVerif.C05.wiki_sections_roundtrip",
    "HedVerif.C05.tsv_tags_roundtrip",
    "HedVerif.C05.hedLast_same",
    "HedVerif.C05.xml_tags_roundtrip",
    "HedVerif.C05.cross_format",
    "HedVerif.C05.escape_roundtrip_partial",
    "HedVerif.C05.escape_counterexample",
]
BUDGET = {"quick": 600, "thorough": 3000}

QUICK = ["8.3.0", "score_2.0.0", "testlib_3.0.0"]
ALL = ["8.3.0", "score_2.0.0", "testlib_3.0.0", "8.0.0", "8.1.0", "8.2.0", "score_1.1.0", "testlib_2.0.0",
       "testlib_2.1.0", "score_1.0.0", "testlib_1.0.2"]
LEGACY = {"score_1.0.0", "testlib_1.0.2"}          # undeclared inLibrary attribute: xml and mediawiki only
FORMATS = ["xml", "mediawiki", "tsv"]

# registered findings: family of the edit -> (signature, formats on which the defect shows)
FAMILIES = {
    "edge-blank": ("C05-description-edge-blank", {"mediawiki", "tsv"}),
    "extend-here": ("C05-description-extend-here", {"mediawiki"}),
    "nowiki-tag": ("C05-description-nowiki-tag", {"mediawiki"}),
    "leading-quote": ("C05-tsv-description-leading-quote", {"tsv"}),
}
XSI = "{http://www.w3.org/2001/XMLSchema-instance}noNamespaceSchemaLocation"


# ------------------------------------------------------------------ independent XML reading (ElementTree only)

def _xattrs(elem, child):
    out = {}
    for a in elem.findall(child):
        out.setdefault(a.findtext("name"), []).extend(v.text or "" for v in a.findall("value"))
    return tuple(sorted((k, tuple(sorted(v))) for k, v in out.items()))


def xml_vocab(root):
    """{(section, name): (attrs, description)} + header/prologue/epilogue of one schema XML tree.
    Extends harness/schema_xml.py (which it does not import code from hed either): `property` children of the
    attribute/property sections, units keyed by their class, values kept as multisets."""
    ent = {}

    def put(key, elem, child="attribute", bare=False):
        if key in ent:
            ent[("DUPLICATE",) + key] = ()
        ent[key] = ((), None) if bare else (_xattrs(elem, child), elem.findtext("description"))

    def walk(node, prefix):
        long = prefix + [node.findtext("name")]
        put(("tags", "/".join(long)), node)
        for ch in node.findall("node"):
            walk(ch, long)
    sch = root.find("schema")
    for top in (sch.findall("node") if sch is not None else []):
        walk(top, [])
    ucd = root.find("unitClassDefinitions")
    for uc in (ucd.findall("unitClassDefinition") if ucd is not None else []):
        put(("unit_classes", uc.findtext("name")), uc)
        for u in uc.findall("unit"):
            put(("units", uc.findtext("name") + "/" + u.findtext("name")), u)
    for sec, tag, item, child in (("unit_modifiers", "unitModifierDefinitions", "unitModifierDefinition", "attribute"),
                                  ("value_classes", "valueClassDefinitions", "valueClassDefinition", "attribute"),
                                  ("attributes", "schemaAttributeDefinitions", "schemaAttributeDefinition", "property"),
                                  ("properties", "propertyDefinitions", "propertyDefinition", "property")):
        s = root.find(tag)
        for x in (s.findall(item) if s is not None else []):
            put((sec, x.findtext("name")), x, child)
    header = {("xsi:noNamespaceSchemaLocation" if k == XSI else k): v for k, v in root.attrib.items()}
    return {"entries": ent, "header": header, "prologue": (root.findtext("prologue") or "").strip(),
            "epilogue": (root.findtext("epilogue") or "").strip()}


# ------------------------------------------------------------------ vocabulary of a loaded schema object

def _oattrs(attrs, strip_lib):
    out = []
    for k, v in attrs.items():
        if strip_lib and k == "inLibrary":
            continue
        out.append((k, () if v is True else tuple(sorted(v.split(",")))))
    return tuple(sorted(out))


def rel_name(entry):
    """name of a library tag inside an unmerged file: the chain of library ancestors (rooted tags become roots)"""
    chain = [entry.name.rsplit("/", 1)[-1]]
    p = entry.parent
    while p is not None and "inLibrary" in p.attributes:
        chain.append(p.name.rsplit("/", 1)[-1])
        p = p.parent
    return "/".join(reversed(chain))


def obj_vocab(schema, merged):
    """what the property says the saved file must list (the expectation, written independently of the writers)"""
    partnered = bool(schema.with_standard)
    lib_only = partnered and not merged
    strip = not (partnered and merged)
    ent = {}

    def lib(e):
        return "inLibrary" in e.attributes

    def val(e):
        return (_oattrs(e.attributes, strip), e.description or None)
    for e in schema.tags.all_entries:
        if lib_only and not lib(e):
            continue
        ent[("tags", rel_name(e) if lib_only else e.name)] = val(e)
    for uc in schema.unit_classes.values():
        units = [u for u in uc.units.values() if not lib_only or lib(u)]
        if lib_only and not lib(uc):
            if not units:
                continue
            ent[("unit_classes", uc.name)] = ((), None)
        else:
            ent[("unit_classes", uc.name)] = val(uc)
        for u in units:
            ent[("units", uc.name + "/" + u.name)] = val(u)
    for sec, d in (("unit_modifiers", schema.unit_modifiers), ("value_classes", schema.value_classes),
                   ("attributes", schema.attributes), ("properties", schema.properties)):
        for e in d.values():
            if lib_only and not lib(e):
                continue
            ent[(sec, e.name)] = val(e)
    return {"entries": ent, "header": dict(schema.header_attributes), "prologue": (schema.prologue or "").strip(),
            "epilogue": (schema.epilogue or "").strip()}


def diff_vocab(a, b, strip_desc=False, limit=4):
    """differences between two vocabularies (entries, header modulo `unmerged`, prologue, epilogue)"""
    out = []

    def norm(v):
        if not v:
            return v
        at, d = v
        return (at, (d.strip() or None) if (strip_desc and d) else (d or None))
    ea, eb = a["entries"], b["entries"]
    for k in sorted(set(ea) | set(eb), key=str):
        va, vb = norm(ea.get(k)), norm(eb.get(k))
        if va != vb:
            out.append({"entry": list(k), "left": va, "right": vb})
    ha = {k: v for k, v in a["header"].items() if k not in ("unmerged", "xmlns:xsi")}
    hb = {k: v for k, v in b["header"].items() if k not in ("unmerged", "xmlns:xsi")}
    if ha != hb:
        out.append({"header": [ha, hb]})
    for k in ("prologue", "epilogue"):
        if a[k] != b[k]:
            out.append({k: [a[k][:80], b[k][:80]]})
    return out[:limit], len(out)


# ------------------------------------------------------------------ edits of the XML text (replayable op lists)

SEC_XML = {"unit_classes": ("unitClassDefinitions", "unitClassDefinition"),
           "unit_modifiers": ("unitModifierDefinitions", "unitModifierDefinition"),
           "value_classes": ("valueClassDefinitions", "valueClassDefinition"),
           "attributes": ("schemaAttributeDefinitions", "schemaAttributeDefinition"),
           "properties": ("propertyDefinitions", "propertyDefinition")}


def find_node(root, long):
    cur = root.find("schema")
    for part in long.split("/"):
        cur = next((n for n in cur.findall("node") if n.findtext("name") == part), None)
        if cur is None:
            return None
    return cur


def find_entry(root, section, name):
    if section == "tags":
        return find_node(root, name)
    if section == "units":
        c, u = name.split("/", 1)
        uc = find_entry(root, "unit_classes", c)
        return None if uc is None else next((x for x in uc.findall("unit") if x.findtext("name") == u), None)
    sec, item = SEC_XML[section]
    s = root.find(sec)
    return None if s is None else next((x for x in s.findall(item) if x.findtext("name") == name), None)


def set_desc(elem, desc):
    d = elem.find("description")
    if desc is None:
        if d is not None:
            elem.remove(d)
        return
    if d is None:
        d = ET.Element("description")
        elem.insert(1, d)
    d.text = desc


def add_attr(elem, key, values, child="attribute"):
    a = ET.SubElement(elem, child)
    ET.SubElement(a, "name").text = key
    for v in values:
        ET.SubElement(a, "value").text = v


def set_attr(elem, key, values, child="attribute"):
    for a in [a for a in elem.findall(child) if a.findtext("name") == key]:
        elem.remove(a)
    if values is not None:
        add_attr(elem, key, values, child)


def make_elem(tag, name, desc, attrs):
    e = ET.Element(tag)
    ET.SubElement(e, "name").text = name
    if desc is not None:
        ET.SubElement(e, "description").text = desc
    for k, vs in attrs:
        add_attr(e, k, vs)
    return e


def apply_ops(root, ops):
    """apply a recorded list of edits to an XML tree; returns False if a target has vanished"""
    for op in ops:
        k = op["op"]
        if k == "desc":
            e = find_entry(root, op["section"], op["name"])
            if e is None:
                return False
            set_desc(e, op["desc"])
        elif k == "set_attr":
            e = find_entry(root, op["section"], op["name"])
            if e is None:
                return False
            set_attr(e, op["key"], op["values"], "property" if op["section"] in ("attributes", "properties") else "attribute")
        elif k == "add_node":
            parent = root.find("schema") if op["parent"] is None else find_node(root, op["parent"])
            if parent is None:
                return False
            n = make_elem("node", op["name"], op["desc"], op["attrs"])
            if op.get("value_child"):
                vc = op["value_child"]
                n.append(make_elem("node", "#", vc["desc"], vc["attrs"]))
            parent.append(n)
        elif k == "remove_node":
            long = op["name"]
            parent = root.find("schema") if "/" not in long else find_node(root, long.rsplit("/", 1)[0])
            n = find_node(root, long)
            if parent is None or n is None:
                return False
            parent.remove(n)
        elif k == "add_unit":
            uc = find_entry(root, "unit_classes", op["class"])
            if uc is None:
                return False
            uc.append(make_elem("unit", op["name"], op["desc"], op["attrs"]))
        elif k == "add_unit_class":
            s = root.find("unitClassDefinitions")
            uc = make_elem("unitClassDefinition", op["name"], op["desc"], op["attrs"])
            for u in op["units"]:
                uc.append(make_elem("unit", u["name"], u["desc"], u["attrs"]))
            s.append(uc)
        elif k == "add_entry":
            sec, item = SEC_XML[op["section"]]
            root.find(sec).append(make_elem(item, op["name"], op["desc"], op["attrs"]))
        elif k == "remove_unit":
            uc = find_entry(root, "unit_classes", op["class"])
            u = find_entry(root, "units", op["class"] + "/" + op["name"])
            if uc is None or u is None:
                return False
            uc.remove(u)
        else:
            raise ValueError(k)
    return True


WORDS = ["sensor", "The", "value", "of", "an", "item", "used", "in", "Fig.", "café", "naïve", "über", "測定",
         "x=y", "a=b=c", "\"quoted\"", "it's", "50%", "(see", "note)", "A&B", "<tag>", "a<b", "#1", "semi;", "colon:",
         "pipe|bar", "back\\slash", "q?", "e.g.", "+1", "-2", "3*4", "~approx", "under_score", "@home", "$5", "^2",
         "a/b", "!", "αβ", "\\n", "extend", "here", "nowiki"]
MALFORMED_DESC = ["has [bracket", "has ]bracket", "a {brace", "a }brace", "[all]", "{x}", "tab\there", "line\nbreak",
                  "x [y] {z}"]


class EditGen:
    """Generator of edit op lists on one bundled XML tree (the tree is used read-only to pick targets)."""

    def __init__(self, rng, root, schema_name, words=None):
        self.rng, self.root = rng, root
        self.words = words or WORDS
        self.lib = root.attrib.get("library") if root.attrib.get("withStandard") else None
        self.n = 0
        self.legacy = schema_name in LEGACY
        self.tags = []

        def walk(node, prefix):
            long = prefix + [node.findtext("name")]
            self.tags.append(("/".join(long), node))
            for ch in node.findall("node"):
                walk(ch, long)
        for top in root.find("schema").findall("node"):
            walk(top, [])
        self.shorts = [l.rsplit("/", 1)[-1] for l, _ in self.tags if not l.endswith("#")]
        self.referenced = set()
        for _, n in self.tags:
            for a in n.findall("attribute"):
                self.referenced.update(v.text for v in a.findall("value"))
        self.value_classes = [x.findtext("name") for x in root.find("valueClassDefinitions")]
        self.unit_classes = [x.findtext("name") for x in root.find("unitClassDefinitions")]
        self.declared = {x.findtext("name") for x in root.find("schemaAttributeDefinitions")}

    def is_lib(self, node):
        return any(a.findtext("name") == "inLibrary" for a in node.findall("attribute"))

    def desc(self):
        r = self.rng
        if r.random() < 0.1:
            return None
        words = [r.choice(self.words) for _ in range(r.randint(1, 7))]
        d = (" " if r.random() < 0.8 else "  ").join(words)
        d = d.replace("extend here", "extend there")
        if d.startswith('"'):
            d = "A " + d
        return d.strip()

    def fresh(self, stem="Verif-item"):
        self.n += 1
        return f"{stem}-{self.n}"

    def tag_attrs(self, lib_parent_base=None):
        r = self.rng
        pool = []
        if "suggestedTag" in self.declared:
            pool.append(("suggestedTag", sorted(r.sample(self.shorts, r.randint(1, 3)))))
        if "relatedTag" in self.declared:
            pool.append(("relatedTag", sorted(r.sample(self.shorts, r.randint(1, 3)))))
        for flag in ("extensionAllowed", "requireChild", "tagGroup", "reserved"):
            if flag in self.declared:
                pool.append((flag, []))
        attrs = r.sample(pool, min(len(pool), r.randint(0, 3)))
        if lib_parent_base:
            attrs.insert(0, ("rooted", [lib_parent_base]))
        if self.lib:
            attrs.append(("inLibrary", [self.lib]))
        return [[k, v] for k, v in attrs]

    def value_child(self):
        r = self.rng
        attrs = [["takesValue", []]]
        if r.random() < 0.7:
            attrs.append(["valueClass", sorted(r.sample(self.value_classes, min(len(self.value_classes), r.randint(1, 2))))])
        if r.random() < 0.5 and self.unit_classes:
            attrs.append(["unitClass", sorted(r.sample(self.unit_classes, min(len(self.unit_classes), r.randint(1, 2))))])
        if self.lib:
            attrs.append(["inLibrary", [self.lib]])
        return {"desc": self.desc(), "attrs": attrs}

    def std_unit_classes(self):
        """unit classes of the partner schema inside a partnered library file (no inLibrary)"""
        return [x.findtext("name") for x in self.root.find("unitClassDefinitions") if not self.is_lib(x)]

    def unit_attrs(self):
        r = self.rng
        attrs = r.sample([["SIUnit", []], ["unitSymbol", []], ["conversionFactor", [r.choice(["1.0", "0.001", "1000.0"])]]],
                         r.randint(0, 3))
        return [a for a in attrs if a[0] in self.declared]

    def lib_unit_in(self, class_name):
        lib_attr = [["inLibrary", [self.lib]]] if self.lib else []
        return {"op": "add_unit", "class": class_name, "name": self.fresh("verifunit"), "desc": self.desc() or "A unit.",
                "attrs": self.unit_attrs() + lib_attr}

    def partnered_units_ops(self, std_class):
        """a partnered library that puts a library unit into the given unit class of its partner AND defines a unit
        class (with units), a unit modifier and a value class of its own, all with descriptions and attributes"""
        lib_attr = [["inLibrary", [self.lib]]]
        u1, u2 = self.fresh("verifunit"), self.fresh("verifunit")
        own = {"op": "add_unit_class", "name": self.fresh("verifUnits"), "desc": self.desc() or "Own units.",
               "attrs": ([["defaultUnits", [u1]]] if "defaultUnits" in self.declared else []) + lib_attr,
               "units": [{"name": u1, "desc": self.desc() or "First unit.",
                          "attrs": ([["conversionFactor", ["1.0"]]] if "conversionFactor" in self.declared else []) + lib_attr},
                         {"name": u2, "desc": self.desc(), "attrs": self.unit_attrs() + lib_attr}]}
        mod = {"op": "add_entry", "section": "unit_modifiers", "name": self.fresh("verifmod"), "desc": self.desc() or "A modifier.",
               "attrs": [["SIUnitModifier", []]] + ([["conversionFactor", ["10000000.0"]]] if "conversionFactor" in self.declared else []) + lib_attr}
        chars = sorted(self.rng.sample(["letters", "digits", "blank", "hyphen", "period"], self.rng.randint(1, 3)))
        vc = {"op": "add_entry", "section": "value_classes", "name": self.fresh("verifClass"), "desc": self.desc() or "A value class.",
              "attrs": ([["allowedCharacter", chars]] if "allowedCharacter" in self.declared else []) + lib_attr}
        return [self.lib_unit_in(std_class), own, mod, vc]

    def rooted_ops(self, top):
        """a library node rooted at a non-root node inside the partner's top-level subtree `top`, with a child"""
        pool = [(l, n) for l, n in self.tags if l.startswith(top + "/") and not l.endswith("#") and not self.is_lib(n)
                and not any(c.findtext("name") == "#" for c in n.findall("node"))]
        if not pool:
            return None
        parent = self.rng.choice(pool)[0]
        lib_attr = [["inLibrary", [self.lib]]]
        name = self.fresh("Verif-rooted")
        return [{"op": "add_node", "parent": parent, "name": name, "desc": self.desc(),
                 "attrs": [["rooted", [parent.rsplit("/", 1)[-1]]]] + lib_attr, "value_child": None},
                {"op": "add_node", "parent": parent + "/" + name, "name": self.fresh(), "desc": self.desc(),
                 "attrs": lib_attr, "value_child": self.value_child() if self.rng.random() < 0.5 else None}]

    def op(self):
        r = self.rng
        kind = r.choice(["add_node", "add_node", "add_value_node", "remove_node", "reattr", "desc", "desc", "add_unit",
                         "add_unit_class", "add_value_class", "add_modifier", "desc_other", "add_lib_unit_std"])
        if kind == "add_lib_unit_std":
            std = self.std_unit_classes() if self.lib else []
            if not std:
                return self.op()
            return self.lib_unit_in(r.choice(std))
        cands = [(l, n) for l, n in self.tags if not l.endswith("#")]
        open_cands = [(l, n) for l, n in cands if not any(c.findtext("name") == "#" for c in n.findall("node"))]
        if kind in ("add_node", "add_value_node"):
            rooted = None
            if self.lib:
                # library node: under a library node, at top level, or rooted under a base node
                where = r.random()
                libs = [(l, n) for l, n in open_cands if self.is_lib(n)]
                if where < 0.5 and libs:
                    parent = r.choice(libs)[0]
                elif where < 0.7:
                    parent = None
                else:
                    parent, node = r.choice([(l, n) for l, n in open_cands if not self.is_lib(n)])
                    rooted = parent.rsplit("/", 1)[-1]
            else:
                parent = None if r.random() < 0.15 else r.choice(open_cands)[0]
            op = {"op": "add_node", "parent": parent, "name": self.fresh(), "desc": self.desc(),
                  "attrs": self.tag_attrs(rooted), "value_child": self.value_child() if kind == "add_value_node" else None}
            return op
        if kind == "remove_node":
            leaves = [(l, n) for l, n in cands if not n.findall("node") and l.rsplit("/", 1)[-1] not in self.referenced
                      and (not self.lib or self.is_lib(n))]
            if not leaves:
                return self.op()
            return {"op": "remove_node", "name": r.choice(leaves)[0]}
        if kind == "reattr":
            pool = [(l, n) for l, n in cands if not self.lib or self.is_lib(n)]
            if not pool or "suggestedTag" not in self.declared:
                return self.op()
            long, node = r.choice(pool)
            key = r.choice(["suggestedTag", "relatedTag", "extensionAllowed"])
            if key not in self.declared:
                key = "suggestedTag"
            has = any(a.findtext("name") == key for a in node.findall("attribute"))
            if has and r.random() < 0.4:
                values = None
            elif key == "extensionAllowed":
                values = []
            else:
                values = sorted(r.sample(self.shorts, r.randint(1, 4)))
            return {"op": "set_attr", "section": "tags", "name": long, "key": key, "values": values}
        if kind == "desc":
            pool = [(l, n) for l, n in self.tags if not self.lib or self.is_lib(n)]
            if not pool:
                return self.op()
            return {"op": "desc", "section": "tags", "name": r.choice(pool)[0], "desc": self.desc()}
        lib_attr = [["inLibrary", [self.lib]]] if self.lib else []
        if kind == "add_unit":
            ucs = [x for x in self.root.find("unitClassDefinitions")
                   if (not self.lib or self.is_lib(x))]
            if not ucs:
                return self.op()
            attrs = r.sample([["SIUnit", []], ["unitSymbol", []], ["conversionFactor", [r.choice(["1.0", "0.001", "1000.0"])]]],
                             r.randint(0, 3))
            return {"op": "add_unit", "class": r.choice(ucs).findtext("name"), "name": self.fresh("verifunit"),
                    "desc": self.desc(), "attrs": [a for a in attrs if a[0] in self.declared] + lib_attr}
        if kind == "add_unit_class":
            u1, u2 = self.fresh("verifunit"), self.fresh("verifunit")
            attrs = [["defaultUnits", [u1]]] if "defaultUnits" in self.declared else []
            return {"op": "add_unit_class", "name": self.fresh("verifUnits"), "desc": self.desc(), "attrs": attrs + lib_attr,
                    "units": [{"name": u1, "desc": self.desc(), "attrs": ([["conversionFactor", ["1.0"]]] if "conversionFactor" in self.declared else []) + lib_attr},
                              {"name": u2, "desc": self.desc(), "attrs": ([["unitSymbol", []]] if "unitSymbol" in self.declared else []) + lib_attr}]}
        if kind == "add_value_class":
            chars = r.sample(["letters", "digits", "blank", "hyphen", "period", "colon", "slash"], r.randint(0, 4))
            attrs = [["allowedCharacter", sorted(chars)]] if chars and "allowedCharacter" in self.declared else []
            return {"op": "add_entry", "section": "value_classes", "name": self.fresh("verifClass"), "desc": self.desc(),
                    "attrs": attrs + lib_attr}
        if kind == "add_modifier":
            attrs = [["SIUnitModifier", []]] + ([["conversionFactor", ["10000000.0"]]] if "conversionFactor" in self.declared else [])
            return {"op": "add_entry", "section": "unit_modifiers", "name": self.fresh("verifmod"), "desc": self.desc(),
                    "attrs": attrs + lib_attr}
        # description of an entry of another section
        sec = r.choice(["unit_classes", "unit_modifiers", "value_classes", "attributes", "properties", "units"])
        if sec == "units":
            pool = [uc.findtext("name") + "/" + u.findtext("name") for uc in self.root.find("unitClassDefinitions")
                    for u in uc.findall("unit") if not self.lib or self.is_lib(u)]
        else:
            pool = [x.findtext("name") for x in self.root.find(SEC_XML[sec][0]) if not self.lib or self.is_lib(x)]
        if not pool:
            return self.op()
        d = self.desc()
        return {"op": "desc", "section": sec, "name": r.choice(pool), "desc": d}

    def malformed_op(self):
        """edits with the format's own delimiters: must be rejected (compliance or load), never silently corrupted"""
        r = self.rng
        k = r.random()
        pool = [(l, n) for l, n in self.tags if not l.endswith("#") and (not self.lib or self.is_lib(n))]
        long, node = r.choice(pool)
        if k < 0.6:
            return {"op": "desc", "section": "tags", "name": long, "desc": r.choice(MALFORMED_DESC)}
        bad = r.choice(["Sensory=event", "Item{x", "a]b", "", " Event", "x\ny"])
        return {"op": "set_attr", "section": "tags", "name": long, "key": r.choice(["suggestedTag", "relatedTag"]),
                "values": [bad]}

    def probe_op(self, family):
        pool = [(l, n) for l, n in self.tags if not l.endswith("#") and (not self.lib or self.is_lib(n))]
        long = self.rng.choice(pool)[0]
        d = {"edge-blank": self.rng.choice([" leading blank", "trailing blank ", "  both  "]),
             "extend-here": "Users may extend here as needed",
             "nowiki-tag": self.rng.choice(["The <nowiki> markup", "ends a </nowiki> block"]),
             "leading-quote": self.rng.choice(['"Quoted" word first', '"Unbalanced start'])}[family]
        return {"op": "desc", "section": "tags", "name": long, "desc": d}


# ------------------------------------------------------------------ model conversions

def m_attrs(attrs, skip=()):
    return [[k, [] if v is True else v.split(",")] for k, v in attrs.items() if k not in skip]


def m_entry(e):
    return {"name": e.name, "attrs": m_attrs(e.attributes), "desc": e.description or None}


def canon_attrs(lst):
    return sorted((k, tuple(v)) for k, v in lst)


class Impl:
    """lazy imports of hed (after use_repo)"""

    def __init__(self):
        from hed.schema import from_string, load_schema, load_schema_version
        from hed.schema.schema_io.schema2wiki import Schema2Wiki
        from hed.schema.schema_io.wiki2schema import SchemaLoaderWiki
        from hed.schema.schema_io.text_util import parse_attribute_string
        from hed.errors.exceptions import HedFileError
        self.from_string, self.load_schema, self.load_schema_version = from_string, load_schema, load_schema_version
        self.Schema2Wiki, self.SchemaLoaderWiki, self.parse_attribute_string = Schema2Wiki, SchemaLoaderWiki, parse_attribute_string
        self.HedFileError = HedFileError
        self.tmp = tempfile.mkdtemp(prefix="hv_c05_")
        self.k = 0

    def scratch(self, suffix=""):
        self.k += 1
        return os.path.join(self.tmp, f"s{self.k}{suffix}")

    def close(self):
        shutil.rmtree(self.tmp, ignore_errors=True)


def modes_of(schema):
    return [True, False] if schema.with_standard else [True]


def save_load(impl, schema, fmt, merged, via_file=False):
    """returns (reloaded schema, saved xml text or None)"""
    if fmt == "xml":
        if via_file:
            p = impl.scratch(".xml")
            schema.save_as_xml(p, merged)
            text = open(p, encoding="utf-8").read()
            return impl.load_schema(p), text
        text = schema.get_as_xml_string(merged)
        return impl.from_string(text, ".xml"), text
    if fmt == "mediawiki":
        if via_file:
            p = impl.scratch(".mediawiki")
            schema.save_as_mediawiki(p, merged)
            return impl.load_schema(p), None
        return impl.from_string(schema.get_as_mediawiki_string(merged), ".mediawiki"), None
    d = impl.scratch()
    schema.save_as_dataframes(d, merged)
    try:
        return impl.load_schema(d), None
    finally:
        shutil.rmtree(d, ignore_errors=True)


def is_preorder(entries):
    """every tag is listed after its parent and inside its parent's block (what the MediaWiki writer relies on)"""
    prev = []
    for e in entries:
        cs = e.name.split("/")
        if len(cs) - 1 > len(prev) or cs[:-1] != prev[:len(cs) - 1]:
            return False
        prev = cs
    return True


def partner_classes_with_lib_units(schema):
    if not schema.with_standard:
        return []
    return [uc.name for uc in schema.unit_classes.values() if "inLibrary" not in uc.attributes
            and any("inLibrary" in u.attributes for u in uc.units.values())]


def _top(entry):
    return entry.name.split("/", 1)[0]


def tree_order_check(ctx, impl, case, before, after):
    """`treeOrder` of the model = what `_finalize_section` makes of each top-level group that is not re-sorted
    alphabetically (top tag without extensionAllowed).  `before` / `after`: tag entries in the order the loader saw
    them / in the order of the finalized section."""
    groups, actual, top_entry = {}, {}, {}
    for e in before:
        groups.setdefault(_top(e), []).append(e.name)
    for e in after:
        actual.setdefault(_top(e), []).append(e.name)
        if "/" not in e.name:
            top_entry[e.name] = e
    tops = [t for t in groups if t in top_entry and not top_entry[t].has_attribute("extensionAllowed")]
    if not tops:
        return
    ans = ctx.model.batch([{"op": "c05.treeorder", "names": groups[t]} for t in tops])
    for t, a in zip(tops, ans):
        ctx.count("tree-order-groups" + ("" if groups[t] == actual[t] else ":reordered"))
        if a["order"] != actual[t]:
            bad = next((i for i, (x, y) in enumerate(zip(a["order"], actual[t])) if x != y), None)
            ctx.disagree("treeOrder = tag order of a not re-sorted top-level group after loading", dict(case, group=t),
                         a["order"][bad] if bad is not None else len(a["order"]), actual[t][bad] if bad is not None else len(actual[t]))
        if not (a["closed"] and a["preorder"] and a["fixed"]):
            ctx.disagree("treeOrder result is a preorder listing and a fixed point (treeOrder_is_preorder)", dict(case, group=t),
                         {k: a[k] for k in ("closed", "preorder", "fixed")}, True)


def check_schema(ctx, impl, case, schema, source_vocab, formats, families=(), via_file=False, second_gen=False):
    """the property's oracle on one schema: save -> load -> ==, cross-format, independent XML walk; with
    `second_gen` also: the schema reloaded from its unmerged XML save is saved merged in every format and reloaded.
    Returns the number of violations it reported."""
    before = len(ctx.violations)
    ext_classes = partner_classes_with_lib_units(schema)

    def report(clause, fmt, merged, detail, pair=()):
        """a violation gets a registered signature only if it is the defect of the probe family: right format(s),
        and - when two schemas differ - the difference sits at the edited entry"""
        sig = None
        target = (case.get("ops") or [{}])[0].get("name", "\0").casefold()
        for fam in families:
            s, fmts = FAMILIES[fam]
            on_fmt = fmt in fmts or (clause == "formats-disagree" and any(x in fmts for x in pair))
            at_entry = clause == "save-load-raised" or target in str(detail).casefold()
            if on_fmt and at_entry:
                sig = s
        # structural findings (registered with a narrow signature): see the notes in `run`
        text = str(detail).casefold()
        if sig is None and not merged and ext_classes and clause in ("reload-differs", "formats-disagree") and \
                (fmt == "tsv" or "tsv" in pair) and "duplicate names" in text and any(c.casefold() in text for c in ext_classes):
            sig = "C05-tsv-unmerged-partner-unit-class"
        ctx.violation(clause, dict(case, fmt=fmt, merged=merged), detail, sig)
    for merged in modes_of(schema):
        loaded = {}
        for fmt in formats:
            try:
                got, text = save_load(impl, schema, fmt, merged, via_file)
            except Exception as e:   # any failure to save or reload a compliant schema
                report("save-load-raised", fmt, merged, f"{type(e).__name__}: {str(e)[:200]}")
                continue
            loaded[fmt] = got
            ctx.count(f"roundtrip:{fmt}:{'merged' if merged else 'unmerged'}")
            if not (got == schema):
                report("reload-differs", fmt, merged, first_diff(schema, got))
            if fmt == "xml":
                saved = xml_vocab(ET.fromstring(text))
                d, n = diff_vocab(saved, obj_vocab(schema, merged))
                if n:
                    report("saved-xml-differs-from-schema-object", "xml", merged, {"n": n, "first": d})
                if source_vocab is not None and merged:
                    d, n = diff_vocab(saved, source_vocab, strip_desc=bool(families))
                    if n:
                        report("saved-xml-differs-from-source-file", "xml", merged, {"n": n, "first": d})
        fm = list(loaded)
        for a, b in zip(fm, fm[1:]):
            if not (loaded[a] == loaded[b]):
                report("formats-disagree", "cross", merged, f"{a} vs {b}: " + str(first_diff(loaded[a], loaded[b])), (a, b))
        if second_gen and not merged and "xml" in loaded and loaded["xml"] == schema:
            # second generation: the library as a user gets it from its unmerged file (library entries behind the
            # partner's), saved merged in every format and reloaded
            s2 = loaded["xml"]
            ordered = is_preorder(s2.tags.all_entries)
            partner = impl.load_schema_version(schema.with_standard)
            tree_order_check(ctx, impl, case, list(partner.tags.all_entries) +
                             [e for e in schema.tags.all_entries if "inLibrary" in e.attributes], s2.tags.all_entries)
            ctx.count("second-generation:" + ("tree-order" if ordered else "NOT-tree-order"))
            for fmt in formats:
                c2 = dict(case, fmt=fmt, merged=True, stage="reloaded from the unmerged XML save, then saved merged")
                try:
                    got, _ = save_load(impl, s2, fmt, True)
                except Exception as e:
                    sig = "C05-wiki-merged-rooted-order" if fmt == "mediawiki" and not ordered else None
                    ctx.violation("second-generation-save-load-raised", c2, f"{type(e).__name__}: {str(e)[:200]}", sig)
                    continue
                ctx.count(f"roundtrip:{fmt}:second-generation")
                if not (got == s2):
                    sig = "C05-wiki-merged-rooted-order" if fmt == "mediawiki" and not ordered else None
                    ctx.violation("second-generation-reload-differs", c2, first_diff(s2, got), sig)
    return len(ctx.violations) - before


def first_diff(a, b):
    """where two schema objects differ (diagnostics only)"""
    try:
        for key in a._sections:
            da, db = a._sections[key].all_names, b._sections[key].all_names
            for k in list(da) + [k for k in db if k not in da]:
                if k not in da or k not in db:
                    return f"{key}: {k!r} only on one side"
                if da[k] != db[k]:
                    ea, eb = da[k], db[k]
                    if isinstance(ea, list) or isinstance(eb, list):
                        return f"{key}: {k!r} duplicates differ"
                    return f"{key}: {k!r} attrs {dict(ea.attributes)!r} / {dict(eb.attributes)!r} desc {ea.description!r} / {eb.description!r}"[:400]
        for key in a._sections:
            da, db = a._sections[key].duplicate_names, b._sections[key].duplicate_names
            if set(da) != set(db):
                return f"{key}: duplicate names on one side only: {sorted(set(da) ^ set(db))}"
        if a.get_save_header_attributes() != b.get_save_header_attributes():
            return f"header {a.get_save_header_attributes()} / {b.get_save_header_attributes()}"
        return "prologue/epilogue or section flags"
    except Exception as e:
        return f"(diff failed: {e})"


# ------------------------------------------------------------------ model correspondence on one schema

MARKS = ["!# start schema", "!# end schema", "'''Unit classes'''", "'''Unit modifiers'''", "'''Value classes'''",
         "'''Schema attributes'''", "'''Properties'''", "'''Epilogue'''"]


def wiki_sections(lines):
    idx = [lines.index(m) for m in MARKS]
    return [lines[idx[i] + 1: idx[i + 1]] for i in range(len(MARKS) - 1)]


def model_correspondence(ctx, impl, case, schema):
    tree_order_check(ctx, impl, case, schema.tags.all_entries, schema.tags.all_entries)
    tags = [m_entry(e) for e in schema.tags.all_entries]
    others = [[m_entry(e) for e in d.values()] for d in (schema.unit_modifiers, schema.value_classes, schema.attributes,
                                                          schema.properties)]
    ucs = [{"entry": m_entry(uc), "units": [m_entry(u) for u in uc.units.values()]} for uc in schema.unit_classes.values()]
    for merged in modes_of(schema):
        w = impl.Schema2Wiki()
        lines = w.process_schema(schema, merged)
        hdr = {"library": schema.library, "withStandard": schema.with_standard, "merged": merged}
        secs = wiki_sections(lines)
        real_tag_lines = secs[0][:-2] if secs[0][-2:] == ["", ""] else secs[0]
        reqs = [dict(op="c05.flags", **hdr), dict(op="c05.tags", entries=tags, **hdr),
                dict(op="c05.sections", sections=others, unitClasses=ucs, **hdr)]
        # attribute strings of every entry, as the real writer formats them
        ents = list(schema.tags.all_entries) + [e for d in (schema.unit_classes, schema.units, schema.unit_modifiers,
                                                              schema.value_classes, schema.attributes, schema.properties)
                                                  for e in d.values()]
        real_attr = [w._format_tag_attributes(e.attributes) for e in ents]
        skip = ("inLibrary",) if w._strip_out_in_library else ()
        reqs += [{"op": "c05.format", "attrs": m_attrs(e.attributes, skip)} for e in ents]
        reqs += [{"op": "c05.parse", "s": s} for s in real_attr]
        nonblank = [[l for l in s if l] for s in secs[2:7]]
        flat = [l for s in nonblank for l in s]
        reqs += [{"op": "c05.readline", "raw": l} for l in flat]
        ans = ctx.model.batch(reqs)
        mode = "merged" if merged else "unmerged"
        c = dict(case, merged=merged)
        ctx.case((json.dumps(case, sort_keys=True), "model", merged), nontrivial=True)
        # 1. flags
        real_flags = {"saveLib": w._save_lib, "saveBase": w._save_base, "saveMerged": w._save_merged,
                      "stripInLib": w._strip_out_in_library}
        if ans[0] != real_flags:
            ctx.disagree("processFlags = Schema2Base.process_schema flags", c, ans[0], real_flags)
        # 2. tag section lines, levels, re-reading
        mt = ans[1]
        if mt.get("lines") != real_tag_lines:
            bad = next((i for i, (x, y) in enumerate(zip(mt.get("lines", []), real_tag_lines)) if x != y), None)
            ctx.disagree("toWikiLeveled (outputTags) = Schema2Wiki tag section", c,
                         {"n": len(mt.get("lines", [])), "at": bad, "line": (mt.get("lines") or [None])[bad or 0]},
                         {"n": len(real_tag_lines), "line": real_tag_lines[bad or 0] if real_tag_lines else None})
        ctx.count(f"tag-lines:{mode}", len(real_tag_lines))
        if not mt.get("wf"):
            ctx.count("entries-outside-IOWF:" + case.get("schema", "?"))
            ctx.notes.append(f"{case}: some written tag entry is outside the well-formedness predicate of the theorems")
        if merged and not mt.get("preorder"):
            ctx.disagree("all_entries is a preorder listing (hypothesis of wiki_tags_roundtrip)", c, False, True)
        lib_only = bool(schema.with_standard) and not merged
        exp = [{"name": rel_name(e) if lib_only else e.name,
                "attrs": canon_attrs(m_attrs(e.attributes, skip)), "desc": e.description or None}
               for e in schema.tags.all_entries if not lib_only or "inLibrary" in e.attributes]
        back = mt.get("reread")
        got = back if isinstance(back, str) else [{"name": b["name"], "attrs": canon_attrs(b["attrs"]), "desc": b["desc"]} for b in back]
        if got != exp:
            bad = None if isinstance(got, str) else next((i for i, (x, y) in enumerate(zip(got, exp)) if x != y), None)
            ctx.disagree("ofWiki (toWiki tags) = the schema's tag entries", c,
                         got if isinstance(got, str) else (got[bad] if bad is not None else len(got)),
                         exp[bad] if bad is not None else len(exp))
        # 3. other sections: which entries are written, their lines
        ms = ans[2]
        if not ms.get("wf", True):
            ctx.count("section-entries-outside-secWF:" + case.get("schema", "?"))
        model_lines = [l for u in ms["unitClasses"] for l in u["lines"]] + [l for s in ms["sections"] for l in s["lines"]]
        if model_lines != flat:
            bad = next((i for i, (x, y) in enumerate(zip(model_lines, flat)) if x != y), None)
            ctx.disagree("entryLine (outputUnits/outputSection) = Schema2Wiki other sections", c,
                         {"n": len(model_lines), "line": model_lines[bad] if bad is not None else None},
                         {"n": len(flat), "line": flat[bad] if bad is not None else None})
        ctx.count(f"entry-lines:{mode}", len(flat))
        k = 3
        # 4. attribute strings: model writer = real writer; model reader and real reader give the attributes back
        for e, s, a in zip(ents, real_attr, ans[k:k + len(ents)]):
            if a["s"] != s:
                ctx.disagree("formatAttr = _format_tag_attributes", dict(c, entry=e.name), a["s"], s)
            if not a["wf"]:
                ctx.count("attrs-outside-attrsWF")
        k += len(ents)
        for e, s, a in zip(ents, real_attr, ans[k:k + len(ents)]):
            want = canon_attrs(m_attrs(e.attributes, skip))
            if "ok" not in a or canon_attrs(a["ok"]) != want:
                ctx.disagree("parseAttr (real attribute string) = entry attributes", dict(c, entry=e.name), a, want)
            real = impl.parse_attribute_string(s)
            if canon_attrs(m_attrs(real)) != want:
                ctx.violation("attribute-string-does-not-parse-back", dict(c, entry=e.name), {"s": s, "got": real})
        ctx.count(f"attr-strings:{mode}", len(ents))
        k += len(ents)
        # 5. model reader on the real lines of the other sections
        seq = []
        for u in ms["unitClasses"]:
            seq.append((u["entry"], u["props"]))
            seq += [(x, True) for x in u["units"]]
        for s in ms["sections"]:
            seq += [(x, True) for x in s["entries"]]
        for (ent, props), line, a in zip(seq, flat, ans[k:k + len(flat)]):
            want = {"name": ent["name"], "attrs": canon_attrs(ent["attrs"]) if props else [], "desc": ent["desc"] if props else None}
            got = None if "err" in a or "dropped" in a else {"name": a["name"], "attrs": canon_attrs(a["attrs"]), "desc": a["desc"]}
            if got != want:
                ctx.disagree("readEntry (real section line) = written entry", dict(c, line=line), a, want)


# ------------------------------------------------------------------ abstract documents: TSV rows and XML tree

def neutral_tsv_rows(impl, schema, merged):
    """the Tag sheet the real writer saves, read back with the csv module only"""
    import csv
    d = impl.scratch()
    schema.save_as_dataframes(d, merged)
    try:
        path = os.path.join(d, os.path.basename(d) + "_Tag.tsv")
        with open(path, encoding="utf-8", newline="") as f:
            rows = list(csv.reader(f, delimiter="\t", quoting=csv.QUOTE_NONE))
    finally:
        shutil.rmtree(d, ignore_errors=True)
    head = rows[0]
    col = {c: head.index(c) for c in ("hedId", "Level", "rdfs:label", "omn:SubClassOf", "Attributes", "dc:description")}
    return [[r[col["hedId"]], int(r[col["Level"]]), r[col["rdfs:label"]], r[col["omn:SubClassOf"]],
             r[col["Attributes"]], r[col["dc:description"]]] for r in rows[1:]]


def neutral_xml_forest(text):
    """the <schema> element of saved XML as nested [name, description, [[attribute, [values]]], children]"""
    def conv(n):
        return [n.findtext("name"), n.findtext("description"),
                [[a.findtext("name"), [v.text or "" for v in a.findall("value")]] for a in n.findall("attribute")],
                [conv(c) for c in n.findall("node")]]
    sch = ET.fromstring(text).find("schema")
    return [conv(n) for n in sch.findall("node")]


def model_documents(ctx, impl, case, schema, with_tsv=True):
    """the model's abstract TSV rows / XML tree / wiki sections against what the real writers emit"""
    tags = [m_entry(e) for e in schema.tags.all_entries]
    for merged in modes_of(schema):
        hdr = {"library": schema.library, "withStandard": schema.with_standard, "merged": merged}
        c = dict(case, merged=merged)
        mode = "merged" if merged else "unmerged"
        w = impl.Schema2Wiki()
        lines = w.process_schema(schema, merged)
        secs = wiki_sections(lines)
        sec_lines = [[l for l in s if l] for s in secs[2:7]]
        reqs = [dict(op="c05.xml", entries=tags, **hdr), {"op": "c05.readsection", "lines": sec_lines[0], "units": True}] + \
               [{"op": "c05.readsection", "lines": s} for s in sec_lines[1:]]
        if with_tsv:
            reqs.append(dict(op="c05.tsv", entries=tags, **hdr))
        ans = ctx.model.batch(reqs)
        ctx.case((json.dumps(case, sort_keys=True), "documents", merged), nontrivial=True)
        lib_only = bool(schema.with_standard) and not merged
        skip = ("inLibrary",) if w._strip_out_in_library else ()
        written = [e for e in schema.tags.all_entries if not lib_only or "inLibrary" in e.attributes]
        exp = [{"name": rel_name(e) if lib_only else e.name, "attrs": canon_attrs(m_attrs(e.attributes, skip)),
                "desc": e.description or None} for e in written]

        def canon_entries(lst):
            return [{"name": b["name"], "attrs": canon_attrs(b["attrs"]), "desc": b["desc"]} for b in lst]

        def first_bad(a, b):
            return next((i for i, (x, y) in enumerate(zip(a, b)) if x != y), None if len(a) == len(b) else min(len(a), len(b)))
        # XML tree
        mx = ans[0]
        real = neutral_xml_forest(schema.get_as_xml_string(merged))
        if mx.get("tree") != real:
            flat_m, flat_r = json.dumps(mx.get("tree"))[:0], None
            ctx.disagree("toXmlTree (outputTags) = <schema> element of the saved XML", c,
                         _first_tree_diff(mx.get("tree") or [], real), "see model field (left = model, right = real)")
        else:
            ctx.count(f"xml-tree-nodes:{mode}", len(written))
        if mx.get("tree") is not None and canon_entries(mx["reread"]) != exp:
            i = first_bad(canon_entries(mx["reread"]), exp)
            ctx.disagree("ofXmlTree (toXmlTree tags) = the schema's tag entries", c,
                         canon_entries(mx["reread"])[i] if i is not None and i < len(mx["reread"]) else len(mx["reread"]),
                         exp[i] if i is not None and i < len(exp) else len(exp))
        if not mx.get("wf", True):
            ctx.count("entries-outside-xmlWF")
        # wiki sections, read as whole sections by the model
        exp_ucs = [(uc, [u for u in uc.units.values() if not lib_only or "inLibrary" in u.attributes])
                   for uc in schema.unit_classes.values()]
        exp_ucs = [(uc, us) for uc, us in exp_ucs if not lib_only or "inLibrary" in uc.attributes or us]

        def ent(e, bare=False):
            return {"name": e.name, "attrs": [] if bare else canon_attrs(m_attrs(e.attributes, skip)),
                    "desc": None if bare else (e.description or None)}
        want_units = [{"entry": ent(uc, lib_only and "inLibrary" not in uc.attributes), "units": [ent(u) for u in us]}
                      for uc, us in exp_ucs]
        got_units = ans[1].get("classes")
        if got_units is not None:
            got_units = [{"entry": canon_entries([u["entry"]])[0], "units": canon_entries(u["units"])} for u in got_units]
        if got_units != want_units:
            ctx.disagree("ofWikiUnits (real unit-class section) = unit classes with their units", c, ans[1] if got_units is None else
                         next((g for g, x in zip(got_units, want_units) if g != x), len(got_units)), len(want_units))
        for k, d in enumerate((schema.unit_modifiers, schema.value_classes, schema.attributes, schema.properties)):
            want = [ent(e) for e in d.values() if not lib_only or "inLibrary" in e.attributes]
            got = ans[2 + k].get("entries")
            got = got if isinstance(got, str) else canon_entries(got)
            if got != want:
                ctx.disagree("ofWikiSection (real section lines) = section entries", dict(c, section=k), got if isinstance(got, str) else len(got), len(want))
        ctx.count(f"wiki-sections-read:{mode}", 5)
        # TSV rows
        if with_tsv:
            mt = ans[-1]
            real_rows = neutral_tsv_rows(impl, schema, merged)
            if mt.get("rows") != real_rows:
                i = first_bad(mt.get("rows") or [], real_rows)
                ctx.disagree("toTsvRows (outputTags) = Tag sheet of the saved TSV", c,
                             (mt.get("rows") or [None])[i] if i is not None and i < len(mt.get("rows") or []) else len(mt.get("rows") or []),
                             real_rows[i] if i is not None and i < len(real_rows) else len(real_rows))
            else:
                ctx.count(f"tsv-rows:{mode}", len(real_rows))
            rr = mt.get("reread")
            if isinstance(rr, str):
                # an unmerged file with rooted tags needs the partner schema to be read: outside the model
                if not (lib_only and rr == "needsPartner"):
                    ctx.disagree("ofTsvRows (toTsvRows tags) = the schema's tag entries", c, rr, len(exp))
                else:
                    ctx.count("tsv-reread-needs-partner")
            elif not lib_only and canon_entries(rr) != exp:
                i = first_bad(canon_entries(rr), exp)
                ctx.disagree("ofTsvRows (toTsvRows tags) = the schema's tag entries", c,
                             canon_entries(rr)[i] if i is not None and i < len(rr) else len(rr), exp[i] if i is not None and i < len(exp) else len(exp))
            if merged and not mt.get("resolvable", True):
                ctx.disagree("short parent names resolve (hypothesis TsvResolvable of tsv_tags_roundtrip)", c, False, True)
            if not mt.get("wf", True):
                ctx.count("entries-outside-tsvWF:" + case.get("schema", "?"))


def _first_tree_diff(a, b, path=""):
    """first place where two nested forests differ (diagnostics)"""
    for i, (x, y) in enumerate(zip(a, b)):
        if x[:3] != y[:3]:
            return {"at": f"{path}/{x[0]}", "model": x[:3], "real": y[:3]}
        d = _first_tree_diff(x[3], y[3], f"{path}/{x[0]}")
        if d:
            return d
    if len(a) != len(b):
        return {"at": path, "model_children": len(a), "real_children": len(b)}
    return None


def impl_read_tsv_rows(impl, rows):
    """the real `SchemaLoaderDF._read_schema` on a Tag sheet given as rows (a bare loader, no files)"""
    import pandas as pd
    from hed.schema.schema_io.df2schema import SchemaLoaderDF
    from hed.schema.hed_schema import HedSchema
    from hed.schema import hed_schema_df_constants as dc
    ld = SchemaLoaderDF.__new__(SchemaLoaderDF)
    ld._schema = HedSchema()
    ld._schema.header_attributes = {"version": "0.0.1"}
    ld.fatal_errors, ld.name, ld.library = [], "rows", ""
    ld._loading_merged, ld.appending_to_schema = True, False
    df = pd.DataFrame([{dc.hed_id: r[0], dc.level: str(r[1]), dc.name: r[2], dc.subclass_of: r[3], dc.attributes: r[4],
                        dc.description: r[5], dc.equivalent_to: ""} for r in rows], columns=dc.tag_columns, dtype=str)
    try:
        ld._read_schema({dc.TAG_KEY: df})
    except impl.HedFileError:
        return "error"
    except (TypeError, AttributeError, IndexError):
        return "crash"
    if ld.fatal_errors:
        return "error"
    return [{"name": e.name, "attrs": [list(x) for x in canon_attrs(m_attrs(e.attributes))], "desc": e.description}
            for e in ld._schema.tags.all_entries]


def impl_read_xml_forest(impl, forest):
    """the real `SchemaLoaderXML._populate_tag_dictionaries` on an element tree built from a nested forest"""
    from hed.schema.schema_io.xml2schema import SchemaLoaderXML
    from hed.schema.hed_schema import HedSchema
    sch = ET.Element("schema")

    def build(parent, n):
        e = ET.SubElement(parent, "node")
        ET.SubElement(e, "name").text = n[0]
        if n[1] is not None:
            ET.SubElement(e, "description").text = n[1]
        for k, vs in n[2]:
            a = ET.SubElement(e, "attribute")
            ET.SubElement(a, "name").text = k
            for v in vs:
                ET.SubElement(a, "value").text = v
        for c in n[3]:
            build(e, c)
    for n in forest:
        build(sch, n)
    ld = SchemaLoaderXML.__new__(SchemaLoaderXML)
    ld._schema = HedSchema()
    ld._schema.header_attributes = {"version": "0.0.1"}
    ld.fatal_errors, ld.name, ld.library = [], "tree", ""
    ld._loading_merged, ld.appending_to_schema = True, False
    try:
        ld._populate_tag_dictionaries(sch)
    except impl.HedFileError:
        return "error"
    return [{"name": e.name, "attrs": [list(x) for x in canon_attrs(m_attrs(e.attributes))], "desc": e.description}
            for e in ld._schema.tags.all_entries]


def gen_forest(rng, depth=0):
    names = ["A", "B", "Item-1", "#", "Long name", "é", "x.y"]
    out = []
    for _ in range(rng.randint(0 if depth else 1, 3 if depth < 3 else 0)):
        name = rng.choice(names if depth else [n for n in names if n != "#"])   # a root named '#' crashes the loader
        attrs = []
        for _ in range(rng.randint(0, 3)):
            k = rng.choice(["suggestedTag", "takesValue", "relatedTag", "hedId", "x"])
            vs = [rng.choice(["A", "B", "Item-1", "a b", "v1", "1.0"]) for _ in range(rng.choice([0, 0, 1, 1, 2, 3]))]
            attrs.append([k, vs])
        desc = rng.choice([None, None, "text", " padded ", "a, b=c", "  ", " ", "\t", ""])
        out.append([name, desc, attrs, gen_forest(rng, depth + 1)])
    return out


def document_fuzz(ctx, impl, sample_rows, n_rows, n_trees):
    """mutated Tag sheets and generated element trees: model readers = real readers"""
    rng = ctx.rng
    sheets = []
    for _ in range(n_rows):
        if not sample_rows:
            break
        start = rng.randrange(len(sample_rows))
        # a consistent slice: keep every row whose parents are in the slice, starting from top-level rows
        rows = [list(r) for r in sample_rows[start:start + rng.randint(3, 12)]]
        known = {"HedTag"}
        keep = []
        for r in rows:
            if r[3] in known:
                keep.append(r)
                known.add(r[2][:-2] if r[2].endswith("-#") else r[2])
        rows = keep or [[r[0], 0, r[2], "HedTag", r[4], r[5]] for r in rows[:2]]
        for _ in range(rng.randint(0, 2)):
            r = rng.choice(rows)
            k = rng.random()
            if k < 0.2:
                r[2] = r[2] + rng.choice(["-#", "#", " ", ""])
            elif k < 0.35:
                r[3] = rng.choice(["HedTag", "Nonexistent", r[2]])
            elif k < 0.55:
                r[4] = rng.choice(["", "takesValue", "a=b, a=c", "a, a=b", "x y", r[4] + ", extra=1", "hedId=HED_1"])
            elif k < 0.7:
                r[0] = rng.choice(["", "HED_0000001", "a,b", "True"])
            elif k < 0.85:
                r[5] = rng.choice(["", " padded ", "x", "  ", " ", "\t", " \t ", "\u00a0"])
            else:
                r[2] = rng.choice(["", "HedTag", r[2]])
        sheets.append(rows)
    trees = [gen_forest(rng) for _ in range(n_trees)]
    ans = ctx.model.batch([{"op": "c05.readtsv", "rows": s} for s in sheets] + [{"op": "c05.readxml", "tree": t} for t in trees])
    for s, a in zip(sheets, ans):
        a = a["entries"]
        if a in ("unresolvedParent", "needsPartner"):
            ctx.count("tsv-fuzz:outside-model:" + a)
            continue
        r = impl_read_tsv_rows(impl, s)
        m = ("crash" if a == "crash" else "error") if isinstance(a, str) else [{"name": b["name"], "attrs": [list(x) for x in canon_attrs(b["attrs"])], "desc": b["desc"]} for b in a]
        ctx.case(("tsv-rows", json.dumps(s)), nontrivial=isinstance(r, list) and bool(r))
        ctx.count("tsv-fuzz:" + (r if isinstance(r, str) else "ok"))
        if m == "error" and r == "crash":
            # the loader records an empty name and goes on; a later row may then raise.  The model stops at the
            # first problem: both are failed loads
            ctx.count("tsv-fuzz:error-then-later-crash")
        elif m != r:
            ctx.disagree("ofTsvRows = SchemaLoaderDF._read_schema", {"kind": "tsvrows", "rows": s}, m, r)
    for t, a in zip(trees, ans[len(sheets):]):
        r = impl_read_xml_forest(impl, t)
        m = [{"name": b["name"], "attrs": [list(x) for x in canon_attrs(b["attrs"])], "desc": b["desc"]} for b in a["entries"]]
        ctx.case(("xml-tree", json.dumps(t)), nontrivial=bool(r))
        ctx.count("xml-fuzz:" + (r if isinstance(r, str) else "ok"))
        if m != r:
            ctx.disagree("ofXmlTree = SchemaLoaderXML._populate_tag_dictionaries", {"kind": "xmltree", "tree": t}, m, r)


def impl_readline(impl, raw):
    """`_split_lines_into_sections` (per line) + `_create_entry`, assembled from the real component methods"""
    ld = impl.SchemaLoaderWiki.__new__(impl.SchemaLoaderWiki)
    ld.fatal_errors = []
    ld.name = "line"
    row = ld._remove_nowiki_tag_from_line(1, raw.strip())
    if ld.fatal_errors:
        return {"err": "nowiki"}
    if not row:
        return {"dropped": True}
    try:
        name, idx = ld._get_tag_name(row)
        if name is None:
            return {"err": "noName"}
        attrs, idx = ld._get_tag_attributes(1, row, idx)
        if ld.fatal_errors:
            return {"err": "attrBad"}
        if attrs is None:
            return {"err": "attrDelims"}
        desc, _ = ld._get_line_section(row, idx)
        if desc is None:
            return {"err": "descDelims"}
    except TypeError:
        return {"err": "crash"}
    try:
        level = ld._get_tag_level(row)
    except IndexError:
        level = None
    # the description is the one the real `_create_entry` stores (not a copy of its rule: fix 391436a changed it)
    from hed.schema.hed_schema import HedSchema
    from hed.schema.hed_schema_constants import HedSectionKey
    ld2 = impl.SchemaLoaderWiki.__new__(impl.SchemaLoaderWiki)
    ld2.fatal_errors, ld2.name, ld2._schema = [], "line", HedSchema()
    entry = ld2._create_entry(1, row, HedSectionKey.ValueClasses)
    if entry is None or ld2.fatal_errors:
        return {"err": "create_entry rejects a row its parts accept"}      # an observable difference, never expected
    return {"root": row.startswith("'''"), "level": level, "name": name, "attrs": [list(x) for x in canon_attrs(m_attrs(attrs))],
            "desc": entry.description}


def impl_parse(impl, s):
    try:
        r = impl.parse_attribute_string(s)
    except ValueError:
        return {"err": "malformed"}
    except TypeError:
        return {"err": "crash"}
    return {"ok": m_attrs(r)}


def gen_attr_string(rng):
    keys = ["a", "suggestedTag", "relatedTag", "B", "takesValue", "x1", "a-b", "", "é", "hedId"]
    vals = ["v", "Sensory-event", "1.0", "x=y", "", " ", "a b", "été", "#", "v\nw", "=", "\"q\""]
    items = []
    for _ in range(rng.randint(0, 5)):
        k = rng.choice(keys[:5] if rng.random() < 0.7 else keys)
        form = rng.random()
        it = k if form < 0.35 else f"{k}={rng.choice(vals[:3] if rng.random() < 0.7 else vals)}"
        if rng.random() < 0.15:
            it = rng.choice([" ", "  ", "\t"]) + it
        if rng.random() < 0.1:
            it += " "
        items.append(it)
    sep = rng.choice([", ", ", ", ",", " , ", ",,"])
    return sep.join(items)


def mutate_line(rng, line):
    ins = ["{", "}", "[", "]", "*", "'''", "<nowiki>", "</nowiki>", " ", "extend here", "&#8203;", ",", "=", "#"]
    s = line
    if rng.random() < 0.1 and "[" in s and "]" in s[s.index("["):]:
        # blank out the description
        a = s.index("[")
        b = s.index("]", a)
        return s[:a + 1] + rng.choice([" ", "  ", "\t", " \t ", ""]) + s[b:]
    for _ in range(rng.randint(1, 3)):
        p = rng.randint(0, len(s))
        if rng.random() < 0.6:
            s = s[:p] + rng.choice(ins) + s[p:]
        elif s:
            q = min(len(s), p + rng.randint(1, 3))
            s = s[:p] + s[q:]
    return s


def grammar_fuzz(ctx, impl, sample_lines, n_attr, n_line):
    rng = ctx.rng
    strs = ["", " ", "a", "a=b", "a=b, a=c", "a, a=b", "a=b, a", "a=b=c", "a =b", "a= b", "a=b ,c", "a, b=c",
            "a=b,\tc"] + [gen_attr_string(rng) for _ in range(n_attr)]
    raws = ["***", "*", "'''", "* a [", "* a {[", "* a {[x", "''' x", "x * a [d]", "* a'''b [d]", "* a ''' [d]",
            "* n <nowiki>{a} [d]", "</nowiki>* n", "* n </nowiki> <nowiki>", "* n {a, a=b}", "* n {a=b} [ d ]",
            "** extend here", "* n [extend here]", "*** &#8203;n {a}[d]",
            # blank descriptions: no description since fix 391436a (the model and the real reader must say None)
            "* n [ ]", "* n [  ]", "* n [\t]", "* n {a} [ ]", "'''n''' [ ]", "* n <nowiki>[ ]</nowiki>",
            "** n <nowiki>{a=b} [ \t ]</nowiki>", "* n []", "* n [\u00a0]", "* n [ x ]"]
    raws += [mutate_line(rng, rng.choice(sample_lines)) for _ in range(n_line)] if sample_lines else []
    raws += rng.sample(sample_lines, min(len(sample_lines), n_line // 4))
    ans = ctx.model.batch([{"op": "c05.parse", "s": s} for s in strs] + [{"op": "c05.readline", "raw": r} for r in raws] +
                          [{"op": "c05.escape", "s": s} for s in strs + raws])
    for s, a in zip(strs, ans):
        r = impl_parse(impl, s)
        ctx.case(("attr", s), nontrivial="ok" in r and bool(r["ok"]), sample={"attr_string": s} if ctx.rng.random() < 0.01 else None)
        ctx.count("attr-fuzz:" + ("ok" if "ok" in r else r["err"]))
        if a != r:
            ctx.disagree("parseAttr = parse_attribute_string", {"kind": "attr", "s": s}, a, r)
    for raw, a in zip(raws, ans[len(strs):]):
        r = impl_readline(impl, raw)
        if "attrs" in a:
            a = dict(a, attrs=[list(x) for x in canon_attrs(a["attrs"])])
        ctx.case(("line", raw), nontrivial="name" in r)
        ctx.count("line-fuzz:" + ("ok" if "name" in r else r.get("err", "dropped")))
        if a != r:
            ctx.disagree("cleanLine/readEntry = wiki line reader", {"kind": "line", "raw": raw}, a, r)
    for s, a in zip(strs + raws, ans[len(strs) + len(raws):]):
        esc = s.replace("\n", "\\n")
        if a["esc"] != esc or a["back"] != esc.replace("\\n", "\n"):
            ctx.disagree("escapeNl/unescapeNl = str.replace", {"kind": "escape", "s": s}, a, esc)


# ------------------------------------------------------------------ save histories on one output location

# the ten sheets of a TSV save (`create_empty_dataframes`); written here independently of hed's constants
TSV_SHEETS = ["Structure", "Tag", "Unit", "UnitClass", "UnitModifier", "ValueClass", "AnnotationProperty",
              "DataProperty", "ObjectProperty", "AttributeProperty"]
MINI_STD = """HED version="1.0.0"

'''Prologue'''

!# start schema

'''Alpha''' <nowiki>[A top tag.]</nowiki>
* Beta <nowiki>[A child.]</nowiki>

!# end schema

'''Unit classes'''

'''Unit modifiers'''

'''Value classes'''

'''Schema attributes'''

'''Properties'''

'''Epilogue'''

!# end hed
"""


def history_schema(impl, label):
    """schemas a history can save: a bundled one, a small partnered library (most sections empty when saved unmerged),
    a stand-alone schema whose sections other than the tags are all empty"""
    if label == "small-lib":
        return impl.from_string(BLANK_LIB.replace("@D@", "A description."), ".mediawiki")
    if label == "mini-standard":
        return impl.from_string(MINI_STD, ".mediawiki")
    return impl.load_schema_version(label)


def _tree_bytes(root):
    out = {}
    for d, _, fs in os.walk(root):
        for f in fs:
            q = os.path.join(d, f)
            out[os.path.relpath(q, root)] = open(q, "rb").read()
    return out


def _digests(tree):
    import hashlib
    return {k.replace(os.sep, "/"): hashlib.sha1(v).hexdigest()[:16] for k, v in tree.items()}


def _frames_digest(schema, merged):
    """the ten frames `Schema2DF.process_schema` hands to `save_dataframes`, each as the digest of its TSV text"""
    import csv
    import hashlib
    from hed.schema.schema_io.schema2df import Schema2DF
    out = []
    for suffix, df in Schema2DF().process_schema(schema, merged).items():
        text = df.to_csv(sep="\t", index=False, header=True, quoting=csv.QUOTE_NONE, lineterminator="\n")
        out.append([suffix, hashlib.sha1(text.encode("utf-8")).hexdigest()[:16]])
    return out


def _save_at(schema, fmt, path, merged):
    if fmt == "tsv":
        schema.save_as_dataframes(path, merged)
    elif fmt == "xml":
        schema.save_as_xml(path, merged)
    else:
        schema.save_as_mediawiki(path, merged)


def run_history(ctx, impl, fmt, form, steps, cache=None):
    """`steps` = [(schema label, save_merged)] saved one after the other to ONE location, a load after every save.
    Oracles: (1) the files at the location after a save are, byte for byte, those of the same save into a fresh
    location (a function of the saved schema only, whatever an earlier save left there); for TSV they are exactly the
    ten sheets; (2) the load equals the schema just saved."""
    cache = {} if cache is None else cache
    case = {"kind": "save-history", "fmt": fmt, "form": form, "steps": [[l, bool(m)] for l, m in steps]}
    ctx.case(("save-history", fmt, form, json.dumps(case["steps"])), nontrivial=True)
    ctx.count(f"save-history:{fmt}:{form}:{len(steps)}")
    leaf = {"tsv": "hist.tsv" if form == "base" else "hist", "xml": "hist.xml", "mediawiki": "hist.mediawiki"}[fmt]
    root = impl.scratch()
    os.makedirs(root)
    loc = os.path.join(root, leaf)
    model_reqs = []
    try:
        for i, (label, merged) in enumerate(steps):
            if label not in cache:
                cache[label] = history_schema(impl, label)
            schema = cache[label]
            at = dict(case, step=i)
            fresh_root = impl.scratch()
            os.makedirs(fresh_root)
            before = _digests(_tree_bytes(root))
            try:
                _save_at(schema, fmt, loc, merged)
                _save_at(schema, fmt, os.path.join(fresh_root, leaf), merged)
                here, fresh = _tree_bytes(root), _tree_bytes(fresh_root)
            finally:
                shutil.rmtree(fresh_root, ignore_errors=True)
            if fmt == "tsv":
                # model: `saveFrames` on the files found at the location and the frames the writer produced
                model_reqs.append((at, {"op": "c05.savefiles", "base": "hist" if form == "base" else "hist/hist",
                                        "old": sorted([k, v] for k, v in before.items()),
                                        "sheets": _frames_digest(schema, merged)}, _digests(here)))
            if fmt == "tsv":
                stem = "hist_" if form == "base" else os.path.join("hist", "hist_")
                want = sorted(f"{stem}{k}.tsv" for k in TSV_SHEETS)
                if sorted(fresh) != want:
                    ctx.violation("tsv-save-writes-ten-sheets", at,
                                  {"written_into_fresh_location": sorted(fresh), "missing": sorted(set(want) - set(fresh)),
                                   "unexpected": sorted(set(fresh) - set(want))})
            if here != fresh:
                bad = sorted(k for k in set(here) | set(fresh) if here.get(k) != fresh.get(k))
                ctx.violation("saved-files-depend-on-earlier-save", at,
                              {"files_differing_from_a_fresh_save": bad[:10],
                               "only_at_reused_location": sorted(set(here) - set(fresh))[:10],
                               "only_in_fresh_save": sorted(set(fresh) - set(here))[:10]})
            try:
                got = impl.load_schema(loc)
            except impl.HedFileError as e:
                ctx.violation("history-reload-fails", at, f"{type(e).__name__}: {e}"[:300])
                continue
            if not (got == schema):
                ctx.violation("history-reload-differs", at, first_diff(schema, got))
    finally:
        shutil.rmtree(root, ignore_errors=True)
    if model_reqs:
        for (at, req, real), a in zip(model_reqs, ctx.model.batch([r for _, r, _ in model_reqs])):
            predicted = {k: v for k, v in a["files"]}
            if predicted != real or not a["keysAreTheTenSheets"] or any(v is None for _, v in a["load"]):
                bad = sorted(k for k in set(predicted) | set(real) if predicted.get(k) != real.get(k))
                ctx.disagree("saveFrames = save_dataframes (files at the location after a TSV save)", at,
                             {"differing": {k: predicted.get(k) for k in bad[:10]}, "tenSheets": a["keysAreTheTenSheets"]},
                             {"differing": {k: real.get(k) for k in bad[:10]}})


def run_save_histories(ctx, impl, names, quick):
    """2-3 saves of different schemas / modes into the same TSV folder or base name (XML and MediaWiki: the same
    file), each followed by a load: a schema survives saving and reloading whatever was saved there before"""
    rng = ctx.rng
    cache = {}
    partnered = [n for n in names if n not in LEGACY and impl.load_schema_version(n).with_standard]
    standard = [n for n in names if n not in LEGACY and n not in partnered]
    pool = [(n, True) for n in standard] + [(n, m) for n in partnered for m in (True, False)] + \
           [("small-lib", True), ("small-lib", False), ("mini-standard", True)]
    fixed = []
    if standard and partnered:
        fixed.append([(standard[0], True), (partnered[-1], False)])          # every sheet populated, then most empty
        fixed.append([(partnered[0], True), (partnered[0], False), (standard[0], True)])
    if standard:
        fixed.append([(standard[0], True), ("mini-standard", True), ("small-lib", False)])
    fixed.append([("small-lib", True), ("small-lib", False)])
    for k, steps in enumerate(fixed):
        for fmt, form in (("tsv", "dir"), ("tsv", "base"), ("xml", "file"), ("mediawiki", "file")):
            if fmt == "tsv" or k == 0 or not quick:          # quick tier: the single-file controls once
                run_history(ctx, impl, fmt, form, steps, cache)
        ctx.check_time()
    for _ in range(4 if quick else 60):
        steps = []
        while len(steps) < rng.randint(2, 3):
            c = rng.choice(pool)
            if not steps or steps[-1] != c:
                steps.append(c)
        fmt, form = rng.choice([("tsv", "dir"), ("tsv", "dir"), ("tsv", "base"), ("tsv", "base"), ("xml", "file"),
                                ("mediawiki", "file")])
        run_history(ctx, impl, fmt, form, steps, cache)
        ctx.check_time()


# ------------------------------------------------------------------ driver of the check

def compliance_codes(schema):
    """the compliance issues as a set of (code, message); a schema edit is non-compliant if it adds any"""
    try:
        return sorted({(i["code"], i["message"]) for i in schema.check_compliance()})
    except Exception as e:
        return [(f"raised:{type(e).__name__}", "")]


def run_bundled(ctx, impl, name, files, via_file):
    schema = impl.load_schema_version(name)
    source = xml_vocab(ET.parse(files[name]).getroot())
    formats = FORMATS[:2] if name in LEGACY else FORMATS
    case = {"kind": "bundled", "schema": name, "via_file": via_file}
    ctx.case(("bundled", name, via_file), nontrivial=True, sample=case)
    ctx.count("bundled-compliance-issues:" + name, len(compliance_codes(schema)))
    check_schema(ctx, impl, case, schema, source, formats, via_file=via_file, second_gen=not via_file)
    if not via_file:
        model_correspondence(ctx, impl, case, schema)
        model_documents(ctx, impl, case, schema, with_tsv=name not in LEGACY)
    return schema


def run_edit(ctx, impl, name, files, ops, families=(), malformed=False, with_model=False):
    root = ET.parse(files[name]).getroot()
    case = {"kind": "edit", "schema": name, "ops": ops, "families": list(families), "malformed": malformed}
    if not apply_ops(root, ops):
        ctx.count("edit:target-vanished")
        return
    text = ET.tostring(root, encoding="unicode")
    try:
        schema = impl.from_string(text, ".xml")
    except Exception as e:
        ctx.count("edit:" + ("malformed-" if malformed else "") + "rejected-by-loader")
        if not malformed:
            ctx.notes.append(f"generated edit rejected by the loader ({type(e).__name__}): {json.dumps(ops)[:200]}")
        return
    codes = compliance_codes(schema)
    base_codes = BASE_CODES.setdefault(name, compliance_codes(impl.load_schema_version(name)))
    base_set = set(base_codes)
    new_codes = sorted({c for c, m in codes if (c, m) not in base_set})
    formats = FORMATS[:2] if name in LEGACY else FORMATS
    if malformed:
        if new_codes:
            ctx.count("edit:malformed-rejected-by-compliance")
            ctx.case(("edit", json.dumps(case, sort_keys=True)), nontrivial=True)
            return
        # not rejected: then it must round-trip
        ctx.count("edit:malformed-accepted")
        ctx.case(("edit", json.dumps(case, sort_keys=True)), nontrivial=True)
        n = check_schema(ctx, impl, case, schema, xml_vocab(root), formats)
        if n:
            ctx.count("edit:malformed-accepted-and-corrupted")
        return
    if new_codes:
        ctx.count("edit:skipped-noncompliant:" + ",".join(new_codes))
        if os.environ.get("C05_DEBUG"):
            print("SKIP", [(c, m[:150]) for c, m in codes if (c, m) not in base_set][:3], json.dumps(ops)[:600])
        return
    ctx.case(("edit", json.dumps(case, sort_keys=True)), nontrivial=True, sample=case if ctx.rng.random() < 0.05 else None)
    for op in ops:
        ctx.count("edit-op:" + op["op"])
    for f in families:
        ctx.count("edit-family:" + f)
    second = any(op["op"] == "add_node" and any(a[0] == "rooted" for a in op["attrs"]) for op in ops)
    check_schema(ctx, impl, case, schema, xml_vocab(root), formats, families, second_gen=second)
    if with_model and not families:
        model_correspondence(ctx, impl, case, schema)
        model_documents(ctx, impl, case, schema, with_tsv=name not in LEGACY)


BASE_CODES = {}
WORDS_OK = {}


def allowed_words(impl, name, files):
    """which description words the compliance check of this schema version accepts (one probe schema per version:
    word i becomes the description of tag i; words whose tag draws a new issue are dropped)"""
    if name in WORDS_OK:
        return WORDS_OK[name]
    root = ET.parse(files[name]).getroot()
    g = EditGen(None, root, name)
    pool = [(l, n) for l, n in g.tags if not l.endswith("#") and (not g.lib or g.is_lib(n))]
    ops = [{"op": "desc", "section": "tags", "name": l, "desc": w} for (l, _), w in zip(pool, WORDS)]
    apply_ops(root, ops)
    base = BASE_CODES.setdefault(name, compliance_codes(impl.load_schema_version(name)))
    try:
        issues = impl.from_string(ET.tostring(root, encoding="unicode"), ".xml").check_compliance()
    except Exception:
        issues = None
    bad = set()
    if issues is None:
        ok = [w for w in WORDS if w.isascii() and w.isalnum()]
    else:
        base = set(base)
        for i in issues:
            if (i["code"], i["message"]) not in base:
                bad.add(i.get("ec_schema_tag"))
        ok = [op["desc"] for op in ops if op["name"] not in bad]
    WORDS_OK[name] = ok or ["sensor", "value"]
    return WORDS_OK[name]


def run_merged_refusal(ctx, impl):
    """a schema merged from several libraries refuses to save in every format"""
    try:
        s = impl.load_schema_version(["testlib_2.0.0", "score_1.1.0"])
    except Exception as e:
        ctx.notes.append(f"multi-library load not available offline: {e}")
        return
    case = {"kind": "multi-library", "schema": "testlib_2.0.0+score_1.1.0"}
    ctx.case(("multi-library",), nontrivial=True, sample=case)
    m = ctx.model.batch([{"op": "c05.flags", "library": s.library, "withStandard": s.with_standard, "merged": mg}
                         for mg in (True, False)])
    if m != [{"refuse": True}, {"refuse": True}]:
        ctx.disagree("processFlags refuses a multi-library header", case, m, "refuse")
    d = impl.scratch()
    acts = {"xml": lambda mg: s.get_as_xml_string(mg), "mediawiki": lambda mg: s.get_as_mediawiki_string(mg),
            "tsv": lambda mg: s.save_as_dataframes(d, mg), "xml-file": lambda mg: s.save_as_xml(d + ".xml", mg),
            "mediawiki-file": lambda mg: s.save_as_mediawiki(d + ".mediawiki", mg), "dataframes": lambda mg: s.get_as_dataframes(mg)}
    for fmt, f in acts.items():
        for mg in (True, False):
            try:
                f(mg)
                ctx.violation("multi-library-schema-saved", dict(case, fmt=fmt, merged=mg), "save did not refuse")
            except impl.HedFileError:
                ctx.count("refused:" + fmt)
            except Exception as e:
                ctx.violation("multi-library-save-raised-other", dict(case, fmt=fmt, merged=mg), f"{type(e).__name__}: {e}")
    shutil.rmtree(d, ignore_errors=True)


def run_partnered_units(ctx, impl, files, names, quick):
    """partnered libraries that extend a unit class of their partner (every class in turn, first and last included)
    and define unit classes / units / modifiers / value classes of their own: the unmerged save must write the
    partner's class as a bare placeholder and the library's classes in full"""
    partnered = [n for n in names if n not in LEGACY and ET.parse(files[n]).getroot().attrib.get("withStandard")]
    for k, n in enumerate(partnered):
        root = ET.parse(files[n]).getroot()
        std = EditGen(ctx.rng, root, n).std_unit_classes()
        if not std:
            continue
        if quick:
            picks = [std[0], std[-1]] if k == 0 else [std[-1]] if k == 1 else []
        elif k < 2:
            picks = std                      # every class of the partner in turn (one library per partner version)
        else:
            picks = [std[0], std[-1]] + ctx.rng.sample(std[1:-1], min(2, len(std) - 2))
        for c in picks:
            g = EditGen(ctx.rng, ET.parse(files[n]).getroot(), n, allowed_words(impl, n, files))
            before = len(ctx.violations) + len(ctx.disagreements)
            run_edit(ctx, impl, n, files, g.partnered_units_ops(c), with_model=True)
            pos = "last" if c == std[-1] else ("first" if c == std[0] else "middle")
            ctx.count(f"partnered-units:{pos}-partner-class")
            if len(ctx.violations) + len(ctx.disagreements) > before:
                ctx.count("partnered-units:failed")
            ctx.check_time()


def run_rooted(ctx, impl, files, names, quick):
    """partnered libraries with a tag rooted at a non-root node of each top-level subtree of the partner (the subtrees
    differ in whether the tag section keeps them sorted); includes the second-generation round trip"""
    partnered = [n for n in names if n not in LEGACY and ET.parse(files[n]).getroot().attrib.get("withStandard")]
    for k, n in enumerate(partnered):
        root = ET.parse(files[n]).getroot()
        g0 = EditGen(ctx.rng, root, n)
        tops = [l for l, node in g0.tags if "/" not in l and not g0.is_lib(node)]
        if quick:
            tops = ([t for t in tops if t == "Event"] + [ctx.rng.choice(tops)]) if k == 0 else []
        for t in tops:
            g = EditGen(ctx.rng, ET.parse(files[n]).getroot(), n, allowed_words(impl, n, files))
            ops = g.rooted_ops(t)
            if ops:
                run_edit(ctx, impl, n, files, ops)
                ctx.count("rooted-probe:" + t)
            ctx.check_time()


BLANK_LIB = """HED version="1.0.0" library="testlib" withStandard="8.3.0" unmerged="True"

'''Prologue'''
x

!# start schema

'''Own-top''' <nowiki>[@D@]</nowiki>
* Own-child <nowiki>[A child.]</nowiki>
* Other-child <nowiki>{extensionAllowed} [@D@]</nowiki>


!# end schema

'''Unit classes'''

'''Unit modifiers'''

'''Value classes'''
* verifBlankClass <nowiki>[@D@]</nowiki>

'''Schema attributes'''

'''Properties'''

'''Epilogue'''

!# end hed
"""
# the TSV files are read with QUOTE_NONE: a cell cannot hold a tab (the row reader gets one in `document_fuzz`)
BLANKS = {"mediawiki": [" ", "  ", "\t"], "tsv": [" ", "  ", "   "]}
BLANK_MARK = "Verif placeholder description."
BLANK_ENTRIES = [("tags", "Own-top"), ("tags", "Other-child"), ("value_classes", "verifBlankClass")]


def blank_source(impl, src, blank):
    """a library whose source text holds a blank description on two tags and a value class"""
    if src == "mediawiki":
        return impl.from_string(BLANK_LIB.replace("@D@", blank), ".mediawiki")
    base = impl.from_string(BLANK_LIB.replace("@D@", BLANK_MARK), ".mediawiki")
    d = impl.scratch()
    try:
        base.save_as_dataframes(d, False)
        hit = 0
        for root, _, fs in os.walk(d):
            for f in fs:
                q = os.path.join(root, f)
                text = open(q, encoding="utf-8", newline="").read()
                if BLANK_MARK in text:
                    hit += text.count(BLANK_MARK)
                    open(q, "w", encoding="utf-8", newline="").write(text.replace(BLANK_MARK, blank))
        if hit != len(BLANK_ENTRIES):
            raise common.HarnessError(f"blank-description probe: {hit} placeholder cells instead of {len(BLANK_ENTRIES)}")
        return impl.load_schema(d)
    finally:
        shutil.rmtree(d, ignore_errors=True)


def run_blank_description_probe(ctx, impl):
    """defect C05-blank-description-empty-string (fixed by 391436a; the signature is kept so that a return of the
    defect is named): a MediaWiki or TSV source whose description is blank (`[ ]`, two blanks, a tab) is read as *no
    description* (direct oracle on the loaded entries) and the loaded schema round-trips in every format and mode"""
    sig = "C05-blank-description-empty-string"
    for src in ("mediawiki", "tsv"):
        for blank in BLANKS[src]:
            case = {"kind": "blank-description", "source": src, "blank": blank,
                    "schema": "library source with a blank description on two tags and a value class"}
            ctx.case(("blank-description", src, blank), nontrivial=True)
            ctx.count("blank-description:" + src)
            try:
                s = blank_source(impl, src, blank)
            except impl.HedFileError as e:
                ctx.violation("blank-description-source-rejected", case, f"{type(e).__name__}: {e}"[:300], sig)
                continue
            got_desc = {f"{sec}:{name}": getattr(s, sec)[name].description for sec, name in BLANK_ENTRIES}
            if any(v is not None for v in got_desc.values()) or s.tags["Own-child"].description != "A child.":
                ctx.violation("blank-description-not-none", case,
                              {"descriptions": got_desc, "expected": None, "Own-child": s.tags["Own-child"].description}, sig)
            for fmt in FORMATS:
                for merged in modes_of(s):
                    try:
                        got, _ = save_load(impl, s, fmt, merged)
                    except impl.HedFileError as e:
                        ctx.violation("reload-fails", dict(case, fmt=fmt, merged=merged), f"{type(e).__name__}: {e}"[:300], sig)
                        continue
                    if not (got == s):
                        ctx.violation("reload-differs", dict(case, fmt=fmt, merged=merged), first_diff(s, got), sig)


def run(ctx):
    ctx.extra["rule"] = ("bundled schemas x {xml, mediawiki, tsv} x {merged, unmerged where partnered} (string and file "
                         "round trips), generated XML edits (add/remove/re-attribute nodes, value-taking children, rooted "
                         "library nodes, units, classes, modifiers, descriptions over the allowed text class), partnered libraries that "
                         "put a library unit into each unit class of their partner and define unit classes, units, modifiers "
                         "and value classes of their own, a malformed "
                         "stream (format delimiters) that must be rejected, four probe families for the registered "
                         "findings, MediaWiki and TSV sources with a blank description (read as None, round trip in "
                         "every format and mode: defect fixed by 391436a), save histories (2-3 saves of different schemas / "
                         "modes into ONE TSV folder or base name, XML / MediaWiki file as controls, a load after each "
                         "save: files byte-equal to a fresh save, exactly ten sheets, load = schema just saved); model: every attribute string and wiki line of every written entry, generated and "
                         "mutated attribute strings / lines; non-trivial = a schema actually saved and reloaded, or an "
                         "input the reader accepts")
    ctx.notes.append("XML text <-> tree (ElementTree) and pandas cell quoting run for real on the implementation side; the Lean "
                     "model starts at the element forest / the row cells (compared via ElementTree / csv readings of the saved files)")
    ctx.notes.append("not modelled: the TSV sheets other than Tag, the XML sections other than <schema>, the reader's retry "
                     "rounds for rows whose parent comes later, rooted-tag resolution against the partner schema while reading")
    ctx.notes.append("observation (malformed input, outside the property): a malformed Attributes cell makes the TSV reader "
                     "raise AttributeError/TypeError instead of HedFileError (_get_tag_attributes returns None after recording "
                     "the error); a tag named '#' alone raises IndexError in every reader")
    ctx.notes.append("structural findings are recognised by what differs, not by the generator: C05-tsv-unmerged-partner-unit-class "
                     "= unmerged TSV reload (or its comparison with XML/MediaWiki) differs only by a duplicate unit class that "
                     "belongs to the partner and holds a library unit; C05-wiki-merged-rooted-order = a schema reloaded from its "
                     "unmerged XML save whose all_entries is not in tree order fails the merged MediaWiki round trip")
    ctx.notes.append("a '#' child that is followed by sibling nodes breaks the TSV round trip (the '#' row overwrites its "
                     "parent in known_parent_tags) but the compliance check reports such schemas (placeholder must be an only "
                     "child): outside the property, not reported")
    ctx.notes.append("prologue/epilogue are outside the property's edit class; observed there (not reported): a literal "
                     "backslash-n, a leading double quote (TSV) and a line starting with a section marker (MediaWiki) "
                     "do not round-trip (escape_counterexample states the first on the model)")
    impl = Impl()
    files = schema_xml.bundled()
    try:
        quick = ctx.quick()
        names = QUICK if quick else ALL
        sample_lines = []
        for n in names:
            s = run_bundled(ctx, impl, n, files, via_file=False)
            if not quick:
                run_bundled(ctx, impl, n, files, via_file=True)
            if len(sample_lines) < 4000:
                sample_lines += [l for l in impl.Schema2Wiki().process_schema(s, True) if l.startswith("*") or l.startswith("'''")]
            ctx.check_time()
        run_merged_refusal(ctx, impl)
        grammar_fuzz(ctx, impl, sample_lines, 400 if quick else 6000, 400 if quick else 6000)
        document_fuzz(ctx, impl, neutral_tsv_rows(impl, impl.load_schema_version(QUICK[0]), True), 60 if quick else 1500,
                      60 if quick else 1500)
        ctx.check_time()
        # probe families: one deterministic witness per registered finding (more in the thorough tier)
        for n in (QUICK[:1] if quick else QUICK):
            g = EditGen(ctx.rng, ET.parse(files[n]).getroot(), n)
            for fam in FAMILIES:
                run_edit(ctx, impl, n, files, [g.probe_op(fam)], families=(fam,))
        run_blank_description_probe(ctx, impl)
        run_partnered_units(ctx, impl, files, names, quick)
        run_rooted(ctx, impl, files, names, quick)
        run_save_histories(ctx, impl, names, quick)
        # generated edits
        n_schemas = 8 if quick else 160
        per = 5
        pool = [n for n in names]
        for i in range(n_schemas):
            n = pool[i % len(pool)]
            g = EditGen(ctx.rng, ET.parse(files[n]).getroot(), n, allowed_words(impl, n, files))
            ops = [g.op() for _ in range(per)]
            run_edit(ctx, impl, n, files, ops, with_model=(i % (3 if quick else 10) == 0))
            ctx.check_time()
        for i in range(6 if quick else 120):
            n = pool[i % len(pool)]
            if n in LEGACY:
                continue
            g = EditGen(ctx.rng, ET.parse(files[n]).getroot(), n)
            run_edit(ctx, impl, n, files, [g.malformed_op()], malformed=True)
            ctx.check_time()
    finally:
        impl.close()


def replay(ctx, rec):
    case = rec.get("case") or (rec.get("disagreements") or [{}])[0].get("case")
    if not case:
        print("nothing to replay (obligation-only record):", rec.get("broken_obligations"))
        return
    impl = Impl()
    files = schema_xml.bundled()
    try:
        kind = case.get("kind")
        if kind == "bundled":
            run_bundled(ctx, impl, case["schema"], files, case.get("via_file", False))
        elif kind == "edit":
            run_edit(ctx, impl, case["schema"], files, case["ops"], tuple(case.get("families", ())), case.get("malformed", False),
                     with_model=True)
        elif kind == "multi-library":
            run_merged_refusal(ctx, impl)
        elif kind == "save-history":
            run_history(ctx, impl, case["fmt"], case["form"], [tuple(x) for x in case["steps"]])
        elif kind == "blank-description":
            s = blank_source(impl, case["source"], case["blank"])
            print("source:", case["source"], "blank:", repr(case["blank"]), "loaded descriptions:",
                  {name: getattr(s, sec)[name].description for sec, name in BLANK_ENTRIES}, "(expected: None)")
            run_blank_description_probe(ctx, impl)
        elif kind == "attr":
            a = ctx.model.batch([{"op": "c05.parse", "s": case["s"]}])[0]
            r = impl_parse(impl, case["s"])
            print("model:", json.dumps(a), "\nimpl: ", json.dumps(r))
            if a != r:
                ctx.disagree("parseAttr = parse_attribute_string", case, a, r)
        elif kind == "line":
            a = ctx.model.batch([{"op": "c05.readline", "raw": case["raw"]}])[0]
            if "attrs" in a:
                a = dict(a, attrs=[list(x) for x in canon_attrs(a["attrs"])])
            r = impl_readline(impl, case["raw"])
            print("model:", json.dumps(a), "\nimpl: ", json.dumps(r))
            if a != r:
                ctx.disagree("cleanLine/readEntry = wiki line reader", case, a, r)
        elif kind == "tsvrows":
            a = ctx.model.batch([{"op": "c05.readtsv", "rows": case["rows"]}])[0]["entries"]
            r = impl_read_tsv_rows(impl, case["rows"])
            m = ("crash" if a == "crash" else "error") if isinstance(a, str) else \
                [{"name": b["name"], "attrs": [list(x) for x in canon_attrs(b["attrs"])], "desc": b["desc"]} for b in a]
            print("model:", json.dumps(m), "\nimpl: ", json.dumps(r))
            if a not in ("unresolvedParent", "needsPartner") and m != r and not (m == "error" and r == "crash"):
                ctx.disagree("ofTsvRows = SchemaLoaderDF._read_schema", case, m, r)
        elif kind == "xmltree":
            a = ctx.model.batch([{"op": "c05.readxml", "tree": case["tree"]}])[0]
            r = impl_read_xml_forest(impl, case["tree"])
            m = [{"name": b["name"], "attrs": [list(x) for x in canon_attrs(b["attrs"])], "desc": b["desc"]} for b in a["entries"]]
            print("model:", json.dumps(m), "\nimpl: ", json.dumps(r))
            if m != r:
                ctx.disagree("ofXmlTree = SchemaLoaderXML._populate_tag_dictionaries", case, m, r)
        for v in ctx.violations:
            print("violation:", v["clause"], json.dumps(v["case"], default=str)[:300], str(v["detail"])[:300])
    finally:
        impl.close()
