"""C01 — source -> Lean tables (run by `check` through `EXTRACT` of c01.py; never imports hed).

Emits lean/HedVerif/Generated/CodeMap.lean:
  * per internal error kind the model emits: its value, published code, default severity, has_sub_tag
    (decorators of hed/errors/error_messages.py, constants of hed/errors/error_types.py);
  * the character sets of CharValidator (hed/validator/util/char_util.py);
  * the reserved tag names of DefTagNames (hed/models/model_constants.py);
  * class_regex.json: per value class its character classes (as code-point ranges) and its word pattern
    (only the two patterns the model implements by hand are accepted - anything else fails the tie).
"""
import ast
import json
import warnings

from harness import common, extract

# (class, attribute) of every internal kind the model emits
WANTED = [
    ("ValidationErrors", n) for n in [
        "CHARACTER_INVALID", "TILDES_UNSUPPORTED", "PARENTHESES_MISMATCH", "TAG_EMPTY", "COMMA_MISSING",
        "NODE_NAME_EMPTY", "TAG_NAMESPACE_PREFIX_INVALID", "INVALID_TAG_CHARACTER", "HED_LIBRARY_UNMATCHED",
        "NO_VALID_TAG_FOUND", "INVALID_PARENT_NODE", "TAG_EXTENSION_INVALID", "TAG_EXTENDED", "TAG_REQUIRES_CHILD",
        "ELEMENT_DEPRECATED", "STYLE_WARNING", "INVALID_VALUE_CLASS_VALUE", "INVALID_VALUE_CLASS_CHARACTER",
        "CURLY_BRACE_UNSUPPORTED_HERE", "UNITS_INVALID", "UNITS_MISSING", "HED_DEF_UNMATCHED",
        "HED_DEF_EXPAND_UNMATCHED", "REQUIRED_TAG_MISSING", "TAG_NOT_UNIQUE", "HED_GROUP_EMPTY", "HED_TAG_GROUP_TAG",
        "HED_TOP_LEVEL_TAG", "HED_MULTIPLE_TOP_TAGS", "HED_TAG_REPEATED", "HED_TAG_REPEATED_GROUP",
        # not emitted by the model (definition dictionary is empty there) but part of the specification table
        "HED_DEF_VALUE_MISSING", "HED_DEF_VALUE_EXTRA", "HED_DEF_EXPAND_INVALID", "HED_DEF_EXPAND_VALUE_MISSING",
        "HED_DEF_EXPAND_VALUE_EXTRA", "VALUE_INVALID"]
] + [("DefinitionErrors", "BAD_DEFINITION_LOCATION"),
     ("TemporalErrors", "DURATION_HAS_OTHER_TAGS"), ("TemporalErrors", "DURATION_WRONG_NUMBER_GROUPS"),
     ("TemporalErrors", "ONSET_NO_DEF_TAG_FOUND"), ("TemporalErrors", "ONSET_TOO_MANY_DEFS"),
     ("TemporalErrors", "ONSET_WRONG_NUMBER_GROUPS"), ("TemporalErrors", "ONSET_TAG_OUTSIDE_OF_GROUP"),
     ("TemporalErrors", "ONSET_DEF_UNMATCHED"), ("TemporalErrors", "ONSET_PLACEHOLDER_WRONG")]
# constants used as `actual_error=` overrides or as the names of the specification's codes
CODES = ["PLACEHOLDER_INVALID", "DEFINITION_INVALID", "TEMPORAL_TAG_ERROR", "TAG_INVALID", "TAG_EXTENSION_INVALID",
         "TAG_REQUIRES_CHILD", "UNITS_INVALID", "VALUE_INVALID", "TAG_EXPRESSION_REPEATED", "TAG_GROUP_ERROR",
         "PARENTHESES_MISMATCH", "TAG_EMPTY", "CHARACTER_INVALID", "DEF_INVALID", "DEF_EXPAND_INVALID",
         "TAG_NOT_UNIQUE", "TAG_NAMESPACE_PREFIX_INVALID", "COMMA_MISSING", "REQUIRED_TAG_MISSING"]

NUMERIC_RX = "^[+-]?(\\d+(\\.\\d*)?|\\.\\d+)([eE][+-]?\\d+)?$"
DATETIME_RX = "^\\d{4}-\\d{2}-\\d{2}T\\d{2}:\\d{2}:\\d{2}(?:\\.\\d+)?(?:Z|[+-]\\d{2}:\\d{2})?$"
SLASH_RX = "([ \\t/]{2,}|^/|/$)"
CAMEL_RX = "([A-Z]+\\s*[a-z-]*)+"


def _parse(relpath):
    with warnings.catch_warnings():
        warnings.simplefilter("ignore")
        return ast.parse((common.REPO / relpath).read_text())


def _class_consts(relpath):
    out = {}
    for node in _parse(relpath).body:
        if isinstance(node, ast.ClassDef):
            for st in node.body:
                if isinstance(st, ast.Assign) and len(st.targets) == 1 and isinstance(st.targets[0], ast.Name) \
                        and isinstance(st.value, ast.Constant):
                    out[(node.name, st.targets[0].id)] = st.value.value
    return out


def read_code_table():
    """internal kind value -> (published code, default severity, has_sub_tag)"""
    consts = _class_consts("hed/errors/error_types.py")

    def resolve(node):
        if isinstance(node, ast.Attribute) and isinstance(node.value, ast.Name):
            return consts[(node.value.id, node.attr)]
        if isinstance(node, ast.Constant):
            return node.value
        raise ValueError("unresolvable decorator argument " + ast.dump(node))
    table = {}
    for fn in _parse("hed/errors/error_messages.py").body:
        if not isinstance(fn, ast.FunctionDef):
            continue
        for dec in fn.decorator_list:
            if isinstance(dec, ast.Call) and isinstance(dec.func, ast.Name) and dec.func.id in ("hed_error", "hed_tag_error"):
                kind = resolve(dec.args[0])
                kw = {k.arg: k.value for k in dec.keywords}
                code = resolve(kw["actual_code"]) if "actual_code" in kw else kind
                sev = resolve(kw["default_severity"]) if "default_severity" in kw else consts[("ErrorSeverity", "ERROR")]
                sub = bool(resolve(kw["has_sub_tag"])) if "has_sub_tag" in kw else False
                table[kind] = (code, sev, sub, dec.func.id == "hed_tag_error")
    return consts, table


def chars(s):
    def ch(c):
        if c == "'":
            return "'\\''"
        if c == "\\":
            return "'\\\\'"
        if 32 <= ord(c) < 127:
            return f"'{c}'"
        return "'\\u{%x}'" % ord(c)
    return "[" + ", ".join(ch(c) for c in s) + "]"


def regex_to_ranges(rx):
    """a one-character regex of class_regex.json as (negated, [(lo, hi)]) or None when not of that simple shape"""
    def unesc(s, i):
        # returns (code point, next index) or None
        if s[i] != "\\":
            return ord(s[i]), i + 1
        if i + 1 >= len(s):
            return ord("\\"), i + 1          # the file spells backslash as a lone '\'
        n = s[i + 1]
        if n == "x":
            return int(s[i + 2:i + 4], 16), i + 4
        if n == "u":
            return int(s[i + 2:i + 6], 16), i + 6
        if n == "n":
            return 10, i + 2
        if n == "t":
            return 9, i + 2
        if n.isalnum():
            return None                      # \w \d \s ... : not a literal
        return ord(n), i + 2
    if rx.startswith("[") and rx.endswith("]"):
        body = rx[1:-1]
        neg = body.startswith("^")
        if neg:
            body = body[1:]
        i, out = 0, []
        while i < len(body):
            r = unesc(body, i)
            if r is None:
                return None
            lo, i = r
            if i < len(body) - 1 and body[i] == "-":
                r = unesc(body, i + 1)
                if r is None:
                    return None
                hi, i = r
                out.append((lo, hi))
            else:
                out.append((lo, lo))
        return neg, out
    if rx in "(":                            # "(" is spelled unescaped in the file; re would reject it - not used
        return None
    r = unesc(rx, 0)
    if r is None or r[1] != len(rx):
        return None
    return False, [(r[0], r[0])]


def _class_attrs(relpath, cls):
    out = {}
    for node in _parse(relpath).body:
        if isinstance(node, ast.ClassDef) and node.name == cls:
            for st in node.body:
                if isinstance(st, ast.Assign) and isinstance(st.targets[0], ast.Name):
                    try:
                        out[st.targets[0].id] = ast.literal_eval(st.value)
                    except Exception:
                        out[st.targets[0].id] = st.value
    return out


def _find_str_constants(relpath):
    return {n.value for n in ast.walk(_parse(relpath)) if isinstance(n, ast.Constant) and isinstance(n.value, str)}


def extract_codemap():
    consts, table = read_code_table()
    b = ["/- GENERATED by harness/props/c01_extract.py from hed/errors/error_types.py, the decorators of",
         "   hed/errors/error_messages.py, hed/validator/util/char_util.py, class_regex.json and",
         "   hed/models/model_constants.py.  Do not edit. -/",
         "namespace HedVerif.Generated.CodeMap", "",
         f"def sevError : Nat := {consts[('ErrorSeverity', 'ERROR')]}",
         f"def sevWarning : Nat := {consts[('ErrorSeverity', 'WARNING')]}", ""]
    for cls, attr in WANTED:
        kind = consts[(cls, attr)]
        code, sev, sub, is_tag = table[kind]
        b.append(f"/-- `{cls}.{attr}` = {kind!r}: published code {code!r}, severity {sev}, has_sub_tag {sub} -/")
        b.append(f"def kind_{attr} : List Char := {chars(kind)}")
        b.append(f"def code_{attr} : List Char := {chars(code)}")
        b.append(f"def sev_{attr} : Nat := {sev}")
        b.append(f"def sub_{attr} : Bool := {'true' if sub else 'false'}")
        b.append(f"def istag_{attr} : Bool := {'true' if is_tag else 'false'}")
    b.append("")
    for c in CODES:
        b.append(f"/-- `ValidationErrors.{c}` -/")
        b.append(f"def val_{c} : List Char := {chars(consts[('ValidationErrors', c)])}")
    # character sets
    cv = _class_attrs("hed/validator/util/char_util.py", "CharValidator")
    b += ["", "/-- `CharValidator.INVALID_STRING_CHARS` -/",
          f"def invalidStringChars : List Char := {chars(cv['INVALID_STRING_CHARS'])}",
          "/-- `CharValidator.INVALID_STRING_CHARS_PLACEHOLDERS` -/",
          f"def invalidStringCharsPlaceholders : List Char := {chars(cv['INVALID_STRING_CHARS_PLACEHOLDERS'])}",
          "/-- `CharValidator.TAG_ALLOWED_CHARS` -/",
          f"def tagAllowedChars : List Char := {chars(cv['TAG_ALLOWED_CHARS'])}",
          "/-- `CharValidator.DEFAULT_ALLOWED_PLACEHOLDER_CHARS` -/",
          f"def defaultAllowedPlaceholderChars : List Char := {chars(cv['DEFAULT_ALLOWED_PLACEHOLDER_CHARS'])}"]
    # reserved names
    dn = _class_attrs("hed/models/model_constants.py", "DefTagNames")
    for py, ln in [("DEF_KEY", "defKey"), ("DEF_EXPAND_KEY", "defExpandKey"), ("DEFINITION_KEY", "definitionKey"),
                   ("ONSET_KEY", "onsetKey"), ("OFFSET_KEY", "offsetKey"), ("INSET_KEY", "insetKey"),
                   ("DURATION_KEY", "durationKey"), ("DELAY_KEY", "delayKey")]:
        b.append(f"/-- `DefTagNames.{py}` -/")
        b.append(f"def {ln} : List Char := {chars(dn[py])}")
    # the set expressions are checked to be the ones the model spells out
    want = {"TEMPORAL_KEYS": "{ONSET_KEY, OFFSET_KEY, INSET_KEY}", "DURATION_KEYS": "{DURATION_KEY, DELAY_KEY}",
            "ALL_TIME_KEYS": "TEMPORAL_KEYS.union(DURATION_KEYS)"}
    for k, v in want.items():
        got = ast.unparse(dn[k]) if isinstance(dn[k], ast.AST) else repr(dn[k])
        if got != v:
            raise ValueError(f"DefTagNames.{k} is {got}, model implements {v}")
    b += ["def temporalKeys : List (List Char) := [onsetKey, offsetKey, insetKey]",
          "def durationKeys : List (List Char) := [durationKey, delayKey]",
          "def allTimeKeys : List (List Char) := temporalKeys ++ durationKeys"]
    # hand-implemented regular expressions: fail the tie if the source spells other ones
    hv = _find_str_constants("hed/validator/hed_validator.py")
    if SLASH_RX not in hv:
        raise ValueError("pattern_doubleslash changed; model implements " + SLASH_RX)
    tv = _class_attrs("hed/validator/util/tag_util.py", "TagValidator")
    if tv.get("CAMEL_CASE_EXPRESSION") != CAMEL_RX:
        raise ValueError("CAMEL_CASE_EXPRESSION changed; model implements " + CAMEL_RX)
    # class_regex.json
    rx = json.loads((common.REPO / "hed/validator/util/class_regex.json").read_text(encoding="utf-8"))
    b += ["", "/-- one-character class of `char_regex`: code-point ranges (negated or not); `unsupported` = not of that shape -/",
          "inductive CharClass where", "  | set (neg : Bool) (ranges : List (Nat × Nat))", "  | unsupported",
          "deriving Repr, DecidableEq, Inhabited",
          "/-- word pattern of `class_words` (the model implements exactly these two by hand) -/",
          "inductive WordRx where", "  | numeric", "  | dateTime", "deriving Repr, DecidableEq, Inhabited", ""]
    rows = []
    for cls, names in rx["class_chars"].items():
        items = []
        for n in names:
            r = regex_to_ranges(rx["char_regex"][n])
            items.append("CharClass.unsupported" if r is None else
                         f"CharClass.set {'true' if r[0] else 'false'} [" + ", ".join(f"({a}, {c})" for a, c in r[1]) + "]")
        rows.append(f"  ({chars(cls)}, [" + ", ".join(items) + "])")
    b.append("/-- `class_chars` with each named class resolved through `char_regex` -/")
    b.append("def classChars : List (List Char × List CharClass) := [\n" + ",\n".join(rows) + "]")
    rows = []
    for cls, pat in rx["class_words"].items():
        if pat == NUMERIC_RX:
            rows.append(f"  ({chars(cls)}, WordRx.numeric)")
        elif pat == DATETIME_RX:
            rows.append(f"  ({chars(cls)}, WordRx.dateTime)")
        else:
            raise ValueError(f"class_words[{cls}] = {pat!r} is not a pattern the model implements")
    b.append("/-- `class_words` -/")
    b.append("def classWords : List (List Char × WordRx) := [\n" + ",\n".join(rows) + "]")
    b += ["", "end HedVerif.Generated.CodeMap", ""]
    extract.write_if_changed(extract.GEN / "CodeMap.lean", "\n".join(b))
