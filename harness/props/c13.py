"""C13 — Library schemas and namespaces compose without changing meaning.

Direct (relational) oracle on the implementation:
  codes(HedString(annotation with every tag prefixed p, GROUP).validate())
    == codes(HedString(annotation unprefixed, MEMBER p LOADED ALONE).validate())      (multiset of (code, severity))
  unknown / non-alphabetic prefix => TAG_NAMESPACE_PREFIX_INVALID; same library twice / clashing names => HedFileError;
  every standard tag keeps name, forms and attributes in the partnered (merged) schema.
Correspondence with the Lean model (Model/Group.lean): tag resolution in groups (`Group.find`), the attribute
unions behind the required/unique checks, `parse_version_list`, and `merge` of a library into its partner
(vocabularies read by our own XML reader, harness/schema_xml.py).
"""
import itertools
import json
import os
import re
import shutil
import tempfile
from pathlib import Path
import xml.etree.ElementTree as ET
from collections import Counter

from harness import schema_xml

THEOREMS = [
    "HedVerif.C13.dispatch_prefixed",
    "HedVerif.C13.dispatch_prefixed_text",
    "HedVerif.C13.dispatch_unprefixed",
    "HedVerif.C13.bad_prefix",
    "HedVerif.C13.bad_prefix_nonalpha",
    "HedVerif.C13.member_prefix_alpha",
    "HedVerif.C13.loaded_prefix_no_issue",
    "HedVerif.C13.tag_prefix_check",
    "HedVerif.C13.loaded_prefix_tag_clean",
    "HedVerif.C13.set_prefix_refuses",
    "HedVerif.C13.prefixed_partial",
    "HedVerif.C13.required_union_counterexample",
    "HedVerif.C13.strip_required",
    "HedVerif.C13.strip_unique",
    "HedVerif.C13.unique_per_prefix",
    "HedVerif.C13.separated_of_prefixes",
    "HedVerif.C13.unique_case_collision_counterexample",
    "HedVerif.C13.refuse_duplicate_version",
    "HedVerif.C13.accept_distinct",
    "HedVerif.C13.merge_conservative",
    "HedVerif.C13.merge_keeps_forms",
    "HedVerif.C13.rooted_placed_under_root",
    "HedVerif.C13.refuse_clash",
    "HedVerif.C13.wellFormed_distinct",
    "HedVerif.C13.refuse_unpartnered",
    "HedVerif.C13.load_two_ok",
    "HedVerif.C13.refuse_shared_name",
    "HedVerif.C13.merge_prefix_commute",
    "HedVerif.C13.canonG_eq_view",
    "HedVerif.C13.unloaded_prefix_invalid",
    "HedVerif.C13.lookup_issues_per_tag",
    "HedVerif.C13.group_validate_eq_single",
    "HedVerif.C13.countPrefix_zero_of_separated",
    "HedVerif.C13.group_validate_eq_single_alpha",
    "HedVerif.C13.generation_counterexample",
    "HedVerif.C13.section_conservative",
    "HedVerif.C13.section_refuse_shared",
]
SIG_GEN = "C13-mixed-generation-char-rules"
STANDARDS = ["8.0.0", "8.1.0", "8.2.0", "8.3.0"]
LIBRARIES = ["score_1.0.0", "score_1.1.0", "score_2.0.0", "testlib_1.0.2", "testlib_2.0.0", "testlib_2.1.0", "testlib_3.0.0"]
BUDGET = {"quick": 600, "thorough": 3000}

SIG_CASE = "C13-prefix-case-collision"
SIG_CAP = "C13-capitalisation-sees-namespace"
PARTNERED = ["score_1.1.0", "score_2.0.0", "testlib_2.0.0", "testlib_2.1.0", "testlib_3.0.0"]

# pairings loadable offline: list of (prefix, version spec); a spec with a comma is a same-prefix merge
QUICK_GROUPS = [
    [("", "8.3.0"), ("sc:", "score_2.0.0")],
    [("", "8.2.0"), ("sc:", "score_1.1.0")],
    [("tl:", "testlib_3.0.0"), ("", "8.3.0")],
]
# several libraries merged under ONE non-empty prefix (the loader sets the prefix on the first, merges the next into it
# and finalizes again with the prefix set): alone (a single prefixed schema) and beside an unprefixed standard schema
MERGED_PREFIX_QUICK = [
    [("tl:", "testlib_2.0.0,score_1.1.0")],
    [("", "8.2.0"), ("tl:", "testlib_2.0.0,score_1.1.0")],
]
MERGED_PREFIX_MORE = [
    [("ts:", "testlib_2.0.0,testlib_3.0.0")],
    [("", "8.3.0"), ("x:", "score_1.1.0,testlib_3.0.0")],
    [("m:", "testlib_2.0.0,score_1.1.0,testlib_3.0.0"), ("", "8.2.0")],
    [("m:", "testlib_2.0.0,testlib_3.0.0"), ("sc:", "score_2.0.0"), ("", "8.3.0")],
]
MORE_GROUPS = [
    [("", "8.3.0"), ("sc:", "score_2.0.0"), ("tl:", "testlib_3.0.0")],
    [("sc:", "8.3.0"), ("", "score_2.0.0")],
    [("a:", "8.2.0"), ("b:", "score_1.1.0")],
    [("", "testlib_2.0.0,score_1.1.0"), ("st:", "8.3.0")],
    [("ts:", "testlib_2.0.0,score_1.1.0"), ("", "8.2.0")],
    [("", "testlib_2.0.0"), ("x:", "testlib_3.0.0"), ("sc:", "score_1.1.0")],
    [("tl:", "8.3.0"), ("", "testlib_3.0.0"), ("sc:", "score_2.0.0")],
    [("q:", "testlib_2.1.0"), ("", "8.2.0")],
    [("Sc:", "score_2.0.0"), ("", "8.3.0")],
    [("LIB:", "testlib_3.0.0"), ("std:", "8.3.0")],
]


# ------------------------------------------------------------------------------------ vocabularies

_VOCAB = {}


def vocab_of(name):
    """plain data of one bundled schema, from our XML reader"""
    if name not in _VOCAB:
        v = schema_xml.read(schema_xml.bundled()[name])
        _VOCAB[name] = digest_vocab(v)
    return _VOCAB[name]


def digest_vocab(v):
    longs = [t["long"] for t in v["tags"]]
    attrs = {t["long"]: t["attrs"] for t in v["tags"]}
    longset = set(longs)
    nodes = [l for l in longs if not l.endswith("/#")]
    ext = set()
    for l in nodes:
        comps = l.split("/")
        if any("extensionAllowed" in attrs["/".join(comps[:k])] for k in range(1, len(comps) + 1)):
            ext.add(l)
    units, units_si = {}, {}
    for uc in v["unit_classes"]:
        units[uc["name"]] = [u["name"] for u in uc["units"]]
        si = []
        for u in uc["units"]:
            a = u.get("attrs", {})
            if "SIUnit" in a:      # SI-prefixed spellings: symbol modifiers on unit symbols, name modifiers on unit names
                si += [m + u["name"] for m in (("m", "k", "c") if "unitSymbol" in a else ("milli", "kilo", "centi"))]
        units_si[uc["name"]] = si
    return {"raw_unit_classes": v["unit_classes"], "units_si": units_si, "longs": longs, "attrs": attrs, "longset": longset, "nodes": nodes, "ext": ext, "units": units,
            "shorts": {l.split("/")[-1].casefold() for l in nodes},
            "valued": [l for l in nodes if (l + "/#") in longset],
            "unique": [l for l in longs if "unique" in attrs[l]],
            "required": [l for l in longs if "required" in attrs[l]],
            "header": v["header"]}


def merged_member_vocab(ctx, spec):
    """vocabulary of a same-prefix merge 'a,b' = the model's merge of a's file-order tags with b's library tags"""
    key = "merge:" + spec
    if key in _VOCAB:
        return _VOCAB[key]
    first, *rest = spec.split(",")
    base = vocab_of(first)
    # the model's `loadVersions` (header guards, library-only append, duplicate check)
    ans = ctx.model.batch([{"op": "c13.load", "first": source_of(first), "rest": [source_of(r) for r in rest]}])[0]
    if "ok" not in ans:
        raise RuntimeError(f"model refuses {spec}: {ans}")
    attrs = dict(base["attrs"])
    ucs = {uc["name"]: uc for uc in base["raw_unit_classes"]}
    for r in rest:
        attrs.update({l: a for l, a in vocab_of(r)["attrs"].items() if l not in attrs})
        for uc in vocab_of(r)["raw_unit_classes"]:
            ucs.setdefault(uc["name"], uc)
    v = {"tags": [{"long": l, "attrs": attrs[l]} for l in ans["ok"]],
         "unit_classes": list(ucs.values()),
         "header": base["header"]}
    _VOCAB[key] = digest_vocab(v)
    return _VOCAB[key]


def member_vocab(ctx, spec):
    return merged_member_vocab(ctx, spec) if "," in spec else vocab_of(spec)


# ------------------------------------------------------------------------------------ generator

def vary_case(rng, s):
    k = rng.random()
    if k < 0.6:
        return s
    if k < 0.75:
        return s.lower()
    if k < 0.85:
        return s.upper()
    return "".join(c.upper() if rng.random() < 0.5 else c.lower() for c in s)


def value_for(rng, V, long):
    a = V["attrs"].get(long + "/#", {})
    k = rng.random()
    if k < 0.1:
        return rng.choice(["@@", "1 badunit", "x y z", "#"])
    ucs = [u for u in a.get("unitClass", []) if V["units"].get(u)]
    if ucs and k < 0.75:
        uc = rng.choice(ucs)
        unit = rng.choice(V["units_si"][uc]) if V["units_si"].get(uc) and rng.random() < 0.4 else rng.choice(V["units"][uc])
        return f"{rng.choice(['3', '0.5', '12', '-1', '1e3'])} {unit}"
    vcs = a.get("valueClass", [])
    if "numericClass" in vcs:
        return rng.choice(["3", "0.25", "17", "abc"])
    if "nameClass" in vcs:
        return rng.choice(["Name1", "my-name", "n_2"])
    if "dateTimeClass" in vcs:
        return rng.choice(["2022-01-01T00:00:00", "12:30"])
    return rng.choice(["abc", "some text", "Word1", "3"])


def gen_tag(rng, V):
    """one unprefixed tag text (no ':' before the first '/') and its kind"""
    k = rng.random()
    if k < 0.07:
        return rng.choice(["Nosuchtag", "Nosuch/Tag", "Qwerty-x/Sub", "Blorp3"]), "unknown"
    long = rng.choice(V["valued"]) if V["valued"] and rng.random() < 0.25 else rng.choice(V["nodes"])
    comps = long.split("/")
    i = rng.choice([len(comps) - 1] * 3 + [0] + list(range(len(comps))))
    form = vary_case(rng, "/".join(comps[i:]))
    has_val = (long + "/#") in V["longset"]
    if has_val:
        r = rng.random()
        if r < 0.08:       # a value that is itself a schema term
            return form + "/" + rng.choice(V["nodes"]).split("/")[-1], "value-is-term"
        if r < 0.85:
            return form + "/" + value_for(rng, V, long), "value"
        return form, "value-missing"
    k = rng.random()
    if k < 0.55:
        return form, "plain"
    if k < 0.8:
        return form + "/Xyzzy" + str(rng.randint(0, 9)), "ext" if long in V["ext"] else "ext-not-allowed"
    if k < 0.9:
        other = rng.choice(V["nodes"]).split("/")[-1]
        return form + "/Qq/" + other, "ext-names-tag"
    return form + "/Xyz/Deep-er", "ext2"


SPECIAL = [
    (["Def", "Onset"], lambda r: ["g", ["t", "Def/Mydef"], ["t", "Onset"]]),
    (["Def", "Offset"], lambda r: ["g", ["t", "Def/Mydef"], ["t", "Offset"]]),
    (["Onset"], lambda r: ["t", "Onset"]),
    (["Definition", "Red"], lambda r: ["g", ["t", "Definition/Mydef"], ["g", ["t", "Red"]]]),
    (["Definition", "Red", "Event"], lambda r: ["g", ["t", "Event"], ["g", ["t", "Definition/Mydef"], ["g", ["t", "Red"]]]]),
    (["Event-context", "Red"], lambda r: ["g", ["t", "Event-context"], ["g", ["t", "Red"]]]),
    (["Duration", "Red"], lambda r: ["g", ["t", "Duration/3 s"], ["g", ["t", "Red"]]]),
    (["Delay", "Blue"], lambda r: ["g", ["t", "Delay/2 s"], ["g", ["t", "Blue"]]]),
    (["Def-expand", "Red"], lambda r: ["g", ["t", "Def-expand/Mydef"], ["g", ["t", "Red"]]]),
    (["Red"], lambda r: ["t", "Red"]),
    (["Red"], lambda r: ["g"]),
]


def gen_annotation(rng, V):
    """tree: ["t", text] | ["g", child...]; returns (list of top-level items, kinds)"""
    kinds = []

    def item(depth):
        k = rng.random()
        if k < 0.12:
            ok = [s for s in SPECIAL if all(x.casefold() in V["shorts"] for x in s[0])]
            if ok:
                kinds.append("special")
                return rng.choice(ok)[1](rng)
        if k < 0.35 and depth < 2:
            return ["g"] + [item(depth + 1) for _ in range(rng.randint(1, 3))]
        t, kind = gen_tag(rng, V)
        kinds.append(kind)
        return ["t", t]
    items = [item(0) for _ in range(rng.choice([1, 1, 2, 2, 3, 4, 5]))]
    if rng.random() < 0.08 and items:       # a repeated item (TAG_EXPRESSION_REPEATED / unique twice)
        items.append(json.loads(json.dumps(rng.choice(items))))
        kinds.append("repeat")
    return items, kinds


def render(items, p):
    def r(x):
        if x[0] == "t":
            return p + x[1]
        return "(" + ", ".join(r(c) for c in x[1:]) + ")"
    return ", ".join(r(x) for x in items)


def tags_of(items):
    out = []

    def w(x):
        if x[0] == "t":
            out.append(x[1])
        else:
            for c in x[1:]:
                w(c)
    for x in items:
        w(x)
    return out


# ------------------------------------------------------------------------------------ implementation side

def codes_of(HedString, text, schema, ctx=None):
    """multiset of (code, severity); an exception inside validation is an outcome too (that it is raised at all is
    C01/C07's clause, not C13's: here only 'the same on both sides' matters) - counted"""
    try:
        return sorted((i["code"], i["severity"]) for i in HedString(text, schema).validate())
    except Exception as e:
        if ctx is not None:
            ctx.count(f"validate-raised-{type(e).__name__}")
        return [("RAISED:" + type(e).__name__, 0)]


_CAMEL = re.compile(r'([A-Z]+\s*[a-z-]*)+')


def _style_warn(text):
    return any(c != c.capitalize() and not _CAMEL.search(c) for c in text.split("/"))


def explained_by_capitalisation(HedString, t_pre, group, cg, ca):
    """the two outcomes differ only in STYLE_WARNINGs, and exactly by the number of tags whose capitalisation verdict
    changes when the namespace is (wrongly) left in the checked text"""
    d1, d2 = Counter(cg) - Counter(ca), Counter(ca) - Counter(cg)
    if set(d1) | set(d2) != {("STYLE_WARNING", 10)}:
        return False
    tags = HedString(t_pre, group).get_all_tags()
    with_ns = sum(_style_warn(t.org_base_tag) for t in tags)
    without = sum(_style_warn(t.org_base_tag[len(t.schema_namespace):]) for t in tags)
    return with_ns != without and cg.count(("STYLE_WARNING", 10)) - ca.count(("STYLE_WARNING", 10)) == with_ns - without


def load_group(load_schema_version, members):
    return load_schema_version([f"{p}{spec}" for p, spec in members])


def load_alone(load_schema_version, spec):
    return load_schema_version(spec.split(",") if "," in spec else spec)


def model_members(ctx, members, with_attrs=True):
    out = []
    for p, spec in members:
        V = member_vocab(ctx, spec)
        out.append({"ns": p, "tags": V["longs"], "required": V["required"] if with_attrs else [],
                    "unique": V["unique"] if with_attrs else []})
    return out


def alpha_data(strings):
    """`str.isalpha` per non-ASCII character of the alphabet in use, computed by CPython (the Lean model has no Unicode
    tables: the character class is data, as C01's non-ASCII classes are)"""
    return sorted({ord(c) for s in strings for c in s if ord(c) > 127 and c.isalpha()})


# non-ASCII alphabetic prefixes (Latin-1, Cyrillic, sharp s): legal wherever `str.isalpha` says so; only used in groups
# whose members are all of the 8.3.0 generation (before 8.3.0 every non-ASCII character in the text is CHARACTER_INVALID)
UNICODE_GROUPS_QUICK = [[("stra\u00dfe:", "score_2.0.0"), ("", "8.3.0"), ("\u00e9:", "8.3.0")]]   # sharp s: casefold() is longer
UNICODE_GROUPS_MORE = [[("\u0416:", "8.3.0"), ("stra\u00dfe:", "score_2.0.0")],
                       [("\u00f1u:", "score_2.0.0"), ("", "8.3.0"), ("\u0436\u00e9:", "8.3.0")]]


def length_changing(text):
    """the text holds a character whose casefold() has another length (sharp s, ligatures, dotted capital I).  Registered
    finding C12-casefold-length-offsets: the implementation measures the positions inside lookup errors on case-folded
    text, so with such a character positions inside a tag may be shifted on the unchanged tree.  For such texts - and only
    for them - positions inside tags are left out of the comparisons below; error kinds, codes, the tag's identity (span),
    node, remainder and forms are still compared."""
    return any(len(c.casefold()) != 1 for c in text)


def no_positions(r):
    return {k: v for k, v in r.items() if k not in ("a", "b")} if "err" in r else r


def canon_find(m):
    """model answer in the shape of c03.impl_find"""
    m = dict(m)
    m.pop("prefix_issue", None)
    if "err" in m:
        if m["err"] == "HED_LIBRARY_UNMATCHED":
            return {"err": m["err"], "a": None, "b": None}
        return {"err": m["err"], "a": m["a"], "b": m["b"]}
    return m


def impl_find(HedTag, schema, text):
    from harness.props.c03 import impl_find as f, KIND_NAMES
    from hed.errors.error_types import ValidationErrors
    if not KIND_NAMES:
        for k in ("NO_VALID_TAG_FOUND", "INVALID_PARENT_NODE", "HED_LIBRARY_UNMATCHED"):
            KIND_NAMES[getattr(ValidationErrors, k)] = k
    r = f(HedTag, schema, text)
    r.pop("base", None)
    r.pop("short_base", None)
    return r


def run_group(ctx, members, n_ann, hed):
    HedString, HedTag, load_schema_version, GroupValidator = hed
    label = "+".join(f"{p}{s}" for p, s in members)
    group = load_group(load_schema_version, members)
    prefixes = [p for p, _ in members]
    if sorted(group.valid_prefixes) != sorted(prefixes):
        ctx.violation("group-prefixes", {"group": label}, group.valid_prefixes)
        return
    mm = model_members(ctx, members)
    gv = GroupValidator(group)
    find_cases = {}      # prefixed tag text -> None
    attr_cases = []
    for p, spec in members:
        V = member_vocab(ctx, spec)
        alone = load_alone(load_schema_version, spec)
        for _ in range(n_ann):
            items, kinds = gen_annotation(ctx.rng, V)
            t_un, t_pre = render(items, ""), render(items, p)
            case = {"group": [list(m) for m in members], "prefix": p, "items": items}
            c_group = codes_of(HedString, t_pre, group, ctx)
            c_alone = codes_of(HedString, t_un, alone)
            ctx.case((label, t_pre), nontrivial=bool(p) or len(kinds) > 1,
                     sample={"group": label, "text": t_pre, "codes": c_group} if c_group and p else None)
            for k in set(kinds):
                ctx.count("tagkind:" + k)
            ctx.count(f"group:{label}:annotations")
            ctx.count("clean" if not c_group else ("warnings-only" if all(s > 1 for _, s in c_group) else "with-errors"))
            for c, _ in c_group:
                ctx.count("code:" + c)
            if c_group != c_alone:
                sig = SIG_CAP if p and explained_by_capitalisation(HedString, t_pre, group, c_group, c_alone) else None
                ctx.violation("prefixed-in-group != unprefixed-alone" if p else "unprefixed-in-group != alone",
                              case, {"text": t_pre, "group": c_group, "alone": c_alone}, signature=sig)
            for t in tags_of(items):
                find_cases[p + t] = (p, t, spec)
            # attribute unions: the validator's own two functions on the parsed tags
            hs = HedString(t_pre, group)
            tags = hs.get_all_tags()
            if all(t._schema_entry is not None for t in tags):
                req = sorted(i["code"] for i in gv.check_for_required_tags(tags))
                uniq = len(gv.check_multiple_unique_tags_exist(tags))
                attr_cases.append(([t.long_tag for t in tags], len(req), uniq, t_pre))
        ctx.check_time()
    # tag resolution: model vs implementation, in the group
    texts = list(find_cases)
    bad = []
    # non-ASCII candidates only where the whole text is judged by the 8.3.0 character rules (before 8.3.0 any non-ASCII
    # character stops validation in the string phase as CHARACTER_INVALID)
    member_schemas = list(group._schemas.values()) if hasattr(group, "_schemas") else [group]
    uni = ["\u00e91:", "\u00f1_:", "e\u0301:", "\u0436:"] if group.schema_83_props and all(
        sch.schema_83_props for sch in member_schemas) else []
    for p in ["zz:", "s1:", ":", "sc1:", "Tl:"] + uni + ([""] if "" not in prefixes else []):
        if p in prefixes:
            continue
        for _ in range(6):
            V = member_vocab(ctx, ctx.rng.choice(members)[1])
            bad.append(p + gen_tag(ctx.rng, V)[0])
    reqs = [{"op": "c13.find", "members": mm, "texts": texts + bad, "alpha": alpha_data(texts + bad)},
            {"op": "c13.attrs", "members": mm, "annotations": [a[0] for a in attr_cases]}]
    ans = ctx.model.batch(reqs)
    if not ans[0]["wellformed"]:
        ctx.disagree("wellFormed g = HedSchemaGroup accepts the prefixes", {"group": [list(x) for x in members]}, False, True)
    if not all(ans[0]["wf"]):
        ctx.notes.append(f"group {label}: hypotheses of the dispatch theorems not met (wf={ans[0]['wf']})")
    ctx.count(f"group:{label}:WF={all(ans[0]['wf'])}")
    alone_of = {spec: load_alone(load_schema_version, spec) for _, spec in members}
    for text, m in zip(texts + bad, ans[0]["results"]):
        r = impl_find(HedTag, group, text)
        ctx.evaluations += 1
        loose = length_changing(text)
        if loose:
            ctx.count("lookup:positions-left-out(length-changing casefold)")
        if (no_positions(canon_find(m)) != no_positions(r)) if loose else (canon_find(m) != r):
            ctx.disagree("Group.find = HedTag lookup in HedSchemaGroup", {"group": [list(x) for x in members], "text": text},
                         canon_find(m), r)
        if text in find_cases and find_cases[text][0]:
            # direct oracle (no model): the prefixed spelling identifies the same node with the same remainder and forms as
            # the unprefixed spelling against the same schema(s) loaded without prefix - prefix apart
            p, t, spec = find_cases[text]
            r0 = impl_find(HedTag, alone_of[spec], t)
            if "err" in r0:
                want = {"err": r0["err"], "a": None if r0["a"] is None else r0["a"] + len(p),
                        "b": None if r0["b"] is None else r0["b"] + len(p)}
            else:
                want = dict(r0, ns=p, short=p + r0["short"], long=p + r0["long"])
            if (no_positions(want) != no_positions(r)) if loose else (want != r):
                ctx.violation("prefixed-spelling-resolves-differently-from-unprefixed",
                              {"group": [list(x) for x in members], "text": text},
                              {"prefixed": r, "unprefixed": r0})
    for text, m in zip(bad, ans[0]["results"][len(texts):]):
        # direct oracle: a prefix that is not loaded / not alphabetic is the namespace error
        codes = [c for c, _ in codes_of(HedString, text, group)]
        ctx.count("bad-prefix")
        ns = text[:text.index(":") + 1] if ":" in text.split("/")[0] else ""
        if "TAG_NAMESPACE_PREFIX_INVALID" not in codes:
            ctx.violation("bad-prefix-not-reported", {"group": [list(x) for x in members], "text": text}, codes)
        want = 1 + (1 if ns and not ns[:-1].isalpha() else 0)
        if m.get("err") != "HED_LIBRARY_UNMATCHED" or (1 + int(m["prefix_issue"])) != want or \
                codes.count("TAG_NAMESPACE_PREFIX_INVALID") != want:
            ctx.disagree("bad prefix: model unmatched+prefixIssue = implementation", {"text": text}, m, codes)
    for (longs, nreq, nuniq, text), m in zip(attr_cases, ans[1]["results"]):
        if (len(m["required"]), len(m["unique"])) != (nreq, nuniq):
            ctx.disagree("requiredIssues/uniqueIssues = check_for_required_tags/check_multiple_unique_tags_exist",
                         {"group": [list(x) for x in members], "text": text}, m, [nreq, nuniq])
        if nuniq:
            ctx.count("unique-issue-seen")
    ctx.check_time()


# ------------------------------------------------------------------------------------ required (synthetic) and case collision

def synthetic_required(ctx, hed, from_string, HedSchemaGroup):
    """No bundled schema has `required` tags: give one to a copy of 8.3.0 / score_2.0.0 and check that the real
    group uses the UNION (model = implementation) — the reason for the hypothesis of `prefixed_partial`."""
    HedString, HedTag, load_schema_version, GroupValidator = hed
    src = schema_xml.bundled()["8.3.0"].read_text()
    marked = src.replace("<name>Sensory-event</name>", "<name>Sensory-event</name><attribute><name>required</name></attribute>", 1)
    assert marked != src
    std_req = from_string(marked, schema_namespace="rq:")
    std_req_alone = from_string(marked)
    lib = load_schema_version("sc:score_2.0.0")
    lib_alone = load_schema_version("score_2.0.0")
    group = HedSchemaGroup([std_req, lib])
    V = vocab_of("score_2.0.0")
    req_name = "Event/Sensory-event"
    mm = [{"ns": "rq:", "tags": vocab_of("8.3.0")["longs"], "required": [req_name], "unique": vocab_of("8.3.0")["unique"]},
          {"ns": "sc:", "tags": V["longs"], "required": [], "unique": V["unique"]}]
    gv = GroupValidator(group)
    anns, seen_diff = [], 0
    for _ in range(40 if ctx.quick() else 400):
        items, _ = gen_annotation(ctx.rng, V)
        if ctx.rng.random() < 0.3:
            items.append(["t", "Sensory-event"])
        for p, alone in (("sc:", lib_alone), ("rq:", std_req_alone)):
            t_pre, t_un = render(items, p), render(items, "")
            cg, ca = codes_of(HedString, t_pre, group), codes_of(HedString, t_un, alone)
            ctx.case(("synthetic-required", t_pre), nontrivial=True)
            if p == "sc:":
                # the other member has a required tag: the group adds exactly one REQUIRED_TAG_MISSING when no earlier
                # stage stopped validation; never anything else
                extra = Counter(cg) - Counter(ca)
                if extra and set(extra) != {("REQUIRED_TAG_MISSING", 1)} or (Counter(ca) - Counter(cg)):
                    ctx.violation("synthetic-required: differs by more than the union's missing tag",
                                  {"items": items, "prefix": p}, {"group": cg, "alone": ca})
                seen_diff += bool(extra)
            elif cg != ca:
                ctx.violation("synthetic-required: owner of the required tag judged differently",
                              {"items": items, "prefix": p}, {"group": cg, "alone": ca})
            tags = HedString(t_pre, group).get_all_tags()
            if all(t._schema_entry is not None for t in tags):
                anns.append(([t.long_tag for t in tags], len(gv.check_for_required_tags(tags)),
                             len(gv.check_multiple_unique_tags_exist(tags)), t_pre))
    ans = ctx.model.batch([{"op": "c13.attrs", "members": mm, "annotations": [a[0] for a in anns]}])[0]
    for (longs, nreq, nuniq, text), m in zip(anns, ans["results"]):
        ctx.evaluations += 1
        if (len(m["required"]), len(m["unique"])) != (nreq, nuniq):
            ctx.disagree("requiredIssues (union) = check_for_required_tags on a group with a required tag",
                         {"text": text}, m, [nreq, nuniq])
    ctx.count("synthetic-required:union-visible", seen_diff)
    if not seen_diff:
        ctx.notes.append("synthetic required tag never made a difference (generator too weak?)")


def only_extra_not_unique(cg, ca):
    """the group reports the repeated unique tag once more per case-colliding member, nothing else differs"""
    return set(Counter(cg) - Counter(ca)) == {("TAG_NOT_UNIQUE", 1)} and not (Counter(ca) - Counter(cg))


def case_collision(ctx, hed):
    """prefixes differing only in case: the unique/required matching folds case, so such a group must not exist
    (fix 1a730be: refused by the group constructor); model `wellFormed` = constructor's verdict"""
    HedString, HedTag, load_schema_version, GroupValidator = hed
    from hed.errors.exceptions import HedFileError
    for members in ([("sc:", "8.3.0"), ("SC:", "8.2.0")], [("Tl:", "testlib_3.0.0"), ("", "8.3.0"), ("tL:", "8.2.0")],
                    [("sc:", "8.3.0"), ("sd:", "8.2.0")]):
        mm = [{"ns": p, "tags": [], "required": [], "unique": []} for p, _ in members]
        wf = ctx.model.batch([{"op": "c13.find", "members": mm, "texts": []}])[0]["wellformed"]
        ctx.case(("case-collision", tuple(p for p, _ in members)), nontrivial=True)
        try:
            group = load_group(load_schema_version, members)
        except HedFileError as e:
            ctx.count("case-colliding-prefixes-refused:" + str(e.code))
            if wf:
                ctx.disagree("wellFormed g = HedSchemaGroup accepts the prefixes", {"group": [list(x) for x in members]}, wf, str(e.code))
            continue
        if not wf:
            ctx.disagree("wellFormed g = HedSchemaGroup accepts the prefixes", {"group": [list(x) for x in members]}, wf, "accepted")
        if len({p.casefold() for p, _ in members}) == len(members):
            continue
        # accepted although two prefixes collide: show the consequence on the repeated unique tag
        p, spec = members[0]
        alone = load_schema_version(spec)
        items = [["g", ["t", "Event-context"], ["g", ["t", "Red"]]], ["g", ["t", "Event-context"], ["g", ["t", "Blue"]]]]
        cg, ca = codes_of(HedString, render(items, p), group), codes_of(HedString, render(items, ""), alone)
        if cg != ca:
            ctx.violation("prefixed-in-group != unprefixed-alone", {"group": [list(x) for x in members], "prefix": p, "items": items},
                          {"group": cg, "alone": ca}, signature=SIG_CASE if only_extra_not_unique(cg, ca) else None)
        else:
            ctx.violation("case-colliding-prefixes-accepted", {"group": [list(x) for x in members], "prefix": p, "items": items}, cg)


def generation_probe(ctx, hed):
    """fixed witness: one character-rule flag for the whole group (any member >= 8.3.0 switches it on)"""
    HedString, HedTag, load_schema_version, GroupValidator = hed
    members, p, items = [("", "8.3.0"), ("sc:", "score_1.1.0")], "sc:", [["t", "Label/\u00e9"]]
    group = load_group(load_schema_version, members)
    alone = load_schema_version("score_1.1.0")
    cg, ca = codes_of(HedString, render(items, p), group), codes_of(HedString, render(items, ""), alone)
    ctx.case(("generation-probe",), nontrivial=True)
    if cg != ca:
        ok = explained_by_generation(cg, ca, render(items, ""), group.schema_83_props, alone.schema_83_props)
        ctx.violation("prefixed-in-group != unprefixed-alone", {"group": [list(x) for x in members], "prefix": p, "items": items},
                      {"group": cg, "alone": ca}, signature=SIG_GEN if ok else None)


def capitalisation_probe(ctx, hed):
    """fixed witnesses: the style check reads the tag text with its namespace"""
    HedString, HedTag, load_schema_version, GroupValidator = hed
    for members, p, items in [([("tl:", "testlib_3.0.0"), ("", "8.3.0")], "tl:", [["t", "2d-view"]]),
                              ([("Sc:", "score_2.0.0"), ("", "8.3.0")], "Sc:", [["t", "red"]])]:
        group = load_group(load_schema_version, members)
        alone = load_alone(load_schema_version, dict(members)[p])
        t_pre = render(items, p)
        cg, ca = codes_of(HedString, t_pre, group), codes_of(HedString, render(items, ""), alone)
        ctx.case(("capitalisation-probe", t_pre), nontrivial=True)
        if cg != ca:
            sig = SIG_CAP if explained_by_capitalisation(HedString, t_pre, group, cg, ca) else None
            ctx.violation("prefixed-in-group != unprefixed-alone", {"group": [list(x) for x in members], "prefix": p, "items": items},
                          {"text": t_pre, "group": cg, "alone": ca}, signature=sig)


# ------------------------------------------------------------------------------------ full issue lists (C01's model)

_C01V = {}


def c01_vocab(name):
    from harness.props import c01
    from hed.schema.hed_schema_entry import pluralize
    if name not in _C01V:
        if "," in name:
            # several libraries under one prefix: C01's vocabulary reader works on ONE file (and the implementation refuses
            # to save such a merge), so the file is assembled here from the bundled XMLs alone: the first library's file
            # with the library subtrees (`inLibrary` nodes under a partner node or at top level) of the others grafted in
            # at the same parents; that it holds exactly the model's `loadVersions` tag list is checked below
            import copy
            first, *rest = name.split(",")
            root = ET.parse(schema_xml.bundled()[first]).getroot()
            where = {}

            def index(node, prefix):
                long = prefix + [node.findtext("name")]
                where["/".join(long)] = node
                for ch in node.findall("node"):
                    index(ch, long)
            for top in root.find("schema").findall("node"):
                index(top, [])

            def is_lib(node):
                return any(a.findtext("name") == "inLibrary" for a in node.findall("attribute"))

            def graft(node, prefix, parent_lib):
                long = prefix + [node.findtext("name")]
                if is_lib(node) and not parent_lib:
                    target = where["/".join(prefix)] if prefix else root.find("schema")
                    new = copy.deepcopy(node)
                    target.append(new)
                    index(new, prefix)
                    return
                for ch in node.findall("node"):
                    graft(ch, long, is_lib(node))
            for r in rest:
                for top in ET.parse(schema_xml.bundled()[r]).getroot().find("schema").findall("node"):
                    graft(top, [], False)
            d = tempfile.mkdtemp(prefix="hv_c13v_")
            try:
                path = Path(d) / "merged.xml"
                ET.ElementTree(root).write(path, encoding="utf-8")
                orig = schema_xml.bundled
                schema_xml.bundled = lambda: {**orig(), name: path}
                try:
                    _C01V[name] = c01.Vocab(name, pluralize.plural)
                finally:
                    schema_xml.bundled = orig
            finally:
                shutil.rmtree(d, ignore_errors=True)
            want = _VOCAB.get("merge:" + name)
            if want is not None and sorted(want["longs"]) != sorted(_C01V[name].long):
                raise RuntimeError(f"saved merge of {name} differs from the model's loadVersions tag list")
        else:
            _C01V[name] = c01.Vocab(name, pluralize.plural)
    return _C01V[name]


def prefix_tags(text, p):
    """insert p before every tag (maximal run between the delimiters ( ) , trimmed of blanks)"""
    out, i, n = [], 0, len(text)
    while i < n:
        if text[i] in "(),":
            out.append(text[i])
            i += 1
            continue
        j = i
        while j < n and text[j] not in "(),":
            j += 1
        run = text[i:j]
        k = len(run) - len(run.lstrip(" "))
        # a run that is blank under str.strip() (e.g. a lone U+00A0) is no tag in the unprefixed text: it gets no prefix
        out.append(run[:k] + (p if run.strip() else "") + run[k:])
        i = j
    return "".join(out)


def member_meta(v):
    from harness.props.c01 import version_tuple
    hdr = v.raw["header"]
    ws = hdr.get("withStandard")
    return {"ws83": (version_tuple(ws) >= (8, 3, 0)) if ws else None,
            "std83": (version_tuple(hdr.get("version", "0")) >= (8, 3, 0)) if not hdr.get("library") else None,
            "ed": "elementDomain" in {p["name"] for p in v.raw["properties"]}}


STRING_PHASE_CODES = {"CHARACTER_INVALID", "PARENTHESES_MISMATCH", "TAG_EMPTY", "COMMA_MISSING", "TILDES_UNSUPPORTED",
                      "NODE_NAME_EMPTY"}


def explained_by_generation(cg, ca, text, group_modern, alone_modern):
    """group and member disagree on the character rules, the text has characters the two rule sets judge differently
    (printable non-ASCII: refused before 8.3.0 only; non-printable ASCII: refused from 8.3.0 only), and the side whose
    rules refuse them stopped in the string phase reporting (at least) those characters, while the other side went on"""
    if bool(group_modern) == bool(alone_modern):
        return False
    n_old = sum(1 for c in text if ord(c) > 127 and c.isprintable())
    n_new = sum(1 for c in text if ord(c) <= 127 and not c.isprintable())
    old = [tuple(x) for x in (ca if group_modern else cg)]
    new = [tuple(x) for x in (cg if group_modern else ca)]

    def stopped(side, n):
        return n > 0 and side.count(("CHARACTER_INVALID", 1)) >= n and all(c in STRING_PHASE_CODES for c, _ in side)
    return stopped(old, n_old) or stopped(new, n_new)


def run_group_validate(ctx, members, n_each, hed):
    """complete issue lists: HedString(text, GROUP).validate() against GroupValidate.validate (the C01 model composed with
    the group dispatch); texts from C01's generators over each member's vocabulary, every tag prefixed"""
    from harness.props import c01
    from hed.schema.hed_schema_entry import pluralize
    HedString, HedTag, load_schema_version, GroupValidator = hed
    c01.install_recorder()
    rng = ctx.rng
    label = "+".join(f"{p}{s}" for p, s in members)
    group = load_group(load_schema_version, members)
    cases = []
    kinds = [k for k in c01.SPEC if "def" not in k.lower() and "onset" not in k.lower()]
    for p, name in members:
        v = c01_vocab(name)
        g = c01.Gen(rng, v, pluralize.plural)
        texts = []
        for k in range(n_each):
            ph = rng.random() < 0.3
            r = k % 4
            if r == 0:
                t = g.render(g.conforming(ph))
            elif r in (1, 2):
                t = g.inject(kinds[(k // 4) % len(kinds)], g.conforming(ph), ph) or g.render(g.conforming(ph))
            else:
                t = c01.fuzz_strings(rng, g, 1)[0]
            texts.append((t, ph, r != 3))
        for t, ph, structured in texts:
            tp = prefix_tags(t, p)
            if rng.random() < 0.08:           # one tag under a prefix that is not loaded
                tp = tp.replace(p, rng.choice(["zz:", "Q1:", p.upper() if p.isascii() and p.upper() != p else "yy:"]), 1) if p else "zz:" + tp
            cases.append((p, name, t, tp, ph, structured))
    chars = sorted({c for c5 in cases for c in c5[3] if ord(c) > 127})
    # the model folds with ASCII lower-casing: the generated TAG texts must stay inside that assumption; the members'
    # PREFIXES need not (a prefix is cut off before anything is folded, and compared exactly)
    body_chars = {c for c5 in cases for c in c5[2] if ord(c) > 127}
    if [c for c in body_chars if c.casefold() != c or c.isdigit()]:
        raise RuntimeError("alphabet holds characters outside the model's assumptions")
    mm = []
    for p, name in members:
        v = c01_vocab(name)
        mm.append(dict(v.payload(chars), **c01.detect_variant(), ns=p, **member_meta(v)))
    ans = ctx.model.batch([{"op": "c13.validate", "members": mm,
                            "cases": [{"text": c[3], "ph": c[4]} for c in cases]}])[0]
    if "bad-op" in ans:
        raise RuntimeError("driver: " + str(ans["bad-op"]))
    alone = {name: load_alone(load_schema_version, name) for _, name in members}
    if ans["group_modern"] != bool(group.schema_83_props):
        ctx.disagree("groupModern = group.schema_83_props", {"group": [list(m) for m in members]}, ans["group_modern"], group.schema_83_props)
    for (p, name), am in zip(members, ans["alone_modern"]):
        if am != bool(alone[name].schema_83_props) or am != c01_vocab(name).modern:
            ctx.disagree("aloneModern = schema.schema_83_props", {"schema": name}, am, alone[name].schema_83_props)
    ctx.count(f"gv:{label}:group_modern={ans['group_modern']},members={ans['alone_modern']}")
    for (p, name, t, tp, ph, structured), m in zip(cases, ans["answers"]):
        case = {"gv_group": [list(x) for x in members], "text": tp, "ph": ph}
        impl, exc = c01.impl_validate(HedString, group, tp, ph)
        ctx.case((label, tp, ph), nontrivial=True, sample=case if rng.random() < 0.002 else None)
        ctx.count("gv:cases")
        if m.get("mixed"):
            ctx.count("gv:skipped-two-loaded-prefixes")
            continue
        if m["unmodelled"]:
            ctx.count("gv:skipped-unmodelled")
            continue
        if exc is not None or m["raises"]:
            ctx.count("gv:skipped-raises")
            if exc is not None and not m["raises"]:
                ctx.disagree("GroupValidate.raises = the validator raises", case, False, exc)
            continue
        mine = sorted((c01.canon_model(i) for i in m["issues"]), key=json.dumps)
        impl0 = impl
        if length_changing(tp):
            # see `length_changing`: positions inside a tag (index 4) are not compared for such texts, everything else is
            ctx.count("gv:positions-left-out(length-changing casefold)")
            mine = sorted((x[:4] + [None] + x[5:] for x in mine), key=json.dumps)
            impl = sorted((x[:4] + [None] + x[5:] for x in impl), key=json.dumps)
        ctx.count("gv:compared")
        ctx.count("gv:theorem-hypotheses-" + ("hold" if m["hmod"] and m["hreq"] else "fail(mixed generation)" if not m["hmod"] else "fail"))
        if m["hmod"] and m["hreq"] and not m["eq_single"]:
            ctx.count("gv:eq_single-false-under-hmod-hreq(unique separation)")
        if any(i["kind"] == "HED_LIBRARY_UNMATCHED" for i in m["issues"]):
            ctx.count("gv:unloaded-prefix-reported")
        if mine != impl:
            ctx.disagree("GroupValidate.validate = HedString(text, group).validate (complete issue list)", case,
                         [x for x in mine if x not in impl][:6], [x for x in impl if x not in mine][:6])
        # relational oracle on the implementation, full canonical issues modulo the shift of positions: codes only
        # (fuzz strings are left out: prefixing a blank-only tag such as U+00A0 makes it a non-empty tag)
        if structured and tp == prefix_tags(t, p):
            cg = sorted((i[1], i[2]) for i in impl0)
            ia, ea = c01.impl_validate(HedString, alone[name], t, ph)
            if ea is None:
                ca = sorted((i[1], i[2]) for i in ia)
                if cg != ca:
                    sig = SIG_GEN if explained_by_generation(cg, ca, t, group.schema_83_props, alone[name].schema_83_props) else (
                        SIG_CAP if p and explained_by_capitalisation(HedString, tp, group, cg, ca) else None)
                    ctx.violation("prefixed-in-group != unprefixed-alone" if p else "unprefixed-in-group != alone",
                                  {"group": [list(x) for x in members], "prefix": p, "text": t, "ph": ph},
                                  {"group": cg, "alone": ca}, signature=sig)
    ctx.check_time()


GV_GROUPS = [
    [("", "8.3.0"), ("sc:", "score_2.0.0")],
    [("", "8.2.0"), ("sc:", "score_1.1.0")],
    [("tl:", "testlib_3.0.0"), ("", "8.3.0")],
    [("a:", "8.3.0"), ("sc:", "score_1.1.0"), ("tl:", "testlib_2.0.0")],
    [("sc:", "score_2.0.0"), ("", "testlib_3.0.0")],
    [("\u0436:", "8.3.0"), ("\u00f1u:", "score_2.0.0")],
    [("m:", "testlib_2.0.0,score_1.1.0,testlib_3.0.0"), ("", "8.2.0")],
]
GV_MERGED_QUICK = [("", "8.2.0"), ("tl:", "testlib_2.0.0,score_1.1.0")]
GV_UNICODE_QUICK = [("", "8.3.0"), ("\u00e9:", "score_2.0.0"), ("stra\u00dfe:", "8.3.0")]


# ------------------------------------------------------------------------------------ version lists

def impl_versions(vs):
    from hed.schema.hed_schema_io import parse_version_list
    from hed.errors.exceptions import HedFileError, HedExceptions
    try:
        return {"ok": sorted([k, v] for k, v in parse_version_list(list(vs)).items())}
    except HedFileError as e:
        return {"err": "SCHEMA_DUPLICATE_LIBRARY" if e.code == HedExceptions.SCHEMA_DUPLICATE_LIBRARY else str(e.code)}


def run_versions(ctx):
    rng = ctx.rng
    pool = ["8.3.0", "8.2.0", "score_1.1.0", "score_2.0.0", "testlib_2.0.0", "testlib_3.0.0", "", "x", "a:b"]
    pres = ["", "", "sc:", "tl:", "a:", ":", "sc:sc:"]
    lists = [[], [""], ["8.3.0", "8.3.0"], ["sc:score_1.1.0", "8.2.0", "sc:score_1.1.0"], ["sc:x", "tl:x"], [":x", "x"]]
    for _ in range(400 if ctx.quick() else 6000):
        n = rng.randint(0, 5)
        small = rng.sample(pool, rng.randint(1, 4))
        lists.append([rng.choice(pres) + rng.choice(small) for _ in range(n)])
    ans = ctx.model.batch([{"op": "c13.versions", "versions": vs} for vs in lists])
    for vs, m in zip(lists, ans):
        r = impl_versions(vs)
        m2 = {"ok": sorted(m["ok"])} if "ok" in m else {"err": m["err"]}
        parts = [tuple(v.partition(":")[::2]) if ":" in v else ("", v) for v in vs]
        dup = len(set(parts)) != len(parts)
        ctx.case(("versions", tuple(vs)), nontrivial=len(vs) > 1)
        ctx.count("versions:" + ("refused" if "err" in r else "accepted"))
        if m2 != r:
            ctx.disagree("parseVersionList = parse_version_list", {"versions": vs}, m2, r)
        # direct oracle: refused exactly when a version is repeated under one prefix
        if dup != ("err" in r):
            ctx.violation("duplicate-version-not-refused" if dup else "distinct-versions-refused", {"versions": vs}, r)
    ctx.check_time()


def run_refusals(ctx, load_schema_version):
    """real loads that must be refused"""
    from hed.errors.exceptions import HedFileError
    cases = [(["score_1.1.0", "score_1.1.0"], "same-library-twice"),
             (["sc:score_2.0.0", "8.3.0", "sc:score_2.0.0"], "same-library-twice"),
             (["tl:testlib_2.0.0", "tl:testlib_2.0.0"], "same-library-twice"),
             (["testlib_2.0.0", "testlib_2.1.0"], "clashing-names"),
             (["x:testlib_2.1.0", "x:testlib_2.0.0"], "clashing-names"),
             (["s1:8.3.0"], "non-alphabetic-prefix"),
             (["sc:8.3.0", "sc:8.2.0"], "two-standard-schemas-one-prefix")]
    for vs, what in cases:
        ctx.case(("refusal", tuple(vs)), nontrivial=True)
        try:
            s = load_schema_version(vs)
            ctx.violation(f"not-refused:{what}", {"versions": vs}, s.get_formatted_version())
        except HedFileError as e:
            ctx.count(f"refused:{what}:{e.code}")
    # the model's verdict on the two clashing testlibs
    a, b = vocab_of("testlib_2.0.0"), vocab_of("testlib_2.1.0")
    lib = [{"name": l, "rooted": None} for l in b["longs"] if "inLibrary" in b["attrs"][l]]
    m = ctx.model.batch([{"op": "c13.merge", "base": a["longs"], "nstd": len(a["longs"]), "libs": [lib]}])[0]
    if m.get("err") != "SCHEMA_DUPLICATE_NAMES":
        ctx.disagree("mergeInto refuses testlib_2.0.0,testlib_2.1.0", {"versions": ["testlib_2.0.0", "testlib_2.1.0"]}, m,
                     "SCHEMA_DUPLICATE_NAMES")


def source_of(name):
    V = vocab_of(name)
    return {"ws": V["header"].get("withStandard", ""), "tags": V["longs"],
            "lib": [i for i, l in enumerate(V["longs"]) if "inLibrary" in V["attrs"][l]]}


def short_names(V, only_lib=False):
    return {l.split("/")[-1].casefold() for l in V["nodes"] if not only_lib or "inLibrary" in V["attrs"][l]}


def expected_pair(a, b):
    """independent expectation for loading [a, b] under one prefix, from our XML reader's vocabularies:
    'refuse' when the two vocabularies share a tag name under that prefix, except for the documented merge of two
    libraries of the same partner, whose common (partner) part is one schema: there only the second's own tags count;
    'load' for a same-partner pair without a common name; None = no clash and not a documented merge."""
    Va, Vb = vocab_of(a), vocab_of(b)
    wa, wb = Va["header"].get("withStandard", ""), Vb["header"].get("withStandard", "")
    if wa and wa == wb:
        return "refuse" if short_names(Va) & short_names(Vb, only_lib=True) else "load"
    return "refuse" if short_names(Va) & short_names(Vb) else None


def check_pair(ctx, load_schema_version, a, b, p, m):
    """one ordered pair under prefix p; m = the model's verdict (c13.load) for (a, b)"""
    from hed.errors.exceptions import HedFileError, HedExceptions
    vs = [p + a, p + b]
    case = {"load_versions": vs}
    want = expected_pair(a, b)
    try:
        s = load_schema_version(vs)
        r = {"ok": sorted(e.name for e in s.tags.all_names.values())}
    except HedFileError as e:
        r = {"err": str(e.code)}
    ctx.case(("load-pair", tuple(vs)), nontrivial=True,
             sample={"versions": vs, "outcome": r.get("err", "loaded"), "expected": want} if want == "load" else None)
    ctx.count(f"pair:{'refused:' + r['err'] if 'err' in r else 'loaded'}:expected-{want}")
    if want == "refuse" and "ok" in r:
        ctx.violation("clashing-names-under-one-prefix-not-refused", case,
                      {"loaded_as": s.get_formatted_version(), "shared_names": len(short_names(vocab_of(a)) & short_names(vocab_of(b)))})
    if want == "load" and "err" in r:
        ctx.violation("same-partner-libraries-without-common-names-refused", case, r)
    code = {"SCHEMA_DUPLICATE_PREFIX": str(HedExceptions.SCHEMA_DUPLICATE_PREFIX),
            "BAD_WITH_STANDARD_MULTIPLE_VALUES": str(HedExceptions.BAD_WITH_STANDARD_MULTIPLE_VALUES),
            "SCHEMA_DUPLICATE_NAMES": str(HedExceptions.SCHEMA_DUPLICATE_NAMES)}
    m2 = {"ok": sorted(m["ok"])} if "ok" in m else {"err": code.get(m["err"], m["err"])}
    if m2 != r:
        short = lambda x: x if "err" in x else {"ok": len(x["ok"])}
        ctx.disagree("loadVersions (header guards, library-only append, duplicate check) = load_schema_version([a, b])",
                     case, short(m2), short(r))


def run_load_matrix(ctx, load_schema_version):
    """every ordered pair of bundled versions under the empty and under a common prefix (thorough), a seeded sample that
    always contains library-then-standard for every library and standard (quick)"""
    rng = ctx.rng
    names = STANDARDS + LIBRARIES
    pairs = [(a, b) for a in names for b in names if a != b]
    if ctx.quick():
        must = [(l, s) for l in LIBRARIES for s in STANDARDS]
        partnered = [n for n in LIBRARIES if vocab_of(n)["header"].get("withStandard")]
        same = [(a, b) for a in partnered for b in partnered if a != b and expected_pair(a, b) == "load"]
        other = [pr for pr in pairs if pr not in must]
        todo = [(a, b, rng.choice(["", "cp:"])) for a, b in must] + \
               [(a, b, rng.choice(["", "cp:"])) for a, b in rng.sample(same, min(3, len(same))) + rng.sample(other, 14)]
    else:
        todo = [(a, b, p) for a, b in pairs for p in ("", "cp:")]
    need = sorted({(a, b) for a, b, _ in todo})
    ans = ctx.model.batch([{"op": "c13.load", "first": source_of(a), "rest": [source_of(b)]} for a, b in need] +
                          [{"op": "c13.versions", "versions": [p + a, p + b]} for a, b, p in todo])
    verdict = dict(zip(need, ans[:len(need)]))
    for (a, b, p), v in zip(todo, ans[len(need):]):
        if "ok" not in v or v["ok"] != [[p[:-1], f"{p}{a},{b}"]]:
            ctx.disagree("parseVersionList groups the two versions under their prefix", {"versions": [p + a, p + b]}, v, "one group")
        check_pair(ctx, load_schema_version, a, b, p, verdict[(a, b)])
        ctx.check_time()


# ------------------------------------------------------------------------------------ merge

def read_xml_string(tmp, text):
    p = os.path.join(tmp, "s.xml")
    with open(p, "w", encoding="utf-8") as f:
        f.write(text)
    return schema_xml.read(p)


def entry_view(e):
    return {"name": e.name, "short": e.short_tag_name, "long": e.long_tag_name,
            "parent": e.parent_name, "attrs": {k: v for k, v in sorted(e.attributes.items())},
            "units": sorted(e.unit_classes) if getattr(e, "unit_classes", None) else [],
            "vclasses": sorted(e.value_classes) if getattr(e, "value_classes", None) else [],
            "takes_value": e.takes_value_child_entry.name if e.takes_value_child_entry else None}


def lib_entries(unmerged):
    return [{"name": t["long"], "rooted": (t["attrs"]["rooted"][0] if "rooted" in t["attrs"] else None)}
            for t in unmerged["tags"]]


def run_merge(ctx, hed, from_string, tmp):
    HedString, HedTag, load_schema_version, GroupValidator = hed
    libs = PARTNERED if not ctx.quick() else ["score_2.0.0", "score_1.1.0", "testlib_2.0.0", "testlib_3.0.0"]
    for lib in libs:
        merged_bundled = load_schema_version(lib)
        std_name = merged_bundled.with_standard
        std = load_schema_version(std_name)
        xml_unmerged = merged_bundled.get_as_xml_string(save_merged=False)
        unmerged = read_xml_string(tmp, xml_unmerged)
        if unmerged["header"].get("unmerged") != "True":
            ctx.notes.append(f"{lib}: save_merged=False did not give an unmerged file")
        stdV = vocab_of(std_name)
        m = ctx.model.batch([{"op": "c13.merge", "base": stdV["longs"], "nstd": len(stdV["longs"]),
                              "libs": [lib_entries(unmerged)]}])[0]
        loaded = from_string(xml_unmerged)      # SchemaLoader._load: deep copy of the partner + library entries
        impl_names = [e.name for e in loaded.tags.all_names.values()]
        case = {"library": lib, "standard": std_name}
        ctx.case(("merge", lib), nontrivial=True, sample={"library": lib, "std_tags": len(stdV["longs"]),
                                                           "lib_tags": len(unmerged["tags"]), "merged": len(impl_names)})
        if "ok" not in m:
            ctx.disagree("merge std lib = loaded partnered schema", case, m, len(impl_names))
            continue
        if sorted(m["ok"]) != sorted(impl_names):
            ctx.disagree("merge std lib = loaded partnered schema (tag list)", case,
                         sorted(set(m["ok"]) - set(impl_names))[:5], sorted(set(impl_names) - set(m["ok"]))[:5])
        ctx.count("merge:dictionary-order-equal" if m["ok"] == impl_names else "merge:dictionary-order-differs")
        if sorted(m["ok"]) != sorted(vocab_of(lib)["longs"]):
            ctx.disagree("merge std lib = bundled merged file", case, len(m["ok"]), len(vocab_of(lib)["longs"]))
        for k in ("wf", "base_wf", "base_keys_kept", "prefix_kept"):
            if not m[k]:
                ctx.disagree(f"merge_conservative evaluated: {k}", case, m[k], True)
        ctx.count(f"merge:{lib}:std_keys_checked", m["base_keys"])
        if bool(loaded.has_duplicates()) != bool(m["dups"]):
            ctx.disagree("merge duplicates", case, m["dups"], loaded.has_duplicates())
        # direct oracle on the implementation: every standard tag unchanged in both merged schemas
        for which, ms in (("unmerged-load", loaded), ("bundled", merged_bundled)):
            for e in std.tags.all_entries:
                ctx.evaluations += 1
                e2 = ms.tags.get(e.name)
                if e2 is None:
                    ctx.violation("standard-tag-missing-in-merged", {**case, "tag": e.name, "form": which}, None)
                    continue
                v1, v2 = entry_view(e), entry_view(e2)
                if v1 != v2:
                    ctx.violation("standard-tag-changed-in-merged", {**case, "tag": e.name, "form": which},
                                  {k: (v1[k], v2[k]) for k in v1 if v1[k] != v2[k]})
                comps = e.long_tag_name.split("/")
                for i in (0, len(comps) - 1):
                    form = "/".join(comps[i:])
                    t1, t2 = HedTag(form, std), HedTag(form, ms)
                    if (t1.long_tag, t1.short_tag, t1.extension) != (t2.long_tag, t2.short_tag, t2.extension):
                        ctx.violation("standard-form-resolves-differently-in-merged", {**case, "tag": form, "form": which},
                                      [t1.long_tag, t2.long_tag])
            ctx.count(f"merge:{lib}:{which}:std-tags-compared", len(std.tags.all_entries))
        # library tags are all there, flagged inLibrary
        for t in m["ok"][len(stdV["longs"]):]:
            e2 = loaded.tags.get(t)
            if e2 is None or not e2.has_attribute("inLibrary"):
                ctx.violation("library-tag-missing-or-unflagged", {**case, "tag": t}, None)
        ctx.check_time()
    # same-prefix merges of bundled (merged-form) files
    for spec in ["testlib_2.0.0,score_1.1.0", "testlib_2.1.0,score_1.1.0", "testlib_2.0.0,testlib_3.0.0"]:
        V = merged_member_vocab(ctx, spec)
        s = load_alone(load_schema_version, spec)
        impl_names = [e.name for e in s.tags.all_names.values()]
        ctx.case(("merge-same-prefix", spec), nontrivial=True)
        if sorted(V["longs"]) != sorted(impl_names):
            ctx.disagree("mergeInto (same prefix) = loaded schema", {"versions": spec},
                         sorted(set(V["longs"]) - set(impl_names))[:5], sorted(set(impl_names) - set(V["longs"]))[:5])
        ctx.count("merge-same-prefix:order-equal" if V["longs"] == impl_names else "merge-same-prefix:order-differs")


def synthetic_libs(ctx, from_string, load_schema_version, tmp):
    """small generated unmerged libraries on 8.2.0: rooted / unrooted / nested / clashing / bad roots"""
    from hed.errors.exceptions import HedFileError, HedExceptions
    rng = ctx.rng
    skeleton = load_schema_version("testlib_2.0.0").get_as_xml_string(save_merged=False)
    stdV = vocab_of("8.2.0")
    std_shorts = [l.split("/")[-1] for l in stdV["nodes"]]
    # the two rooted-tag exceptions share one code string (SCHEMA_LIBRARY_INVALID): compared at that granularity
    model_code = {"ROOTED_TAG_INVALID": str(HedExceptions.ROOTED_TAG_INVALID),
                  "ROOTED_TAG_DOES_NOT_EXIST": str(HedExceptions.ROOTED_TAG_DOES_NOT_EXIST)}
    reqs, libs = [], []
    for n in range(30 if ctx.quick() else 200):
        root = ET.fromstring(skeleton)
        sch = root.find("schema")
        for ch in list(sch):
            sch.remove(ch)
        entries = []
        counter = itertools.count()

        def mk(parent_el, path, depth, force_plain=False):
            k = rng.random()
            name = f"Zz{n}x{next(counter)}-new"
            if k < 0.12 and not force_plain:
                name = rng.choice(std_shorts)                       # clash with a standard tag
            el = ET.SubElement(parent_el, "node")
            ET.SubElement(el, "name").text = name
            ET.SubElement(el, "description").text = "generated"
            rooted = None
            k = rng.random()
            if k < (0.45 if depth == 0 else 0.08):
                rooted = rng.choice(std_shorts) if rng.random() < 0.85 else rng.choice(["Nosuchroot", "Zz-missing"])
                if rng.random() < 0.2:
                    rooted = rooted.lower()
                a = ET.SubElement(el, "attribute")
                ET.SubElement(a, "name").text = "rooted"
                ET.SubElement(a, "value").text = rooted
            entries.append({"name": "/".join(path + [name]), "rooted": rooted})
            if depth < 2:
                for _ in range(rng.choice([0, 0, 1, 2])):
                    mk(el, path + [name], depth + 1)
        for _ in range(rng.randint(1, 4)):
            mk(sch, [], 0)
        libs.append((ET.tostring(root, encoding="unicode"), entries))
        reqs.append({"op": "c13.merge", "base": stdV["longs"], "nstd": len(stdV["longs"]), "libs": [entries],
                     "first_unchecked": True})
    ans = ctx.model.batch(reqs)
    for (xml_text, entries), m in zip(libs, ans):
        case = {"synthetic-library": entries}
        try:
            s = from_string(xml_text)
            r = {"ok": sorted(e.name for e in s.tags.all_entries), "dups": bool(s.has_duplicates())}
        except HedFileError as e:
            r = {"err": str(e.code)}
        m2 = {"ok": sorted(m["ok"]), "dups": bool(m["dups"])} if "ok" in m else {"err": model_code.get(m["err"], m["err"])}
        ctx.case(("synthetic-lib", json.dumps(entries)), nontrivial=True)
        ctx.count("synthetic-lib:" + (("refused:" + m.get("err", "?")) if "err" in r else ("clash" if r["dups"] else "merged")))
        if m2 != r:
            ctx.disagree("merge (rooted placement, clashes) = SchemaLoader._load on a generated library", case,
                         m2 if "err" in m2 else {"n": len(m2["ok"]), "dups": m2["dups"], "extra": sorted(set(m2["ok"]) - set(r.get("ok", [])))[:4]},
                         r if "err" in r else {"n": len(r["ok"]), "dups": r["dups"], "extra": sorted(set(r["ok"]) - set(m2.get("ok", [])))[:4]})
        if "ok" in m and not (m["base_keys_kept"] or m["dups"] or not m["wf"]):
            ctx.disagree("merge_conservative evaluated on a generated library", case, m["base_keys_kept"], True)
    ctx.check_time()


SECTIONS = [("unit_classes", "unitClassDefinitions", "unitClassDefinition", "UnitClasses"),
            ("units", None, None, "Units"),
            ("unit_modifiers", "unitModifierDefinitions", "unitModifierDefinition", "UnitModifiers"),
            ("value_classes", "valueClassDefinitions", "valueClassDefinition", "ValueClasses"),
            ("attributes", "schemaAttributeDefinitions", "schemaAttributeDefinition", "Attributes"),
            ("properties", "propertyDefinitions", "propertyDefinition", "Properties")]


def _sentry(el, lib):
    attrs = []
    for a in el.findall("attribute") + el.findall("property"):
        attrs.append([a.findtext("name"), ",".join(v.text or "" for v in a.findall("value"))])
    return {"name": el.findtext("name"), "attrs": sorted(attrs), "lib": lib}


def read_sections(root, lib):
    """our own reading of the name-keyed sections of one XML tree (entries in file order)"""
    out = {}
    for key, sec, item, _ in SECTIONS:
        if sec is None:
            continue
        el = root.find(sec)
        out[key] = [] if el is None else [_sentry(x, lib) for x in el.findall(item)]
    ucs = root.find("unitClassDefinitions")
    out["units"] = [] if ucs is None else [_sentry(u, lib) for uc in ucs.findall("unitClassDefinition") for u in uc.findall("unit")]
    return out


def synthetic_sections(ctx, from_string, load_schema_version):
    """generated partnered libraries (on 8.2.0) with unit classes, units, unit modifiers, value classes, schema attributes
    and properties of their own - new names, names the partner already has, bare placeholders of a partner's unit class
    carrying a new unit: loaded sections (names in dictionary order, attributes, inLibrary flags, duplicate record)
    against `mergeSection`, and the partner's entries must come out unchanged (`section_conservative`)"""
    from hed.errors.exceptions import HedFileError
    from hed.schema.hed_schema_constants import HedSectionKey
    rng = ctx.rng
    skeleton = load_schema_version("testlib_2.0.0").get_as_xml_string(save_merged=False)
    std_root = ET.parse(schema_xml.bundled()["8.2.0"]).getroot()
    base = read_sections(std_root, False)
    std_names = {k: [e["name"] for e in v] for k, v in base.items()}

    def ent(parent, tag, name, attrs=(), desc="generated"):
        el = ET.SubElement(parent, tag)
        ET.SubElement(el, "name").text = name
        if desc:
            ET.SubElement(el, "description").text = desc
        for k, v in attrs:
            a = ET.SubElement(el, "attribute")
            ET.SubElement(a, "name").text = k
            if v is not None:
                ET.SubElement(a, "value").text = v
        return el
    libs = []
    for n in range(24 if ctx.quick() else 150):
        root = ET.fromstring(skeleton)
        uc = root.find("unitClassDefinitions")
        tag = f"v{n}"
        for _ in range(rng.randint(0, 2)):
            k = rng.random()
            if k < 0.4:       # a class of its own with units
                own = ent(uc, "unitClassDefinition", f"verifUnits{tag}{rng.randint(0, 99)}", [("defaultUnits", f"vu{tag}")])
                ent(own, "unit", f"vu{tag}{rng.randint(0, 9)}", [("unitSymbol", None)] if rng.random() < 0.5 else [])
            elif k < 0.7:     # bare placeholder of a partner class + a unit (new, or clashing with a partner unit)
                ph = ent(uc, "unitClassDefinition", rng.choice(std_names["unit_classes"]), [], desc=None)
                r = rng.random()
                if r < 0.5:
                    ent(ph, "unit", f"vunit{tag}{rng.randint(0, 99)}", [])
                elif r < 0.75:
                    ent(ph, "unit", rng.choice(std_names["units"]), [])                 # same key: duplicate
                else:
                    u = rng.choice(std_names["units"])
                    ent(ph, "unit", u.upper() if u.upper() != u else u.lower(), [("unitSymbol", None)] if rng.random() < 0.5 else [])
            else:             # a partner's class name WITH attributes: not a placeholder -> duplicate
                ent(uc, "unitClassDefinition", rng.choice(std_names["unit_classes"]), [("defaultUnits", "s")])
        for key, sec, item, _ in SECTIONS:
            if sec is None or key == "unit_classes":
                continue
            for _ in range(rng.choice([0, 0, 1, 2])):
                k = rng.random()
                name = f"verif{key[:4]}{tag}{rng.randint(0, 99)}" if k < 0.65 else rng.choice(std_names[key])
                if 0.85 < k:      # differs in case only: these sections are case-sensitive -> no duplicate
                    name = name.upper() if name.upper() != name else name.lower()
                attrs = {"unit_modifiers": [("SIUnitModifier", None)], "value_classes": [("allowedCharacter", "letters")]}.get(key, [])
                ent(root.find(sec), item, name, attrs)
        libs.append((ET.tostring(root, encoding="unicode"), read_sections(root, True)))
    reqs = []
    for _, lib in libs:
        for key, _, _, _ in SECTIONS:
            reqs.append({"op": "c13.sections", "base": base[key], "lib": lib[key], "am": False,
                         "placeholder": key == "unit_classes", "units": key == "units"})
    ans = iter(ctx.model.batch(reqs))

    def view(e):
        a = {k: ("" if v is True else str(v)) for k, v in e.attributes.items()}
        lib = "inLibrary" in a
        a.pop("inLibrary", None)
        return {"name": e.name, "attrs": sorted([k, v] for k, v in a.items()), "lib": lib}
    for xml_text, lib in libs:
        try:
            s = from_string(xml_text)
        except HedFileError as e:
            ctx.count(f"synthetic-sections:loader-refused:{e.code}")
            for _ in SECTIONS:
                next(ans)
            continue
        for key, _, _, hk in SECTIONS:
            m = next(ans)
            sec = s._sections[getattr(HedSectionKey, hk)]
            case = {"synthetic-sections": key, "library": lib[key]}
            ctx.case(("synthetic-sections", key, json.dumps(lib[key])), nontrivial=bool(lib[key]))
            dup = bool(sec.duplicate_names)
            ctx.count(f"synthetic-sections:{key}:" + ("duplicate" if dup else "merged" if lib[key] else "untouched"))
            # direct oracle, from the XML alone: a key offered twice (partner + library, or library twice) must be on
            # record as a duplicate, a bare placeholder of a partner's unit class excepted; nothing else may be
            def skey(e):
                if key == "units" and not any(k == "unitSymbol" for k, _ in e["attrs"]):
                    return e["name"].casefold()
                return e["name"]
            seen, want = {skey(e) for e in base[key]}, False
            for e in lib[key]:
                if skey(e) in seen:
                    want = want or not (key == "unit_classes" and not e["attrs"])
                else:
                    seen.add(skey(e))
            if want != dup:
                ctx.violation("shared-section-name-not-recorded-as-duplicate" if want else "spurious-section-duplicate",
                              case, sorted(sec.duplicate_names))
            if dup != ("err" in m):
                ctx.disagree("mergeSection refuses = the section records a duplicate", case, m.get("dups", "ok"), sorted(sec.duplicate_names))
                continue
            if dup:
                continue
            impl = [view(e) for e in sec.all_names.values()]
            mine = [{"name": e["name"], "attrs": sorted(e["attrs"]), "lib": e["lib"]} for e in m["ok"]]
            if mine != impl:
                ctx.disagree("mergeSection = the loaded section (names in order, attributes, inLibrary)", case,
                             [x for x in mine if x not in impl][:4], [x for x in impl if x not in mine][:4])
            for k in ("base_kept", "lib_present", "prefix_kept"):
                if not m[k]:
                    ctx.disagree(f"section_conservative evaluated: {k}", case, m[k], True)
            # direct oracle: the partner's entries are there, first, with the attributes our reader sees in the partner's file
            if impl[:len(base[key])] != [{"name": e["name"], "attrs": e["attrs"], "lib": False} for e in base[key]]:
                ctx.violation("standard-section-entry-changed-in-merged", case, key)
    ctx.check_time()


def run_prefix_syntax(ctx, hed):
    """load side (`set_schema_prefix`) and tag side (`_check_invalid_prefix_issues`) against the model's one alphabetic
    test, and against each other: a prefix is accepted at load exactly when `str.isalpha` holds of its body, and a prefix
    that loads is never reported on a tag carrying it"""
    HedString, HedTag, load_schema_version, GroupValidator = hed
    from hed.errors.exceptions import HedFileError
    from hed.validator.util.char_util import CharValidator
    import copy
    pres = ["sc", "sc:", "s1", "s1:", "", ":", "a-b", "Ab", "abc:", "a b", "x_", "1", "\u00e9", "\u00f1u:", "\u0416", "stra\u00dfe",
            "\u0436\u00e9:", "\u00e91", "\u00f1_:", "e\u0301", "\u0301:", "\u00aa", "\u4e2d", "\u00e9 :", "\u01c5", "\u00df:", "\ufb01x:", "\u0130d:", "stra\u00dfe:"]
    ans = ctx.model.batch([{"op": "c13.prefix", "ns": p, "alpha": alpha_data([p])} for p in pres])
    s = load_schema_version("8.3.0")
    for p, m in zip(pres, ans):
        sc = copy.copy(s)
        try:
            sc.set_schema_prefix(p)
            r = sc._namespace
        except HedFileError:
            r = "INVALID_LIBRARY_PREFIX"
        ctx.case(("prefix", p), nontrivial=True)
        ctx.count("prefix-syntax:" + ("refused" if r == "INVALID_LIBRARY_PREFIX" else "accepted") + (":non-ascii" if not p.isascii() else ""))
        if m["set"] != r:
            ctx.disagree("setPrefix = set_schema_prefix", {"prefix": p}, m, r)
        body = p[:-1] if p.endswith(":") else p
        if p and (r != "INVALID_LIBRARY_PREFIX") != body.isalpha():
            ctx.violation("prefix-accepted-at-load-iff-alphabetic", {"prefix": p}, r)
        # tag side on the same namespace text
        ns = p if p.endswith(":") else p + ":"
        if "/" in ns or not p:
            continue
        tag = HedTag(ns + "Red", sc if r != "INVALID_LIBRARY_PREFIX" else s)
        flagged = bool(CharValidator._check_invalid_prefix_issues(tag))
        m2 = ctx.model.batch([{"op": "c13.prefix", "ns": tag.schema_namespace, "alpha": alpha_data([ns])}])[0] if tag.schema_namespace else {"issue": False}
        if m2["issue"] != flagged:
            ctx.disagree("prefixIssue = _check_invalid_prefix_issues", {"prefix": ns, "text": ns + "Red"}, m2["issue"], flagged)
        if r != "INVALID_LIBRARY_PREFIX" and tag.schema_namespace == r and flagged:
            ctx.violation("loaded-prefix-reported-on-its-own-tag", {"prefix": ns, "text": ns + "Red"}, "TAG_NAMESPACE_PREFIX_INVALID")
        if r != "INVALID_LIBRARY_PREFIX" and tag.schema_namespace == r:
            # a tag under a prefix that loaded is the tag of the unprefixed spelling (also when casefold() changes the
            # length of the prefix: sharp s, ligatures, dotted capital I)
            t0 = HedTag("Red", s)
            for text in (ns + "Red", ns + "Property/Sensory-property/Sensory-attribute/Visual-attribute/Color/CSS-color/Red-color/Red"):
                tg = HedTag(text, sc)
                if tg._schema_entry is None or tg._schema_entry.name != t0._schema_entry.name or tg.short_tag != ns + t0.short_tag:
                    ctx.violation("prefixed-spelling-resolves-differently-from-unprefixed", {"prefix": ns, "text": text},
                                  None if tg._schema_entry is None else tg._schema_entry.name)


# ------------------------------------------------------------------------------------ entry points

def hed_api():
    from hed import HedString, HedTag, load_schema_version
    from hed.validator.util.group_util import GroupValidator
    return HedString, HedTag, load_schema_version, GroupValidator


def run(ctx):
    from hed.schema import from_string
    from hed.schema.hed_schema_group import HedSchemaGroup
    from harness.props.c10 import install_kind_recorder
    install_kind_recorder()
    hed = hed_api()
    ctx.extra["rule"] = (
        "per group (pairings of 8.2.0/8.3.0 with score 1.1.0/2.0.0, testlib 2.x/3.0.0, same-prefix merges, three-way "
        "groups, several prefix assignments) and per member: random annotations over that member's vocabulary (known tags "
        "in short/long/partial/case spellings, values with units, extensions, invalid-parent extensions, unknown tags, "
        "groups, Onset/Def/Definition/Duration/Event-context constructs, misplaced and repeated items), every tag prefixed "
        "with the member's prefix; + bad prefixes, generated version lists, refused loads, merges of every partnered "
        "library and of generated libraries; non-trivial = prefixed or multi-tag annotation")
    tmp = tempfile.mkdtemp(prefix="hv_c13_")
    try:
        run_versions(ctx)
        run_prefix_syntax(ctx, hed)
        run_refusals(ctx, hed[2])
        run_load_matrix(ctx, hed[2])
        run_merge(ctx, hed, from_string, tmp)
        synthetic_libs(ctx, from_string, hed[2], tmp)
        synthetic_sections(ctx, from_string, hed[2])
        synthetic_required(ctx, hed, from_string, HedSchemaGroup)
        case_collision(ctx, hed)
        capitalisation_probe(ctx, hed)
        generation_probe(ctx, hed)
        groups = QUICK_GROUPS + (MORE_GROUPS if not ctx.quick() else MORE_GROUPS[:1])
        run_group_validate(ctx, GV_UNICODE_QUICK, (120 if ctx.quick() else 1000), hed)
        merged_member_vocab(ctx, GV_MERGED_QUICK[1][1])
        run_group_validate(ctx, GV_MERGED_QUICK, (150 if ctx.quick() else 1200), hed)
        for k, members in enumerate(GV_GROUPS):
            if ctx.quick() and k >= 3 + (ctx.seed % 2):
                break
            run_group_validate(ctx, members, (200 if ctx.quick() else 1500), hed)
        for members in UNICODE_GROUPS_QUICK + ([] if ctx.quick() else UNICODE_GROUPS_MORE):
            run_group(ctx, members, (300 if ctx.quick() else 1500) // len(members), hed)
        for members in MERGED_PREFIX_QUICK + ([] if ctx.quick() else MERGED_PREFIX_MORE):
            run_group(ctx, members, (500 if ctx.quick() else 2500) // len(members), hed)
        for members in groups:
            full = members in QUICK_GROUPS
            if ctx.quick():
                n = 1500 if full else 300
            else:
                n = 7000 if full else 2500
            run_group(ctx, members, n // len(members), hed)
    finally:
        shutil.rmtree(tmp, ignore_errors=True)


def replay(ctx, rec):
    hed = hed_api()
    HedString, HedTag, load_schema_version, GroupValidator = hed
    case = rec.get("case") or (rec.get("disagreements") or [{}])[0].get("case")
    if not case:
        print("nothing to replay (obligation-only record):", rec.get("broken_obligations"))
        return
    if "prefix" in case and "group" not in case and "items" not in case:
        from hed.validator.util.char_util import CharValidator
        import copy
        ns = case["prefix"] if case["prefix"].endswith(":") else case["prefix"] + ":"
        sc = copy.copy(load_schema_version("8.3.0"))
        try:
            sc.set_schema_prefix(ns)
            loaded = True
        except Exception as e:
            loaded = False
        tag = HedTag(ns + "Red", sc if loaded else load_schema_version("8.3.0"))
        flagged = bool(CharValidator._check_invalid_prefix_issues(tag))
        m = ctx.model.batch([{"op": "c13.prefix", "ns": ns, "alpha": alpha_data([ns])}])[0]
        print("prefix:", ns, "loads:", loaded, "flagged on its tag:", flagged, "model:", m)
        if (m["set"] != "INVALID_LIBRARY_PREFIX") != loaded or m["issue"] != flagged:
            ctx.disagree("setPrefix/prefixIssue = set_schema_prefix/_check_invalid_prefix_issues", case, m, [loaded, flagged])
        if loaded and flagged:
            ctx.violation("loaded-prefix-reported-on-its-own-tag", case, "TAG_NAMESPACE_PREFIX_INVALID")
        if loaded and case.get("text", "").startswith(ns):
            tg, t0 = HedTag(case["text"], sc), HedTag(case["text"][len(ns):], load_schema_version("8.3.0"))
            print("resolves to:", None if tg._schema_entry is None else tg._schema_entry.name, "| unprefixed:", t0._schema_entry.name)
            if tg._schema_entry is None or tg._schema_entry.name != t0._schema_entry.name or tg.short_tag != ns + t0.short_tag:
                ctx.violation("prefixed-spelling-resolves-differently-from-unprefixed", case,
                              None if tg._schema_entry is None else tg._schema_entry.name)
        return
    if "gv_group" in case:
        from harness.props import c01
        c01.install_recorder()
        members = [tuple(x) for x in case["gv_group"]]
        group = load_group(load_schema_version, members)
        chars = sorted({c for c in case["text"] if ord(c) > 127})
        mm = [dict(c01_vocab(n).payload(chars), **c01.detect_variant(), ns=p, **member_meta(c01_vocab(n))) for p, n in members]
        m = ctx.model.batch([{"op": "c13.validate", "members": mm, "cases": [{"text": case["text"], "ph": case["ph"]}]}])[0]["answers"][0]
        impl, exc = c01.impl_validate(HedString, group, case["text"], case["ph"])
        mine = sorted((c01.canon_model(i) for i in m.get("issues", [])), key=json.dumps)
        print("model:", json.dumps(mine), "\nimpl: ", json.dumps(impl), exc)
        if not m.get("mixed") and exc is None and mine != impl:
            ctx.disagree("GroupValidate.validate = HedString(text, group).validate (complete issue list)", case, mine, impl)
        return
    if "load_versions" in case:
        vs = case["load_versions"]
        p = vs[0][:vs[0].index(":") + 1] if ":" in vs[0] else ""
        a, b = vs[0][len(p):], vs[1][len(p):]
        m = ctx.model.batch([{"op": "c13.load", "first": source_of(a), "rest": [source_of(b)]}])[0]
        print("versions:", vs, "expected:", expected_pair(a, b), "model:", m.get("err", "loads"))
        check_pair(ctx, load_schema_version, a, b, p, m)
        return
    if "versions" in case and isinstance(case["versions"], list):
        m = ctx.model.batch([{"op": "c13.versions", "versions": case["versions"]}])[0]
        r = impl_versions(case["versions"])
        print("model:", json.dumps(m), "\nimpl: ", json.dumps(r))
        m2 = {"ok": sorted(m["ok"])} if "ok" in m else {"err": m["err"]}
        if m2 != r:
            ctx.disagree("parseVersionList = parse_version_list", case, m2, r)
        return
    if "group" in case and "items" in case:
        members = [tuple(x) for x in case["group"]]
        group = load_group(load_schema_version, members)
        p = case["prefix"]
        alone = load_alone(load_schema_version, dict(members)[p])
        cg = codes_of(HedString, render(case["items"], p), group)
        ca = codes_of(HedString, render(case["items"], ""), alone)
        print("text:", render(case["items"], p), "\ngroup:", cg, "\nalone:", ca)
        if cg != ca:
            sig = SIG_CASE if len({q.casefold() for q, _ in members}) < len(members) and only_extra_not_unique(cg, ca) else (
                SIG_CAP if p and explained_by_capitalisation(HedString, render(case["items"], p), group, cg, ca) else (
                    SIG_GEN if explained_by_generation(cg, ca, render(case["items"], ""), group.schema_83_props, alone.schema_83_props) else None))
            ctx.violation("prefixed-in-group != unprefixed-alone", case, {"group": cg, "alone": ca}, signature=sig)
        return
    if "group" in case and "text" in case:
        members = [tuple(x) for x in case["group"]]
        group = load_group(load_schema_version, members)
        m = ctx.model.batch([{"op": "c13.find", "members": model_members(ctx, members), "texts": [case["text"]],
                              "alpha": alpha_data([case["text"]])}])[0]["results"][0]
        r = impl_find(HedTag, group, case["text"])
        print("model:", json.dumps(canon_find(m)), "\nimpl: ", json.dumps(r), "\ncodes:", codes_of(HedString, case["text"], group))
        if canon_find(m) != r:
            ctx.disagree("Group.find = HedTag lookup in HedSchemaGroup", case, canon_find(m), r)
        p = next((q for q, _ in members if q and case["text"].startswith(q)), "")
        if p:
            r0 = impl_find(HedTag, load_alone(load_schema_version, dict(members)[p]), case["text"][len(p):])
            if "err" in r0:
                want = {"err": r0["err"], "a": None if r0["a"] is None else r0["a"] + len(p),
                        "b": None if r0["b"] is None else r0["b"] + len(p)}
            else:
                want = dict(r0, ns=p, short=p + r0["short"], long=p + r0["long"])
            print("unprefixed alone:", json.dumps(r0))
            if want != r:
                ctx.violation("prefixed-spelling-resolves-differently-from-unprefixed", case, {"prefixed": r, "unprefixed": r0})
        return
    print("no single-case replay for this record; re-run ./check C13 with VERIF_SEED =", rec.get("seed"))
