"""C02 — Parsing is total and the parse tree mirrors the source text.

Correspondence: `HedString.split_hed_string`, `HedString(...)` (tree, printed form) against
`Tok.split`, `Tree.build`, `Tree.printOrg`, and the validator's parenthesis rule against
`Paren.mismatch`.  Direct oracle: the property's clauses re-derived from the implementation's own
spans (DESIGN.md section 7, C02).
"""
import itertools
import json

THEOREMS = [
    "HedVerif.C02.no_bad",
    "HedVerif.C02.tiling",
    "HedVerif.C02.build_ok_iff_balanced",
    "HedVerif.C02.unbalanced_empty",
    "HedVerif.C02.mismatch_reported",
    "HedVerif.C02.count_only_counterexample",
    "HedVerif.C02.nesting_depth",
    "HedVerif.C02.nesting_depth_count",
    "HedVerif.C02.nesting_group_span",
    "HedVerif.C02.tags_are_maximal_trimmed_runs",
    "HedVerif.C02.roundtrip_original",
    "HedVerif.C02.roundtrip_form",
    "HedVerif.C02.reparse_original",
    "HedVerif.C02.print_is_render",
]
BUDGET = {"quick": 900, "thorough": 3600}
ALPHA = "a ,()/"


def ref_balanced(s):
    d = 0
    for ch in s:
        if ch == "(":
            d += 1
        elif ch == ")":
            d -= 1
            if d < 0:
                return False
    return d == 0


def ref_tags(s):
    """one tag per maximal run of non-delimiter characters that contains a non-blank, trimmed of U+0020"""
    out, i, n = [], 0, len(s)
    while i < n:
        if s[i] in ",()":
            i += 1
            continue
        j = i
        while j < n and s[j] not in ",()":
            j += 1
        a, b = i, j
        while a < b and s[a] == " ":
            a += 1
        while b > a and s[b - 1] == " ":
            b -= 1
        if a < b:
            out.append((a, b))
        i = j
    return out


def codes_of(ctx, hs):
    """codes of validate(); an exception inside validation is not C02's clause (it is C01/C07's) - counted"""
    try:
        return [i["code"] for i in hs.validate()]
    except Exception as e:
        ctx.count(f"validate-raised-{type(e).__name__}")
        return None


def tree_of(group, HedTag):
    out = []
    for ch in group.children:
        if isinstance(ch, HedTag):
            out.append(["t", ch.span[0], ch.span[1], ch.org_tag])
        else:
            out.append(["g", ch.span[0], ch.span[1], tree_of(ch, HedTag)])
    return out


def strip_spans(tree):
    return [[n[0], n[3]] if n[0] == "t" else ["g", strip_spans(n[3])] for n in tree]


def oracle(ctx, s, hs, tree, schema, HedString, HedTag, validate=True):
    """The property's clauses on the implementation's own output. Returns first failed clause or None."""
    bal = ref_balanced(s)
    if not bal:
        if tree:
            return "unbalanced-tree-not-empty"
        if validate and schema is not None:
            codes = codes_of(ctx, hs)
            if codes is not None and "PARENTHESES_MISMATCH" not in codes:
                return "unbalanced-no-mismatch-reported"
        return None
    # tags = maximal runs, trimmed; org text = slice
    flat = []

    def walk(nodes, depth, out):
        for n in nodes:
            if n[0] == "t":
                out.append((n[1], n[2], n[3], depth))
            else:
                if not (s[n[1]] == "(" and s[n[2] - 1] == ")"):
                    out.append(("badgroup", n[1], n[2]))
                    return
                # matching parenthesis
                d = 0
                for k in range(n[1], n[2]):
                    if s[k] == "(":
                        d += 1
                    elif s[k] == ")":
                        d -= 1
                        if d == 0 and k != n[2] - 1:
                            out.append(("badmatch", n[1], n[2]))
                            return
                walk(n[3], depth + 1, out)
    walk(tree, 0, flat)
    if any(f[0] in ("badgroup", "badmatch") for f in flat if isinstance(f[0], str)):
        return "group-span-not-paren-to-matching-paren"
    spans = [(a, b) for a, b, _, _ in flat]
    if spans != ref_tags(s):
        return "tags-not-maximal-trimmed-runs"
    for a, b, txt, depth in flat:
        if txt != s[a:b]:
            return "org-tag-not-source-slice"
        if depth != s[:a].count("(") - s[:a].count(")"):
            return "nesting-not-paren-depth"
    # printing in original form and re-parsing gives an equal tree
    printed = str(hs) if schema is None else hs.get_as_original()
    hs2 = HedString(printed, schema)
    if strip_spans(tree_of(hs2, HedTag)) != strip_spans(tree):
        return "reparse-original-differs"
    if schema is not None:
        for form in ("get_as_short", "get_as_long"):
            p1 = getattr(hs, form)()
            hs3 = HedString(p1, schema)
            if getattr(hs3, form)() != p1 or len(hs3.get_all_tags()) != len(hs.get_all_tags()):
                return f"reparse-{form}-differs"
            # "... and re-parsing yields an equal tree": same shape, and every tag equal (HedTag.__eq__) to the tag at
            # the same place of the original tree
            if strip_texts(tree_of(hs3, HedTag)) != strip_texts(tree):
                return f"reparse-{form}-shape-differs"
            if not all(t3 == t for t3, t in zip(hs3.get_all_tags(), hs.get_all_tags())):
                return f"reparse-{form}-tags-not-equal"
    return None


def strip_texts(tree):
    """shape of a tree_of() result: nesting only"""
    return [strip_texts(n[3]) if n[0] == "g" else "t" for n in tree]


def signature(s, clause):
    return None


def compare_case(ctx, s, mtok, mparse, schema, HedString, HedTag, check_tok=True, validate=True):
    """Run implementation on s, compare with model answers, run oracle."""
    try:
        toks = [[bool(t[0]), t[1][0], t[1][1]] for t in HedString.split_hed_string(s)]
        hs = HedString(s, schema)
        tree = tree_of(hs, HedTag)
        printed = hs.get_as_original()
    except Exception as e:  # "never raises"
        ctx.violation("constructor-raised", {"text": s}, f"{type(e).__name__}: {e}")
        return
    has_delim = any(c in ",()" for c in s)
    has_tag = any(t[0] for t in toks)
    ctx.case(s, nontrivial=has_delim and has_tag)
    ctx.count("balanced" if ref_balanced(s) else "unbalanced")
    if check_tok and mtok is not None:
        if mtok["tokens"] != toks or mtok["bad"]:
            ctx.disagree("Tok.split = split_hed_string", {"text": s}, mtok, toks)
    if mparse is not None:
        if mparse["tree"] != tree or mparse["str"] != printed:
            ctx.disagree("Tree.build/printOrg = HedString tree/str", {"text": s},
                         {"tree": mparse["tree"], "str": mparse["str"]}, {"tree": tree, "str": printed})
        if "mismatch" in mparse and validate and schema is not None:
            codes = codes_of(ctx, hs)
            if codes is not None and mparse["mismatch"] != ("PARENTHESES_MISMATCH" in codes):
                ctx.disagree("Paren.mismatch = PARENTHESES_MISMATCH reported", {"text": s}, mparse["mismatch"], codes)
    cl = oracle(ctx, s, hs, tree, schema, HedString, HedTag, validate=validate)
    if cl:
        ctx.violation(cl, {"text": s}, {"tree": tree}, signature(s, cl))


def fixture_strings(REPO, limit):
    out = []
    for base in ("tests/data", "spec_tests"):
        for p in sorted((REPO / base).rglob("*.json")):
            try:
                j = json.loads(p.read_text())
            except Exception:
                continue
            st = [j]
            while st and len(out) < limit:
                x = st.pop()
                if isinstance(x, dict):
                    st.extend(x.values())
                elif isinstance(x, list):
                    st.extend(x)
                elif isinstance(x, str) and 0 < len(x) < 300:
                    out.append(x)
    return out


def run(ctx):
    from harness.common import REPO
    from hed import HedString, HedTag, load_schema_version
    schema = load_schema_version("8.3.0")
    ctx.extra["rule"] = ("exhaustive strings over {a,blank,',','(',')','/'} up to the tier's length, random strings over "
                         "real tags/delimiters/odd characters, fixture strings; non-trivial = has a delimiter and a tag")

    def run_batch(strings, schema_, validate):
        reqs = []
        for s in strings:
            reqs.append({"op": "c02.tok", "text": s})
            reqs.append({"op": "c02.parse", "text": s})
        ans = ctx.model.batch(reqs)
        for k, s in enumerate(strings):
            compare_case(ctx, s, ans[2 * k], ans[2 * k + 1], schema_, HedString, HedTag, validate=validate)
        ctx.check_time()

    # corpus first
    corpus = [")(", "Red)(Blue", "", " ", "a", "(a)", "((a),b) , c", "a,,b", "( )", "a (b)", " a , ( b ) ",
              "Red/", "(Red/, Blue)", "Event/Sensory-event/", "Label/", "(Label/ , (Item/Object/))"]
    run_batch(corpus, schema, True)
    # exhaustive sweep: tokens for all lengths, trees/validation for shorter ones
    nmax = 7 if ctx.quick() else 9
    tmax = 5 if ctx.quick() else 7
    for n in range(0, nmax + 1):
        strings = ["".join(t) for t in itertools.product(ALPHA, repeat=n)]
        for lo in range(0, len(strings), 200000):
            chunk = strings[lo:lo + 200000]
            if n <= tmax:
                run_batch(chunk, schema, n <= 5)     # HedString needs a schema for any tag; validation only up to length 5
            else:
                ans = ctx.model.batch([{"op": "c02.tok", "text": s} for s in chunk])
                for s, a in zip(chunk, ans):
                    toks = [[bool(t[0]), t[1][0], t[1][1]] for t in HedString.split_hed_string(s)]
                    ctx.evaluations += 1
                    if a["tokens"] != toks or a["bad"]:
                        ctx.disagree("Tok.split = split_hed_string", {"text": s}, a, toks)
                ctx.count("tok-only", len(chunk))
                ctx.check_time()
    ctx.extra["exhaustive_token_length"] = nmax
    ctx.extra["exhaustive_tree_length"] = tmax
    # random strings over real vocabulary and odd characters
    pieces = ["Red", "Blue", "Sensory-event", "Label/x y", "Duration/3 s", "Def/Abc", "Item/Object", "Green ",
              " ", "  ", ",", "(", ")", "/", "#", "{", "}", ":", "\t", " ", "é", "中", "~", "[", "]", "a", "B c",
              "(Red,Blue)", "((", "))", ", ,", "Event/Sensory-event", "sc:Red", "Onset", " ",
              "Red/", "Event/Sensory-event/", "Label/", "red/", "Item/Object/", "Duration/"]
    nrand = 3000 if ctx.quick() else 60000
    rnd = []
    for _ in range(nrand):
        k = ctx.rng.randint(1, 14)
        rnd.append("".join(ctx.rng.choice(pieces) for _ in range(k)))
    for lo in range(0, len(rnd), 5000):
        run_batch(rnd[lo:lo + 5000], schema, True)
    ctx.samples.extend(rnd[:4])
    fx = fixture_strings(REPO, 1500 if ctx.quick() else 20000)
    for lo in range(0, len(fx), 5000):
        run_batch(fx[lo:lo + 5000], schema, True)
    ctx.count("fixture-strings", len(fx))


def replay(ctx, rec):
    from hed import HedString, HedTag, load_schema_version
    schema = load_schema_version("8.3.0")
    case = rec.get("case") or (rec.get("disagreements") or [{}])[0].get("case")
    if not case:
        print("nothing to replay (obligation-only record):", rec.get("broken_obligations"))
        return
    s = case["text"]
    a = ctx.model.batch([{"op": "c02.tok", "text": s}, {"op": "c02.parse", "text": s}])
    compare_case(ctx, s, a[0], a[1], schema, HedString, HedTag)
    print("replayed", json.dumps(case), "model:", json.dumps(a[1])[:300])
