"""C19 — The schema cache never serves or keeps a torn schema file.

Correspondence (`fsim`, in this file): the REAL code of the tree under test
(`hed_cache.cache_local_versions`, `load_schema_version`, `hed_cache.cache_xml_versions`, `CacheLock`)
runs in forked children against a scratch cache directory.  Every system call on the shared directory
(`open` of the timestamp / lock / a cache file, `os.listdir`, `os.path.exists`, `tempfile.mkstemp`, the
chunks of a file copy, `os.replace`, `flock`, `funlock`) is wrapped: the child announces it to the
scheduler (this process) and blocks until it is told to go — or to die (`os._exit`).  The scheduler
follows a schedule chosen by the harness, so any interleaving at primitive granularity and any crash
point is reproducible.  `time.time` is a per-process logical clock; the lock's retry loop runs on a
logical clock too (real `flock`, no real waiting).

Loaders load any bundled version or a version list (one model `load v` per `_load_schema_version_sub` call);
`get_library_data` runs against the library_data sub-folder (a `peek` / `populate` / `refresh 0` sequence of
the model); the timestamp write is two primitives (truncate, write).

Every primitive has two pause points: before its system call and right after it returned (before any
user-space continuation: flush, close, next statement), so a kill or a context switch "inside" a copy - e.g.
after the rename and before a buffered writer is closed - is a schedule.  Reads (timestamp, cache file) are
open+read in one primitive; what is hashed is what is served.  Each process reaches the cache directory by its
real path or through a symlink to it (`alias`).  Static ties: the source-level file-name pattern accepts all
bundled names and no temporary name; `_check_if_url` = `Cache.checkIfUrl` on generated strings.

Direct oracle = the property on the implementation's observables (loader outcome + hash of what it
read, final files vs bundled bytes, overlap of `with CacheLock` intervals, the CacheException branch,
the refresh interval).  Model comparison = the realised schedule is replayed on `Cache.safe`
(lean/HedVerif/Model/Cache.lean) and the trace of primitives, final directory and process outcomes
are compared.
"""
import ast
import hashlib
import io
import itertools
import json
import os
import re
import select
import shutil
import signal
import tempfile
import time as _time

THEOREMS = [
    "HedVerif.C19.no_torn",
    "HedVerif.C19.load_ok",
    "HedVerif.C19.mutex",
    "HedVerif.C19.mutex_overlapUpTo",
    "HedVerif.C19.lock_timeout",
    "HedVerif.C19.lock_busy",
    "HedVerif.C19.refresh_skipped",
    "HedVerif.C19.refresh_skipped_after_completed",
    "HedVerif.C19.dirty_sound",
    "HedVerif.C19.reach_inv",
    "HedVerif.C19.reach_inv2",
    "HedVerif.C19.current_counterexamples",
    "HedVerif.C19.reach_inv3",
    "HedVerif.C19.populate_complete",
    "HedVerif.C19.refresh_complete",
    "HedVerif.C19.refresh_no_torn",
    "HedVerif.C19.peek_no_torn",
    "HedVerif.C19.current_timestamp_counterexample",
    "HedVerif.C19.current_direct_read_counterexample",
    "HedVerif.C19.lock_excludes_per_directory",
    "HedVerif.C19.pathlock_counterexample",
    "HedVerif.C19.copy_order",
    "HedVerif.C19.rename_only_after_complete",
    "HedVerif.C19.buffered_tail_counterexample",
    "HedVerif.C19.listed_versions_are_final_files",
    "HedVerif.C19.unanchored_counterexample",
    "HedVerif.C19.load_uses_cache_or_bundled",
    "HedVerif.C19.refresh_not_skipped_outside",
    "HedVerif.C19.checkIfUrl_spec",
    "HedVerif.C19.checkIfUrl_abs",
]
BUDGET = {"quick": 600, "thorough": 2400}

SMALL = ["HED8.3.0.xml", "HED8.2.0.xml", "HED_testlib_1.0.2.xml"]
T0 = 1_000_000          # logical clock of processes that are not about the refresh interval
STEP_TIMEOUT = 120      # seconds the scheduler waits for a child to reach its next primitive


# ----------------------------------------------------------------------------- constants from the source

def source_constants(repo):
    """CACHE_TIME_THRESHOLD and the lock timeout, read with `ast` (never by importing hed)."""
    tree = ast.parse((repo / "hed/schema/hed_cache_lock.py").read_text())
    thr = timeout = None
    for node in ast.walk(tree):
        if isinstance(node, ast.Assign) and isinstance(node.targets[0], ast.Name) \
                and node.targets[0].id == "CACHE_TIME_THRESHOLD":
            thr = eval(compile(ast.Expression(node.value), "<thr>", "eval"), {})
        if isinstance(node, ast.Call) and getattr(node.func, "attr", "") == "Lock":
            for kw in node.keywords:
                if kw.arg == "timeout":
                    timeout = ast.literal_eval(kw.value)
    return thr, timeout


def version_pattern_source(repo):
    """HED_VERSION_FINAL of hed_cache.py, evaluated from the source (string constants and their concatenations)"""
    tree = ast.parse((repo / "hed/schema/hed_cache.py").read_text())
    vals = {}
    for node in tree.body:
        if isinstance(node, ast.Assign) and len(node.targets) == 1 and isinstance(node.targets[0], ast.Name):
            try:
                vals[node.targets[0].id] = eval(compile(ast.Expression(node.value), "<const>", "eval"), {}, dict(vals))
            except Exception:
                pass
    return vals.get("HED_VERSION_FINAL")


# ----------------------------------------------------------------------------- environment of one run

class Env:
    """Read-only fixtures shared by all schedules: bundle folders (symlinks to the tree's schema_data),
    the fake remote for refreshes (file:// URLs), bundled bytes and hashes."""

    def __init__(self, repo, root, chunks):
        self.repo = str(repo)
        self.root = root
        self.chunks = chunks
        src = os.path.join(self.repo, "hed/schema/schema_data")
        self.all_names = sorted(n for n in os.listdir(src) if os.path.isfile(os.path.join(src, n)))
        self.bytes = {n: open(os.path.join(src, n), "rb").read() for n in self.all_names}
        self.sha = {n: hashlib.sha1(b).hexdigest() for n, b in self.bytes.items()}
        self.by_sha = {h: n for n, h in self.sha.items()}
        self.bundles = {}
        self.lib_names = sorted(os.listdir(os.path.join(src, "library_data")))
        for n in self.lib_names:
            self.bytes[n] = open(os.path.join(src, "library_data", n), "rb").read()
            self.sha[n] = hashlib.sha1(self.bytes[n]).hexdigest()
        self.by_sha = {h: n for n, h in self.sha.items()}
        for key, names in (("small", SMALL), ("full", self.all_names)):
            d = os.path.join(root, "bundle_" + key)
            os.makedirs(os.path.join(d, "library_data"))
            for n in names:
                os.symlink(os.path.join(src, n), os.path.join(d, n))
            for n in self.lib_names:
                os.symlink(os.path.join(src, "library_data", n), os.path.join(d, "library_data", n))
            self.bundles[key] = (d, list(names))
        # the library_data sub-folder: same copy path (`_copy_installed_folder_to_cache(folder, "library_data")`),
        # its own lock and timestamp; `root` = what INSTALLED_CACHE_LOCATION is set to
        self.bundles["lib"] = (os.path.join(self.bundles["full"][0], "library_data"), list(self.lib_names))
        self.installed = {"small": self.bundles["small"][0], "full": self.bundles["full"][0],
                          "lib": self.bundles["full"][0]}
        # fake remote: one "library folder" per file, GitHub contents-API listing with the git blob sha
        self.remote = os.path.join(root, "remote")
        os.makedirs(os.path.join(self.remote, "files"))
        for k, n in enumerate(SMALL):
            b = self.bytes[n]
            with open(os.path.join(self.remote, "files", n), "wb") as f:
                f.write(b)
            gitsha = hashlib.sha1(b"blob %d\0" % len(b) + b).hexdigest()
            os.makedirs(os.path.join(self.remote, f"lib{k}"))
            with open(os.path.join(self.remote, f"lib{k}", "hedxml"), "w") as f:
                json.dump([{"type": "file", "name": n, "sha": gitsha,
                            "download_url": "file://" + os.path.join(self.remote, "files", n)}], f)

    def chunk_bounds(self, n):
        size = len(self.bytes[n])
        return [size * k // self.chunks for k in range(self.chunks + 1)]


ENV = None  # set in run(); inherited by forked workers


# ----------------------------------------------------------------------------- child side

class _Chan:
    def __init__(self, rfd, wfd):
        self.rfd, self.wfd, self.buf = rfd, wfd, b""

    def send(self, obj):
        os.write(self.wfd, (json.dumps(obj) + "\n").encode())

    def recv(self):
        while b"\n" not in self.buf:
            d = os.read(self.rfd, 4096)
            if not d:
                os._exit(70)   # scheduler is gone
            self.buf += d
        line, self.buf = self.buf.split(b"\n", 1)
        return line.decode()


def _child(pid, proc, spec, cache, chan):
    """Runs in the forked child: install the wrappers, run the real code, report, exit."""
    import builtins
    import time
    import urllib.request
    from urllib.error import URLError
    import portalocker
    from portalocker import portalocker as pl_mod
    from hed.schema import hed_cache, hed_cache_lock, hed_schema_io
    from hed.schema.schema_io import schema_util
    env = ENV
    bundle_dir, order = env.bundles[spec["bundle"]]
    cache_root = os.path.realpath(cache)
    # the path this process uses for the directory: its real path or a symlink to it
    cache_arg = cache_root if not proc.get("alias") else os.path.join(os.path.dirname(cache_root), "cache_alias")
    cache = os.path.join(cache_root, "library_data") if spec["bundle"] == "lib" else cache_root
    libdata = proc["kind"] == "libdata"
    ts_file = os.path.join(cache, hed_cache_lock.TIMESTAMP_FILENAME)
    lock_file = os.path.join(cache, "cache_lock.lock")
    index = {n: k for k, n in enumerate(order)}
    tmp_index = {}

    def prim(what, i=-1, j=-1):
        chan.send(["P", what, i, j])
        if chan.recv() == "c":
            os._exit(77)

    def post():
        """pause again right after the system call has returned, before any user-space continuation (flushes,
        closes, the next statement): a kill or a context switch here is 'inside' the primitive's caller"""
        chan.send(["Q"])
        if chan.recv() == "c":
            os._exit(77)

    def note(*a):
        chan.send(["N"] + list(a))

    def idx_of(path):
        b = os.path.basename(path)
        if b in index:
            return index[b]
        for n, k in index.items():
            if b.startswith(n + "."):
                return k
        return tmp_index.get(b, -1)

    def in_cache(path):
        try:
            p = os.path.realpath(os.fspath(path))
        except TypeError:
            return None
        return p if os.path.dirname(p) == cache else None

    real_open, real_listdir, real_exists = builtins.open, os.listdir, os.path.exists
    real_mkstemp, real_replace = tempfile.mkstemp, os.replace
    real_lock, real_unlock = pl_mod.lock, pl_mod.unlock

    def w_open(file, mode="r", *a, **k):
        p = in_cache(file) if isinstance(file, (str, bytes, os.PathLike)) else None
        if p is not None:
            if p == ts_file:
                if "r" in mode:
                    prim("readTs")   # open + read as one primitive: the content is what the file holds now
                    try:
                        with real_open(file, mode, *a, **k) as f:
                            return io.StringIO(f.read())
                    finally:
                        post()
                else:   # _write_last_cached_time: open(..., 'w') truncates, the number is written afterwards
                    prim("truncTs")
                    try:
                        return _TsFile(real_open(file, mode, *a, **k))
                    finally:
                        post()
            elif p == lock_file:
                prim("openLock")
            elif "r" in mode and "+" not in mode:
                if libdata:
                    note("seg", "peek", os.path.basename(p))
                prim("read", idx_of(p))   # open + read as one primitive (what is served is what is hashed)
                try:
                    try:
                        with real_open(p, "rb") as f:
                            data = f.read()
                    except OSError:
                        note("readhash", "cache", None, os.path.basename(p))
                        raise
                    note("readhash", "cache", hashlib.sha1(data).hexdigest(), os.path.basename(p))
                    if "b" in mode:
                        return io.BytesIO(data)
                    return io.StringIO(data.decode(k.get("encoding") or "utf-8"))
                finally:
                    post()
            else:
                prim("create", idx_of(p))
            try:
                return real_open(file, mode, *a, **k)
            finally:
                post()
        elif isinstance(file, (str, os.PathLike)) and os.path.dirname(os.path.abspath(file)) == bundle_dir \
                and "r" in mode:
            with real_open(file, "rb") as f:
                note("readhash", "bundled", hashlib.sha1(f.read()).hexdigest(), os.path.basename(str(file)))
        return real_open(file, mode, *a, **k)

    class _TsFile:
        def __init__(self, f):
            self.f = f

        def write(self, data):
            prim("writeTs")
            try:
                r = self.f.write(data)
                self.f.flush()
                return r
            finally:
                post()

        def __enter__(self):
            return self

        def __exit__(self, *a):
            self.f.close()
            return False

        def __getattr__(self, n):
            return getattr(self.f, n)

    def w_listdir(path="."):
        p = os.path.realpath(os.fspath(path))
        if p == cache:
            prim("list")
            try:
                return sorted(real_listdir(path))
            finally:
                post()
        if p == bundle_dir:
            return list(order) + ([] if spec["bundle"] == "lib" else ["library_data"])
        return real_listdir(path)

    def w_exists(path):
        if in_cache(path) is not None:
            prim("exists", idx_of(path))
            try:
                return real_exists(path)
            finally:
                post()
        return real_exists(path)

    def w_mkstemp(suffix=None, prefix=None, dir=None, text=False):
        if dir is not None and os.path.realpath(dir) == cache:
            prim("mktemp", idx_of(os.path.join(cache, (prefix or "") + "x")))
            try:
                return real_mkstemp(suffix=suffix, prefix=prefix, dir=dir, text=text)
            finally:
                post()
        return real_mkstemp(suffix=suffix, prefix=prefix, dir=dir, text=text)

    def chunked_copy(src, dst, *a, **k):
        """shutil.copy / copyfile at chunk granularity: open('wb') then one write per chunk"""
        with real_open(src, "rb") as f:
            data = f.read()
        if in_cache(dst) is None:
            with real_open(dst, "wb") as f:
                f.write(data)
            return dst
        name = env.by_sha.get(hashlib.sha1(data).hexdigest())
        i = index.get(name, -1)
        tmp_index[os.path.basename(dst)] = i
        bounds = [len(data) * c // env.chunks for c in range(env.chunks + 1)]
        prim("create", i)
        try:
            fd = os.open(dst, os.O_WRONLY | os.O_CREAT | os.O_TRUNC, 0o644)
        finally:
            post()
        for j in range(env.chunks):
            prim("append", i, j)
            try:
                os.pwrite(fd, data[bounds[j]:bounds[j + 1]], bounds[j])
            finally:
                post()
        prim("close", i)
        try:
            os.close(fd)
        finally:
            post()
        return dst

    def w_replace(src, dst, **k):
        if in_cache(dst) is not None:
            prim("rename", idx_of(dst))
            try:
                return real_replace(src, dst, **k)
            finally:
                post()
        return real_replace(src, dst, **k)

    held = [False]

    def w_lock(fh, flags):
        prim("tryLock")
        try:
            real_lock(fh, flags)
            held[0] = True
        except BaseException as e:
            note("lock-failed", type(e).__name__)
            raise
        finally:
            post()

    def w_unlock(fh):
        if held[0]:
            prim("unlock")
            held[0] = False
            try:
                return real_unlock(fh)
            finally:
                post()
        return real_unlock(fh)

    clock = [0.0]
    time.time = lambda: float(proc["now"])
    time.perf_counter = lambda: clock[0]
    time.monotonic = lambda: clock[0]
    time.sleep = lambda d: clock.__setitem__(0, clock[0] + max(d, 0))
    builtins.open = w_open
    os.listdir = w_listdir
    os.path.exists = w_exists
    tempfile.mkstemp = w_mkstemp
    shutil.copy = chunked_copy
    shutil.copyfile = chunked_copy
    hed_cache.copyfile = chunked_copy
    os.replace = w_replace
    pl_mod.lock = w_lock
    pl_mod.unlock = w_unlock
    portalocker.lock = w_lock
    portalocker.unlock = w_unlock

    real_urlopen = urllib.request.urlopen

    def offline(url, try_authenticate=True):
        if str(url).startswith("file://"):
            return real_urlopen(url)
        raise URLError("offline (harness)")

    hed_cache.make_url_request = offline
    schema_util.make_url_request = offline

    CL = hed_cache_lock.CacheLock
    o_enter, o_exit = CL.__enter__, CL.__exit__

    def enter(self):
        if libdata:   # get_library_data: one lock round = one populate / one (empty) refresh of the model
            note("seg", "refresh" if self.write_time else "populate", 0)
        try:
            r = o_enter(self)
        except BaseException as e:
            note("enter-raised", type(e).__name__)
            raise
        note("enter")
        return r

    def exit_(self, *a):
        try:
            return o_exit(self, *a)
        finally:
            note("exit")

    CL.__enter__, CL.__exit__ = enter, exit_

    o_sub = hed_schema_io._load_schema_version_sub

    def sub(xml_version, *a, **k):
        """one version lookup + load = one `load v` process of the model"""
        v = str(xml_version)
        note("seg", "load", ("HED_" + v if "_" in v else "HED" + v) + ".xml")
        return o_sub(xml_version, *a, **k)

    hed_schema_io._load_schema_version_sub = sub
    tempfile.tempdir = os.path.join(os.path.dirname(cache_root), "systmp")   # downloads of a killed refresh stay in the scratch
    hed_cache.INSTALLED_CACHE_LOCATION = env.installed[spec["bundle"]]
    hed_cache.HED_CACHE_DIRECTORY = cache_arg
    hed_schema_io._load_schema_version.cache_clear()
    hed_cache.get_library_data.cache_clear()

    out = {}
    try:
        kind = proc["kind"]
        if kind == "populate":
            out["ret"] = hed_cache.cache_local_versions(cache_arg)
        elif kind == "load":
            from hed import load_schema_version
            sch = load_schema_version(proc["ver"])
            out["class"] = "ok"
            out["version"] = sch.get_formatted_version()
            subs = list(sch._schemas.values()) if hasattr(sch, "_schemas") else [sch]
            out["tags"] = [len(x.tags) for x in subs]
        elif kind == "refresh":
            urls = ["file://" + os.path.join(env.remote, f"lib{k}") for k in range(proc["arg"])]
            libs = ["file:///nonexistent-hedverif-remote"] if proc.get("badlib") else []
            out["ret"] = hed_cache.cache_xml_versions(hed_base_urls=urls, hed_library_urls=libs, cache_folder=cache_arg)
        elif kind == "libdata":
            out["data"] = hed_cache.get_library_data(proc.get("lib", "score"), cache_arg)
            out["class"] = "ok"
    except BaseException as e:  # noqa
        out["class"] = "error"
        out["exc"] = type(e).__name__
        out["code"] = str(getattr(e, "code", ""))
        out["msg"] = str(e)[:200]
    chan.send(["D", out])
    os._exit(0)


# ----------------------------------------------------------------------------- scheduler side

class _Kid:
    def __init__(self, pid, ospid, rfd, wfd):
        self.pid, self.ospid, self.rfd, self.wfd = pid, ospid, rfd, wfd
        self.buf = b""
        self.state = "starting"    # pending | done | crashed | died
        self.pending = None
        self.outcome = None
        self.nprims = 0

    def read_msg(self):
        while b"\n" not in self.buf:
            r, _, _ = select.select([self.rfd], [], [], STEP_TIMEOUT)
            if not r:
                raise RuntimeError(f"child {self.pid} made no progress for {STEP_TIMEOUT}s")
            d = os.read(self.rfd, 65536)
            if not d:
                return None
            self.buf += d
        line, self.buf = self.buf.split(b"\n", 1)
        return json.loads(line)


def simulate(spec):
    """Run one schedule on the real code. spec = {bundle, procs:[{kind,arg,now}], script:[pid…],
    order:[pid…], crash:{pid: k}}.  Returns the observation record."""
    env = ENV
    bundle_dir, order_names = env.bundles[spec["bundle"]]
    scratch = tempfile.mkdtemp(prefix="hedverif_c19_")
    cache_root = os.path.join(scratch, "cache")
    os.makedirs(cache_root)
    os.symlink(cache_root, os.path.join(scratch, "cache_alias"))   # a second name for the same directory
    cache = os.path.join(cache_root, "library_data") if spec["bundle"] == "lib" else cache_root
    os.makedirs(os.path.join(scratch, "systmp"))
    kids, log, trace, actions = [], [], [], []
    sizes = {n: len(env.bytes[n]) for n in order_names}
    torn_seen = set()
    ts_at_read = {}
    obs = {}
    nreal = len(spec["procs"])
    cur = list(range(nreal))                 # model pid the real process currently acts as
    segs = {p: [] for p in range(nreal)}     # real loader -> [(model pid, file index)]
    mtrace, mactions = [], []

    def pump(k):
        while True:
            m = k.read_msg()
            if m is None:
                k.state = "died" if k.state != "crashing" else "crashed"
                os.waitpid(k.ospid, 0)
                return
            if m[0] == "N":
                if m[1] == "seg":
                    mp = k.pid if not segs[k.pid] else nreal + sum(max(0, len(v) - 1) for v in segs.values())
                    arg = m[3] if isinstance(m[3], int) else (order_names.index(m[3]) if m[3] in order_names else -1)
                    segs[k.pid].append([mp, m[2], arg, m[3]])
                    cur[k.pid] = mp
                log.append([k.pid] + m[1:])
            elif m[0] == "P":
                k.state, k.pending = "pending", m[1:]
                return
            elif m[0] == "Q":   # the system call of the last primitive has returned; nothing else has run yet
                k.state = "post"
                return
            elif m[0] == "D":
                k.state, k.outcome = "done", m[1]
                os.waitpid(k.ospid, 0)
                return

    def scan():
        for n in (os.listdir(cache) if os.path.isdir(cache) else []):
            if n in sizes:
                try:
                    if os.stat(os.path.join(cache, n)).st_size != sizes[n]:
                        torn_seen.add(n)
                except OSError:
                    pass

    def read_ts():
        try:
            with open(os.path.join(cache, "last_update.txt")) as f:
                return f.read()
        except OSError:
            return None

    def do(pid):
        k = kids[pid]
        if k.state not in ("pending", "post"):
            return False
        crash = spec.get("crash") or {}
        ck = crash.get(str(pid), crash.get(pid))
        segmented = spec["procs"][pid]["kind"] in ("load", "libdata")
        if k.state == "post" and (segmented or ck is None or ck != k.nprims):
            os.write(k.wfd, b"g\n")   # let the caller continue up to its next primitive (or its end)
            pump(k)
            if k.state != "pending":
                return False
        # a kill `crash[pid] = n` hits the process right after its n-th system call returned (n = 0: before the first)
        if ck is not None and ck == k.nprims:
            k.state = "crashing"
            os.write(k.wfd, b"c\n")
            pump(k)
            actions.append([pid, 1])
            mactions.append([cur[pid], 1])
            log.append([pid, "crash"])
            return True
        if k.pending[0] == "readTs":
            ts_at_read.setdefault(pid, []).append(read_ts())
        trace.append([pid] + k.pending)
        mtrace.append([cur[pid]] + k.pending)
        actions.append([pid, 0])
        mactions.append([cur[pid], 0])
        k.nprims += 1
        os.write(k.wfd, b"g\n")
        pump(k)
        log.append([pid, "step", trace[-1][1]])
        scan()
        return True

    try:
        for pid, proc in enumerate(spec["procs"]):
            c2p_r, c2p_w = os.pipe()
            p2c_r, p2c_w = os.pipe()
            ospid = os.fork()
            if ospid == 0:
                try:
                    os.close(c2p_r)
                    os.close(p2c_w)
                    for k in kids:
                        os.close(k.rfd)
                        os.close(k.wfd)
                    devnull = os.open(os.devnull, os.O_WRONLY)
                    os.dup2(devnull, 1)
                    os.dup2(devnull, 2)
                    signal.signal(signal.SIGTERM, signal.SIG_DFL)
                    _child(pid, proc, spec, cache_root, _Chan(p2c_r, c2p_w))
                finally:
                    os._exit(71)
            os.close(c2p_w)
            os.close(p2c_r)
            k = _Kid(pid, ospid, c2p_r, p2c_w)
            kids.append(k)
            pump(k)
        n = len(kids)
        for pid in spec.get("script", []):
            if 0 <= pid < n:
                do(pid)
        order = list(spec.get("order", [])) + [p for p in range(n) if p not in spec.get("order", [])]
        for pid in order:
            while do(pid):
                pass
        # final observation
        files = {}
        for name in sorted(os.listdir(cache) if os.path.isdir(cache) else []):
            p = os.path.join(cache, name)
            if os.path.isdir(p):
                files[name] = ["dir"]
                continue
            b = open(p, "rb").read()
            if name in sizes:
                files[name] = ["final", order_names.index(name), b == env.bytes[name], len(b)]
            elif name in ("last_update.txt", "cache_lock.lock"):
                files[name] = ["meta", b.decode(errors="replace")[:40]]
            else:
                src = next((m for m in order_names if name.startswith(m + ".")), None)
                nm = src
                if nm is None:   # refresh temp: identify by prefix match of the content
                    nm = next((m for m in order_names if env.bytes[m].startswith(b) and b), None)
                k = -1
                if nm is not None:
                    bounds = env.chunk_bounds(nm)
                    k = bounds.index(len(b)) if len(b) in bounds and env.bytes[nm].startswith(b) else -2
                files[name] = ["tmp", order_names.index(nm) if nm else -1, k]
        obs = {"trace": trace, "actions": actions, "mtrace": mtrace, "mactions": mactions, "segs": {str(k): v for k, v in segs.items()},
               "log": log, "files": files,
               "torn_seen": sorted(torn_seen), "ts_at_read": {str(k): v for k, v in ts_at_read.items()},
               "procs": [{"state": k.state, "outcome": k.outcome, "nprims": k.nprims} for k in kids]}
    finally:
        for k in kids:
            if k.state in ("pending", "post", "starting", "crashing"):
                try:
                    os.kill(k.ospid, signal.SIGKILL)
                    os.waitpid(k.ospid, 0)
                except OSError:
                    pass
            for fd in (k.rfd, k.wfd):
                try:
                    os.close(fd)
                except OSError:
                    pass
        shutil.rmtree(scratch, ignore_errors=True)
    return obs


def _sim_safe(spec):
    try:
        return simulate(spec)
    except Exception as e:  # noqa
        return {"harness_error": f"{type(e).__name__}: {e}"}


# ----------------------------------------------------------------------------- oracle

def regions(log):
    """[(pid, start, end, how)] of `with CacheLock` intervals from the global log; overlap pairs."""
    active, overlaps = {}, []
    for pos, e in enumerate(log):
        pid, what = e[0], e[1]
        if what == "enter":
            for q in active:
                if q != pid:
                    overlaps.append([q, pid, pos])
            active[pid] = pos
        elif what in ("exit", "crash") or (what == "step" and len(e) > 2 and e[2] == "unlock"):
            active.pop(pid, None)   # the flock is gone once the unlock call has returned, `__exit__` returns later
    return overlaps


def judge(spec, obs, thr, env, refs=None):
    """The property on the implementation's observables. Returns [(clause, signature, detail)]."""
    out = []
    bundle_dir, names = env.bundles[spec["bundle"]]
    log = obs["log"]
    # 1. no torn file is kept
    for name, f in obs["files"].items():
        if f[0] == "final" and not f[2]:
            out.append(("torn-file-kept", "C19-torn-copy-kept", f"{name} has {f[3]} of {len(env.bytes[name])} bytes"))
    # 2. every completed load returns the bundled schema (whatever it read is the bundled bytes of that file,
    #    the call succeeds, and the result has the version and size of the reference load of that version)
    for pid, (proc, po) in enumerate(zip(spec["procs"], obs["procs"])):
        oc = po["outcome"]
        reads = [e for e in log if e[0] == pid and e[1] == "readhash"]
        if proc["kind"] == "load" and po["state"] == "done":
            bad = [e for e in reads if e[3] != env.sha.get(e[4])]
            if oc.get("class") != "ok":
                sig = "C19-torn-copy-served" if bad else "C19-missing-version-not-loaded"
                if oc.get("exc") == "ValueError":
                    sig = "C19-torn-timestamp-valueerror"
                out.append(("load-failed", sig, f"process {pid} load_schema_version({proc.get('ver')!r}): {oc.get('exc')} "
                                                f"{oc.get('code')} {oc.get('msg', '')[:80]}"))
            elif not reads or bad:
                out.append(("load-different-content", "C19-torn-copy-served",
                            f"process {pid} load_schema_version({proc.get('ver')!r}): read {[(e[4], e[2]) for e in bad or reads]}"))
            else:
                ref = (refs or {}).get(json.dumps(proc.get("ver")))
                if ref is not None and [oc.get("version"), oc.get("tags")] != ref:
                    out.append(("load-different-schema", "C19-load-differs-from-bundled",
                                f"process {pid} load_schema_version({proc.get('ver')!r}) gave {[oc.get('version'), oc.get('tags')]}, "
                                f"the bundled files give {ref}"))
        elif proc["kind"] == "libdata" and po["state"] == "done" and oc.get("class") == "ok":
            want = json.loads(env.bytes["library_data.json"]).get(proc.get("lib", "score"))
            bad = [e for e in reads if e[3] is not None and e[3] != env.sha.get(e[4])]
            gave_up = any(e[0] == pid and e[1] == "enter-raised" and e[2] == "CacheException" for e in log)
            if bad:
                out.append(("library-data-torn-read", "C19-torn-copy-served",
                            f"process {pid} get_library_data read a partial {bad[0][4]}"))
            elif oc.get("data") != want and not (oc.get("data") == {} and gave_up):
                out.append(("library-data-different", "C19-torn-copy-served",
                            f"process {pid} get_library_data gave {str(oc.get('data'))[:80]}, bundled {str(want)[:80]}"))
        elif po["state"] == "done" and oc.get("class") == "error" and proc.get("badlib") and oc.get("exc") == "URLError":
            pass   # observation only (see run()): the network error of an unreachable remote escapes cache_xml_versions
        elif po["state"] == "done" and oc.get("class") == "error":
            out.append(("process-raised", "C19-cache-call-raised", f"process {pid} ({proc['kind']}): {oc.get('exc')} {oc.get('msg', '')[:80]}"))
        elif po["state"] == "died":
            out.append(("process-died", None, f"process {pid} died unexpectedly"))
    # 3. mutual exclusion; giving up with the documented error
    ov = regions(log)
    if ov:
        out.append(("lock-holders-overlap", "C19-lock-not-acquired", f"processes {ov[0][0]} and {ov[0][1]} both inside `with CacheLock` (log position {ov[0][2]})"))
    for e in log:
        if e[1] == "enter-raised" and e[2] != "CacheException":
            sig = "C19-torn-timestamp-valueerror" if e[2] == "ValueError" else "C19-lock-timeout-wrong-error"
            out.append(("lock-failure-not-cache-error", sig, f"process {e[0]}: CacheLock.__enter__ raised {e[2]}"))
    # 4. refresh within the interval is skipped
    for pid, proc in enumerate(spec["procs"]):
        for t in obs["ts_at_read"].get(str(pid), [])[:1]:
            try:
                tv = float(t) if t not in (None, "") else 0.0
            except ValueError:
                continue
            inside = proc["now"] - tv < thr
            after = [x for x in obs["trace"] if x[0] == pid]
            k = next(i for i, x in enumerate(after) if x[1] == "readTs")
            more = after[k + 1:]
            if proc["kind"] in ("refresh", "populate") and obs["procs"][pid]["state"] == "done":
                oc = obs["procs"][pid]["outcome"]
                if inside and (more or oc.get("ret") != -1):
                    out.append(("refresh-not-skipped", "C19-refresh-not-skipped",
                                f"process {pid} now={proc['now']} timestamp={tv}: went on with {more[:3]} ret={oc.get('ret')}"))
                if not inside and not more and oc.get("ret") == -1 and proc["kind"] == "refresh":
                    out.append(("refresh-skipped-outside-interval", "C19-refresh-wrongly-skipped",
                                f"process {pid} now={proc['now']} timestamp={tv} gave up without trying the lock"))
    # 5. a finished population leaves byte-identical copies of everything
    for pid, (proc, po) in enumerate(zip(spec["procs"], obs["procs"])):
        if proc["kind"] == "populate" and po["state"] == "done" and po["outcome"].get("ret", 0) is None \
                and not po["outcome"].get("class"):
            for nme in names:
                f = obs["files"].get(nme)
                if f is None or not f[2]:
                    out.append(("population-incomplete", "C19-torn-copy-kept" if f else "C19-population-incomplete",
                                f"populate {pid} returned normally but {nme} is {'torn' if f else 'missing'}"))
                    break
    return out


# ----------------------------------------------------------------------------- model side

def model_procs(spec, obs):
    """Model processes of a run: one per real process, except that a loader is one `load v` per
    `_load_schema_version_sub` call it made (a version list looks up and reads several files one after the
    other) and a `get_library_data` call is a `peek` per direct read, a `populate` per lock round without
    timestamp and a `refresh 0` per lock round with it.  [{kind,arg,now,real,seg}]"""
    n = len(spec["procs"])
    out = [{"kind": p["kind"] if p["kind"] not in ("load", "libdata") else "peek",
            "arg": p.get("arg", 0) if p["kind"] not in ("load", "libdata") else 0, "now": p["now"], "real": i, "seg": 0}
           for i, p in enumerate(spec["procs"])]
    extra = {}
    for rp, sg in obs["segs"].items():
        for k, (mp, kind, arg, _name) in enumerate(sg):
            rec = {"kind": kind, "arg": max(arg, 0), "now": spec["procs"][int(rp)]["now"], "real": int(rp), "seg": k}
            if mp < n:
                out[mp] = rec
            else:
                extra[mp] = rec
    return out + [extra[k] for k in sorted(extra)]


def model_request(spec, obs, cfg):
    return {"op": "c19.run", "proto": "safe", "cfg": cfg,
            "procs": [{"kind": p["kind"], "arg": p["arg"], "now": p["now"],
                       "alias": spec["procs"][p["real"]].get("alias", 0)} for p in model_procs(spec, obs)],
            "sched": obs["mactions"]}


def impl_view(spec, obs, env):
    """The implementation's observables in the model's vocabulary."""
    finals = sorted([f[1], bool(f[2])] for f in obs["files"].values() if f[0] == "final")
    tmps = sorted([f[1] if f[2] != 0 and f[2] != -1 else -1, max(f[2], 0)] for f in obs["files"].values() if f[0] == "tmp")
    ts = obs["files"].get("last_update.txt")
    # notes of each real process: [before the first lookup, lookup 0, lookup 1, ...]
    parts = {}
    for e in obs["log"]:
        lst = parts.setdefault(e[0], [[]])
        if e[1] == "seg":
            lst.append([])
        lst[-1].append(e)
    procs = []
    for mp in model_procs(spec, obs):
        po = obs["procs"][mp["real"]]
        oc = po["outcome"] or {}
        allp = parts.get(mp["real"], [[]])
        segmented = spec["procs"][mp["real"]]["kind"] in ("load", "libdata")
        if segmented:
            begun = allp[1:]
            mine = begun[mp["seg"]] if mp["seg"] < len(begun) else []
            last = mp["seg"] >= len(begun) - 1
        else:
            mine = [e for x in allp for e in x]
            last = True
        err = None
        if any(e[1] == "enter-raised" and e[2] == "CacheException" for e in mine):
            err = "lockTimeout" if any(e[1] == "lock-failed" for e in mine) else "tooRecent"
        st = {"done": "finished", "crashed": "crashed"}.get(po["state"], po["state"]) if last else "finished"
        got = None
        reads = [e for e in mine if e[1] == "readhash"]
        if mp["kind"] == "load" and st == "finished":
            ok = bool(reads) and all(e[3] == env.sha.get(e[4]) for e in reads) and (oc.get("class") == "ok" or not last)
            got = "bundled" if ok else "bad"
        elif mp["kind"] == "peek" and st == "finished":
            got = "absent" if (not reads or reads[0][3] is None) else \
                ("bundled" if all(e[3] == env.sha.get(e[4]) for e in reads) else "bad")
        procs.append({"status": st, "err": err, "got": got})
    tsv = None if ts is None or ts[1] == "" else ts[1]
    return {"trace": [[t[0], t[1], t[2], t[3]] for t in obs["mtrace"]],
            "finals": finals, "tmps": tmps, "lockFile": "cache_lock.lock" in obs["files"],
            "ts": tsv, "tsTorn": ts is not None and ts[1] == "", "overlap": bool(regions(obs["log"])),
            "torn_seen": bool(obs["torn_seen"]), "procs": procs}


def model_view(spec, obs, ans, cfg):
    full = [True] * cfg["chunks"]
    procs = []
    for proc, mp in zip(model_procs(spec, obs), ans["procs"]):
        got = None
        if proc["kind"] == "load" and mp["status"] == "finished":
            got = "bundled" if isinstance(mp["got"], list) and mp["got"] == [proc["arg"], full] else "bad"
        elif proc["kind"] == "peek" and mp["status"] == "finished":
            got = "absent" if mp["got"] == "notFound" else \
                ("bundled" if isinstance(mp["got"], list) and mp["got"] == [proc["arg"], full] else "bad")
        procs.append({"status": mp["status"], "err": mp["err"], "got": got, "pc": mp["pc"]})
    return {"trace": [t for t in ans["trace"] if t[1] != "crash"],
            "finals": sorted([f[0], bool(f[2])] for f in ans["finals"]),
            "tmps": sorted(_tmp_view(t[1], t[2][1]) for t in ans["tmps"]),
            "lockFile": ans["lockFile"], "ts": ans["ts"], "tsTorn": ans["tsTorn"], "overlap": ans["overlap"],
            "torn_seen": False,
            "procs": procs}


def _tmp_view(f, chunks):
    n = sum(1 for c in chunks if c)
    if not all(chunks[:n]) or any(chunks[n:]):
        return [f, -2]
    return [f if n else -1, n]


def views_differ(iv, mv):
    diffs = []
    it, mt = iv["trace"], mv["trace"]
    if len(it) != len(mt):
        diffs.append(f"trace length {len(it)} vs model {len(mt)}")
    for a, b in zip(it, mt):
        if a[0] != b[0] or a[1] != b[1] or (a[2] >= 0 and a[1] not in ("list", "readTs", "truncTs", "writeTs", "openLock", "tryLock", "unlock") and a[2] != b[2]) \
                or (a[1] == "append" and a[3] != b[3]):
            diffs.append(f"primitive {a} vs model {b}")
            break
    mprocs = []
    for ip, mp in zip(iv["procs"], mv["procs"]):
        mp = dict(mp)
        # a kill right after the last system call (unlock) of a process: dead for the OS, finished for the model
        # a kill right after the LAST system call of a process (its unlock, or its last failed lock attempt): dead
        # for the OS before it could return, already finished for the model (the kill is a no-op there)
        if ip["status"] == "crashed" and mp["status"] == "finished" and mp.get("pc") in ("unlock", "tryLock", "readTs"):
            mp["status"] = "crashed"
            mp["err"] = ip["err"]
        mp.pop("pc", None)
        mprocs.append(mp)
    mv = dict(mv, procs=mprocs)
    for key in ("finals", "tmps", "lockFile", "tsTorn", "overlap", "torn_seen", "procs"):
        if iv[key] != mv[key]:
            diffs.append(f"{key}: {iv[key]} vs model {mv[key]}")
    its = None
    try:
        its = None if iv["ts"] is None else int(float(iv["ts"]))
    except ValueError:
        its = iv["ts"]
    if its != mv["ts"]:
        diffs.append(f"timestamp {iv['ts']} vs model {mv['ts']}")
    return diffs


# ----------------------------------------------------------------------------- schedules

def P(kind, arg=0, now=T0, alias=0):
    """alias 1 = the process reaches the cache directory through a symlink to it"""
    return {"kind": kind, "arg": arg, "now": now, "alias": alias}


def L(ver, now=T0, alias=0):
    """loader of a version string ('8.3.0', 'score_2.0.0') or a list (['8.3.0', 'sc:score_2.0.0'])"""
    return {"kind": "load", "ver": ver, "arg": 0, "now": now, "alias": alias}


def LD(lib="score", now=T0, alias=0):
    """hed_cache.get_library_data(lib, cache) - the library_data sub-folder of the cache"""
    return {"kind": "libdata", "arg": 0, "now": now, "lib": lib, "alias": alias}


def ver_of(name):
    """'HED8.3.0.xml' -> '8.3.0', 'HED_score_2.0.0.xml' -> 'score_2.0.0'"""
    stem = name[:-4]
    return stem[4:] if stem.startswith("HED_") else stem[3:]


def spec_of(bundle, procs, script=(), order=(), crash=None, tag=""):
    return {"bundle": bundle, "procs": procs, "script": list(script), "order": list(order),
            "crash": {str(k): v for k, v in (crash or {}).items()}, "tag": tag}


def canonical_specs(vers):
    """the counter-example schedules of `current_counterexamples`, on the real code, and the refresh interval"""
    v0, v1, v2 = vers
    return [
        spec_of("small", [P("populate"), P("populate")], script=[0, 0, 0, 0, 1, 1, 1, 1], order=[0, 1], tag="two-holders"),
        # the same directory under two names (real path / symlink): still one lock
        spec_of("small", [P("populate"), P("populate", alias=1)], script=[0, 0, 0, 0, 1, 1, 1, 1], order=[0, 1], tag="two-holders-aliased"),
        spec_of("small", [P("populate", alias=1), P("populate"), L(v0, alias=1)], script=[0] * 6 + [1] * 4 + [2] * 3, order=[1, 2, 0],
                tag="two-holders-aliased"),
        spec_of("small", [P("refresh", 1, T0, alias=1), P("populate", 0, T0 + 3600), L(v1)], script=[0] * 5 + [1] * 4, order=[1, 0, 2],
                tag="two-holders-aliased"),
        spec_of("small", [P("populate"), P("populate"), L(v0)], order=[0, 1, 2], crash={0: 7}, tag="killed-mid-copy"),
        spec_of("small", [P("populate"), P("populate"), L(v0)], order=[0, 1, 2], crash={0: 4}, tag="killed-mid-copy"),
        spec_of("small", [P("populate"), L(v2), P("populate")], order=[0, 1, 2], crash={0: 10}, tag="killed-mid-copy"),
        spec_of("small", [P("populate"), L(v0)], script=[0] * 7 + [1, 1], order=[0, 1], tag="load-during-copy"),
        spec_of("small", [P("populate"), L(v0)], script=[0] * 4 + [1, 1], order=[0, 1], tag="load-during-copy"),
        spec_of("small", [P("populate"), L(v2)], script=[0] * 12 + [1, 1], order=[1, 0], tag="load-during-copy"),
        spec_of("small", [P("populate"), P("populate")], script=[0, 0, 0], order=[1, 0], tag="lock-timeout"),
        spec_of("small", [L(v0), L(v2)], script=[0, 0, 0, 0, 0, 0], order=[1, 0], tag="two-first-use-loaders"),
        spec_of("small", [P("refresh", 2, T0), P("refresh", 2, T0 + 100), P("refresh", 2, T0 + 1799),
                          P("refresh", 2, T0 + 1800), P("populate", 0, T0 + 1900), P("populate", 0, T0 + 3601), L(v1)],
                order=[0, 1, 2, 3, 4, 5, 6], tag="refresh-interval"),
        spec_of("small", [P("refresh", 1, T0), P("refresh", 1, T0 + 5)], script=[0, 1], order=[0, 1], tag="refresh-race"),
        # the timestamp file is truncated, then written: a first-use loader that listed the empty folder reads
        # it in between (refresh killed there / merely preempted there); later refreshes after a torn timestamp
        spec_of("small", [L(v0), P("refresh", 1, T0)], script=[0] + [1] * 9, order=[0, 1], crash={1: 9}, tag="torn-timestamp"),
        spec_of("small", [L(v2), P("refresh", 1, T0)], script=[0] + [1] * 9 + [0], order=[0, 1], tag="torn-timestamp"),
        spec_of("small", [P("refresh", 1, T0), P("refresh", 1, T0 + 10), P("populate", 0, T0 + 20), L(v0),
                          P("refresh", 2, T0 + 30)], order=[0, 1, 2, 3, 4], crash={0: 9}, tag="torn-timestamp"),
        spec_of("small", [P("refresh", 0, T0), P("refresh", 1, T0 + 1)], script=[0, 0, 0, 0], order=[1, 0], crash={0: 4},
                tag="torn-timestamp"),
        # an unreachable remote (observation: the URLError escapes cache_xml_versions instead of the documented -1)
        spec_of("small", [{"kind": "refresh", "arg": 0, "now": T0, "badlib": True}, P("refresh", 1, T0 + 5), L(v0)],
                order=[0, 1, 2], tag="remote-unreachable"),
    ]


REFS = {}   # json(version spec) -> [formatted version, tag counts] of a load from a complete cache


# ----------------------------------------------------------------------------- the check

def _pool(n):
    import multiprocessing as mp
    return mp.get_context("fork").Pool(n)


def evaluate(ctx, specs, cfg_for, thr, pool, judge_loads=True):
    """simulate all specs (in parallel), judge, compare with the model."""
    env = ENV
    obs_list = pool.map(_sim_safe, specs, chunksize=max(1, len(specs) // 64)) if pool else [_sim_safe(s) for s in specs]
    reqs, keep = [], []
    for spec, obs in zip(specs, obs_list):
        if "harness_error" in obs:
            raise RuntimeError(f"fsim failed on {json.dumps(spec)[:300]}: {obs['harness_error']}")
        reqs.append(model_request(spec, obs, cfg_for(spec)))
        keep.append((spec, obs))
    answers = ctx.model.batch(reqs)
    for (spec, obs), ans in zip(keep, answers):
        switches = sum(1 for a, b in zip(obs["actions"], obs["actions"][1:]) if a[0] != b[0])
        crashed = any(a[1] == 1 for a in obs["actions"])
        ctx.case(json.dumps(spec, sort_keys=True), nontrivial=(switches > len(spec["procs"]) - 1) or crashed,
                 sample={"spec": {k: spec[k] for k in ("procs", "script", "order", "crash")}, "steps": len(obs["actions"])})
        ctx.count("tag:" + (spec.get("tag") or "?"))
        if crashed:
            ctx.count("with-crash")
        for po, proc in zip(obs["procs"], spec["procs"]):
            oc = po["outcome"] or {}
            ctx.count(f"{proc['kind']}:{po['state']}:" + str(oc.get("class", oc.get("ret"))))
            if proc["kind"] == "load":
                ctx.count("load-version:" + json.dumps(proc.get("ver")))
                for e in obs["log"]:
                    if e[1] == "readhash" and e[0] == spec["procs"].index(proc):
                        ctx.count("load-read-from:" + e[2])
        case = {k: spec[k] for k in ("bundle", "procs", "script", "order", "crash")}
        for po, proc in zip(obs["procs"], spec["procs"]):
            if proc.get("badlib") and po["state"] == "done":
                oc = po["outcome"] or {}
                ctx.count("observation:unreachable-remote:" + ("raised " + str(oc.get("exc")) if oc.get("class") == "error"
                                                                else "returned " + str(oc.get("ret"))))
        for clause, sig, detail in judge(spec, obs, thr, env, REFS):
            if not judge_loads and clause == "load-failed" and sig == "C19-missing-version-not-loaded" and not any(
                    a[1] == 1 for a in obs["actions"]):
                continue   # reference run: the package cannot load this bundled version at all (not a cache matter)
            ctx.count("violation:" + clause)
            ctx.violation(clause, case, detail, sig)
        if "error" in ans:
            ctx.disagree("Cache.safe driver", case, ans, None)
            continue
        iv, mv = impl_view(spec, obs, env), model_view(spec, obs, ans, cfg_for(spec))
        d = views_differ(iv, mv)
        if d:
            ctx.count("model-disagreement")
            ctx.disagree("Cache.safe run = real cache protocol under the same schedule", case, d[:4],
                         {"trace_head": iv["trace"][:12], "procs": iv["procs"], "finals": iv["finals"]})
    ctx.check_time()
    return obs_list


def run(ctx):
    global ENV
    from harness.common import REPO
    import hed  # noqa  (imported before forking so that children share it)
    from hed import load_schema_version  # noqa
    from hed.schema import hed_cache  # noqa
    thr, timeout = source_constants(REPO)
    import inspect
    import portalocker
    interval = inspect.signature(portalocker.Lock.__init__).parameters["check_interval"].default
    retries = int(round(timeout / interval))
    quick = ctx.quick()
    chunks = 2 if quick else 3
    root = tempfile.mkdtemp(prefix="hedverif_c19env_")
    pool = None
    try:
        ENV = Env(REPO, root, chunks)
        nfull = len(ENV.all_names)

        def cfg_for(spec):
            return {"nFiles": len(ENV.bundles[spec["bundle"]][1]), "chunks": chunks, "thr": thr, "retries": retries}

        ctx.extra["rule"] = (
            "each case = one schedule (process set, interleaving at wrapped-primitive granularity, crash point) run on the "
            "real code in forked children and replayed on Cache.safe; non-trivial = has a crash or more context switches "
            "than a sequential run")
        ctx.extra["constants"] = {"CACHE_TIME_THRESHOLD": thr, "lock_timeout": timeout, "check_interval": interval,
                                  "lock_attempts": retries + 1, "chunks_per_copy": chunks, "bundled_files": nfull}
        ctx.notes.append("interleaving semantics at primitive granularity (each primitive = one system call or one chunk "
                         "of a copy); real flock, logical clocks; NFS / non-POSIX rename and power loss not covered")
        pool = _pool(min(12, os.cpu_count() or 2))
        names = ENV.all_names
        small_vers = [ver_of(n) for n in SMALL]

        # the tie between the model's name classes and the real file names: the (source-level) pattern of
        # get_hed_versions accepts every bundled file name and no temporary name of either copy path
        pat = version_pattern_source(REPO)
        temp_like = [n + sfx for n in names for sfx in (".a1b2c3d4.tmp", ".tmp", "~", ".part")] + \
                    ["tmpab12cd34.xml", "tmp_HED8.3.0.xml", "xHED8.3.0.xml", ".HED8.3.0.xml.swp", "HED8.3.0.xml.bak.xml2"]
        try:
            rx = re.compile(pat)
            bad = [n for n in names if not rx.match(n)] + [t for t in temp_like if rx.match(t)]
        except Exception as e_:  # noqa
            bad = [f"pattern not usable: {e_}"]
        ctx.obligation("version-pattern accepts final names only", not bad, "misclassified: " + ", ".join(bad[:6]))
        ctx.count("version-pattern-names-checked", len(names) + len(temp_like))

        # _check_if_url against Cache.checkIfUrl
        urls = ["", "/", "http://", "https://", "http://x/HED8.3.0.xml", "https://raw.githubusercontent.com/a/b.xml",
                "HTTP://x", "Https://x", "http:/x", "https:/x", "http//x", " http://x", "/http://x", "ftp://x", "file:///x",
                "httpx://x", "httpss://x", "http", "https", "h", "C:\\cache\\HED8.3.0.xml", "./http://x", "~/.hedtools/hed_cache/"]
        urls += [os.path.join(d_, n) for d_ in ("/tmp/hedverif/cache", "/home/u/.hedtools/hed_cache", "http:") for n in names[:4]]
        urls += ["".join(ctx.rng.choice(["http", "https", "s", ":", "/", "//", "x", " ", "."]) for _ in range(ctx.rng.randint(1, 6)))
                 for _ in range(200)]
        ans_ = ctx.model.batch([{"op": "c19.isurl", "text": u} for u in urls])
        for u, a_ in zip(urls, ans_):
            ctx.count("isurl-compared")
            if bool(hed_cache._check_if_url(u)) != a_["url"]:
                ctx.disagree("Cache.checkIfUrl = hed_cache._check_if_url", {"text": u}, a_["url"], hed_cache._check_if_url(u))

        # reference loads: every bundled version (standard and library) and some version lists, each loaded by
        # the real code from a complete cache; a version the package itself cannot load is left out (counted)
        REFS.clear()
        lists = [["8.3.0", "sc:score_2.0.0"], ["score_2.0.0", "tl:testlib_3.0.0"], ["8.2.0", "sc:score_1.1.0"]]
        cand = [ver_of(n) for n in names] + lists
        ro = evaluate(ctx, [spec_of("full", [P("populate"), L(v)], order=[0, 1], tag="reference-load") for v in cand],
                      cfg_for, thr, pool, judge_loads=False)
        for v, o in zip(cand, ro):
            oc = o["procs"][1]["outcome"] or {}
            if oc.get("class") == "ok":
                REFS[json.dumps(v)] = [oc.get("version"), oc.get("tags")]
            else:
                ctx.count("bundled-version-not-loadable:" + json.dumps(v))
        good = [v for v in cand if json.dumps(v) in REFS]
        good_lists = [v for v in lists if json.dumps(v) in REFS]
        ctx.extra["loadable_versions"] = good
        if len([v for v in good if isinstance(v, str)]) < len(names):
            ctx.notes.append("some bundled versions do not load even from a complete cache (see histogram); left out")

        # 0. canonical scenarios (the model's counter-example schedules and the refresh interval)
        evaluate(ctx, canonical_specs(small_vers), cfg_for, thr, pool)

        # 1. every crash point of one populate of the whole bundle; then (a) a second populate and a load of any
        #    version, (b) a load of a version whose file is NOT yet in the cache at that point, (c) a load of one
        #    whose file is, (d) a version list; (b)-(d) before the second populate
        base = spec_of("full", [P("populate"), P("populate"), L("8.3.0")], order=[0, 1, 2], tag="crash-enum")
        o = evaluate(ctx, [base], cfg_for, thr, None)[0]
        n0 = o["procs"][0]["nprims"]
        mine = [t for t in o["trace"] if t[0] == 0]
        # a file is in the cache once its rename (repaired code) / its first create (in-place copy) has run
        done_at = [i for i, t in enumerate(mine) if t[1] == "rename"] or [i for i, t in enumerate(mine) if t[1] == "create"]
        ctx.extra["populate_primitives"] = n0
        specs = []
        for k in range(n0):
            ncop = sum(1 for r in done_at if r < k)
            present = [ver_of(n) for n in names[:ncop] if json.dumps(ver_of(n)) in REFS]
            missing = [ver_of(n) for n in names[ncop:] if json.dumps(ver_of(n)) in REFS]
            anyv = [v for v in good if isinstance(v, str)]
            specs.append(spec_of("full", [P("populate"), P("populate"), L(anyv[k % len(anyv)])], order=[0, 1, 2],
                                 crash={0: k}, tag="crash-enum"))
            if missing:
                specs.append(spec_of("full", [P("populate"), L(missing[k % len(missing)]), P("populate")], order=[0, 1, 2],
                                     crash={0: k}, tag="crash-enum-load-missing"))
                lib = [v for v in missing if "_" in v]
                if lib and k % 2 == 0:
                    specs.append(spec_of("full", [P("populate"), L(lib[(k // 2) % len(lib)]), P("populate")], order=[0, 1, 2],
                                         crash={0: k}, tag="crash-enum-load-missing"))
            if present:
                specs.append(spec_of("full", [P("populate"), L(present[k % len(present)]), P("populate")], order=[0, 1, 2],
                                     crash={0: k}, tag="crash-enum-load-present"))
            if good_lists and k % 4 == 0:
                specs.append(spec_of("full", [P("populate"), L(good_lists[(k // 4) % len(good_lists)]), P("populate")],
                                     order=[0, 1, 2], crash={0: k}, tag="crash-enum-load-list"))
        evaluate(ctx, specs, cfg_for, thr, pool)

        # 2. two populates + one loader on the small bundle: all schedules with one preemption, a sample with two;
        #    the loader's version rotates over the bundle (standard, older standard, library with partner)
        def procs_for(i):
            # every other spec reaches the directory through the symlink in one populate and/or the loader
            return [P("populate"), P("populate", alias=(i // 3) % 2), L(small_vers[i % len(small_vers)], alias=(i // 6) % 2)]
        o = evaluate(ctx, [spec_of("small", procs_for(0), order=[0, 1, 2], tag="interleave-0")] +
                     [spec_of("small", procs_for(i), order=[2, 0, 1], tag="interleave-0") for i in range(3)], cfg_for, thr, None)
        lens = [o[0]["procs"][0]["nprims"], o[0]["procs"][1]["nprims"], max(x["procs"][2]["nprims"] for x in o[1:])]
        ctx.extra["process_lengths_small"] = lens
        one, two = [], []
        c = 0
        for p1 in (0, 2):
            for n1 in range(1, lens[p1]):
                for rest in itertools.permutations([0, 1, 2]):
                    if rest[0] == p1:
                        continue
                    c += 1
                    one.append(spec_of("small", procs_for(c), script=[p1] * n1, order=rest, tag="interleave-1"))
        for p1 in (0, 2):
            for n1 in range(1, lens[p1]):
                for p2 in (0, 1, 2):
                    if p2 == p1:
                        continue
                    for n2 in range(1, lens[p2]):
                        for rest in itertools.permutations([0, 1, 2]):
                            if rest[0] == p2:
                                continue
                            c += 1
                            two.append(spec_of("small", procs_for(c), script=[p1] * n1 + [p2] * n2, order=rest, tag="interleave-2"))
        ctx.rng.shuffle(two)
        n_two = 400 if quick else len(two)
        evaluate(ctx, one, cfg_for, thr, pool)
        evaluate(ctx, two[:n_two], cfg_for, thr, pool)
        ctx.extra["interleave_two_switch_space"] = len(two)
        # a populate killed right after each of its system calls, with the loader having run 0-3 of its own steps in
        # between and the other populate / the loader finishing in either order (kill points are "inside" the
        # primitive's caller: after the call returned, before any flush / close / next statement)
        kc = []
        for n1 in range(0, lens[0] + 1):
            for m in (0, 1, 2, 3):
                for rest in ((1, 2, 0), (2, 1, 0)):
                    c += 1
                    kc.append(spec_of("small", procs_for(c), script=[0] * n1 + [2] * m, order=rest, crash={0: n1},
                                      tag="interleave-kill"))
        evaluate(ctx, kc, cfg_for, thr, pool)
        # three preemptions (sample)
        three = []
        for _ in range(250 if quick else 5000):
            ps_ = [ctx.rng.randrange(3) for _ in range(3)]
            script = []
            for q_ in ps_:
                script += [q_] * ctx.rng.randint(1, max(2, lens[q_] - 1))
            rest = [0, 1, 2]
            ctx.rng.shuffle(rest)
            c += 1
            crash = {ctx.rng.randrange(2): ctx.rng.randint(0, lens[0])} if ctx.rng.random() < 0.3 else None
            three.append(spec_of("small", procs_for(c), script=script, order=rest, crash=crash, tag="interleave-3"))
        evaluate(ctx, three, cfg_for, thr, pool)

        # 2b. get_library_data: the library_data sub-folder (own lock and timestamp, same copy path).  Every crash
        #     point of one caller followed by two more; all one-preemption schedules of two callers; random of three
        o = evaluate(ctx, [spec_of("lib", [LD(), LD("lang")], order=[0, 1], tag="libdata-0")], cfg_for, thr, None)[0]
        nl = o["procs"][0]["nprims"]
        ctx.extra["get_library_data_primitives"] = nl
        lib = [spec_of("lib", [LD(), LD("lang"), LD("")], order=[0, 1, 2], crash={0: k}, tag="libdata-crash") for k in range(nl)]
        for n1 in range(1, nl):
            lib.append(spec_of("lib", [LD(), LD("lang")], script=[0] * n1, order=[1, 0], tag="libdata-interleave-1"))
        for _ in range(60 if quick else 1500):
            script = [ctx.rng.randrange(3) for _ in range(ctx.rng.randint(3, 40))]
            crash = {p_: ctx.rng.randint(0, nl + 6) for p_ in range(3) if ctx.rng.random() < 0.3}
            order = [0, 1, 2]
            ctx.rng.shuffle(order)
            lib.append(spec_of("lib", [LD(), LD("lang"), LD("score")], script=script, order=order, crash=crash,
                               tag="libdata-random"))
        evaluate(ctx, lib, cfg_for, thr, pool)

        # 3. random deeper schedules with crashes; refresh mixed in; up to three populates and two loaders
        rnd = []
        n_rnd = 400 if quick else 6000
        for _ in range(n_rnd):
            rv = lambda: ctx.rng.choice(small_vers)
            kinds = ctx.rng.choice([
                [P("populate"), P("populate"), L(rv())],
                [P("populate"), P("populate"), P("populate"), L(rv()), L(rv())],
                [P("populate"), P("populate"), P("populate"), L(rv()), L(rv())],
                [P("populate"), L(rv()), L(rv())],
                [P("populate"), P("refresh", 2, T0), L(rv())],
                [P("refresh", 2, T0), P("refresh", 1, T0 + ctx.rng.choice([0, 10, 1799, 1800, 5000])), L(rv())],
                [P("refresh", 1, T0), P("populate", 0, T0 + ctx.rng.choice([0, 1799, 1800])), P("populate"), L(rv())],
            ])
            n = len(kinds)
            for k_ in kinds:
                k_["alias"] = ctx.rng.randrange(2)
            script = [ctx.rng.randrange(n) for _ in range(ctx.rng.randint(5, 70))]
            if ctx.rng.random() < 0.5:   # bursts instead of single steps
                script = [p for p in script[:12] for _ in range(ctx.rng.randint(1, 6))]
            crash = {}
            for p in range(n):
                if kinds[p]["kind"] != "load" and ctx.rng.random() < 0.35:
                    crash[p] = ctx.rng.randint(0, 24)
            order = list(range(n))
            ctx.rng.shuffle(order)
            rnd.append(spec_of("small", kinds, script=script, order=order, crash=crash, tag="random"))
        evaluate(ctx, rnd, cfg_for, thr, pool)
    finally:
        if pool is not None:
            pool.close()
            pool.join()
        shutil.rmtree(root, ignore_errors=True)


def replay(ctx, rec):
    global ENV
    from harness.common import REPO
    import hed  # noqa
    case = rec.get("case") or (rec.get("disagreements") or [{}])[0].get("case")
    if not case:
        print("nothing to replay (obligation-only record):", rec.get("broken_obligations"))
        return
    thr, timeout = source_constants(REPO)
    chunks = 2 if ctx.quick() else 3
    root = tempfile.mkdtemp(prefix="hedverif_c19env_")
    try:
        ENV = Env(REPO, root, chunks)
        spec = spec_of(case["bundle"], case["procs"], case.get("script", []), case.get("order", []), case.get("crash"), "replay")

        def cfg_for(s):
            return {"nFiles": len(ENV.bundles[s["bundle"]][1]), "chunks": chunks, "thr": thr, "retries": 4}
        obs = evaluate(ctx, [spec], cfg_for, thr, None)[0]
        print("replayed", json.dumps(case)[:400])
        print("  trace:", " ".join(f"{t[0]}:{t[1]}" for t in obs["trace"][:60]))
        print("  outcomes:", json.dumps(obs["procs"])[:600])
        print("  files:", json.dumps(obs["files"])[:600])
        for v in judge(spec, obs, thr, ENV):
            print("  ORACLE:", v)
    finally:
        shutil.rmtree(root, ignore_errors=True)
