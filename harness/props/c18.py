"""C18 - Backups restore byte-for-byte and are never half-valid.

Correspondence (DESIGN.md section 7, C18):
 * crash injection: the real `BackupManager.create_backup` runs in a forked child whose `os.makedirs`,
   `shutil.copy*`, `open(..,'w')` and `json.dump` (module attributes of backup_manager, patched in the
   child only) count primitive steps and `os._exit` at the chosen step; a copy is create + first half +
   rest + close, the record likewise.  ALL crash points of every scenario are enumerated.  The parent
   then builds a fresh `BackupManager` on the surviving tree and compares {listing | exception class,
   bytes of every file below the backup directory} with `Backup.scan (FS.crashAfter k ...)`, and the
   sequence of primitive steps with `Backup.createSteps`.
 * histories of <= 8 operations (modify / delete / restore[tasks] / remodel through the real
   `run_remodel*.main` and `BackupManager`) against `Backup.runOps`.
Direct oracle on the implementation alone: a listed backup has every recorded file present and
byte-equal to its source; existing backups are never changed; restore returns the bytes at backup
time; task restore touches only selected files; remodel twice = remodel once.
"""
import json
import os
import shutil
import sys
import tempfile

THEOREMS = [
    "HedVerif.C18.torn_record_rejected",
    "HedVerif.C18.crash_consistent",
    "HedVerif.C18.create_complete",
    "HedVerif.C18.restore_identity",
    "HedVerif.C18.backup_history_restore",
    "HedVerif.C18.restore_tasks_only",
    "HedVerif.C18.restore_tasks_complete",
    "HedVerif.C18.restore_never_touches_backup",
    "HedVerif.C18.remodel_never_touches_backup",
    "HedVerif.C18.restore_after_crashed_restore",
    "HedVerif.C18.remodel_from_backup",
    "HedVerif.C18.backups_independent",
    "HedVerif.C18.other_backup_still_listed",
    "HedVerif.C18.incomplete_backup_blocks_manager",
    "HedVerif.C18.remodel_idempotent",
    "HedVerif.C18.remodelCore_idempotent",
    "HedVerif.C18.no_overwrite",
    "HedVerif.C18.create_never_overwrites",
    "HedVerif.C18.create_existing_returns_false",
    "HedVerif.C18.session_restore_identity",
    "HedVerif.C18.crash_atomicity",
    "HedVerif.C18.restore_recoverable",
    "HedVerif.C18.stale_manager_overwrites_example",
    "HedVerif.C18.restore_case_sensitive_example",
]
BUDGET = {"quick": 600, "thorough": 3000}
STAMP = "2026-01-02 03:04:05.678901"
LOCK = "backup_lock.json"
BIG = 10 ** 9
RENAME = [{"operation": "rename_columns", "description": "c18",
           "parameters": {"column_mapping": {"trial_type": "kind"}, "ignore_missing": True}}]


# --------------------------------------------------------------------------------- small helpers

def mbatch(ctx, reqs):
    """ctx.model.batch, waiting out a concurrent relink of the shared driver binary"""
    import time
    for _ in range(60):
        try:
            return ctx.model.batch(reqs)
        except RuntimeError as e:
            if "not built" not in str(e) and "driver failed rc=-" not in str(e) and "rc=126" not in str(e):
                raise
            time.sleep(2)
    return ctx.model.batch(reqs)


def comps(path):
    return [c for c in os.path.realpath(path).split("/") if c]


def b2l(b):
    return list(b)


def snap(root):
    """relative path (tuple of components) -> bytes, for every regular file below root"""
    out = {}
    for r, _, fs in os.walk(root):
        for f in fs:
            p = os.path.join(r, f)
            out[tuple(os.path.relpath(p, root).split("/"))] = open(p, "rb").read()
    return out


def dirs_of(root):
    out = []
    for r, ds, _ in os.walk(root):
        for d in ds:
            out.append(os.path.join(r, d))
    return out


def model_tree(roots):
    """tree entries of the model request: every directory and file below the given roots"""
    ent = []
    for root in roots:
        ent.append([comps(root), None])
        for d in dirs_of(root):
            ent.append([comps(d), None])
        for rel, data in sorted(snap(root).items()):
            p = comps(root) + list(rel)
            if rel[-1] == LOCK:
                try:
                    d = json.loads(data.decode())
                    if json.dumps(d, indent=4).encode() == data and len(set(d.values())) <= 1:
                        ent.append([p, {"keys": list(d), "stamp": next(iter(d.values()), "")}])
                        continue
                except Exception:
                    pass
            ent.append([p, b2l(data)])
    return ent


def model_files(ans_files, root_c):
    """model answer `files` -> {relative tuple: bytes | ('len', n)}"""
    out = {}
    for p, v in ans_files:
        if p[:len(root_c)] != root_c:
            continue
        rel = tuple(p[len(root_c):])
        out[rel] = ("len", v["len"]) if isinstance(v, dict) else bytes(v)
    return out


def impl_files(sn):
    return {rel: (("len", len(b)) if rel[-1] == LOCK else b) for rel, b in sn.items()}


def show(files):
    return {"/".join(k): (v if isinstance(v, tuple) else v.decode("latin-1")) for k, v in sorted(files.items())}


class FakeNow:
    """stands in for `datetime` in backup_manager: a fixed time stamp makes the record text reproducible"""
    @staticmethod
    def now():
        return STAMP


# ----------------------------------------------------------------------- crash-injecting wrappers

class Crasher:
    def __init__(self, k, base, data_root=None):
        self.k, self.n, self.log, self.base = k, 0, [], base
        self.bases = [base] + ([os.path.realpath(data_root)] if data_root else [])
        self.csv_order = []

    def tick(self, kind, path, size=None):
        if self.n == self.k:
            os._exit(77)
        self.n += 1
        self.log.append([kind, comps(path)] + ([] if size is None else [size]))


class Proxy:
    def __init__(self, real, **over):
        self.__dict__["_real"] = real
        self.__dict__.update(over)

    def __getattr__(self, name):
        return getattr(self._real, name)


class WFile:
    """text file opened for writing: every write is one flushed `append` step, leaving the block is `close`"""
    def __init__(self, cr, path, real):
        self.cr, self.path, self.real = cr, path, real

    def write(self, data):
        self.cr.tick("append", self.path, len(data))
        self.real.write(data)
        self.real.flush()

    def close(self):
        self.cr.tick("close", self.path)
        self.real.close()

    def __enter__(self):
        return self

    def __exit__(self, *a):
        self.close()
        return False


def install(bmmod, cr):
    """patch the module attributes of backup_manager (in the child only)"""
    def makedirs(path, mode=0o777, exist_ok=False):
        full = os.path.realpath(path)
        base = next((b for b in cr.bases if (full + "/").startswith(b + "/")), None)
        if base is None:
            base = full
            while not os.path.isdir(base):
                base = os.path.dirname(base)
        rel = [c for c in full[len(base):].split("/") if c]
        cur = base
        for i, c in enumerate(rel):
            cur = os.path.join(cur, c)
            cr.tick("mkdir", cur)
            if not os.path.isdir(cur):
                os.mkdir(cur)
            elif i == len(rel) - 1 and not exist_ok:
                raise FileExistsError(cur)

    def copy(src, dst, *a, **kw):
        if os.path.isdir(dst):
            dst = os.path.join(dst, os.path.basename(src))
        data = open(src, "rb").read()
        cr.tick("create", dst)
        f = open(dst, "wb", buffering=0)
        h = len(data) // 2
        cr.tick("append", dst, h)
        f.write(data[:h])
        cr.tick("append", dst, len(data) - h)
        f.write(data[h:])
        cr.tick("close", dst)
        f.close()
        shutil.copystat(src, dst)
        return dst

    def wopen(path, mode="r", *a, **kw):
        if "w" in mode and "b" not in mode:
            cr.tick("create", path)
            return WFile(cr, path, open(path, mode, *a, **kw))
        return open(path, mode, *a, **kw)

    def dump(obj, fp, **kw):
        text = json.dumps(obj, **kw)
        h = len(text) // 2
        fp.write(text[:h])
        fp.write(text[h:])

    import pandas as pd
    real_to_csv = pd.DataFrame.to_csv

    def to_csv(self, path_or_buf=None, *a, **kw):
        if not isinstance(path_or_buf, str):
            return real_to_csv(self, path_or_buf, *a, **kw)
        data = real_to_csv(self, None, *a, **kw).encode()
        cr.csv_order.append(comps(path_or_buf))
        cr.tick("create", path_or_buf)
        f = open(path_or_buf, "wb", buffering=0)
        h = len(data) // 2
        cr.tick("append", path_or_buf, h)
        f.write(data[:h])
        cr.tick("append", path_or_buf, len(data) - h)
        f.write(data[h:])
        cr.tick("close", path_or_buf)
        f.close()

    if cr.bases[1:]:
        pd.DataFrame.to_csv = to_csv
    bmmod.os = Proxy(os, makedirs=makedirs)
    bmmod.shutil = Proxy(shutil, copy2=copy, copy=copy, copyfile=copy)
    bmmod.json = Proxy(json, dump=dump)
    bmmod.open = wopen


def forked(fn, outpath):
    """run fn() in a forked child; its JSON-able result is written to outpath. Returns exit status."""
    sys.stdout.flush()
    sys.stderr.flush()
    pid = os.fork()
    if pid == 0:
        try:
            try:
                res = fn()
            except BaseException as e:  # noqa
                res = {"exc": type(e).__name__, "msg": str(e)[:200]}
            with open(outpath, "w") as f:
                json.dump(res, f)
        finally:
            os._exit(0)
    _, status = os.waitpid(pid, 0)
    return os.WEXITSTATUS(status) if os.WIFEXITED(status) else -1


# ------------------------------------------------------------------------------------ scenarios

# directory names: case matters on this file system (`sub-a01` and `sub-A01` are different directories); the
# backup key must preserve the case of every component
DIRS = ["sub-01", "sub-A02", "ses-Pre", "EEG", "eeg", "sub-a01", "sub-A01", "ses-1", "a b", "x}y", "q,{z", "derivatives", "remodel", "d:e", 'w"q', "b\\s", "\u00e9\u4e2d", "\U0001F600 d"]
BASES = ["sub-01_task-go_events.tsv", "task_go_run-1_events.tsv", "task_stop_events.tsv", "x_task_go_task_stop_events.tsv",
         "sub-02_task-stop_events.tsv", "run-2_Events.TSV", "participants.tsv", "README", "notes}.txt", 'odd"name.tsv',
         "events.tsv", "t,a:b_events.tsv", "back\\slash_events.tsv", "task_nosuch.dat",
         "sub-\u00e9_task-g\u00f6_events.tsv", "\U0001F600_events.tsv", "t\tab\nnl.tsv", "\x7f\x01.dat"]
CELLS = ["go", "stop", "n/a", "1", "2", "17", "0.5", "2.25", "x y", "left", "Red", "a-b"]
COLS = ["onset", "duration", "trial_type", "value", "resp", "kind2"]


def gen_tsv(rng, allow_odd, floats=True):
    r = rng.random()
    if allow_odd and r < 0.08:
        return b""
    if allow_odd and r < 0.14:
        return bytes(rng.randrange(256) for _ in range(rng.randint(1, 9)))
    ncol = rng.randint(1, 4)
    cols = rng.sample(COLS, ncol)
    cells = CELLS if floats else [c for c in CELLS if "." not in c]
    rows = [cols] + [[rng.choice(cells) for _ in cols] for _ in range(rng.randint(0, 4))]
    text = "\n".join("\t".join(r) for r in rows)
    if allow_odd and rng.random() < 0.15:
        return text.encode()
    return (text + "\n").encode()


def gen_tree(rng, allow_odd, in_derivatives=True):
    """list of [relative components, latin-1 content]"""
    dirs = [[]]
    for _ in range(rng.randint(0, 4)):
        parent = rng.choice(dirs)
        if len(parent) < 3:
            d = rng.choice(DIRS if allow_odd else DIRS[:8])
            if d == "derivatives" and (parent or not in_derivatives):
                continue
            if parent + [d] not in dirs:
                dirs.append(parent + [d])
    files = {}
    for _ in range(rng.randint(1, 6)):
        d = rng.choice(dirs)
        b = rng.choice(BASES if allow_odd else BASES[:6])
        if d + [b] in dirs:
            continue
        files[tuple(d + [b])] = gen_tsv(rng, allow_odd, floats=allow_odd)
    return [[list(k), v.decode("latin-1")] for k, v in sorted(files.items())]


def build(root, tree):
    os.makedirs(root)
    for rel, content in tree:
        p = os.path.join(root, *rel)
        os.makedirs(os.path.dirname(p), exist_ok=True)
        with open(p, "wb") as f:
            f.write(content.encode("latin-1"))


class Env:
    """hed modules + a scratch directory; `backup_manager.datetime` is the fixed clock while it lives"""
    def __init__(self):
        import hed.tools.remodeling.backup_manager as bmmod
        from hed.errors.exceptions import HedFileError
        self.bmmod, self.HedFileError = bmmod, HedFileError
        self.BM = bmmod.BackupManager

    def __enter__(self):
        self.saved = self.bmmod.datetime
        self.bmmod.datetime = FakeNow
        self.tmp = os.path.realpath(tempfile.mkdtemp(prefix="hv_c18_"))
        return self

    def __exit__(self, *a):
        self.bmmod.datetime = self.saved
        shutil.rmtree(self.tmp, ignore_errors=True)
        return False

    def fresh(self, name):
        p = os.path.join(self.tmp, name)
        shutil.rmtree(p, ignore_errors=True)
        return p

    def manager_view(self, root, ext):
        """what a freshly constructed manager reports: ('ok', [[name, keys]...]) or ('err', class/code)"""
        try:
            bm = self.BM(root, backups_root=ext)
        except self.HedFileError as e:
            return ("err", e.code)
        except Exception as e:
            return ("err", type(e).__name__)
        return ("ok", sorted([n, list(d)] for n, d in bm.backups_dict.items()))


def scan_view(ans):
    if "err" in ans:
        return ("err", ans["err"])
    return ("ok", sorted(ans["ok"]))


# ---------------------------------------------------------------------------------- crash cases

def crash_prepare(env, spec, slot):
    """build the scenario's tree (with earlier backups made by the real code) and the model request"""
    tmp = os.path.join(env.tmp, f"c{slot}")
    shutil.rmtree(tmp, ignore_errors=True)
    os.makedirs(tmp)
    pristine, root = os.path.join(tmp, "pristine"), os.path.join(tmp, "ds")
    extp = os.path.join(tmp, "pristine_bk") if spec["ext"] else None
    ext = os.path.join(tmp, "bk") if spec["ext"] else None
    build(root, spec["tree"])
    if ext:
        os.makedirs(ext)
    for pre in spec["pre"]:
        env.BM(root, backups_root=ext).create_backup([os.path.join(root, *f) for f in pre["files"]], pre["name"])
    backups = env.BM(root, backups_root=ext).backups_path          # creates the backups directory
    req = {"op": "c18.crash", "dataRoot": comps(root), "backups": comps(backups), "name": spec["name"],
           "stamp": STAMP, "tree": model_tree([root] + ([ext] if ext else [])), "files": spec["files"]}
    shutil.copytree(root, pristine, symlinks=True)
    if ext:
        shutil.copytree(ext, extp)
    return {"spec": spec, "tmp": tmp, "root": root, "pristine": pristine, "ext": ext, "extp": extp,
            "backups": backups, "req": req}


def crash_cases(ctx, env, specs, only_k=None):
    for lo in range(0, len(specs), 50):
        sts = [crash_prepare(env, sp, lo + i) for i, sp in enumerate(specs[lo:lo + 50])]
        answers = mbatch(ctx, [st["req"] for st in sts])
        for st, ans in zip(sts, answers):
            try:
                crash_execute(ctx, env, st, ans, only_k)
            finally:
                shutil.rmtree(st["tmp"], ignore_errors=True)


def crash_execute(ctx, env, st, ans, only_k=None):
    """One scenario: all crash points of create_backup (or only `only_k`)."""
    spec, tmp, root, pristine, ext, extp, backups = (st[k] for k in ("spec", "tmp", "root", "pristine", "ext", "extp", "backups"))

    def reset():
        shutil.rmtree(root, ignore_errors=True)
        shutil.copytree(pristine, root, symlinks=True)
        if ext:
            shutil.rmtree(ext, ignore_errors=True)
            shutil.copytree(extp, ext)
    files_abs = [os.path.join(root, *f) for f in spec["files"]]
    if "bad-op" in ans:
        raise RuntimeError(f"driver: {ans}")
    src0 = snap(root)
    before = {"root": snap(root), "ext": snap(ext) if ext else {}}
    out = os.path.join(tmp, "child.json")
    bdir = os.path.join(backups, spec["name"])
    existing = spec["name"] in [p["name"] for p in spec["pre"]]

    def child(k):
        def fn():
            bm = env.BM(root, backups_root=ext)
            cr = Crasher(k, bm.backups_path)
            install(env.bmmod, cr)
            ret = bm.create_backup(files_abs, spec["name"])
            return {"ret": ret, "log": cr.log}
        return fn

    # uninterrupted run: the trace of primitive steps
    st = forked(child(BIG), out)
    res = json.load(open(out)) if st == 0 else {"exc": f"exit{st}"}
    case = dict(spec)
    if "exc" in res:
        ctx.disagree("create_backup completes", case, {"ret": ans["ret"], "steps": len(ans["steps"])}, res)
        return
    trace = res["log"]
    if trace != ans["steps"] or res["ret"] != ans["ret"]:
        ctx.disagree("Backup.create steps = primitive steps of create_backup", case,
                     {"ret": ans["ret"], "steps": ans["steps"]}, {"ret": res["ret"], "steps": trace})
    n = len(trace)
    ctx.count("crash-points", n + 1)
    ctx.count("scenario-existing-name" if existing else "scenario-new-name")
    if existing:
        # no_overwrite: nothing below the backups directory (or anywhere) changed
        after = {"root": snap(root), "ext": snap(ext) if ext else {}}
        if res["ret"] is not False or after != before or n != 0:
            ctx.violation("existing-backup-overwritten", case,
                          {"returned": res["ret"], "steps": trace[:6],
                           "changed": sorted("/".join(k) for w in before for k in before[w] if after[w].get(k) != before[w][k])[:6]})
    ks = range(n + 1) if only_k is None else [only_k]
    for k in ks:
        if k < n or only_k is not None:
            reset()
            st = forked(child(k), out)
            if st != 77 and k < n:
                ctx.disagree("crash point reached", {**case, "k": k}, 77, st)
        # k == n: the tree left by the uninterrupted run
        view = env.manager_view(root, ext)
        under = {rel: b for rel, b in snap(bdir).items()} if os.path.isdir(bdir) else {}
        ctx.case(("crash", json.dumps(spec, sort_keys=True), k), nontrivial=0 < k < n, sample=None)
        pt = ans["points"][k] if k < len(ans["points"]) else None
        if pt is not None:
            mview = scan_view(pt["scan"])
            mfiles = model_files(pt["files"], comps(bdir))
            ifiles = impl_files(under)
            if mview != view or mfiles != ifiles:
                ctx.disagree("Backup.scan (crashAfter k) = fresh BackupManager on the surviving tree", {**case, "k": k},
                             {"scan": mview, "files": show(mfiles)}, {"scan": view, "files": show(ifiles)})
        ctx.count("after-crash:" + (view[1] if view[0] == "err" else
                                    ("listed" if any(e[0] == spec["name"] for e in view[1]) else "not-listed")))
        # a directory without a valid record is not ignored: every entry point that opens a manager reports it
        # (same exception class), so neither create nor restore with that name can proceed, and nothing changes
        if view[0] == "err" and not ext and (k % 3 == 1 or not ctx.quick()):
            from hed.tools.remodeling.cli import run_remodel_backup, run_remodel_restore
            tree_before = snap(root)
            for label, fn in (("backup", lambda: run_remodel_backup.main([root, "-bn", spec["name"]])),
                              ("restore", lambda: run_remodel_restore.main([root, "-bn", spec["name"]]))):
                try:
                    fn()
                    got = None
                except env.HedFileError as e:
                    got = e.code
                except Exception as e:
                    got = type(e).__name__
                want = scan_view(pt["scan"])[1] if pt is not None and "err" in pt["scan"] else view[1]
                if got != want:
                    ctx.disagree("CLI on a data root with an incomplete backup raises the scan's error", {**case, "k": k, "cli": label},
                                 want, got)
                ctx.count("incomplete-backup-cli-" + label + "-refused" if got is not None else "incomplete-backup-cli-" + label + "-PROCEEDED")
            if snap(root) != tree_before:
                ctx.violation("incomplete-backup-changed-by-cli", {**case, "k": k}, {})
        # direct oracle: a listed backup is complete and byte-equal to its sources
        if view[0] == "ok" and not existing:
            for name, keys in view[1]:
                if name != spec["name"]:
                    continue
                for key in keys:
                    got = under.get(("backup_root",) + tuple(key.split("/")))
                    want = src0.get(tuple(key.split("/")))
                    if got is None or got != want:
                        ctx.violation("listed-backup-has-missing-or-truncated-file", {**case, "k": k},
                                      {"key": key, "backup_bytes": None if got is None else len(got),
                                       "source_bytes": None if want is None else len(want), "step": trace[k - 1] if k else None})
                        break
        # earlier backups are never touched, whatever happens
        if spec["pre"] and not existing:
            now = snap(backups)
            for rel, b in snap(os.path.join(pristine, os.path.relpath(backups, root)) if not ext else extp).items():
                if rel[0] != spec["name"] and now.get(rel) != b:
                    ctx.violation("other-backup-changed", {**case, "k": k}, {"file": "/".join(rel)})
                    break
    ctx.check_time()


# -------------------------------------------------------------------------------- history cases

def expected_T(data):
    """independent re-statement of the remodel run used here (rename column trial_type -> kind, written
    by to_csv): header cell renamed, every row terminated by a newline"""
    lines = data.decode().split("\n")
    if lines and lines[-1] == "":
        lines.pop()
    head = ["kind" if c == "trial_type" else c for c in lines[0].split("\t")]
    return ("\n".join(["\t".join(head)] + lines[1:]) + "\n").encode()


def sel_name(rel):
    return rel[-1].lower().endswith("events.tsv") and "remodel" not in rel[:-1]


def bids_task(name):
    """independent re-statement of io_util.get_task_from_file"""
    stem = os.path.splitext(name)[0].strip()
    pos = stem.lower().find("task-")
    if pos < 0:
        return ""
    rest = stem[pos + 5:]
    for i, ch in enumerate(rest):
        if ch in "_.":
            return rest[:i]
    return rest


def task_ok(tasks, rel):
    """does `run_remodel -t tasks` rewrite this (selected) file"""
    if not tasks:
        return True
    t = bids_task(rel[-1])
    return t != "" and (tasks[0] == "*" or t in tasks)


REMODEL_TASKS = [[], [], [], ["go"], ["stop", "go"], ["*"], ["nosuch"], ["rest", "stop"]]


def task_hit(tasks, rel):
    return (not tasks) or any(("task_" + t) in rel[-1] for t in tasks)


TASK_FILES = {"go": ["task_go_run-1_events.tsv", "sub-01_task_go_events.tsv"],
              "stop": ["task_stop_events.tsv", "sub-02_task_stop_run-2_events.tsv"],
              "rest": ["task_rest_events.tsv", "sub-03_task_rest_events.tsv"]}
TASK_ORDERS = [list(p) for n in (2, 3) for p in __import__("itertools").permutations(["go", "stop", "rest", "nosuch"], n)]


def gen_task_history(rng, idx):
    """directed: files of three tasks, all backed up; files of EVERY listed task (and of unlisted ones) are
    modified or deleted before a restore restricted to a 2-3 element task list; the lists run through
    every order of 2 or 3 names out of go/stop/rest/nosuch (nosuch matches no file)"""
    dirs = [[], ["sub-A01"], ["sub-a01"], ["sub-02", "ses-Pre"], ["EEG"], ["eeg"]]
    files = {}
    for t, names in TASK_FILES.items():
        for nm in names[:rng.randint(1, 2)]:
            files[tuple(rng.choice(dirs) + [nm])] = gen_tsv(rng, False, floats=False)
    for nm in ["x_task_go_task_stop_events.tsv", "sub-01_task-go_events.tsv", "participants.tsv",
               "sub-02_task-stop_events.tsv", "sub-03_task_rest_task-rest_events.tsv"]:
        if rng.random() < 0.6:
            files[tuple(rng.choice(dirs) + [nm])] = gen_tsv(rng, False, floats=False)
    tree = [[list(k), v.decode("latin-1")] for k, v in sorted(files.items())]
    rels = [t[0] for t in tree]
    mode = rng.choice(["main", "direct"])
    flist = list(rels)
    rng.shuffle(flist)
    ops = []
    for rnd in range(2):
        tasks = TASK_ORDERS[(idx + 17 * rnd) % len(TASK_ORDERS)]
        damaged = set()
        for t in tasks[::-1] + [x for x in TASK_FILES if x not in tasks]:      # later-listed tasks first
            cand = [r for r in rels if ("task_" + t) in r[-1] and tuple(r) not in damaged]
            if not cand or (t not in tasks and rng.random() < 0.5):
                continue
            r = rng.choice(cand)
            damaged.add(tuple(r))
            if rng.random() < 0.6:
                ops.append({"op": "modify", "path": r, "bytes": gen_tsv(rng, True).decode("latin-1")})
            else:
                ops.append({"op": "delete", "path": r if len(r) == 1 or rng.random() < 0.7 else r[:1]})
        ops.append({"op": "restore", "tasks": tasks, "via": rng.choice(["manager", "main"])})
        if len(ops) >= 4:
            break
    if len(ops) < 8 and rng.random() < 0.5:
        ops.append({"op": "remodel", "ns": True, "tasks": rng.choice(REMODEL_TASKS)})
    return {"kind": "history", "tree": tree, "files": None if mode == "main" else flist, "mode": mode,
            "name": rng.choice(["default_back", "b1"]), "ops": ops[:8]}


def gen_history(rng, idx=1):
    if idx % 3 == 0:
        return gen_task_history(rng, idx // 3)
    tree = gen_tree(rng, allow_odd=False, in_derivatives=False)
    rels = [t[0] for t in tree]
    selected = [r for r in rels if sel_name(r)]
    mode = rng.choice(["main", "direct", "direct"])
    if mode == "main" and not selected:
        mode = "direct"
    if mode == "direct":
        files = [r for r in rels if r in selected or rng.random() < 0.5]
        if rng.random() < 0.15 and selected:      # leave a selected file out: remodel must refuse
            files.remove(rng.choice(selected))
        if not files:
            files = [rels[0]]
        rng.shuffle(files)
    else:
        files = None                               # computed by get_file_list, as main does
    name = rng.choice(["default_back", "default_back", "b1", "my backup"])
    ops, new_i = [], 0
    dirs = sorted({tuple(r[:i]) for r in rels for i in range(1, len(r))})
    for _ in range(rng.randint(1, 8)):
        r = rng.random()
        if r < 0.35:
            q = rng.random()
            if q < 0.7:
                p = rng.choice(rels)
            else:
                new_i += 1
                p = list(rng.choice(dirs + [()])) + rng.choice([[f"notes{new_i}.txt"], [f"new-{new_i}", "extra.dat"]])
            ops.append({"op": "modify", "path": p, "bytes": gen_tsv(rng, True).decode("latin-1")})
        elif r < 0.55:
            p = list(rng.choice(dirs)) if dirs and rng.random() < 0.3 else rng.choice(rels)
            ops.append({"op": "delete", "path": p})
        elif r < 0.8:
            tasks = rng.choice([[], [], ["go"], ["stop"], ["go", "stop"], ["stop", "go"], ["nosuch", "stop"], ["nosuch"],
                                ["go_run-1"]])
            ops.append({"op": "restore", "tasks": tasks, "via": rng.choice(["manager", "main"])})
        else:
            tk = rng.choice(REMODEL_TASKS)
            ops.append({"op": "remodel", "ns": rng.random() < 0.5, "tasks": tk})
            if rng.random() < 0.6:
                ops.append({"op": "remodel", "ns": rng.random() < 0.5, "tasks": tk})
    return {"kind": "history", "tree": tree, "files": files, "mode": mode, "name": name, "ops": ops[:8]}


def history_prepare(ctx, env, spec, slot):
    from hed.tools.remodeling.cli import run_remodel_backup
    from hed.tools.util import io_util
    tmp = os.path.join(env.tmp, f"h{slot}")
    shutil.rmtree(tmp, ignore_errors=True)
    os.makedirs(tmp)
    root = os.path.join(tmp, "ds")
    build(root, spec["tree"])
    model_path = os.path.join(tmp, "rename.json")
    with open(model_path, "w") as f:
        json.dump(RENAME, f)
    name = spec["name"]
    env.BM(root)                                    # the backups directory exists before the snapshot
    tree0 = model_tree([root])
    orig = snap(root)
    if spec["mode"] == "main":
        flist = io_util.get_file_list(root, name_suffix=["events"], extensions=[".tsv"], exclude_dirs=["derivatives", "remodeling"])
        files = [os.path.relpath(p, root).split("/") for p in flist]
        run_remodel_backup.main([root, "-bn", name])
    else:
        files = spec["files"]
        if env.BM(root).create_backup([os.path.join(root, *f) for f in files], name) is not True:
            ctx.violation("create-backup-refused-on-fresh-name", spec, {})
            return None
    rec = {tuple(f) for f in files}
    backups = os.path.join(root, "derivatives", "remodel", "backups")
    case = dict(spec)
    # recorded keys and copies right after the backup (direct oracle: complete, byte-equal)
    view = env.manager_view(root, None)
    keys = dict((n, k) for n, k in view[1]).get(name) if view[0] == "ok" else None
    if keys is None or {tuple(k.split("/")) for k in keys} != rec:
        ctx.violation("complete-backup-not-listed-with-its-files", case, {"view": view, "files": files})
        return None
    bsnap0 = snap(backups)
    for f in rec:
        if bsnap0.get((name, "backup_root") + f) != orig[f]:
            ctx.violation("backup-copy-differs-from-source", case, {"file": "/".join(f)})
            return None
    T = [[b2l(orig[f]), b2l(expected_T(orig[f]))] for f in sorted(rec) if sel_name(f)]
    unrecorded_selected = any(sel_name(r) and r not in rec for r in orig)
    mops = []
    for o in spec["ops"]:
        if o["op"] == "modify":
            mops.append({"op": "modify", "path": comps(root) + o["path"], "bytes": b2l(o["bytes"].encode("latin-1"))})
        elif o["op"] == "delete":
            mops.append({"op": "delete", "path": comps(root) + o["path"]})
        elif o["op"] == "restore":
            mops.append({"op": "restore", "tasks": o["tasks"]})
        else:
            mops.append({"op": "remodel", "tasks": o.get("tasks", [])})
    req = {"op": "c18.history", "dataRoot": comps(root), "backups": comps(backups), "name": name,
           "stamp": STAMP, "tree": tree0, "files": files, "T": T, "ops": mops}
    return {"spec": spec, "tmp": tmp, "req": req, "loc": (root, model_path, name, case, view, keys, rec, orig, bsnap0,
                                                        unrecorded_selected)}


def history_cases(ctx, env, specs):
    for lo in range(0, len(specs), 50):
        sts = []
        for i, sp in enumerate(specs[lo:lo + 50]):
            st = history_prepare(ctx, env, sp, lo + i)
            if st is not None:
                sts.append(st)
        answers = mbatch(ctx, [st["req"] for st in sts])
        for st, ans in zip(sts, answers):
            history_execute(ctx, env, st, ans)
        for i in range(len(specs[lo:lo + 50])):
            shutil.rmtree(os.path.join(env.tmp, f"h{lo + i}"), ignore_errors=True)


def history_execute(ctx, env, st, ans):
    from hed.tools.remodeling.cli import run_remodel, run_remodel_restore
    spec = st["spec"]
    root, model_path, name, case, view, keys, rec, orig, bsnap0, unrecorded_selected = st["loc"]
    if "bad-op" in ans or "scan-err" in ans:
        ctx.disagree("model backup is listed", case, ans, view)
        return
    root_c = comps(root)
    if ans["keys"] != keys or model_files(ans["after-create"], root_c) != impl_files(snap(root)):
        ctx.disagree("state after create_backup", case,
                     {"keys": ans["keys"], "files": show(model_files(ans["after-create"], root_c))},
                     {"keys": keys, "files": show(impl_files(snap(root)))})
        return
    ctx.case(("history", json.dumps(spec, sort_keys=True)), nontrivial=len(spec["ops"]) >= 2)
    prev_remodel = None
    for i, o in enumerate(spec["ops"]):
        before = snap(root)
        err = None
        ctx.count("op:" + o["op"])
        try:
            if o["op"] == "modify":
                p = os.path.join(root, *o["path"])
                if os.path.isdir(p):
                    continue
                os.makedirs(os.path.dirname(p), exist_ok=True)
                with open(p, "wb") as f:
                    f.write(o["bytes"].encode("latin-1"))
            elif o["op"] == "delete":
                p = os.path.join(root, *o["path"])
                if os.path.isdir(p):
                    shutil.rmtree(p)
                elif os.path.exists(p):
                    os.remove(p)
            elif o["op"] == "restore":
                if o["via"] == "manager":
                    env.BM(root).restore_backup(name, o["tasks"], verbose=False)
                else:
                    run_remodel_restore.main([root, "-bn", name] + (["-t"] + o["tasks"] if o["tasks"] else []))
            else:
                run_remodel.main([root, model_path, "-bn", name] + (["-ns"] if o["ns"] else []) +
                                 (["-t"] + o["tasks"] if o.get("tasks") else []))
        except env.HedFileError as e:
            err = e.code
        except Exception as e:
            err = type(e).__name__
        after = snap(root)
        m = ans["trace"][i] if i < len(ans["trace"]) else None
        if m is None:
            break
        if ("err" in m) != (err is not None) or (err is not None and m["err"] != err):
            ctx.disagree("history operation outcome", {**case, "at": i}, m.get("err"), err)
            break
        if err is not None:
            ctx.count("op-refused:" + err)
            if err == "BadDataFile" and not unrecorded_selected:
                ctx.violation("remodel-failed-with-complete-backup", {**case, "at": i}, err)
            break                                   # partial effects of a refused run are not modelled
        mf = model_files(m["files"], root_c)
        dis = mf != impl_files(after)
        if dis:
            ctx.disagree("Backup.runOps = real history", {**case, "at": i}, show(mf), show(impl_files(after)))
        # ---- direct oracles on the implementation
        if {k: v for k, v in after.items() if k[:3] == ("derivatives", "remodel", "backups")} != \
                {("derivatives", "remodel", "backups") + k: v for k, v in bsnap0.items()}:
            ctx.violation("backup-changed-by-history", {**case, "at": i}, o)
            break
        if o["op"] == "restore":
            for f in set(before) | set(after):
                hit = f in rec and task_hit(o["tasks"], f)
                if hit:
                    ctx.count("restore-picked-file" + ("-was-damaged" if before.get(f) != orig[f] else ""))
                if hit and after.get(f) != bsnap0.get((name, "backup_root") + f):
                    # every backed-up file whose name selects ANY task of the list is back to its backup copy
                    which = [t for t in o["tasks"] if ("task_" + t) in f[-1]]
                    ctx.violation("restore-tasks-restores-every-requested-task" if o["tasks"] else "restore-not-byte-identical",
                                  {**case, "at": i}, {"file": "/".join(f), "tasks": o["tasks"], "selected_by": which})
                if not hit and after.get(f) != before.get(f):
                    ctx.violation("task-restore-touched-unselected-file", {**case, "at": i}, {"file": "/".join(f)})
        if o["op"] == "remodel":
            tk = o.get("tasks", [])
            for f in rec:
                if sel_name(f) and task_ok(tk, f) and (f in before or task_hit(tk, f)):
                    want = expected_T(orig[f])          # rewritten from the backed-up original (existing files only)
                elif task_hit(tk, f):
                    want = orig[f]                      # restored by handle_backup
                else:
                    want = before.get(f)                # not part of this run
                if after.get(f) != want:
                    ctx.violation("remodel-not-from-backed-up-original", {**case, "at": i}, {"file": "/".join(f), "tasks": tk})
            if prev_remodel is not None and prev_remodel[0] == tk and \
                    {k: v for k, v in prev_remodel[1].items() if "summaries" not in k} != \
                    {k: v for k, v in after.items() if "summaries" not in k}:
                ctx.violation("remodel-twice-differs-from-once", {**case, "at": i}, {"tasks": tk})
            prev_remodel = (tk, after)
            ctx.count("remodel-with-tasks" if tk else "remodel-all")
        else:
            prev_remodel = None
        if dis:
            break
    else:
        # final restore of everything: every recorded file is back, nothing else moved
        before = snap(root)
        try:
            env.BM(root).restore_backup(name, [], verbose=False)
        except Exception as e:
            ctx.violation("final-restore-raised", case, type(e).__name__)
            return
        after = snap(root)
        for f in set(before) | set(after):
            if f in rec and after.get(f) != orig[f]:
                ctx.violation("restore-not-byte-identical", {**case, "at": "final"}, {"file": "/".join(f)})
            if f not in rec and after.get(f) != before.get(f):
                ctx.violation("restore-touched-unrecorded-file", {**case, "at": "final"}, {"file": "/".join(f)})
    ctx.check_time()


# ------------------------------------------------------- crashes inside restore_backup / run_remodel.main

def gen_opcrash(rng, i):
    tree = gen_tree(rng, allow_odd=False, in_derivatives=False)
    extra = {}
    for nm in rng.sample(["task_go_events.tsv", "sub-01_task-go_events.tsv", "sub-02_task-stop_events.tsv",
                          "x_task_stop_task-go_events.tsv"], rng.randint(1, 3)):
        extra[tuple(rng.choice([[], ["sub-A01"], ["sub-a01"], ["sub-02", "ses-Pre"], ["EEG"]]) + [nm])] = gen_tsv(rng, False, floats=False)
    have = {tuple(t[0]) for t in tree}
    tree += [[list(k), v.decode("latin-1")] for k, v in sorted(extra.items()) if k not in have]
    rels = [t[0] for t in tree]
    damage = []
    for r in rels:
        q = rng.random()
        if q < 0.35:
            damage.append({"op": "modify", "path": r, "bytes": gen_tsv(rng, True).decode("latin-1")})
        elif q < 0.6:
            damage.append({"op": "delete", "path": r if len(r) == 1 or rng.random() < 0.6 else r[:1]})
    kind = "restore" if i % 2 == 0 else "remodel"
    tasks = rng.choice([[], [], ["go"], ["stop", "go"], ["nosuch", "stop"]]) if kind == "restore" else rng.choice(REMODEL_TASKS)
    return {"kind": "opcrash", "tree": tree, "name": rng.choice(["default_back", "b1"]), "damage": damage,
            "target": kind, "tasks": tasks, "via": rng.choice(["manager", "main"])}


def opcrash_child(env, st, k):
    from hed.tools.remodeling.cli import run_remodel, run_remodel_restore
    spec, root = st["spec"], st["root"]

    def fn():
        cr = Crasher(k, st["backups"], data_root=root)
        install(env.bmmod, cr)
        if spec["target"] == "restore":
            if spec["via"] == "manager":
                env.BM(root).restore_backup(spec["name"], spec["tasks"], verbose=False)
            else:
                run_remodel_restore.main([root, "-bn", spec["name"]] + (["-t"] + spec["tasks"] if spec["tasks"] else []))
        else:
            run_remodel.main([root, st["model_path"], "-bn", spec["name"], "-ns"] +
                             (["-t"] + spec["tasks"] if spec["tasks"] else []))
        return {"log": cr.log, "order": cr.csv_order}
    return fn


def opcrash_prepare(ctx, env, spec, slot):
    tmp = os.path.join(env.tmp, f"o{slot}")
    shutil.rmtree(tmp, ignore_errors=True)
    os.makedirs(tmp)
    root, pristine = os.path.join(tmp, "ds"), os.path.join(tmp, "pristine")
    build(root, spec["tree"])
    model_path = os.path.join(tmp, "rename.json")
    with open(model_path, "w") as f:
        json.dump(RENAME, f)
    orig = snap(root)
    files = [t[0] for t in spec["tree"]]                      # everything is backed up
    bm = env.BM(root)
    bm.create_backup([os.path.join(root, *f) for f in files], spec["name"])
    backups = bm.backups_path
    for o in spec["damage"]:
        p = os.path.join(root, *o["path"])
        if o["op"] == "modify" and not os.path.isdir(p):
            os.makedirs(os.path.dirname(p), exist_ok=True)
            with open(p, "wb") as f:
                f.write(o["bytes"].encode("latin-1"))
        elif o["op"] == "delete":
            if os.path.isdir(p):
                shutil.rmtree(p)
            elif os.path.exists(p):
                os.remove(p)
    shutil.copytree(root, pristine, symlinks=True)
    st = {"spec": spec, "tmp": tmp, "root": root, "pristine": pristine, "backups": backups, "model_path": model_path,
          "orig": orig, "rec": {tuple(f) for f in files}}
    out = os.path.join(tmp, "child.json")
    code = forked(opcrash_child(env, st, BIG), out)
    res = json.load(open(out)) if code == 0 else {"exc": f"exit{code}"}
    st["trace"] = res
    st["whole"] = snap(root)
    T = [[b2l(orig[f]), b2l(expected_T(orig[f]))] for f in sorted(st["rec"]) if sel_name(f)]
    shutil.rmtree(root)
    shutil.copytree(pristine, root, symlinks=True)
    st["req"] = {"op": "c18.opcrash", "dataRoot": comps(root), "backups": comps(backups), "name": spec["name"],
                 "stamp": STAMP, "tree": model_tree([root]), "T": T, "tasks": spec["tasks"], "kind": spec["target"],
                 "order": [p[len(comps(root)):] for p in res.get("order", [])]}
    return st


def opcrash_cases(ctx, env, specs, only_k=None):
    for lo in range(0, len(specs), 40):
        sts = [opcrash_prepare(ctx, env, sp, lo + i) for i, sp in enumerate(specs[lo:lo + 40])]
        answers = mbatch(ctx, [st["req"] for st in sts])
        for st, ans in zip(sts, answers):
            try:
                opcrash_execute(ctx, env, st, ans, only_k)
            finally:
                shutil.rmtree(st["tmp"], ignore_errors=True)


def opcrash_execute(ctx, env, st, ans, only_k=None):
    spec, root, pristine, orig, rec = st["spec"], st["root"], st["pristine"], st["orig"], st["rec"]
    case = dict(spec)
    res = st["trace"]
    root_c = comps(root)
    if "bad-op" in ans or "scan-err" in ans:
        ctx.disagree("opcrash: model backup is listed", case, ans, None)
        return
    if "exc" in res:
        ctx.disagree("restore/remodel completes", case, ans.get("whole"), res)
        return
    trace = res["log"]
    if trace != ans["steps"]:
        ctx.disagree("restoreSteps/remodelSteps = primitive steps of restore_backup / run_remodel.main", case,
                     ans["steps"], trace)
    if spec["target"] == "remodel":
        present = snap(pristine)
        want = sorted(f for f in rec if sel_name(f) and task_ok(spec["tasks"], f) and
                      (f in present or task_hit(spec["tasks"], f)))
        got = sorted(tuple(f) for f in st["req"]["order"])
        if got != want or sorted(tuple(f) for f in ans["expect"]) != want:
            ctx.disagree("files rewritten by remodel -t", case, ans["expect"], st["req"]["order"])
    if "files" not in ans["whole"] or model_files(ans["whole"]["files"], root_c) != impl_files(st["whole"]):
        ctx.disagree("Backup.restore/remodel = complete run", case, ans["whole"] if "err" in ans["whole"] else
                     show(model_files(ans["whole"]["files"], root_c)), show(impl_files(st["whole"])))
    n = len(trace)
    bkey = ("derivatives", "remodel", "backups")
    bsnap = {k: v for k, v in snap(pristine).items() if k[:3] == bkey}
    out = os.path.join(st["tmp"], "child.json")
    ctx.count(f"opcrash-{spec['target']}-scenarios")
    ctx.count(f"opcrash-{spec['target']}-points", n + 1)
    for k in (range(n + 1) if only_k is None else [only_k]):
        shutil.rmtree(root, ignore_errors=True)
        shutil.copytree(pristine, root, symlinks=True)
        code = forked(opcrash_child(env, st, k), out)
        if code != 77 and k < n:
            ctx.disagree("crash point reached", {**case, "k": k}, 77, code)
        after = snap(root)
        ctx.case(("opcrash", json.dumps(spec, sort_keys=True), k), nontrivial=0 < k < n)
        pt = ans["points"][k] if k < len(ans["points"]) else None
        if pt is not None and model_files(pt["files"], root_c) != impl_files(after):
            ctx.disagree("crashAfter k (restoreSteps/remodelSteps) = surviving tree", {**case, "k": k},
                         show(model_files(pt["files"], root_c)), show(impl_files(after)))
        # direct oracles: the backup is never written; a complete restore afterwards repairs everything
        if {kk: v for kk, v in after.items() if kk[:3] == bkey} != bsnap:
            ctx.violation("backup-changed-by-interrupted-" + spec["target"], {**case, "k": k}, {"step": trace[k - 1] if k else None})
            continue
        vw = env.manager_view(root, None)
        if vw[0] != "ok" or sorted(tuple(kk.split("/")) for n_, ks_ in vw[1] if n_ == spec["name"] for kk in ks_) != sorted(rec):
            ctx.violation("backup-not-listed-intact-after-interrupted-" + spec["target"], {**case, "k": k}, {"view": vw})
            continue
        try:
            env.BM(root).restore_backup(spec["name"], [], verbose=False)
        except Exception as e:
            ctx.violation("restore-after-interrupted-" + spec["target"] + "-raised", {**case, "k": k}, type(e).__name__)
            continue
        fin = snap(root)
        for f in rec:
            if fin.get(f) != orig[f]:
                ctx.violation("restore-after-interrupted-" + spec["target"] + "-not-byte-identical", {**case, "k": k},
                              {"file": "/".join(f)})
                break
    ctx.check_time()


# ------------------------------------------- sessions on the level of whole backups (names, empty records)

CLI_SELECT = [[], [], ["-t", "nosuch"], ["-e", ".xyz"], ["-f", "nosuch"], ["-t", "go"], ["-e", ".tsv", "-f", "events", "participants"]]


def gen_bhist(rng, i):
    tree = gen_tree(rng, allow_odd=False, in_derivatives=False)
    have = {tuple(t[0]) for t in tree}
    for nm in ["sub-01_task-go_events.tsv", "task_go_events.tsv"]:
        if (nm,) not in have and rng.random() < 0.8:
            tree.append([[nm], gen_tsv(rng, False, floats=False).decode("latin-1")])
    rels = [t[0] for t in tree]
    names = ["default_back", "b1", "e"]

    def a_create(name, empty):
        if rng.random() < 0.5:
            files = [] if empty else ([r for r in rels if rng.random() < 0.6] or rels[:1])
            return {"op": "create", "via": "api", "name": name, "files": files, "fresh": rng.random() < 0.5}
        sel = rng.choice([["-t", "nosuch"], ["-e", ".xyz"], ["-f", "nosuch"]]) if empty else rng.choice(CLI_SELECT)
        return {"op": "create", "via": "cli", "name": name, "args": sel}
    ops = []
    first = rng.choice(names)
    good = None
    if i % 3 != 2:
        ops.append(a_create(first, empty=True))          # a backup with an EMPTY record ...
    else:
        good = rng.choice([n for n in names if n != first])
        ops.append({"op": "create", "via": "api", "name": good, "files": list(rels), "fresh": False})
        ops.append({"op": "modify", "path": rng.choice(rels), "bytes": gen_tsv(rng, True).decode("latin-1")})
    for _ in range(rng.randint(3, 7)):
        r = rng.random()
        if r < 0.4:
            nm = first if rng.random() < 0.7 else rng.choice(names)
            ops.append(a_create(nm, empty=rng.random() < 0.15))   # ... and the same name again, non-empty
        elif r < 0.55:
            ops.append({"op": "reopen"})
        elif r < 0.75:
            made = [o["name"] for o in ops if o["op"] == "create" and (o.get("files") or o.get("args") in ([], ["-t", "go"]))]
            ops.append({"op": "restore", "name": good if good and rng.random() < 0.8 else
                        (rng.choice(made) if made and rng.random() < 0.5 else rng.choice(names)),
                        "tasks": rng.choice([[], [], ["go"], ["nosuch", "go"]]),
                        "via": rng.choice(["api", "cli"]), "fresh": rng.random() < 0.5})
        else:
            ops.append({"op": "modify", "path": rng.choice(rels), "bytes": gen_tsv(rng, True).decode("latin-1")})
    return {"kind": "bhist", "tree": tree, "ops": ops[:8]}


def bhist_files(root, o):
    """the selection run_remodel_backup.main makes (re-stated from its argument handling)"""
    from hed.tools.util import io_util
    if o["via"] == "api":
        return o["files"]
    a = o["args"]

    def opt(flag, default):
        if flag not in a:
            return default
        i = a.index(flag) + 1
        j = i
        while j < len(a) and not a[j].startswith("-"):
            j += 1
        return a[i:j]
    suffix, ext, tasks = opt("-f", ["events"]), opt("-e", [".tsv"]), opt("-t", [])
    fl = io_util.get_file_list(root, name_suffix=suffix, extensions=ext, exclude_dirs=["derivatives", "remodeling"])
    if tasks:
        fl = io_util.get_filtered_by_element(fl, tasks)
    return [os.path.relpath(p, root).split("/") for p in fl]


def bhist_cases(ctx, env, specs):
    for lo in range(0, len(specs), 60):
        chunk = specs[lo:lo + 60]
        runs = [bhist_run(ctx, env, sp, lo + i) for i, sp in enumerate(chunk)]
        answers = mbatch(ctx, [r["req"] for r in runs])
        for r, ans in zip(runs, answers):
            bhist_compare(ctx, r, ans)
        ctx.check_time()


def bhist_run(ctx, env, spec, slot):
    """run the session on the real code (oracle applied on the way), collect what the model is asked"""
    from hed.tools.remodeling.cli import run_remodel_backup, run_remodel_restore
    tmp = os.path.join(env.tmp, f"b{slot}")
    shutil.rmtree(tmp, ignore_errors=True)
    os.makedirs(tmp)
    root = os.path.join(tmp, "ds")
    build(root, spec["tree"])
    bm = env.BM(root)
    backups = bm.backups_path
    tree0 = model_tree([root])
    case = dict(spec)
    known, mops, obs = {}, [], []
    for i, o in enumerate(spec["ops"]):
        err, ret, mo = None, None, None
        existed = o.get("name") in known
        src = snap(root)
        try:
            if o["op"] == "reopen":
                mo = {"op": "reopen"}
                bm = env.BM(root)
            elif o["op"] == "modify":
                mo = {"op": "modify", "path": comps(root) + o["path"], "bytes": b2l(o["bytes"].encode("latin-1"))}
                with open(os.path.join(root, *o["path"]), "wb") as f:
                    f.write(o["bytes"].encode("latin-1"))
            elif o["op"] == "create":
                files = bhist_files(root, o)
                mo = {"op": "create", "name": o["name"], "files": files, "cli": o["via"] == "cli", "fresh": o.get("fresh", False)}
                if o["via"] == "cli":
                    run_remodel_backup.main([root, "-bn", o["name"]] + o["args"])
                else:
                    mgr = env.BM(root) if o["fresh"] else bm
                    ret = mgr.create_backup([os.path.join(root, *f) for f in files], o["name"])
                if o["via"] == "cli" or o.get("fresh"):
                    bm = env.BM(root)      # the session's manager is re-opened after a creation by another manager
            else:
                mo = {"op": "restore", "name": o["name"], "tasks": o["tasks"], "cli": o["via"] == "cli", "fresh": o.get("fresh", False)}
                if o["via"] == "cli":
                    run_remodel_restore.main([root, "-bn", o["name"]] + (["-t"] + o["tasks"] if o["tasks"] else []))
                else:
                    (env.BM(root) if o["fresh"] else bm).restore_backup(o["name"], o["tasks"], verbose=False)
        except env.HedFileError as e:
            err = e.code
        except Exception as e:
            err = type(e).__name__
        mops.append(mo)
        now = snap(root)
        obs.append({"ret": ret, "err": err, "files": now, "view": env.manager_view(root, None)})
        ctx.count("bhist:" + o["op"] + (":" + o["via"] if "via" in o else ""))
        if o["op"] == "restore" and err is None and o["name"] in known:
            copies = {k[1:]: v for k, v in known[o["name"]].items() if k[0] == "backup_root"}
            bk = ("derivatives", "remodel", "backups")
            for f in set(src) | set(now):
                if f[:3] == bk:
                    continue
                hit = f in copies and task_hit(o["tasks"], f)
                if hit and now.get(f) != copies[f]:
                    ctx.violation("restore-not-byte-identical", {**case, "at": i}, {"file": "/".join(f), "backup": o["name"]})
                if not hit and now.get(f) != src.get(f):
                    ctx.violation("task-restore-touched-unselected-file", {**case, "at": i}, {"file": "/".join(f), "backup": o["name"]})
            ctx.count("bhist:restore-done")
        # ---- the oracle, from first principles: a name that exists is never overwritten
        for nm, was in known.items():
            cur = {k[4:]: v for k, v in now.items() if k[:4] == ("derivatives", "remodel", "backups", nm)}
            if cur != was:
                ctx.violation("existing-backup-overwritten", {**case, "at": i},
                              {"name": nm, "record_was_empty": was.get((LOCK,)) == b"{}", "op": o,
                               "changed": sorted("/".join(k) for k in set(cur) | set(was) if cur.get(k) != was.get(k))[:5]})
                known[nm] = cur
        if o["op"] == "create":
            if existed:
                ctx.count("bhist:create-existing-name" + ("-empty-record" if known[o["name"]].get((LOCK,)) == b"{}" else ""))
                if o["via"] == "api" and ret is not False:
                    ctx.violation("create-on-existing-name-did-not-return-False", {**case, "at": i}, {"returned": ret, "op": o})
            elif err is None:
                cur = {k[4:]: v for k, v in now.items() if k[:4] == ("derivatives", "remodel", "backups", o["name"])}
                known[o["name"]] = cur
                if o["via"] == "api" and ret is not True:
                    ctx.violation("create-backup-refused-on-fresh-name", {**case, "at": i}, {"returned": ret})
                for f in mo["files"]:
                    if cur.get(("backup_root",) + tuple(f)) != src.get(tuple(f)):
                        ctx.violation("backup-copy-differs-from-source", {**case, "at": i}, {"file": "/".join(f)})
        v = obs[-1]["view"]
        if v[0] != "ok" or sorted(n for n, _ in v[1]) != sorted(known):
            ctx.violation("existing-backup-not-listed", {**case, "at": i}, {"view": v, "known": sorted(known)})
    ctx.case(("bhist", json.dumps(spec, sort_keys=True)), nontrivial=any(c.startswith("bhist:create-existing") for c in ctx.hist))
    req = {"op": "c18.bhist", "dataRoot": comps(root), "backups": comps(backups), "name": "x", "stamp": STAMP,
           "tree": tree0, "ops": mops}
    shutil.rmtree(tmp, ignore_errors=True)
    return {"spec": spec, "req": req, "obs": obs, "root_c": comps(root)}


def bhist_compare(ctx, r, ans):
    case = dict(r["spec"])
    if "bad-op" in ans:
        ctx.disagree("bhist request", case, ans, None)
        return
    for i, (m, ob) in enumerate(zip(ans["trace"], r["obs"])):
        o = r["spec"]["ops"][i]
        mine = {"err": m["err"], "files": show(model_files(m["files"], r["root_c"])), "scan": scan_view(m["scan"])}
        real = {"err": ob["err"], "files": show(impl_files(ob["files"])), "scan": ob["view"]}
        if o["op"] == "create" and o["via"] == "api":
            mine["ret"], real["ret"] = m["ret"], ob["ret"]
        if mine != real:
            ctx.disagree("Backup.bstep/createCli/restoreCli session = real managers and CLI", {**case, "at": i},
                         {k: v for k, v in mine.items() if v != real.get(k)}, {k: v for k, v in real.items() if v != mine.get(k)})
            break


# ------------------------------------------------------------------------------------------ run

def key_cases(ctx, env, n, items=None):
    """path mapping, task filter and file selection in isolation (no file system needed beyond a root)"""
    from hed.tools.util import io_util
    from hed.tools.remodeling.cli import run_remodel
    root = os.path.join(env.tmp, "keys")
    os.makedirs(root, exist_ok=True)
    bm = env.BM(root)
    items = list(items or [])
    for _ in range(n):
        rel = [ctx.rng.choice(DIRS) for _ in range(ctx.rng.randint(0, 3))] + [ctx.rng.choice(BASES)]
        tasks = ctx.rng.choice([[], ["go"], ["stop"], ["go", "stop"], ["nosuch"], ["go_run-1"], [""], ["", "go"], ["x", "stop", ""], ["*"], ["*", "go"],
                                ["g\u00f6"]])
        items.append((rel, tasks))
    ans = mbatch(ctx, [{"op": "c18.key", "path": rel, "tasks": tasks, "stamp": STAMP} for rel, tasks in items])
    for (rel, tasks), a in zip(items, ans):
        full = os.path.join(root, *rel)
        impl = {"key": bm.get_file_key(full),
                "split": comps(bm.get_backup_path("n", full))[len(comps(bm.backups_path)) + 2:],
                "picked": (not tasks) or bool(bm.get_task(tasks, full)),
                "sel": "remodel" not in rel[:-1] and io_util.check_filename(rel[-1], None, "events", [".tsv"]),
                "bidsTask": io_util.get_task_from_file(full),
                "taskOk": any(full in v for v in run_remodel.parse_tasks([full], tasks).values()),
                "recordLen": len(json.dumps({bm.get_file_key(full): STAMP}, indent=4))}
        ctx.case(("key", tuple(rel), tuple(tasks)), nontrivial=len(rel) > 1)
        if a != impl:
            ctx.disagree("joinKey/splitKey/picked/selKey/record = get_file_key/get_backup_path/get_task/check_filename/json.dumps",
                         {"path": rel, "tasks": tasks}, a, impl)
    ctx.count("key-cases", n)


def gen_crash(rng, i):
    tree = gen_tree(rng, allow_odd=True)
    rels = [t[0] for t in tree]
    files = [r for r in rels if rng.random() < 0.7]
    r = rng.random()
    if r < 0.1:
        files = []
    elif r < 0.25 and files:
        files.append(rng.choice(files))                 # the same file twice
    rng.shuffle(files)
    name = rng.choice(["default_back", "b1", "my backup", "x}y", 'q"n'])
    pre = []
    if rng.random() < 0.35:
        pre.append({"name": rng.choice(["old", "default_back", "b1", name, name]),
                    "files": [] if rng.random() < 0.35 else ([r for r in rels if rng.random() < 0.6] or rels[:1])})
    return {"kind": "crash", "tree": tree, "files": files, "name": name, "pre": pre, "ext": rng.random() < 0.2}


CORPUS = [
    {"kind": "crash", "tree": [[["sub-01", "sub-01_task-go_events.tsv"], "onset\ttrial_type\n1\tgo\n"], [["README"], "x"]],
     "files": [["sub-01", "sub-01_task-go_events.tsv"], ["README"]], "name": "default_back", "pre": [], "ext": False},
    {"kind": "crash", "tree": [[["a"], ""]], "files": [["a"]], "name": "b", "pre": [], "ext": False},
    {"kind": "crash", "tree": [[["sub-A01", "x_events.tsv"], "UPPER\n"], [["sub-a01", "x_events.tsv"], "lower\n"]],
     "files": [["sub-A01", "x_events.tsv"], ["sub-a01", "x_events.tsv"]], "name": "b", "pre": [], "ext": False},
    {"kind": "crash", "tree": [[["a"], "12345"]], "files": [["a"]], "name": "b", "pre": [{"name": "b", "files": [["a"]]}], "ext": False},
    {"kind": "crash", "tree": [[["a"], "12345"]], "files": [], "name": "b", "pre": [], "ext": True},
    {"kind": "crash", "tree": [[["a"], "12345"], [["c_events.tsv"], "x\n1\n"]], "files": [["a"], ["c_events.tsv"]], "name": "b",
     "pre": [{"name": "b", "files": []}], "ext": False},
]


def run(ctx):
    ctx.extra["rule"] = ("crash: random data trees (odd names, empty/binary files, duplicates, empty lists, earlier backups, "
                         "external backups root) x every step index of create_backup; non-trivial = strictly inside the "
                         "step sequence. history: random trees, backup via main or manager, <= 8 operations; non-trivial = "
                         ">= 2 operations")
    n_crash = 32 if ctx.quick() else 400
    n_hist = 200 if ctx.quick() else 3000
    with Env() as env:
        key_cases(ctx, env, 300 if ctx.quick() else 3000)
        specs = CORPUS + [gen_crash(ctx.rng, i) for i in range(n_crash)]
        ctx.samples.extend({"crash": sp["files"], "name": sp["name"]} for sp in specs[4:7])
        crash_cases(ctx, env, specs)
        specs = [gen_bhist(ctx.rng, i) for i in range(80 if ctx.quick() else 1500)]
        ctx.samples.append({"bhist": [(o["op"], o.get("name"), o.get("via")) for o in specs[0]["ops"]]})
        bhist_cases(ctx, env, specs)
        specs = [gen_opcrash(ctx.rng, i) for i in range(12 if ctx.quick() else 150)]
        opcrash_cases(ctx, env, specs)
        specs = [gen_history(ctx.rng, i) for i in range(n_hist)]
        ctx.samples.extend({"history": [o["op"] for o in sp["ops"]]} for sp in specs[:3])
        history_cases(ctx, env, specs)
        # probe (observation only): a manager constructed BEFORE another manager made backup n does not see it
        proot = os.path.join(env.tmp, "probe")
        build(proot, [[["a_events.tsv"], "x\n1\n"]])
        stale = env.BM(proot)
        env.BM(proot).create_backup([os.path.join(proot, "a_events.tsv")], "n")
        open(os.path.join(proot, "a_events.tsv"), "w").write("CHANGED\n")
        before = snap(os.path.join(proot, "derivatives"))
        r = stale.create_backup([os.path.join(proot, "a_events.tsv")], "n")
        over = snap(os.path.join(proot, "derivatives")) != before
        ctx.count("probe:stale-manager-" + ("overwrites" if over else "refuses"))
        ctx.notes.append(f"observation: create_backup through a manager constructed before another manager created the same "
                         f"name returns {r} and {'OVERWRITES' if over else 'does not touch'} the existing backup (guard is the "
                         f"in-memory dictionary; outside the property's single-session quantifier; fixes/C18_create_checks_backup_dir_on_disk.diff)")
    ctx.notes.append("observation: run_remodel_backup on a name whose record is empty passes the CLI's own truthiness test and is "
                     "then refused silently by create_backup's guard (returns False, no error, no backup made)")
    ctx.notes.append("observation: a crash before the record is complete leaves a directory that makes every later "
                     "BackupManager(data_root) raise (BadBackupFormat / JSONDecodeError): 'does not list' holds, the "
                     "dataset needs manual cleanup")
    ctx.notes.append("observation: get_task looks for 'task_<name>' while BIDS names use 'task-<name>'; with "
                     "run_remodel -t the restore picks 'task_<t>' names but the rewrite picks 'task-<t>' names, so a "
                     "deleted 'task-<t>' file is neither restored nor rewritten by that run (it is rewritten from "
                     "its backup copy whenever it exists)")


def replay(ctx, rec):
    case = rec.get("case") or (rec.get("disagreements") or [{}])[0].get("case")
    if not case:
        print("nothing to replay (obligation-only record):", rec.get("broken_obligations"))
        return
    spec = {k: v for k, v in case.items() if k not in ("k", "at")}
    with Env() as env:
        if "kind" not in spec:
            key_cases(ctx, env, 0, [(spec["path"], spec["tasks"])])
        elif spec["kind"] == "bhist":
            bhist_cases(ctx, env, [spec])
        elif spec["kind"] == "opcrash":
            opcrash_cases(ctx, env, [spec], only_k=case.get("k"))
        elif spec["kind"] == "crash":
            crash_cases(ctx, env, [spec], only_k=case.get("k"))
        else:
            history_cases(ctx, env, [spec])
    print("replayed", json.dumps(case)[:400])
    print("violations:", json.dumps(ctx.violations, default=str)[:600], "disagreements:", len(ctx.disagreements))
